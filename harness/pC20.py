"""C20 — the backend and the encoding actually used are the ones configured."""
import itertools
import json
import os
import shutil
import subprocess
import sys
import tempfile
import types

import vlib
import c20_translate

PROPS = "Props/C20.v"
RULE = ("translator (T): the name chain of solver._get_backend_by_name, the detection order, the default-on tuples, the "
        "boolean spellings and variable names of configuration.py, the entry point of every backend class and every "
        "use_graph_primitive decision site / forwarding call / native-operator emission point of graph.py are re-read "
        "from /repo with ast (fail-closed) into Gen/ConfigTables.v, and Props/C20.v is re-proved against them. "
        "correspondence (C/P): Config(infer_from_env=..) under the product of values of the four CSPUZ_* variables x all 16 "
        "availability patterns of cspuz_core/enigma_csp/pycsugar/z3 (sys.modules fakes), `import cspuz` in fresh "
        "subprocesses, _strtobool on spellings, _get_backend_by_name on names, Solver.find_answer/solve with recording "
        "entry points (fake solver modules, patched run_subprocess, recording importlib in backend.z3) for every "
        "(backend argument, config.default_backend, backend_path), and program capture of every graph helper for every "
        "(explicit argument, config flags, acyclic, graph given/inferred) -- each compared with the extracted Coq model. "
        "search: the same observations against an independent Python restatement of the property. A case is "
        "non-trivial when it is a distinct (kind, input) tuple.  Hardened classes: every availability pattern x every way an unavailable "
        "module can fail to import (None in sys.modules, a meta-path finder raising ImportError / a subclass of it / ModuleNotFoundError "
        "naming a missing dependency / ModuleNotFoundError naming the module; fresh interpreters with module files failing the same ways) x "
        "Config(infer) / Config(infer_from_env=infer) / Config(); histories on ONE Solver: 2-3 find_answer/solve calls with "
        "config.default_backend / backend_path / the backend argument (None, name, user class, real backend class) / the call form "
        "(keyword, positional, omitted) changed in between, and 2-3 graph helper calls with the configuration flags and the explicit "
        "argument changed in between (native operators counted among the constraints each call added) -- call i must equal the stateless "
        "model / the specification on call i's own inputs.")
TRUSTED = [
    "harness/c20_translate.py (Python ast, fail-closed) and the instrumentation in harness/pC20.py (fake modules in sys.modules, patched run_subprocess / importlib proxy, scan of Solver.constraints for Op.GRAPH_*)",
    "extraction additionally uses the standard ExtrOcamlString (ascii -> char, string -> char list)",
    "str.lower() is modelled on UTF-8 bytes changing only A-Z; the fact that no non-ASCII code point lower-cases to text containing an ASCII letter of 'true'/'false'/'0'/'1' is re-validated against CPython on every run",
    "the graph.py part of the model is an abstract interpreter of the decision structure extracted by the translator (sites, guards, forwarding calls, emission points); data-dependent validation errors and loop counts are outside it (helpers are exercised on inputs where loops run at least once)",
]
ASSUMPTIONS = [
    "backend argument is None, a str, or a class (the annotated domain); config.use_graph_* hold bools; explicit use_graph_primitive is None/True/False",
    "importing a backend module either succeeds or raises ImportError or a subclass of it (what _detect_backend catches); other exception types are outside the model",
    "environment values are strings without NUL (POSIX)",
]

ERR = {1: "IndexError", 2: "KeyError", 3: "AssertionError", 4: "TypeError", 5: "ValueError",
       6: "RecursionError", 7: "NotImplementedError", 8: "Other"}

ENV_B, ENV_P, ENV_G, ENV_D = ("CSPUZ_DEFAULT_BACKEND", "CSPUZ_BACKEND_PATH", "CSPUZ_USE_GRAPH_PRIMITIVE",
                              "CSPUZ_USE_GRAPH_DIVISION_PRIMITIVE")
ENVS = (ENV_B, ENV_P, ENV_G, ENV_D)
MODS = ("cspuz_core", "enigma_csp", "pycsugar", "z3")
NAMES = ("sugar", "sugar_extended", "z3", "csugar", "enigma_csp", "cspuz_core")


# ------------------------------------------------------------------ translator

FALLBACK = """(* FALLBACK written by harness/pC20.py: the translator could NOT read /repo's source
   (%s).
   The check reports that as a tie that no longer holds; so that the rest of the run is deterministic
   (and not a leftover of an earlier run) the tables are set to the prescribed ones: the correspondence
   then compares the implementation with the prescribed behaviour. *)
From Cspuz Require Import Backend.Config Backend.ConfigProofs.
Definition tables : Config.tables := expected_tables.
"""


def translate(ctx):
    path = os.path.join(vlib.GEN, "ConfigTables.v")
    try:
        text = c20_translate.render(c20_translate.read_all(vlib.REPO))
    except Exception as ex:
        msg = ("%s: %s" % (type(ex).__name__, ex)).replace("*)", "* )").replace("(*", "( *")
        vlib.write_if_changed(path, FALLBACK % msg)
        raise
    vlib.write_if_changed(path, text)


# ------------------------------------------------------------------ wire helpers

def hx(s):
    """optional str -> wire token ("-" absent, "." empty, else hex of the bytes the OS sees)"""
    if s is None:
        return "-"
    b = os.fsencode(s) if isinstance(s, str) else s
    return b.hex() if b else "."


def norm_err(r):
    if r[0] == "err" and r[1].startswith("Other:"):
        return ("err", "Other")
    return r


def parse_cfg(r):
    t = r.split()
    if t[0] == "E":
        return ("err", ERR[int(t[1])])
    if t[0] == "OK":
        return ("ok", (t[1], t[2], t[3] == "1", t[4] == "1"))
    raise RuntimeError("bad model reply " + r)


def parse_simple(r):
    t = r.split()
    if t[0] == "E":
        return ("err", ERR[int(t[1])])
    if t[0] == "OK":
        return ("ok", tuple(t[1:]))
    if t[0] == "NONE":
        return ("ok", None)
    raise RuntimeError("bad model reply " + r)


# ------------------------------------------------------------------ environment / module patching

class Patched(object):
    """set the four CSPUZ_* variables and the availability of the four backend modules; restore on exit"""

    def __init__(self):
        self.saved_env = {k: os.environ.get(k) for k in ENVS}
        self.saved_mod = {m: sys.modules.get(m, self) for m in MODS}
        self.fakes = {m: types.ModuleType(m) for m in MODS}

    def set_env(self, vals):
        for k, v in zip(ENVS, vals):
            if v is None:
                os.environ.pop(k, None)
            else:
                os.environ[k] = v

    def set_avail(self, pattern):
        self._finder_off()
        for m, a in zip(MODS, pattern):
            sys.modules[m] = self.fakes[m] if a else None

    def set_avail_kinds(self, pattern, kinds):
        """like set_avail, but an unavailable module fails to import in the given way (IMPORT_KINDS)"""
        self._finder_off()
        fail = {}
        for m, a, k in zip(MODS, pattern, kinds):
            if a:
                sys.modules[m] = self.fakes[m]
            elif k == "none":
                sys.modules[m] = None                  # ModuleNotFoundError("import of m halted; None in sys.modules")
            else:
                sys.modules.pop(m, None)
                fail[m] = k
        if fail:
            self.finder = _FailingFinder(fail)
            sys.meta_path.insert(0, self.finder)

    def _finder_off(self):
        f = getattr(self, "finder", None)
        if f is not None:
            while f in sys.meta_path:
                sys.meta_path.remove(f)
            self.finder = None

    def restore(self):
        self._finder_off()
        for k, v in self.saved_env.items():
            if v is None:
                os.environ.pop(k, None)
            else:
                os.environ[k] = v
        for m, v in self.saved_mod.items():
            if v is self:
                sys.modules.pop(m, None)
            else:
                sys.modules[m] = v

    def __enter__(self):
        return self

    def __exit__(self, *a):
        self.restore()


class BrokenExtension(ImportError):
    """what a loader may raise for a shared object built for another interpreter"""


IMPORT_KINDS = ("none", "import-error", "subclass", "dep-missing", "not-found-named")


def import_failure(mod, kind):
    if kind == "import-error":
        return ImportError("lib%s.so: cannot open shared object file: No such file or directory" % mod)
    if kind == "subclass":
        return BrokenExtension("DLL load failed while importing %s" % mod, name=mod, path="/site-packages/%s.so" % mod)
    if kind == "dep-missing":
        return ModuleNotFoundError("No module named 'numpy'", name="numpy")      # the backend is there, a dependency is not
    if kind == "not-found-named":
        return ModuleNotFoundError("No module named %r" % mod, name=mod)
    raise AssertionError(kind)


class _FailingFinder(object):
    """first entry of sys.meta_path: importing one of the named modules fails in the requested way"""

    def __init__(self, fail):
        self.fail = dict(fail)

    def find_spec(self, name, path=None, target=None):
        if name in self.fail:
            raise import_failure(name, self.fail[name])
        return None


def avail_tok(pattern):
    return "".join("1" if a else "0" for a in pattern)


B_VALUES = [None, "auto", "sugar", "sugar_extended", "z3", "csugar", "enigma_csp", "cspuz_core",
            "junk", "True", "0", "yes", "", "AUTO", "auto ", "Z3", " sugar", "sugar_ext", "pycsugar", "cspuz-core"]
F_CORE = [None, "auto", "sugar", "junk", "True", "0", "yes", "", "true", "FALSE", "1", "false", "tRuE"]
F_MORE = ["TRUE", "False", "fAlSe", "no", "on", "off", "2", "00", "01", "-1", " true", "true ", "1 ", "t", "f",
          "y", "n", "True\n", "ｔｒｕｅ", "TRUİ", "truE", "0.0", "None", "K", "1\t"]
P_VALUES = [None, "", "/opt/sugar/bin/sugar", "csugar", "sugar ext.sh"]


def config_cases(ctx):
    """(infer, (b, p, g, d), avail)"""
    pats = list(itertools.product((False, True), repeat=4))
    F_ALL = F_CORE + F_MORE
    seen = set()

    def emit(c):
        if c not in seen:
            seen.add(c)
            return True
        return False

    if ctx.thorough:
        for b in B_VALUES:
            for g in F_ALL:
                for d in F_ALL:
                    for a in pats:
                        c = (True, (b, None, g, d), a)
                        if emit(c):
                            yield c
    else:
        for b in B_VALUES:
            for g in F_ALL:
                for d in F_ALL:
                    if g in F_CORE or d in F_CORE:
                        for a in pats:
                            c = (True, (b, None, g, d), a)
                            if emit(c):
                                yield c
                    else:
                        for a in ((False,) * 4, (True,) * 4, (False, False, True, True)):
                            c = (True, (b, None, g, d), a)
                            if emit(c):
                                yield c
    for p in P_VALUES:
        for b in B_VALUES:
            for g in (None, "True", "x"):
                for a in (pats if b in (None, "auto") else [(False, False, False, True)]):
                    c = (True, (b, p, g, None), a)
                    if emit(c):
                        yield c
    # infer_from_env=False ignores the environment
    for b in (None, "auto", "sugar", "csugar", "junk"):
        for g in (None, "True", "0", "junk"):
            for d in (None, "1", "junk"):
                for p in (None, "/x"):
                    for a in pats:
                        c = (False, (b, p, g, d), a)
                        if emit(c):
                            yield c
    # random spellings through the environment
    rng = ctx.rng
    for _ in range(3000 if ctx.thorough else 600):
        c = (True, (rng.choice(B_VALUES), rng.choice(P_VALUES), rand_spelling(rng), rand_spelling(rng)),
             tuple(rng.random() < 0.5 for _ in range(4)))
        if emit(c):
            yield c


def rand_spelling(rng):
    r = rng.random()
    if r < 0.1:
        return None
    base = rng.choice(["true", "false", "1", "0", "yes", "no", "tru", "fals", "truee", "on", ""])
    s = "".join(ch.upper() if rng.random() < 0.5 else ch for ch in base)
    r = rng.random()
    if r < 0.15:
        s = s + rng.choice([" ", "\t", "\n", "x", "0", "İ"])
    elif r < 0.3:
        s = rng.choice([" ", "+", "-", "K"]) + s
    elif r < 0.35 and s:
        i = rng.randrange(len(s))
        s = s[:i] + s[i + 1:]
    return s


def impl_config(infer, form=0):
    from cspuz.configuration import Config

    def f():
        if form == 1:
            c = Config(infer)
        elif form == 2 and infer:
            c = Config()
        else:
            c = Config(infer_from_env=infer)
        assert type(c.use_graph_primitive) is bool and type(c.use_graph_division_primitive) is bool
        assert isinstance(c.default_backend, str) and c.solver_timeout is None
        return (hx(c.default_backend), hx(c.backend_path), c.use_graph_primitive, c.use_graph_division_primitive)
    return vlib.guarded(f)


def observe_config(ctx):
    out = []
    with Patched() as P:
        for (infer, env, avail) in config_cases(ctx):
            P.set_env(env)
            P.set_avail(avail)
            out.append(((infer, env, avail), norm_err(impl_config(infer))))
    return out


def config_kind_cases(ctx):
    """(infer, env, avail, kinds): every availability pattern x every way an unavailable module can fail to import"""
    pats = list(itertools.product((False, True), repeat=4))
    rng = ctx.rng
    for a in pats:
        slots = [IMPORT_KINDS if not x else ("-",) for x in a]
        for kinds in itertools.product(*slots):
            for (infer, b) in ((True, None), (True, "auto"), (False, "junk")):
                yield (infer, (b, None, None, None), a, kinds)
            # flags / named backends: the detection must not even be consulted for a named backend
            yield (True, (rng.choice(B_VALUES), rng.choice(P_VALUES), rng.choice(F_CORE), rng.choice(F_CORE)), a, kinds)


def observe_config_kinds(ctx):
    out = []
    with Patched() as P:
        for (infer, env, avail, kinds) in config_kind_cases(ctx):
            P.set_env(env)
            P.set_avail_kinds(avail, kinds)
            form = len(out) % 3          # class 6: Config(infer) / Config(infer_from_env=infer) / Config() when infer is the default
            out.append(((infer, env, avail, kinds), norm_err(impl_config(infer, form))))
            for m in MODS:               # a failed import must not leave anything behind that changes the next case
                if sys.modules.get(m, P) is not P and sys.modules.get(m) is not None and sys.modules[m] is not P.fakes[m]:
                    sys.modules.pop(m, None)
    return out


# -- `import cspuz` in a fresh interpreter: the module-level config is built from the environment at import time

SUB_SCRIPT = ("import json,sys\n"
              "try:\n"
              "    import cspuz\n"
              "    c = cspuz.config\n"
              "    import cspuz.solver, cspuz.graph, cspuz.backend.sugar_like as sl\n"
              "    same = c is cspuz.solver.config is cspuz.graph.config is sl.config\n"
              "    print(json.dumps(['ok', c.default_backend, c.backend_path, c.use_graph_primitive, c.use_graph_division_primitive, same]))\n"
              "except Exception as ex:\n"
              "    print(json.dumps(['err', type(ex).__name__]))\n")


def subprocess_cases(ctx):
    cases = [
        ((None, None, None, None), (0, 0, 0, 1)), ((None, None, None, None), (0, 0, 0, 0)),
        ((None, None, None, None), (0, 0, 1, 1)), ((None, None, None, None), (0, 1, 1, 1)),
        ((None, None, None, None), (1, 1, 1, 1)), (("auto", None, None, None), (0, 1, 0, 0)),
        (("csugar", "/x/csugar", None, None), (0, 0, 0, 1)), (("cspuz_core", None, "false", None), (0, 0, 0, 0)),
        (("z3", None, "TRUE", "1"), (1, 1, 1, 1)), (("sugar", "", "yes", None), (0, 0, 0, 1)),
        (("junk", None, None, "0"), (0, 0, 0, 1)), ((None, None, None, ""), (1, 0, 0, 0)),
    ]
    if ctx.thorough:
        rng = ctx.rng
        for _ in range(60):
            cases.append(((rng.choice(B_VALUES), rng.choice(P_VALUES), rng.choice(F_CORE), rng.choice(F_CORE)),
                          tuple(rng.randrange(2) for _ in range(4))))
    return cases


SUB_BODIES = {
    "import-error": "raise ImportError('hidden by the C20 harness')\n",
    "subclass": "class BrokenExtension(ImportError):\n    pass\nraise BrokenExtension('DLL load failed', name=__name__, path=__file__)\n",
    "dep-missing": "import c20_no_such_dependency_module\n",
    "not-found-named": "raise ModuleNotFoundError('No module named %r' % __name__, name=__name__)\n",
}


def subprocess_kind_cases(ctx):
    """(env, avail, kind): the unavailable modules are present on the path but fail to import in the given way"""
    out = []
    for kind in ("subclass", "dep-missing", "not-found-named"):
        out.append(((None, None, None, None), (0, 0, 0, 1), kind))
        out.append((("auto", None, None, None), (0, 1, 0, 0), kind))
        if ctx.thorough:
            out.append(((None, None, None, None), (0, 0, 0, 0), kind))
            out.append(((None, None, "false", None), (0, 0, 1, 1), kind))
    return out


def observe_subprocess(ctx):
    out = []
    base = tempfile.mkdtemp(prefix="c20_mods_")
    try:
        allcases = [(env, avail, "import-error") for (env, avail) in subprocess_cases(ctx)] + subprocess_kind_cases(ctx)
        for (env, avail, kind) in allcases:
            d = os.path.join(base, "".join(str(int(a)) for a in avail) + "-" + kind)
            if not os.path.isdir(d):
                os.makedirs(d)
                for m, a in zip(MODS, avail):
                    with open(os.path.join(d, m + ".py"), "w") as f:
                        f.write("def solver(x):\n    return ''\n" if a else SUB_BODIES[kind])
            e = {k: v for k, v in os.environ.items() if not k.startswith("CSPUZ_")}
            e["PYTHONPATH"] = d + os.pathsep + vlib.REPO
            e["PYTHONDONTWRITEBYTECODE"] = "1"
            for k, v in zip(ENVS, env):
                if v is not None:
                    e[k] = v
            p = subprocess.run([sys.executable, "-c", SUB_SCRIPT], env=e, stdout=subprocess.PIPE, stderr=subprocess.PIPE,
                               text=True, timeout=120)
            try:
                r = json.loads(p.stdout.strip().split("\n")[-1])
            except Exception:
                r = ["err", "Other"]
            if r[0] == "ok":
                assert r[5] is True, "config objects differ between modules"
                io = ("ok", (hx(r[1]), hx(r[2]), r[3], r[4]))
            else:
                io = norm_err(("err", r[1] if r[1] in ERR.values() else "Other"))
            key = (True, env, tuple(bool(a) for a in avail))
            out.append((key if kind == "import-error" else key + (kind,), io))
    finally:
        shutil.rmtree(base, ignore_errors=True)
    return out


# ------------------------------------------------------------------ _strtobool, _get_backend_by_name

def spelling_cases(ctx):
    out = [s for s in F_CORE + F_MORE + B_VALUES if s is not None]
    for w in ("true", "false"):
        for mask in range(1 << len(w)):
            out.append("".join(c.upper() if (mask >> i) & 1 else c for i, c in enumerate(w)))
    rng = ctx.rng
    for _ in range(4000 if ctx.thorough else 1000):
        s = rand_spelling(rng)
        if s is not None:
            out.append(s)
    for c in range(0, 256):
        out.append(chr(c))
        out.append("tru" + chr(c))
    return list(dict.fromkeys(out))


def observe_spellings(ctx):
    from cspuz.configuration import _strtobool
    res = []
    for s in spelling_cases(ctx):
        def f():
            r = _strtobool(s)
            assert type(r) is bool
            return ("1" if r else "0",)
        res.append((s, norm_err(vlib.guarded(f))))
    return res


def name_cases(ctx):
    out = list(NAMES) + ["", "auto", "junk", "Sugar", "SUGAR", "z3 ", " z3", "Z3", "sugar_ext", "sugarextended",
                         "csugar2", "enigma", "cspuz", "cspuz_core\n", "pycsugar", "sugar_like.SugarBackend", "None",
                         "ſ ugar", "cspuz–core"]
    rng = ctx.rng
    for _ in range(300):
        n = rng.choice(NAMES)
        k = rng.randrange(4)
        if k == 0 and n:
            i = rng.randrange(len(n))
            n = n[:i] + n[i + 1:]
        elif k == 1:
            i = rng.randrange(len(n) + 1)
            n = n[:i] + rng.choice("_ xX3") + n[i:]
        elif k == 2:
            n = "".join(c.upper() if rng.random() < 0.3 else c for c in n)
        out.append(n)
    return list(dict.fromkeys(out))


def cls_name(c):
    return "%s.%s" % (c.__module__.split(".")[-1], c.__name__)


def observe_names(ctx):
    import cspuz.solver as S
    res = []
    for n in name_cases(ctx):
        res.append((n, norm_err(vlib.guarded(lambda: (cls_name(S._get_backend_by_name(n)),)))))
    return res


# ------------------------------------------------------------------ which class / entry point receives the solve

class _ImportlibProxy(object):
    def __init__(self, log):
        self.log = log

    def import_module(self, name, package=None):
        import importlib
        self.log.append("module:" + name)
        return importlib.import_module(name, package)


def receiver_cases(ctx):
    args = [("N", None)] + [("S", n) for n in NAMES] + [("S", "junk"), ("S", ""), ("S", "auto"), ("S", "Z3"), ("C", "Mine")]
    dbs = list(NAMES) + ["junk", "auto", ""]
    paths = [None, "", "/opt/x/sugar"]
    for (k, v) in args:
        for db in dbs:
            for bp in paths:
                for method in ("find_answer", "solve"):
                    yield (k, v, db, bp, method)


def observe_receivers(ctx):
    import cspuz
    import cspuz.backend.sugar_like as SL
    import cspuz.backend.z3 as ZB
    import z3 as real_z3  # noqa: F401  (make sure the genuine module is loaded before it is looked up again)
    cfg = cspuz.config
    saved_cfg = dict(cfg.__dict__)
    saved = {"run": SL.run_subprocess, "z3": ZB.z3, "importlib": ZB.importlib,
             "sl_init": SL.SugarLikeBackend.__init__, "z_init": ZB.Z3Backend.__init__}
    saved_mods = {m: sys.modules.get(m, saved) for m in ("pycsugar", "enigma_csp", "cspuz_core")}
    log = []
    state = {"calls": 0}

    def reply(desc):
        state["calls"] += 1
        if desc.rstrip().split("\n")[-1].startswith("#"):
            return "sat\nb0 true\n"
        return "s SATISFIABLE\na b0\ttrue\n\n" if state["calls"] == 1 else "s UNSATISFIABLE\n"

    def fake_run(argv, desc, timeout=None):
        log.append("subprocess:" + hx(argv[0]))
        return reply(desc)

    def mk_fake(name):
        m = types.ModuleType(name)

        def solver(desc):
            log.append("module:" + name)
            return reply(desc)
        m.solver = solver
        return m

    def sl_init(self, variables):
        log.append("class:" + cls_name(type(self)))
        return saved["sl_init"](self, variables)

    def z_init(self, variables):
        log.append("class:" + cls_name(type(self)))
        return saved["z_init"](self, variables)

    class Mine(object):
        def __init__(self, variables):
            log.append("class:user:Mine")
            self.variables = variables

        def add_constraint(self, c):
            pass

        def solve(self):
            log.append("user:Mine")
            for v in self.variables:
                v.sol = True
            return True

        def solve_irrefutably(self, keys):
            log.append("user:Mine")
            for v in self.variables:
                v.sol = True
            return True

    out = []
    out_hist = []
    try:
        SL.run_subprocess = fake_run
        SL.SugarLikeBackend.__init__ = sl_init
        ZB.Z3Backend.__init__ = z_init
        ZB.importlib = _ImportlibProxy(log)
        for m in ("pycsugar", "enigma_csp", "cspuz_core"):
            sys.modules[m] = mk_fake(m)
        def new_solver():
            s = cspuz.Solver()
            x = s.bool_var()
            s.ensure(x)
            s.add_answer_key(x)
            return s

        def run_call(s, k, v, db, bp, method, form="kw"):
            del log[:]
            state["calls"] = 0
            ZB.z3 = None
            cfg.default_backend = db
            cfg.backend_path = bp
            if k == "N":
                arg = None
            elif k == "S":
                arg = v
            elif k == "T":
                arg = TYPE_OF[v]()
            else:
                arg = Mine

            def f():
                if form == "pos":
                    r = getattr(s, method)(arg)
                elif form == "omit":
                    assert arg is None
                    r = getattr(s, method)()
                else:
                    r = getattr(s, method)(backend=arg)
                assert r is True
                classes = sorted(set(e for e in log if e.startswith("class:")))
                entries = sorted(set(e for e in log if not e.startswith("class:")))
                assert len(classes) == 1 and len(entries) == 1, "solve reached %r" % (log,)
                c = classes[0][len("class:"):]
                return (("named:" + c) if not c.startswith("user:") else c, entries[0])
            return norm_err(vlib.guarded(f))

        TYPE_OF = {"sugar": lambda: SL.SugarBackend, "sugar_extended": lambda: SL.SugarExtendedBackend, "z3": lambda: ZB.Z3Backend,
                   "csugar": lambda: SL.CSugarBackend, "enigma_csp": lambda: SL.EnigmaCSPBackend,
                   "cspuz_core": lambda: SL.CspuzCoreBackend}

        for (k, v, db, bp, method) in receiver_cases(ctx):
            out.append(((k, v, db, bp, method), run_call(new_solver(), k, v, db, bp, method)))
        # class 3 / 6: several solves on the SAME Solver, the configuration (and the argument, and the call form) changing in between
        for seq in receiver_history_cases(ctx):
            s = new_solver()
            out_hist.append((seq, tuple(run_call(s, *c) for c in seq)))
    finally:
        SL.run_subprocess = saved["run"]
        SL.SugarLikeBackend.__init__ = saved["sl_init"]
        ZB.Z3Backend.__init__ = saved["z_init"]
        ZB.importlib = saved["importlib"]
        ZB.z3 = saved["z3"]
        for m, v in saved_mods.items():
            if v is saved:
                sys.modules.pop(m, None)
            else:
                sys.modules[m] = v
        cfg.__dict__.clear()
        cfg.__dict__.update(saved_cfg)
    ctx._c20_receiver_history = out_hist
    return out


def receiver_history_cases(ctx):
    """sequences of (k, v, db, bp, method, form) run on one Solver"""
    rng = ctx.rng
    singles = []
    for (k, v) in [("N", None), ("S", "sugar"), ("S", "z3"), ("S", "csugar"), ("S", "cspuz_core"), ("S", "junk"), ("C", "Mine"),
                   ("T", "sugar_extended"), ("T", "enigma_csp"), ("T", "z3")]:
        for db in ("sugar", "sugar_extended", "z3", "csugar", "enigma_csp", "cspuz_core", "junk"):
            if k != "N" and db not in ("sugar", "cspuz_core", "junk"):
                continue
            for bp in (None, "/opt/x/sugar"):
                singles.append((k, v, db, bp))
    seqs = []
    # every ordered pair of default-backend settings with no argument: the second solve must follow the second setting
    dflt = [c for c in singles if c[0] == "N"]
    for a in dflt:
        for b in dflt:
            if a != b:
                seqs.append((a + ("find_answer" if len(seqs) % 2 else "solve", "omit" if len(seqs) % 3 == 0 else "kw"),
                             b + ("solve" if len(seqs) % 4 < 2 else "find_answer", rng.choice(["kw", "pos", "omit"]))))
    for _ in range(1500 if ctx.thorough else 350):
        n = rng.choice([2, 2, 3])
        seq = []
        for _ in range(n):
            c = rng.choice(singles)
            form = rng.choice(["kw", "pos"] + (["omit"] if c[0] == "N" else []))
            seq.append(c + (rng.choice(["find_answer", "solve"]), form))
        seqs.append(tuple(seq))
    return seqs


# ------------------------------------------------------------------ graph helpers: is the native operator posted?

def _graphs():
    from cspuz.graph import Graph
    tri = Graph(3)
    tri.add_edge(0, 1)
    tri.add_edge(1, 2)
    tri.add_edge(0, 2)
    path = Graph(3)
    path.add_edge(0, 1)
    path.add_edge(1, 2)
    return tri, path


def helper_table():
    """name -> (has_arg, has_acyclic, {(graph given, data-dependent condition holds): builder(solver, arg, acyclic)})"""
    import cspuz.graph as G
    from cspuz.grid_frame import BoolGridFrame, BoolInnerGridFrame
    tri, path = _graphs()

    def kw(arg, name="use_graph_primitive"):
        return {} if arg == "omit" else {name: arg}

    H = {}
    H["active_vertices_connected"] = (True, True, {
        (True, False): lambda s, a, ac: G.active_vertices_connected(s, s.bool_array(3), path, acyclic=ac, **kw(a)),
        (False, False): lambda s, a, ac: G.active_vertices_connected(s, s.bool_array((2, 2)), acyclic=ac, **kw(a))})
    H["_active_vertices_connected"] = (True, True, {
        (True, False): lambda s, a, ac: G._active_vertices_connected(s, s.bool_array(3).data, tri, ac, **kw(a))})
    H["active_edges_single_cycle"] = (True, False, {
        (True, False): lambda s, a, ac: G.active_edges_single_cycle(s, s.bool_array(3), tri, **kw(a)),
        (False, False): lambda s, a, ac: G.active_edges_single_cycle(s, BoolGridFrame(s, 1, 2), **kw(a))})
    H["_active_edges_single_cycle"] = (True, False, {
        (True, False): lambda s, a, ac: G._active_edges_single_cycle(s, s.bool_array(3).data, tri, **kw(a))})
    H["active_edges_single_path"] = (True, False, {
        (True, False): lambda s, a, ac: G.active_edges_single_path(s, s.bool_array(2), path, **kw(a)),
        (False, False): lambda s, a, ac: G.active_edges_single_path(s, BoolGridFrame(s, 1, 1), **kw(a))})
    H["_active_edges_single_path"] = (True, False, {
        (True, False): lambda s, a, ac: G._active_edges_single_path(s, s.bool_array(2).data, path, **kw(a))})
    H["active_edges_connected_crossable"] = (True, False, {
        (False, False): lambda s, a, ac: G.active_edges_connected_crossable(s, BoolGridFrame(s, 2, 2), **kw(a)),
        (True, False): lambda s, a, ac: G.active_edges_connected_crossable(s, BoolGridFrame(s, 1, 2), single_cycle=True, **kw(a))})
    H["active_edges_single_cycle_crossable"] = (True, False, {
        (False, False): lambda s, a, ac: G.active_edges_single_cycle_crossable(s, BoolGridFrame(s, 2, 1), **kw(a)),
        (True, False): lambda s, a, ac: G.active_edges_single_cycle_crossable(s, BoolGridFrame(s, 1, 1), **kw(a))})
    H["division_connected_variable_groups_with_borders"] = (True, False, {
        (True, False): lambda s, a, ac: G.division_connected_variable_groups_with_borders(
            s, group_size=[None, 2, s.int_var(1, 3)], is_border=s.bool_array(3), graph=tri, **kw(a)),
        (False, False): lambda s, a, ac: G.division_connected_variable_groups_with_borders(
            s, group_size=s.int_array((2, 2), 1, 4), is_border=BoolInnerGridFrame(s, 2, 2), **kw(a))})
    H["_division_connected_variable_groups_with_borders"] = (True, False, {
        (True, False): lambda s, a, ac: G._division_connected_variable_groups_with_borders(
            s, path, [None, None, 1], s.bool_array(2), None if a == "omit" else a)})
    H["_division_connected"] = (True, False, {
        (True, False): lambda s, a, ac: G._division_connected(s, s.int_array(3, 0, 1), 2, tri, **kw(a))})
    H["division_connected"] = (False, False, {
        (True, False): lambda s, a, ac: G.division_connected(s, s.int_array(3, 0, 1), 2, path, roots=[0, None]),
        (False, False): lambda s, a, ac: G.division_connected(s, s.int_array((2, 2), 0, 1), 2, allow_empty_group=True)})
    H["active_vertices_not_adjacent_and_not_segmenting"] = (False, False, {
        (True, False): lambda s, a, ac: G.active_vertices_not_adjacent_and_not_segmenting(s, s.bool_array(3), path),
        (False, False): lambda s, a, ac: G.active_vertices_not_adjacent_and_not_segmenting(s, s.bool_array((2, 3))),
        (False, True): lambda s, a, ac: G.active_vertices_not_adjacent_and_not_segmenting(s, s.bool_array((1, 3)))})
    H["active_vertices_not_adjacent_and_not_segmenting/column"] = (False, False, {
        (False, True): lambda s, a, ac: G.active_vertices_not_adjacent_and_not_segmenting(s, s.bool_array((3, 1)))})
    H["division_connected_variable_groups"] = (False, False, {
        (True, False): lambda s, a, ac: G.division_connected_variable_groups(s, graph=tri, group_size=2),
        (False, False): lambda s, a, ac: G.division_connected_variable_groups(s, shape=(2, 2))})
    H["active_edges_acyclic"] = (False, False, {
        (True, False): lambda s, a, ac: G.active_edges_acyclic(s, s.bool_array(3), tri)})
    H["active_vertices_not_adjacent"] = (False, False, {
        (True, False): lambda s, a, ac: G.active_vertices_not_adjacent(s, s.bool_array(3), tri),
        (False, False): lambda s, a, ac: G.active_vertices_not_adjacent(s, s.bool_array((2, 2)))})
    return H


def native_ops_in(constraints):
    from cspuz.expr import Expr, Op
    found = set()
    stack = list(constraints)
    while stack:
        e = stack.pop()
        if isinstance(e, Expr):
            if e.op == Op.GRAPH_ACTIVE_VERTICES_CONNECTED:
                found.add("avc")
            elif e.op == Op.GRAPH_DIVISION:
                found.add("div")
            stack.extend(e.operands)
        elif isinstance(e, (list, tuple)):
            stack.extend(e)
    return found


def prim_cases(ctx):
    H = helper_table()
    for name in H:
        has_arg, has_acy, builders = H[name]
        for (explicit, dd) in sorted(builders):
            for p in (False, True):
                for d in (False, True):
                    for arg in ((None, True, False, "omit") if has_arg else ("omit",)):
                        for ac in ((False, True) if has_acy else (False,)):
                            yield (name, p, d, arg, ac, explicit, dd)


def observe_prims(ctx):
    import cspuz
    import cspuz.backend.sugar_like as SL
    H = helper_table()
    cfg = cspuz.config
    saved_cfg = dict(cfg.__dict__)
    saved_mod = sys.modules.get("cspuz_core", H)
    texts = []
    fake = types.ModuleType("cspuz_core")

    def solver(desc):
        texts.append(desc)
        return "s UNSATISFIABLE\n"
    fake.solver = solver
    out = []
    try:
        sys.modules["cspuz_core"] = fake
        for (name, p, d, arg, ac, explicit, dd) in prim_cases(ctx):
            # the flags are assigned immediately before the call; the opposite values are in place while the
            # solver and its variables are created (the configuration must be read at call time)
            cfg.use_graph_primitive = not p
            cfg.use_graph_division_primitive = not d
            s = cspuz.Solver()
            build = H[name][2][(explicit, dd)]

            def f():
                cfg.use_graph_primitive = p
                cfg.use_graph_division_primitive = d
                build(s, arg, ac)
                cfg.use_graph_primitive = not p
                cfg.use_graph_division_primitive = not d
                ops = native_ops_in(s.constraints)
                # end to end: what a sugar-like backend would be handed
                del texts[:]
                s.find_answer(backend="cspuz_core")
                txt = "\n".join(texts)
                t_ops = set()
                if "(graph-active-vertices-connected " in txt:
                    t_ops.add("avc")
                if "(graph-division " in txt:
                    t_ops.add("div")
                assert t_ops == ops, "emitted text has %r, constraints have %r" % (t_ops, ops)
                return ("avc=%d" % ("avc" in ops), "div=%d" % ("div" in ops))
            out.append(((name, p, d, arg, ac, explicit, dd), norm_err(vlib.guarded(f))))
    finally:
        if saved_mod is H:
            sys.modules.pop("cspuz_core", None)
        else:
            sys.modules["cspuz_core"] = saved_mod
        cfg.__dict__.clear()
        cfg.__dict__.update(saved_cfg)
    return out


def prim_history_cases(ctx):
    """two (thorough: up to three) helper calls on ONE Solver: (name, p, d, arg, ac, explicit, dd) each"""
    rng = ctx.rng
    H = helper_table()
    singles = [c for c in prim_cases(ctx)]
    with_arg = [c for c in singles if H[c[0]][0]]
    seqs = []
    # the same helper twice, the deciding configuration flag flipped in between, argument omitted / None
    for name in H:
        has_arg, has_acy, builders = H[name]
        for (explicit, dd) in sorted(builders):
            for (p1, d1) in itertools.product((False, True), repeat=2):
                for arg in (("omit", None) if has_arg else ("omit",)):
                    for ac in ((False, True) if has_acy else (False,)):
                        seqs.append(((name, p1, d1, arg, ac, explicit, dd), (name, not p1, not d1, arg, ac, explicit, dd)))
    for _ in range(4000 if ctx.thorough else 900):
        n = 3 if ctx.thorough and rng.random() < 0.3 else 2
        seqs.append(tuple(rng.choice(with_arg if rng.random() < 0.8 else singles) for _ in range(n)))
    return seqs


def observe_prim_history(ctx):
    import cspuz
    H = helper_table()
    cfg = cspuz.config
    saved_cfg = dict(cfg.__dict__)
    out = []
    try:
        for seq in prim_history_cases(ctx):
            cfg.use_graph_primitive = not seq[0][1]
            cfg.use_graph_division_primitive = not seq[0][2]
            s = cspuz.Solver()
            res = []
            for (name, p, d, arg, ac, explicit, dd) in seq:
                build = H[name][2][(explicit, dd)]
                before = len(s.constraints)

                def f():
                    cfg.use_graph_primitive = p
                    cfg.use_graph_division_primitive = d
                    try:
                        build(s, arg, ac)
                    finally:
                        cfg.use_graph_primitive = not p
                        cfg.use_graph_division_primitive = not d
                    ops = native_ops_in(s.constraints[before:])
                    return ("avc=%d" % ("avc" in ops), "div=%d" % ("div" in ops))
                res.append(norm_err(vlib.guarded(f)))
            out.append((seq, tuple(res)))
    finally:
        cfg.__dict__.clear()
        cfg.__dict__.update(saved_cfg)
    return out


# ------------------------------------------------------------------ observations (shared by correspond and search)

def lower_fact_counterexamples():
    bad = []
    letters = set("truefals01")
    for c in range(128, 0x110000):
        if 0xD800 <= c < 0xE000:
            continue
        l = chr(c).lower()
        if any(ch in letters for ch in l):
            bad.append(c)
    return bad


def observe(ctx):
    if getattr(ctx, "_c20", None) is None:
        obs = {}
        obs["config"] = observe_config(ctx)
        obs["import"] = observe_subprocess(ctx)
        obs["config-kinds"] = observe_config_kinds(ctx)
        obs["strtobool"] = observe_spellings(ctx)
        obs["name"] = observe_names(ctx)
        obs["receiver"] = observe_receivers(ctx)
        obs["receiver-history"] = ctx._c20_receiver_history
        obs["prim"] = observe_prims(ctx)
        obs["prim-history"] = observe_prim_history(ctx)
        ctx._c20 = obs
    return ctx._c20


def arg_tok(a):
    return {None: "N", "omit": "N", True: "T", False: "F"}[a]


def correspond(ctx):
    m = ctx.model("C20")
    obs = observe(ctx)
    bad = lower_fact_counterexamples()
    if bad:
        ctx.mismatches.append({"kind": "lower-fact", "input": bad[:10], "model": "no such code point", "impl": "exists"})

    for kind in ("config", "import", "config-kinds"):
        reqs = ["CFG %d %s %s %s %s %s" % (int(key[0]), hx(key[1][0]), hx(key[1][1]), hx(key[1][2]), hx(key[1][3]), avail_tok(key[2]))
                for (key, _) in obs[kind]]
        for (key, io), r in zip(obs[kind], m.batch(reqs)):
            (infer, env, av), extra = key[:3], key[3:]
            ctx.corr(kind, (infer, env, avail_tok(av)) + extra, parse_cfg(r), io)
            for fk in ([extra[0]] if extra and isinstance(extra[0], str) else sorted(set(extra[0]) - {"-"}) if extra else []):
                ctx.count("import-failure-kind:" + fk)
            ctx.count("backend-var:" + ("unset" if env[0] is None else "auto" if env[0] == "auto" else "name" if env[0] in NAMES else "junk"))

    reqs = ["STB " + hx(s) for (s, _) in obs["strtobool"]]
    for (s, io), r in zip(obs["strtobool"], m.batch(reqs)):
        ctx.corr("strtobool", s, parse_simple(r), io)

    reqs = ["NAME " + hx(n) for (n, _) in obs["name"]]
    for (n, io), r in zip(obs["name"], m.batch(reqs)):
        ctx.corr("name", n, parse_simple(r), io)

    reqs = ["RCV %s %s %s %s" % (k, hx(v), hx(db), hx(bp)) for ((k, v, db, bp, method), _) in obs["receiver"]]
    for (inp, io), r in zip(obs["receiver"], m.batch(reqs)):
        ctx.corr("receiver", inp, parse_simple(r), io)

    reqs = ["PRIM %s %d %d %s %d %d %d" % (name.split("/")[0], p, d, arg_tok(arg), ac, explicit, dd)
            for ((name, p, d, arg, ac, explicit, dd), _) in obs["prim"]]
    for (inp, io), r in zip(obs["prim"], m.batch(reqs)):
        ctx.corr("prim", inp, parse_simple(r), io)
        ctx.count("prim-arg:" + str(inp[3]))

    # histories: the model has no state, so call number i on a reused Solver must equal the model on call i's own inputs
    flat = [(seq, i) for (seq, _) in obs["receiver-history"] for i in range(len(seq))]
    reqs = ["RCV %s %s %s %s" % ("S" if seq[i][0] == "T" else seq[i][0], hx(seq[i][1]), hx(seq[i][2]), hx(seq[i][3])) for (seq, i) in flat]
    rep = iter(m.batch(reqs))
    for (seq, ios) in obs["receiver-history"]:
        mo = tuple(parse_simple(next(rep)) for _ in seq)
        ctx.corr("receiver-history", seq, mo, ios)
        ctx.count("receiver-history:len=%d" % len(seq))
    flat = [(seq, i) for (seq, _) in obs["prim-history"] for i in range(len(seq))]
    reqs = ["PRIM %s %d %d %s %d %d %d" % (seq[i][0].split("/")[0], seq[i][1], seq[i][2], arg_tok(seq[i][3]), seq[i][4], seq[i][5], seq[i][6])
            for (seq, i) in flat]
    rep = iter(m.batch(reqs))
    for (seq, ios) in obs["prim-history"]:
        mo = tuple(parse_simple(next(rep)) for _ in seq)
        ctx.corr("prim-history", tuple((c[0], c[1], c[2], str(c[3]), c[4], c[5], c[6]) for c in seq), mo, ios)


# ------------------------------------------------------------------ the property itself, restated independently

def spec_bool(s):
    t = s.lower()
    if t in ("true", "1"):
        return True
    if t in ("false", "0"):
        return False
    raise ValueError(s)


PRIORITY = [("cspuz_core", "cspuz_core"), ("enigma_csp", "enigma_csp"), ("csugar", "pycsugar"), ("z3", "z3")]
SUPPORTS_PRIM = ("csugar", "enigma_csp", "cspuz_core")
SUPPORTS_DIV = ("enigma_csp", "cspuz_core")


def spec_config(infer, env, avail):
    b, p, g, d = env if infer else (None, None, None, None)
    importable = dict(zip(MODS, avail))

    def f():
        name = b if b is not None else "auto"
        if name == "auto":
            name = "sugar"
            for (bn, mod) in PRIORITY:
                if importable[mod]:
                    name = bn
                    break
        prim = spec_bool(g) if g is not None else (name in SUPPORTS_PRIM)
        div = spec_bool(d) if d is not None else (name in SUPPORTS_DIV)
        return (hx(name), hx(p), prim, div)
    return vlib.guarded(f)


SPEC_CLASS = {"sugar": ("sugar_like.SugarBackend", "subprocess"), "sugar_extended": ("sugar_like.SugarExtendedBackend", "subprocess"),
              "z3": ("z3.Z3Backend", "module:z3"), "csugar": ("sugar_like.CSugarBackend", "module:pycsugar"),
              "enigma_csp": ("sugar_like.EnigmaCSPBackend", "module:enigma_csp"),
              "cspuz_core": ("sugar_like.CspuzCoreBackend", "module:cspuz_core")}


def spec_receiver(k, v, db, bp):
    def f():
        if k == "C":
            return ("user:" + v, "user:" + v)
        name = db if k == "N" else v
        if name not in SPEC_CLASS:
            raise ValueError(name)
        c, e = SPEC_CLASS[name]
        if e == "subprocess":
            e = "subprocess:" + hx(bp if bp else "sugar")
        return ("named:" + c, e)
    return vlib.guarded(f)


# helper -> (native operator, deciding flag, takes an explicit argument, raises when the primitive is off)
SPEC_HELPERS = {
    "active_vertices_connected": ("avc", "p", True, False), "_active_vertices_connected": ("avc", "p", True, False),
    "active_edges_single_cycle": ("avc", "p", True, False), "_active_edges_single_cycle": ("avc", "p", True, False),
    "active_edges_single_path": ("avc", "p", True, True), "_active_edges_single_path": ("avc", "p", True, True),
    "active_edges_connected_crossable": ("avc", "p", True, False),
    "active_edges_single_cycle_crossable": ("avc", "p", True, False),
    "division_connected_variable_groups_with_borders": ("div", "d", True, False),
    "_division_connected_variable_groups_with_borders": ("div", "d", True, False),
    "_division_connected": ("avc", "p", True, False), "division_connected": ("avc", "p", False, False),
}


def spec_prim(name, p, d, arg, ac, explicit, dd):
    name = name.split("/")[0]
    if name == "active_vertices_not_adjacent_and_not_segmenting":
        # the graph form and single-row / single-column boards post the connectivity of the complement
        # (configuration decides); larger boards use the diagonal-chain encoding (documented TODO)
        use = p and (explicit or dd)
        return ("ok", ("avc=%d" % use, "div=0"))
    if name not in SPEC_HELPERS:
        return ("ok", ("avc=0", "div=0"))
    op, flag, _, raises = SPEC_HELPERS[name]
    cfgv = p if flag == "p" else d
    use = cfgv if arg in (None, "omit") else arg
    if ac:
        use = False
    elif not use and raises:
        return ("err", "Other")
    return ("ok", ("avc=%d" % (use and op == "avc"), "div=%d" % (use and op == "div")))


def search(ctx):
    try:
        obs = observe(ctx)
    except Exception:
        ctx._c20 = None
        raise
    for kind in ("config", "import", "config-kinds"):
        for (key, io) in obs[kind]:
            (infer, env, av), extra = key[:3], key[3:]
            ctx.prop_case(kind + "-vs-spec", (infer, env, avail_tok(av)) + extra)
            so = spec_config(infer, env, av)
            if so != io:
                detail = {"kind": kind, "infer": infer, "env": dict(zip(ENVS, env)), "importable": dict(zip(MODS, av)),
                          "expected": so, "observed": io}
                k = "%s:infer=%d:env=%r:avail=%s" % (kind, infer, env, avail_tok(av))
                if extra:
                    detail["import_failure_of_unavailable_modules"] = extra[0] if isinstance(extra[0], str) else dict(zip(MODS, extra[0]))
                    k += ":fail=%s" % (extra[0] if isinstance(extra[0], str) else ",".join(extra[0]))
                ctx.violation(k, "Config built from this environment / module availability is not the configured one", detail)
    for (s, io) in obs["strtobool"]:
        ctx.prop_case("strtobool-vs-spec", s)
        so = norm_err(vlib.guarded(lambda: ("1" if spec_bool(s) else "0",)))
        if so != io:
            ctx.violation("strtobool:%r" % s, "boolean setting not parsed strictly",
                          {"kind": "strtobool", "value": s, "expected": so, "observed": io})
    for (n, io) in obs["name"]:
        ctx.prop_case("name-vs-spec", n)
        so = ("ok", (SPEC_CLASS[n][0],)) if n in SPEC_CLASS else ("err", "ValueError")
        if so != io:
            ctx.violation("backend-name:%r" % n, "backend name not dispatched as specified",
                          {"kind": "name", "name": n, "expected": so, "observed": io})
    for ((k, v, db, bp, method), io) in obs["receiver"]:
        ctx.prop_case("receiver-vs-spec", (k, v, db, bp, method))
        so = spec_receiver(k, v, db, bp)
        if so != io:
            ctx.violation("receiver:%s:arg=%s:%r:default=%r:path=%r" % (method, k, v, db, bp),
                          "the solve was not received by the configured backend / entry point",
                          {"kind": "receiver", "method": method, "backend_argument": {"N": None, "S": v, "C": "<class Mine>"}[k],
                           "config.default_backend": db, "config.backend_path": bp, "expected": so, "observed": io})
    for ((name, p, d, arg, ac, explicit, dd), io) in obs["prim"]:
        ctx.prop_case("prim-vs-spec", (name, p, d, str(arg), ac, explicit, dd))
        so = spec_prim(name, p, d, arg, ac, explicit, dd)
        if so != io:
            ctx.violation("prim:%s:p=%d:d=%d:arg=%s:acyclic=%d:graph=%d:dd=%d" % (name, p, d, arg, ac, explicit, dd),
                          "native graph operator used / not used against the explicit argument or configuration",
                          {"kind": "prim", "helper": name, "config.use_graph_primitive": p, "config.use_graph_division_primitive": d,
                           "use_graph_primitive": str(arg), "acyclic": ac, "graph_given": explicit, "expected": so, "observed": io})
    for (seq, ios) in obs["receiver-history"]:
        ctx.prop_case("receiver-history-vs-spec", seq)
        for i, ((k, v, db, bp, method, form), io) in enumerate(zip(seq, ios)):
            so = spec_receiver("S" if k == "T" else k, v, db, bp)
            if so != io:
                ctx.violation("receiver-history:call=%d:%s:arg=%s:%r:default=%r:path=%r:form=%s" % (i + 1, method, k, v, db, bp, form),
                              "solve number %d on the same Solver was not received by the backend / entry point configured at that call" % (i + 1),
                              {"kind": "receiver-history", "calls_on_one_solver": [
                                  {"method": c[4], "backend_argument": {"N": None, "S": c[1], "C": "<class Mine>", "T": "<class of %s>" % c[1]}[c[0]],
                                   "call_form": c[5], "config.default_backend": c[2], "config.backend_path": c[3]} for c in seq[:i + 1]],
                               "failing_call": i + 1, "expected": so, "observed": io})
    for (seq, ios) in obs["prim-history"]:
        ctx.prop_case("prim-history-vs-spec", tuple((c[0], c[1], c[2], str(c[3]), c[4], c[5], c[6]) for c in seq))
        for i, ((name, p, d, arg, ac, explicit, dd), io) in enumerate(zip(seq, ios)):
            so = spec_prim(name, p, d, arg, ac, explicit, dd)
            if so != io:
                ctx.violation("prim-history:call=%d:%s:p=%d:d=%d:arg=%s:acyclic=%d:graph=%d:dd=%d" % (i + 1, name, p, d, arg, ac, explicit, dd),
                              "graph helper call number %d on the same Solver used / did not use the native operator against the explicit argument or the "
                              "configuration in force at that call" % (i + 1),
                              {"kind": "prim-history", "calls_on_one_solver": [
                                  {"helper": c[0], "config.use_graph_primitive": c[1], "config.use_graph_division_primitive": c[2],
                                   "use_graph_primitive": str(c[3]), "acyclic": c[4], "graph_given": c[5]} for c in seq[:i + 1]],
                               "failing_call": i + 1, "expected": so, "observed": io})
    ctx.note("graph-helper and receiver decision tables are enumerated exhaustively over their finite argument domains; "
             "environment strings are a fixed set of %d backend values x %d flag spellings (+ random case/whitespace variants)"
             % (len(B_VALUES), len(F_CORE) + len(F_MORE)))
    ctx.note("active_vertices_not_adjacent_and_not_segmenting on a 2-D array with both sides >= 2 has no use_graph_primitive decision (documented TODO in graph.py): it never posts the native operator; not counted as a violation")


def replay(ctx, rp):
    print(json.dumps(rp, indent=1)[:3000])
    v = rp.get("violation", {}).get("detail", {})
    if not v:
        return 0
    obs = observe(ctx)
    # re-run the whole (small) observation and look the key up again
    ctx2 = ctx
    search(ctx2)
    for w in ctx2.violations:
        if w["key"] == rp["violation"]["key"]:
            print("reproduced:", w["detail"])
            return 1
    print("not reproduced")
    return 0
