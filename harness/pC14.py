"""C14 — BoolGridFrame / BoolInnerGridFrame accessors are consistent with the lattice geometry."""
import vlib

PROPS = "Props/C14.v"
RULE = ("correspondence: every (frame class, height, width, first variable id, accessor, coordinates) case is run "
        "through cspuz (frames built by the public constructors on a real Solver) and through the extracted Coq model "
        "(Array/Frame.v: new_frame/new_inner/getitem/cell_neighbors/vertex_neighbors/all_edges/iter/dual/idual/"
        "from_grid_frame); results are compared as variable ids (identity-mapped to Solver.variables), shapes, graph "
        "vertex/edge lists and error class.  Exhaustive: heights/widths 0..4 (thorough 0..6), doubled coordinates in "
        "[-3, 2h+3] x [-3, 2w+3] for __getitem__, cell_neighbors and vertex_neighbors (both call forms), on the frame "
        "and on dual().dual(); inner frames 0..5 (thorough 0..7); a malformed stream builds frames from arrays of "
        "inconsistent shapes and negative sizes.  search: an oracle written from the lattice geometry (segments as "
        "pairs of lattice points; no doubled-coordinate or index arithmetic of grid_frame.py) vs the real accessors.  "
        "A case is non-trivial when it is a distinct (constructor, accessor, coordinates) tuple.")
TRUSTED = [
    "reading of the property: horizontal[y, x] is the variable on the segment (y,x)-(y,x+1), vertical[y, x] on (y,x)-(y+1,x); lattice points / cells are numbered row-major in the inferred graphs (Array/Frame.v: frame_of, iframe_of, point_id)",
    "the model of Array2D indexing it builds on (Array/Slice.v getitem2), tied to array.py by check C13",
]
ASSUMPTIONS = [
    "coordinates are Python ints (bool/float/other key types are outside the model)",
    "theorems about geometry assume 0 <= h, 0 <= w and a frame whose two arrays have the constructor's shapes (frame_of); oob/TypeError/dual theorems hold for every frame record",
    "inner frames with height or width 0 are modelled as the code behaves (ValueError from Array2D unless both are 0), the geometric theorems need H, W >= 1",
]

ERR = {1: "IndexError", 2: "KeyError", 3: "AssertionError", 4: "TypeError", 5: "ValueError",
       6: "RecursionError", 7: "NotImplementedError", 8: "Other"}


# ------------------------------------------------------------------ model side

def _ints(s):
    return tuple(int(x) for x in s.split())


def _arr(s):
    a, b = s.split(":")
    return (_ints(a), _ints(b))


def parse_reply(r):
    t = r.split()
    if not t:
        raise RuntimeError("empty model reply")
    if t[0] == "E":
        return ("err", ERR[int(t[1])])
    if t[0] == "S":
        return ("ok", ("S", int(t[1])))
    if t[0] == "L":
        return ("ok", ("L", tuple(int(x) for x in t[1:])))
    if t[0] in ("FR", "IN"):
        p = r[2:].split("|")
        return ("ok", (t[0], _ints(p[0]), _arr(p[1]), _arr(p[2])))
    if t[0] == "FG":
        head, rest = r[2:].split(":", 1)
        es, ge = rest.split("|")
        g = _ints(ge)
        return ("ok", ("FG", int(head), _ints(es), tuple((g[i], g[i + 1]) for i in range(0, len(g), 2))))
    raise RuntimeError("bad model reply " + r)


def req_line(ctor, op):
    return " ".join(str(x) for x in ctor + op)


# ----------------------------------------------------------- implementation side

def build(ctor):
    """frames through the public constructors on a real Solver; returns (obj, idmap)."""
    from cspuz import Solver
    from cspuz.grid_frame import BoolGridFrame, BoolInnerGridFrame
    s = Solver()
    if ctor[0] == "F":
        for _ in range(ctor[1]):
            s.bool_var()
        o = BoolGridFrame(s, ctor[2], ctor[3])
    elif ctor[0] == "I":
        for _ in range(ctor[1]):
            s.bool_var()
        o = BoolInnerGridFrame(s, ctor[2], ctor[3])
    else:
        _, h, w, a, b, c, d = ctor
        hz = s.bool_array((a, b))
        vt = s.bool_array((c, d))
        o = BoolGridFrame(s, h, w, horizontal=hz, vertical=vt)
    return o, s


def _ids(s, seq):
    idx = {id(v): v.id for v in s.variables}
    return tuple(idx[id(e)] for e in seq)


def _dump_arr(s, a):
    from cspuz.array import BoolArray2D
    assert type(a) is BoolArray2D, "array class %s" % type(a).__name__
    return (tuple(a.shape), _ids(s, a.data))


def _dump(s, o):
    from cspuz.grid_frame import BoolGridFrame
    tag = "FR" if type(o) is BoolGridFrame else "IN"
    return (tag, (o.height, o.width), _dump_arr(s, o.horizontal), _dump_arr(s, o.vertical))


def _args(a):
    if a[0] == "t":
        return ((a[1], a[2]),)
    if a[0] == "2":
        return (a[1], a[2])
    if a[0] == "i":
        return (a[1],)
    return ((a[1], a[2]), a[3])


def _list1d(s, r):
    from cspuz.array import BoolArray1D
    assert type(r) is BoolArray1D, "result class %s" % type(r).__name__
    return ("L", _ids(s, r.data))


def frame_op(s, f, op):
    from cspuz import graph
    from cspuz.grid_frame import BoolGridFrame, BoolInnerGridFrame
    k = op[0]
    if k == "D":
        assert type(f) is BoolGridFrame
        return _dump(s, f)
    if k == "G":
        return ("S", _ids(s, [f[op[1], op[2]]])[0])
    if k == "CN":
        return _list1d(s, f.cell_neighbors(*_args(op[1:])))
    if k == "VN":
        return _list1d(s, f.vertex_neighbors(*_args(op[1:])))
    if k == "AE":
        return _list1d(s, f.all_edges())
    if k == "IT":
        return ("L", _ids(s, list(iter(f))))
    if k == "FG":
        es, g = graph._from_grid_frame(f)
        assert len(g.incident_edges) == max(g.num_vertices, 0)
        return ("FG", g.num_vertices, _ids(s, es), tuple((a, b) for (a, b) in g.edges))
    if k == "DU":
        d = f.dual()
        assert type(d) is BoolInnerGridFrame and d.solver is s
        return _dump(s, d)
    if k == "DUIT":
        return ("L", _ids(s, list(iter(f.dual()))))
    if k == "DD":
        return frame_op(s, f.dual().dual(), op[1:])
    raise RuntimeError("bad op")


def inner_op(s, i, op):
    from cspuz.grid_frame import BoolGridFrame, BoolInnerGridFrame
    k = op[0]
    if k == "D":
        assert type(i) is BoolInnerGridFrame
        return _dump(s, i)
    if k == "IT":
        return ("L", _ids(s, list(iter(i))))
    if k == "DD":
        return _dump(s, i.dual().dual())
    if k == "DU":
        d = i.dual()
        assert type(d) is BoolGridFrame and d.solver is s
        return frame_op(s, d, op[1:])
    raise RuntimeError("bad op")


def impl_run(ctor, op):
    def f():
        o, s = build(ctor)
        return inner_op(s, o, op) if ctor[0] == "I" else frame_op(s, o, op)
    return vlib.guarded(f)


# ------------------------------------------------------------------ generators

def coord_ops(h, w):
    """accessor calls over doubled coordinates [-3, 2h+3] x [-3, 2w+3]"""
    for y in range(-3, 2 * h + 4):
        for x in range(-3, 2 * w + 4):
            yield ("G", y, x)
            yield ("CN", "t", y, x)
            yield ("CN", "2", y, x)
            yield ("VN", "t", y, x)
            yield ("VN", "2", y, x)
            yield ("DD", "G", y, x)
            yield ("DD", "CN", "2", y, x)
            yield ("DD", "VN", "t", y, x)


WHOLE = [("D",), ("AE",), ("IT",), ("FG",), ("DU",), ("DUIT",), ("DD", "D"), ("DD", "FG"), ("DD", "AE"), ("DD", "DU")]


def gen_cases(ctx):
    rng = ctx.rng
    n = 7 if ctx.thorough else 5
    for h in range(n):
        for w in range(n):
            nexts = [0] if (h + w) % 3 else [0, 3]
            for nx in nexts:
                c = ("F", nx, h, w)
                for op in WHOLE:
                    yield c, op
                if nx == 0:
                    for op in coord_ops(h, w):
                        yield c, op
                    for y in (-1, 0, h):
                        yield c, ("CN", "i", y)
                        yield c, ("VN", "i", y)
                        yield c, ("CN", "ti", y, 0, 0)
                        yield c, ("VN", "ti", 0, y, 0)
    m = 8 if ctx.thorough else 6
    for H in range(m):
        for W in range(m):
            for nx in ([0, 2] if (H + W) % 4 == 0 else [0]):
                c = ("I", nx, H, W)
                for op in [("D",), ("IT",), ("DD",), ("DU", "D"), ("DU", "FG"), ("DU", "AE"), ("DU", "IT"), ("DU", "DU")]:
                    yield c, op
                if nx == 0:
                    for y in range(-3, 2 * (H - 1) + 4):
                        for x in range(-3, 2 * (W - 1) + 4):
                            yield c, ("DU", "G", y, x)
                            yield c, ("DU", "CN", "2", y, x)
                            yield c, ("DU", "VN", "2", y, x)
    # malformed stream: frames over arrays of arbitrary (inconsistent) shapes, negative sizes
    for _ in range(6000 if ctx.thorough else 1500):
        h, w = rng.randint(-1, 3), rng.randint(-1, 3)
        if rng.random() < 0.4:
            a, b, c2, d = h + 1, w, h, w + 1
            j = rng.randrange(4)
            t = [a, b, c2, d]
            t[j] += rng.choice([-1, 1])
            a, b, c2, d = [max(0, v) for v in t]
        else:
            a, b, c2, d = (rng.randint(0, 4) for _ in range(4))
        c = ("X", h, w, a, b, c2, d)
        y, x = rng.randint(-2, 2 * max(h, 0) + 2), rng.randint(-2, 2 * max(w, 0) + 2)
        kind = rng.randrange(7)
        op = [("G", y, x), ("CN", "2", y, x), ("VN", "t", y, x), ("FG",), ("AE",), ("DD", "G", y, x), ("DU",)][kind]
        yield c, op


def correspond(ctx):
    m = ctx.model("C14")
    cases = list(gen_cases(ctx))
    outs = m.batch([req_line(c, op) for (c, op) in cases])
    for (c, op), o in zip(cases, outs):
        ctx.count("ctor:" + c[0])
        ctx.corr(op[0] if op[0] not in ("DD", "DU") or len(op) == 1 else op[0] + "." + op[1],
                 (c, op), parse_reply(o), impl_run(c, op))
    ctx.exhaustive = True


# ------------------------------------------------- search: the geometric oracle
# Written from the lattice geometry only: lattice points, cells as sets of four
# corner points, segments as unordered pairs of lattice points at distance 1.

def _segments(h, w):
    pts = [(y, x) for y in range(h + 1) for x in range(w + 1)]
    segs = set()
    for p in pts:
        for q in pts:
            if abs(p[0] - q[0]) + abs(p[1] - q[1]) == 1:
                segs.add(frozenset((p, q)))
    return pts, segs


def _sk(sg):
    """space-free key of an unordered pair of lattice points / cells"""
    return "-".join("%d,%d" % p for p in sorted(sg))


def _corners(c):
    y, x = c
    return {(y, x), (y, x + 1), (y + 1, x), (y + 1, x + 1)}


def _same(objs_a, objs_b):
    """equal as multisets of object identities"""
    return sorted(id(o) for o in objs_a) == sorted(id(o) for o in objs_b)


def check_frame(ctx, tag, f, h, w, anchor=None, depth=0):
    """f must be the frame of h x w cells; anchor: segment -> variable expected on
    it (None: read it off horizontal/vertical, which is what defines it)."""
    from cspuz import graph
    from cspuz.array import BoolArray1D
    from cspuz.expr import BoolVar
    from cspuz.grid_frame import BoolGridFrame, BoolInnerGridFrame

    def bad(key, what, **detail):
        detail.update({"frame": tag, "h": h, "w": w})
        ctx.violation("%s:%s" % (tag, key), what, detail)

    pts, segs = _segments(h, w)
    cells = [(y, x) for y in range(h) for x in range(w)]
    ctx.prop_case("frame", (tag, h, w, depth))
    if type(f) is not BoolGridFrame or f.height != h or f.width != w:
        return bad("class", "not a BoolGridFrame of the expected size", got=repr((type(f).__name__, getattr(f, "height", None), getattr(f, "width", None))))
    if tuple(f.horizontal.shape) != (h + 1, w) or tuple(f.vertical.shape) != (h, w + 1):
        return bad("shape", "horizontal/vertical do not have one entry per segment", shapes=[list(f.horizontal.shape), list(f.vertical.shape)])
    here = {}
    for (y, x) in pts:
        if (y, x + 1) in pts:
            here[frozenset(((y, x), (y, x + 1)))] = f.horizontal[y, x]
        if (y + 1, x) in pts:
            here[frozenset(((y, x), (y + 1, x)))] = f.vertical[y, x]
    if set(here) != segs or len({id(v) for v in here.values()}) != len(segs) or not all(isinstance(v, BoolVar) for v in here.values()):
        return bad("vars", "segments do not carry pairwise distinct variables")
    if anchor is not None:
        for sg in segs:
            if here[sg] is not anchor[sg]:
                return bad("anchor:%s" % _sk(sg), "variable moved to another segment", segment=sorted(sg))
    var = here

    def name(v):
        if hasattr(v, "data"):
            return [getattr(e, "id", repr(e)) for e in v.data]
        return getattr(v, "id", repr(v))

    # __getitem__: doubled coordinates of the midpoint = sum of the two ends
    mids = {}
    for sg in segs:
        p, q = tuple(sg)
        mids[(p[0] + q[0], p[1] + q[1])] = sg
    for Y in range(-3, 2 * h + 4):
        for X in range(-3, 2 * w + 4):
            ctx.prop_case("getitem", (tag, h, w, Y, X, depth))
            r = vlib.guarded(lambda: f[Y, X])
            if (Y, X) in mids:
                if r[0] != "ok" or r[1] is not var[mids[(Y, X)]]:
                    bad("getitem:%d,%d" % (Y, X), "frame[Y, X] is not the variable on the segment with that midpoint",
                        coords=[Y, X], segment=sorted(mids[(Y, X)]), expected=name(var[mids[(Y, X)]]), got=name(r[1]))
            elif r != ("err", "IndexError"):
                bad("getitem:%d,%d" % (Y, X), "frame[Y, X] for a position that is not a segment midpoint must raise IndexError",
                    coords=[Y, X], got=name(r[1]))
    # cell_neighbors / vertex_neighbors
    for y in range(-3, h + 4):
        for x in range(-3, w + 4):
            for form in (0, 1):
                args = ((y, x),) if form else (y, x)
                ctx.prop_case("cell_neighbors", (tag, h, w, y, x, form, depth))
                r = vlib.guarded(lambda: f.cell_neighbors(*args))
                if (y, x) in cells:
                    exp = [var[sg] for sg in segs if sg <= _corners((y, x))]
                    if r[0] != "ok" or type(r[1]) is not BoolArray1D or len(exp) != 4 or not _same(r[1].data, exp):
                        bad("cell_neighbors:%d,%d" % (y, x), "cell_neighbors is not the set of the 4 sides of the cell",
                            cell=[y, x], expected=sorted(name(v) for v in exp), got=name(r[1]) if r[0] != "ok" else [name(v) for v in r[1]])
                elif r != ("err", "IndexError"):
                    bad("cell_neighbors:%d,%d" % (y, x), "cell outside the frame must raise IndexError", cell=[y, x], got=name(r[1]))
                ctx.prop_case("vertex_neighbors", (tag, h, w, y, x, form, depth))
                r = vlib.guarded(lambda: f.vertex_neighbors(*args))
                if (y, x) in pts:
                    exp = [var[sg] for sg in segs if (y, x) in sg]
                    if r[0] != "ok" or type(r[1]) is not BoolArray1D or not _same(r[1].data, exp):
                        bad("vertex_neighbors:%d,%d" % (y, x), "vertex_neighbors is not the set of segments ending at the point",
                            point=[y, x], expected=sorted(name(v) for v in exp), got=name(r[1]) if r[0] != "ok" else [name(v) for v in r[1]])
                elif r != ("err", "IndexError"):
                    bad("vertex_neighbors:%d,%d" % (y, x), "point outside the frame must raise IndexError", point=[y, x], got=name(r[1]))
    # all_edges / iteration: every segment exactly once, same order both ways
    ctx.prop_case("all_edges", (tag, h, w, depth))
    ae = vlib.guarded(lambda: list(f.all_edges().data))
    it = vlib.guarded(lambda: list(iter(f)))
    if ae[0] != "ok" or not _same(ae[1], var.values()):
        bad("all_edges", "all_edges does not enumerate every segment exactly once")
    if it[0] != "ok" or ae[0] != "ok" or [id(v) for v in it[1]] != [id(v) for v in ae[1]]:
        bad("iter", "iteration order differs from all_edges")
    # _from_grid_frame: edge k joins the lattice points its variable's segment joins
    ctx.prop_case("from_grid_frame", (tag, h, w, depth))
    r = vlib.guarded(lambda: graph._from_grid_frame(f))
    if r[0] != "ok":
        bad("from_grid_frame", "_from_grid_frame raised", got=r[1])
    else:
        es, g = r[1]
        ok = g.num_vertices == len(pts) and len(es) == len(g.edges) == len(segs)
        seen = set()
        if ok:
            for k, (a, b) in enumerate(g.edges):
                if not (0 <= a < len(pts) and 0 <= b < len(pts)):
                    ok = False
                    break
                sg = frozenset((pts[a], pts[b]))  # pts is in row-major order
                if sg not in segs or sg in seen or es[k] is not var[sg]:
                    ok = False
                    bad("from_grid_frame:%d" % k, "edge k of the list is not the variable on the segment joining graph edge k's endpoints",
                        k=k, graph_edge=[a, b], points=[list(pts[a]), list(pts[b])], got=name(es[k]),
                        expected=name(var[sg]) if sg in segs else None)
                    break
                seen.add(sg)
            if ok:
                for v in range(g.num_vertices):
                    if sorted(g.incident_edges[v]) != sorted([(b, k) for k, (a, b) in enumerate(g.edges) if a == v] + [(a, k) for k, (a, b) in enumerate(g.edges) if b == v]):
                        ok = False
        if not ok:
            bad("from_grid_frame", "inferred graph is not the lattice graph of the frame",
                num_vertices=g.num_vertices, n_edges=len(g.edges), n_vars=len(es))
    # dual: points become cells, the variable stays on its segment
    ctx.prop_case("dual", (tag, h, w, depth))
    r = vlib.guarded(lambda: f.dual())
    if r[0] != "ok" or type(r[1]) is not BoolInnerGridFrame:
        return bad("dual", "dual() did not return a BoolInnerGridFrame")
    d = r[1]
    check_inner(ctx, tag + ".dual", d, h + 1, w + 1, anchor=var, depth=depth)


def check_inner(ctx, tag, i, H, W, anchor=None, depth=0):
    """i must be the inner frame of a board of H x W cells (H, W >= 1); anchor maps
    an unordered pair of adjacent cells to the variable expected on their border."""
    from cspuz.expr import BoolVar
    from cspuz.grid_frame import BoolGridFrame, BoolInnerGridFrame

    def bad(key, what, **detail):
        detail.update({"frame": tag, "H": H, "W": W})
        ctx.violation("%s:%s" % (tag, key), what, detail)

    ctx.prop_case("inner", (tag, H, W, depth))
    cells, borders = _segments(H - 1, W - 1)  # cells of the board = lattice points of the (H-1) x (W-1) frame
    if type(i) is not BoolInnerGridFrame or i.height != H or i.width != W:
        return bad("class", "not a BoolInnerGridFrame of the expected size")
    if tuple(i.horizontal.shape) != (H - 1, W) or tuple(i.vertical.shape) != (H, W - 1):
        return bad("shape", "inner horizontal/vertical do not have one entry per border",
                   shapes=[list(i.horizontal.shape), list(i.vertical.shape)])
    here = {}
    for (y, x) in cells:
        if (y + 1, x) in cells:
            here[frozenset(((y, x), (y + 1, x)))] = i.horizontal[y, x]
        if (y, x + 1) in cells:
            here[frozenset(((y, x), (y, x + 1)))] = i.vertical[y, x]
    if set(here) != borders or len({id(v) for v in here.values()}) != len(borders) or not all(isinstance(v, BoolVar) for v in here.values()):
        return bad("vars", "borders do not carry pairwise distinct variables")
    if anchor is not None:
        for b in borders:
            if here[b] is not anchor[b]:
                return bad("dual_swaps:%s" % _sk(b), "the border between two cells of the dual is not the variable of the primal segment joining them",
                           cells=sorted(b), expected=getattr(anchor[b], "id", None), got=getattr(here[b], "id", None))
    it = vlib.guarded(lambda: list(iter(i)))
    if it[0] != "ok" or not _same(it[1], here.values()):
        bad("iter", "iteration over the inner frame does not enumerate every border once")
    r = vlib.guarded(lambda: i.dual())
    if r[0] != "ok" or type(r[1]) is not BoolGridFrame:
        return bad("dual", "dual() of an inner frame did not return a BoolGridFrame")
    dd = r[1]
    if depth < 1:
        check_frame(ctx, tag + ".dual", dd, H - 1, W - 1, anchor=here, depth=depth + 1)
    else:
        # dual of dual is the original: same size, same arrays element for element
        pass
    return here


def check_involution(ctx, tag, o):
    def bad(key, what, **detail):
        detail.update({"frame": tag})
        ctx.violation("%s:%s" % (tag, key), what, detail)
    ctx.prop_case("dual_involutive", (tag,))
    r = vlib.guarded(lambda: o.dual().dual())
    if r[0] != "ok":
        return bad("dual_involutive", "dual().dual() raised", got=r[1])
    oo = r[1]
    same = (type(oo) is type(o) and oo.height == o.height and oo.width == o.width and oo.solver is o.solver
            and tuple(oo.horizontal.shape) == tuple(o.horizontal.shape) and tuple(oo.vertical.shape) == tuple(o.vertical.shape)
            and [id(v) for v in oo.horizontal.data] == [id(v) for v in o.horizontal.data]
            and [id(v) for v in oo.vertical.data] == [id(v) for v in o.vertical.data])
    if not same:
        bad("dual_involutive", "dual of dual is not the original frame", height=[o.height, oo.height], width=[o.width, oo.width])


def search_one(ctx, cls, h, w):
    r = vlib.guarded(lambda: build((cls, 0, h, w)))
    tag = "%s%dx%d" % (cls, h, w)
    if r[0] != "ok":
        ctx.violation(tag + ":ctor", "constructor raised", {"frame": tag, "cls": cls, "h": h, "w": w, "got": r[1]})
        return
    o, s = r[1]
    if cls == "F":
        check_frame(ctx, tag, o, h, w)
    else:
        check_inner(ctx, tag, o, h, w)
    check_involution(ctx, tag, o)


def search(ctx):
    n = 7 if (ctx.thorough or getattr(ctx, "deep", False)) else 5
    for h in range(n):
        for w in range(n):
            search_one(ctx, "F", h, w)
    for H in range(1, n + 1):
        for W in range(1, n + 1):
            search_one(ctx, "I", H, W)
    for (h, w) in ([(1, 9), (9, 1), (0, 8), (8, 0), (7, 8)] if not ctx.thorough else [(1, 12), (12, 1), (0, 11), (11, 0), (9, 10), (10, 9)]):
        search_one(ctx, "F", h, w)
        search_one(ctx, "I", h + 1, w + 1)


def replay(ctx, rp):
    import re
    print(rp)
    v = rp.get("violation", {})
    m = re.match(r"([FI])(\d+)x(\d+)", v.get("key", ""))
    if not m:
        return 0
    search_one(ctx, m.group(1), int(m.group(2)), int(m.group(3)))
    for x in ctx.violations:
        print("violation:", x["key"], x["what"], x["detail"])
    return 1 if ctx.violations else 0
