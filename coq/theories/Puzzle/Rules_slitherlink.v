(* C11 rule specification - Slitherlink.
   Published rules (Nikoli, "Slitherlink"):
     1. Connect adjacent dots with vertical or horizontal lines to make a single loop.
     2. The numbers indicate how many lines surround it, while empty cells may be
        surrounded by any number of lines.
     3. The loop never crosses itself and never branches off.
   Library convention (cspuz.graph.active_edges_single_cycle): drawing no line at
   all also counts as a loop.

   problem = [[h; w]; clues]   clues: h*w cells row-major, value >= 0 is a number, negative is empty
   answer  = the segments between the (h+1) x (w+1) dots, numbered as in
             PuzzleBase.lattice (horizontal ones row by row, then vertical ones) *)
From Coq Require Import ZArith List Bool Arith.
From Cspuz Require Import Graph.GraphModel Puzzle.PuzzleBase.
Import ListNotations.

Definition rules_slitherlink (pb : problem) (ans : answer) : bool :=
  let h := dim pb 0 in let w := dim pb 1 in
  let clues := sec pb 1 in
  let P := S h in let Q := S w in
  let on := fun k => isb (getz ans k) in
  Nat.eqb (length ans) (n_lattice_edges P Q) && forallb is01 ans &&
  single_loop_b (lattice P Q) on &&
  forallb (fun '(y, x) =>
             let c := at2 clues w y x in
             (c <? 0)%Z ||
             (zcount on [hseg P Q y x; hseg P Q (S y) x; vseg P Q y x; vseg P Q y (S x)] =? c)%Z)
          (cells h w).

Definition answers_slitherlink (pb : problem) : list answer :=
  all_answers (bool_doms (n_lattice_edges (S (dim pb 0)) (S (dim pb 1)))).
