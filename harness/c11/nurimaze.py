"""C11 plug-in: nurimaze (solve_nurimaze(height, width, wall_vertical, wall_horizontal, mark, start, goal)).

wall_vertical[y][x] (h rows of w-1) / wall_horizontal[y][x] (h-1 rows of w): 1 = bold line (tile border) right of /
below cell (y, x); mark[y][x]: 0 empty, 1 circle (on the route), 2 triangle (off the route); start / goal: (y, x).
A well-formed puzzle has S and G in two different cells of the board (Rules_nurimaze.v); the search families also
contain problems with S = G or with exactly one of S, G off the board (no solution by the rules; the solver agrees);
problems with both S and G off the board are malformed and only appear in the program-capture tie."""
import c11lib as L

NAME = "nurimaze"
MODULE = "cspuz.puzzle.nurimaze"
FUNC = "solve_nurimaze"
TIER1 = ("Nurimaze", "solve_nurimaze_model")
TIER1_PRIM = ("NurimazePrim", "solve_nurimaze_model_prim")
MAX_ANSWERS = 70000


def call(mod, pb):
    return mod.solve_nurimaze(pb["h"], pb["w"], pb["wv"], pb["wh"], pb["mark"], tuple(pb["s"]), tuple(pb["g"]))


def ncand(pb):
    return 2 ** (pb["h"] * pb["w"])


def encode(pb):
    return [[pb["h"], pb["w"]], L.flat(pb["wv"]), L.flat(pb["wh"]), L.flat(pb["mark"]), list(pb["s"]) + list(pb["g"])]


# ---------------------------------------------------------------- generators

def _cells(h, w):
    return [(y, x) for y in range(h) for x in range(w)]


def _walls(h, w, bits):
    """wall arrays from a flat bit list of length h*(w-1) + (h-1)*w"""
    nv = h * (w - 1) if w > 0 else 0
    wv = [list(bits[y * (w - 1):(y + 1) * (w - 1)]) for y in range(h)]
    wh = [list(bits[nv + y * w: nv + (y + 1) * w]) for y in range(h - 1)]
    return wv, wh


def _nwalls(h, w):
    return max(0, h * (w - 1)) + max(0, (h - 1) * w)


def _random_walls(rng, h, w, p):
    return _walls(h, w, [1 if rng.random() < p else 0 for _ in range(_nwalls(h, w))])


def _pb(h, w, wv, wh, mark, s, g, **kw):
    d = {"h": h, "w": w, "wv": wv, "wh": wh, "mark": mark, "s": list(s), "g": list(g)}
    d.update(kw)
    return d


def _all_small(h, w):
    """every wall layout, every mark layout, every ordered pair of different S / G cells"""
    import itertools
    cs = _cells(h, w)
    for bits in itertools.product([0, 1], repeat=_nwalls(h, w)):
        wv, wh = _walls(h, w, bits)
        for mark in L.all_grids(h, w, [0, 1, 2]):
            for s in cs:
                for g in cs:
                    if s != g:
                        yield _pb(h, w, wv, wh, mark, s, g)


def _uniform_small(rng, h, w, k):
    """k problems drawn uniformly from _all_small(h, w) (which is too long to materialise for 6 cells)"""
    cs = _cells(h, w)
    for _ in range(k):
        wv, wh = _walls(h, w, [rng.randint(0, 1) for _ in range(_nwalls(h, w))])
        mark = [[rng.choice([0, 1, 2]) for _ in range(w)] for _ in range(h)]
        s = rng.choice(cs)
        g = rng.choice([c for c in cs if c != s])
        yield _pb(h, w, wv, wh, mark, s, g)


def _random_problem(rng, h, w):
    cs = _cells(h, w)
    s = rng.choice(cs)
    g = rng.choice([c for c in cs if c != s]) if len(cs) > 1 else s
    wv, wh = _random_walls(rng, h, w, rng.choice([0.5, 0.8, 1.0, 1.0]))
    k = rng.choice([0, 0, 1, 1, 2, 3, h * w])
    mark = [[0] * w for _ in range(h)]
    for (y, x) in rng.sample(cs, min(k, len(cs))):
        mark[y][x] = rng.choice([1, 2])
    return _pb(h, w, wv, wh, mark, s, g)


def _winding_rooms(rng, h, w):
    """a problem whose tiles are a few large winding rooms (walls exactly between different rooms of a random partition
    into 2-4 connected rooms; sometimes a wall stub inside a room is added): room shapes with several arms, which no
    random wall pattern produces"""
    rooms = L.random_rooms(rng, h, w, rng.choice([2, 2, 3, 3, 4]))
    rid = {}
    for i, r in enumerate(rooms):
        for (y, x) in r:
            rid[(y, x)] = i
    wv = [[1 if rid[(y, x)] != rid[(y, x + 1)] else 0 for x in range(w - 1)] for y in range(h)]
    wh = [[1 if rid[(y, x)] != rid[(y + 1, x)] else 0 for x in range(w)] for y in range(h - 1)]
    if rng.random() < 0.3 and h > 1:
        y, x = rng.randrange(h - 1), rng.randrange(w)
        wh[y][x] = 1                       # a dangling wall segment inside a room changes nothing
    cs = _cells(h, w)
    s = rng.choice(cs)
    g = rng.choice([c for c in cs if c != s])
    mark = [[0] * w for _ in range(h)]
    for (y, x) in rng.sample(cs, rng.choice([0, 0, 1, 2])):
        if (y, x) not in (s, g):
            mark[y][x] = rng.choice([1, 2])
    return _pb(h, w, wv, wh, mark, s, g)


def _comb_rooms(rng, h, w, up=True):
    """one room made of a full row (the bottom one, or the top one) and teeth on every other column reaching to the
    opposite side; every other cell is a room of its own or joins the cell below / above it.  In row-major order the
    teeth of an upward comb appear as separate pieces that are joined only by the last row."""
    base = h - 1 if up else 0
    comb = {(base, x) for x in range(w)}
    for x in range(0, w, 2):
        for y in range(h):
            comb.add((y, x))
    rid = {}
    nxt = 1
    for y in range(h):
        for x in range(w):
            if (y, x) in comb:
                rid[(y, x)] = 0
            elif y > 0 and (y - 1, x) not in comb and rng.random() < 0.5:
                rid[(y, x)] = rid[(y - 1, x)]
            else:
                rid[(y, x)] = nxt
                nxt += 1
    wv = [[1 if rid[(y, x)] != rid[(y, x + 1)] else 0 for x in range(w - 1)] for y in range(h)]
    wh = [[1 if rid[(y, x)] != rid[(y + 1, x)] else 0 for x in range(w)] for y in range(h - 1)]
    cs = _cells(h, w)
    s = rng.choice(cs)
    g = rng.choice([c for c in cs if c != s])
    return _pb(h, w, wv, wh, [[0] * w for _ in range(h)], s, g)


def _hook_rooms(rng, h, w):
    """one room made of a full column, a full row meeting it in a corner, and one or two single cells hanging off the row
    towards the inside (a hook whose pieces meet only late in any scan order); the whole board is then mirrored /
    transposed at random; the other cells form rooms of one or two cells"""
    room = {(y, w - 1) for y in range(h)} | {(h - 1, x) for x in range(w)}
    for c in rng.sample(range(1, w - 1), min(rng.choice([1, 1, 2]), max(0, w - 2))):
        if h >= 3:
            room.add((h - 2, c))
    rid, nxt = {}, 1
    for y in range(h):
        for x in range(w):
            if (y, x) in room:
                rid[(y, x)] = 0
            elif x > 0 and (y, x - 1) not in room and rng.random() < 0.4:
                rid[(y, x)] = rid[(y, x - 1)]
            else:
                rid[(y, x)] = nxt
                nxt += 1
    fy, fx, tr = rng.random() < 0.5, rng.random() < 0.5, (rng.random() < 0.5)

    def src(y, x):
        yy, xx = (h - 1 - y if fy else y), (w - 1 - x if fx else x)
        return rid[(yy, xx)]
    H, W = h, w
    get = src
    if tr:
        H, W = w, h
        get = lambda y, x: src(x, y)     # noqa: E731
    wv = [[1 if get(y, x) != get(y, x + 1) else 0 for x in range(W - 1)] for y in range(H)]
    wh = [[1 if get(y, x) != get(y + 1, x) else 0 for x in range(W)] for y in range(H - 1)]
    cs = _cells(H, W)
    s_ = rng.choice(cs)
    g_ = rng.choice([c for c in cs if c != s_])
    return _pb(H, W, wv, wh, [[0] * W for _ in range(H)], s_, g_)


def _nbrs(h, w, c):
    y, x = c
    return [(y + dy, x + dx) for dy, dx in ((-1, 0), (1, 0), (0, -1), (0, 1)) if 0 <= y + dy < h and 0 <= x + dx < w]


def _grow_maze(rng, h, w, tries=200):
    """a random set of unshaded cells that is a tree (orthogonal adjacency), with no 2x2 block entirely shaded
    (a tree never contains an entirely unshaded 2x2 block); None when the random growth gets stuck"""
    for _ in range(tries):
        white = {rng.choice(_cells(h, w))}
        while True:
            blocks = [(y, x) for y in range(h - 1) for x in range(w - 1)
                      if not ({(y, x), (y + 1, x), (y, x + 1), (y + 1, x + 1)} & white)]
            if not blocks and rng.random() < 0.4:
                return white
            cand = [c for c in _cells(h, w) if c not in white and sum(1 for d in _nbrs(h, w, c) if d in white) == 1]
            if blocks:
                near = [c for c in cand if any(abs(c[0] - b[0] - 0.5) <= 1.5 and abs(c[1] - b[1] - 0.5) <= 1.5 for b in blocks)]
                cand = near or cand
            if not cand:
                if not blocks:
                    return white
                break
            white.add(rng.choice(cand))
    return None


def _route(h, w, white, s, g):
    prev = {s: None}
    todo = [s]
    while todo:
        c = todo.pop()
        for d in _nbrs(h, w, c):
            if d in white and d not in prev:
                prev[d] = c
                todo.append(d)
    out = []
    c = g
    while c is not None:
        out.append(c)
        c = prev[c]
    return out


def _planted(rng, h, w, many_marks=False):
    """a problem built around a maze that obeys the rules: bold lines everywhere except between some equally
    coloured neighbours, circles on the route and triangles off it"""
    white = _grow_maze(rng, h, w)
    if white is None or len(white) < 2:
        return None
    ws = sorted(white)
    s = rng.choice(ws)
    g = rng.choice([c for c in ws if c != s])
    route = set(_route(h, w, white, s, g))
    wv = [[1] * (w - 1) for _ in range(h)]
    wh = [[1] * w for _ in range(h - 1)]
    p_open = rng.choice([0.0, 0.3, 0.7])
    for (y, x) in _cells(h, w):
        if x + 1 < w and ((y, x) in white) == ((y, x + 1) in white) and rng.random() < p_open:
            wv[y][x] = 0
        if y + 1 < h and ((y, x) in white) == ((y + 1, x) in white) and rng.random() < p_open:
            wh[y][x] = 0
    mark = [[0] * w for _ in range(h)]
    pm = 0.9 if many_marks else rng.choice([0.0, 0.2, 0.5])
    for (y, x) in ws:
        if rng.random() < pm:
            mark[y][x] = 1 if (y, x) in route else 2
    ans = [1 if (y, x) in white else 0 for (y, x) in _cells(h, w)]
    return _pb(h, w, wv, wh, mark, s, g, planted=[ans])


def _strip(pb):
    return {k: v for k, v in pb.items() if k != "planted"}


def families(tier, rng):
    th = tier == "thorough"
    for (h, w) in [(1, 1)]:
        yield _pb(h, w, [[]], [], [[0]], (0, 0), (0, 0))
        yield _pb(h, w, [[]], [], [[1]], (0, 0), (0, 0))
    for (h, w) in [(1, 2), (2, 1), (1, 3), (3, 1)]:
        yield from _all_small(h, w)
    for (h, w) in [(2, 2)]:
        yield from L.sample(rng, _all_small(h, w), 3000 if th else 300)
    for (h, w) in [(1, 4), (4, 1)]:
        yield from L.sample(rng, _all_small(h, w), 1500 if th else 150)
    for (h, w) in [(2, 3), (3, 2)]:
        yield from _uniform_small(rng, h, w, 1500 if th else 150)
    # S = G, or exactly one of S / G off the board: no solution by the rules
    for (h, w) in [(1, 2), (2, 2), (2, 3), (3, 3)]:
        for _ in range(10 if th else 3):
            pb = _random_problem(rng, h, w)
            yield dict(pb, g=pb["s"])
            yield dict(pb, s=[rng.choice([-1, h]), 0])
            yield dict(pb, g=[0, rng.choice([-1, w])])
    for (h, w) in [(2, 4), (4, 2), (3, 3), (1, 6), (6, 1), (3, 4), (4, 3), (2, 6), (3, 5), (5, 3), (4, 4), (2, 8)]:
        for _ in range(60 if th else 8):
            yield _random_problem(rng, h, w)
        for i in range(120 if th else 16):
            pb = _planted(rng, h, w, many_marks=(i % 4 == 0))
            if pb is not None:
                yield _strip(pb)
    for (h, w) in ([(3, 3), (3, 4), (4, 3), (4, 4), (3, 5), (5, 3)] if th else [(3, 3), (3, 4), (4, 3)]):
        for _ in range(40 if th else 6):
            yield _winding_rooms(rng, h, w)
    for (h, w) in ([(3, 4), (3, 5), (4, 4)] if th else [(3, 4)]):
        for _ in range(24 if th else 10):
            yield _hook_rooms(rng, h, w)
    for (h, w) in ([(2, 5), (3, 5), (2, 7), (3, 4), (4, 3)] if th else [(2, 5), (3, 4)]):
        for up in (True, False):
            for _ in range(4 if th else 2):
                yield _comb_rooms(rng, h, w, up)
    # no clue at all / every wall / no wall
    for (h, w) in [(2, 3), (3, 3), (3, 4)]:
        for p in (0.0, 1.0):
            wv, wh = _random_walls(rng, h, w, p)
            yield _pb(h, w, wv, wh, [[0] * w for _ in range(h)], (0, 0), (h - 1, w - 1))
            yield _pb(h, w, wv, wh, [[0] * w for _ in range(h)], (0, w - 1), (0, 0))


def tier2(tier, rng):
    th = tier == "thorough"
    for (h, w) in [(1, 2), (2, 1)]:
        yield from _all_small(h, w)
    for (h, w) in [(1, 3), (3, 1)]:
        yield from L.sample(rng, _all_small(h, w), 40 if th else 6)
    for (h, w) in [(2, 2)]:
        yield from L.sample(rng, _all_small(h, w), 30 if th else 4)
        for _ in range(10 if th else 2):
            pb = _planted(rng, h, w)
            if pb is not None:
                yield _strip(pb)


def big(tier, rng):
    """1 x N / N x 1 boards (N in 19..25), every cell its own tile: the unshaded cells are an interval containing
    S, G and every marked cell; the solutions are counted directly.  5x5 .. 4x7 boards around a planted maze."""
    th = tier == "thorough"
    for n in (L.LONG if th else L.sample(rng, L.LONG, 3) + [21]):
        a = rng.randint(0, 3)
        b = n - 1 - rng.randint(0, 3)
        lo, hi = a, b
        row = [0] * n
        for x in rng.sample(range(a + 1, b), 3):
            row[x] = 1
        if rng.random() < 0.5 and a > 0:
            lo = rng.randint(0, a - 1)
            row[lo] = 2
        if rng.random() < 0.5 and b < n - 1:
            hi = rng.randint(b + 1, n - 1)
            row[hi] = 2
        nsol = (lo + 1) * (n - hi)
        ans = [1 if lo <= x <= hi else 0 for x in range(n)]
        s, g = ((0, a), (0, b)) if rng.random() < 0.5 else ((0, b), (0, a))
        yield _pb(1, n, [[1] * (n - 1)], [], [row], s, g, planted=[ans, [1] * n], n_solutions=nsol)
        yield _pb(n, 1, [[] for _ in range(n)], [[1] for _ in range(n - 1)], [[v] for v in row],
                  (s[1], 0), (g[1], 0), planted=[ans, [1] * n], n_solutions=nsol)
        # a triangle between S and G: no solution
        bad = list(row)
        bad[rng.randint(a + 1, b - 1)] = 2
        yield _pb(1, n, [[1] * (n - 1)], [], [bad], s, g, n_solutions=0)
    for (h, w) in [(5, 5), (4, 6), (6, 4), (4, 7), (5, 6)]:
        for i in range(12 if th else 3):
            pb = _planted(rng, h, w, many_marks=(i % 2 == 0))
            if pb is not None:
                yield pb


def tier1_problems(tier, rng):
    """program-capture tie: every problem of the tiniest boards (incl. S = G), random and planted problems on small,
    non-square, single-row / single-column and larger boards, mark values outside {0, 1, 2}, S / G off the board,
    boards without cells (ValueError), arrays with missing rows (IndexError)"""
    th = tier == "thorough"
    yield _pb(1, 1, [[]], [], [[0]], (0, 0), (0, 0))
    yield _pb(1, 1, [[]], [], [[2]], (0, 0), (0, 0))
    for (h, w) in [(1, 2), (2, 1)]:
        for pb in _all_small(h, w):
            yield pb
            if rng.random() < 0.2:
                yield dict(pb, g=pb["s"])
    for (h, w) in [(1, 3), (3, 1), (2, 2)]:
        yield from L.sample(rng, _all_small(h, w), 300 if th else 40)
    for (h, w) in [(2, 3), (3, 2)]:
        yield from _uniform_small(rng, h, w, 300 if th else 40)
    for (h, w) in [(2, 3), (3, 2), (3, 3), (2, 5), (5, 2), (4, 4), (3, 6), (6, 5), (1, 7), (7, 1), (8, 8), (10, 10)]:
        for i in range(9 if th else 3):
            pb = _random_problem(rng, h, w)
            yield pb
            cs = _cells(h, w)
            (y, x) = rng.choice(cs)
            pb2 = _random_problem(rng, h, w)
            pb2["mark"][y][x] = rng.choice([-1, 3, 7])
            yield pb2
            q = _planted(rng, h, w, many_marks=(i % 2 == 0)) if h * w <= 36 else None
            if q is not None:
                yield _strip(q)
        pb = _random_problem(rng, h, w)
        yield dict(pb, s=[-1, 0])
        yield dict(pb, g=[h, w - 1])
        yield dict(pb, s=[0, w], g=[-1, -1])
        yield dict(pb, g=pb["s"])
    for (h, w) in [(0, 0), (0, 2), (2, 0)]:
        yield _pb(h, w, [[] for _ in range(h)], [[] for _ in range(max(0, h - 1))], [[] for _ in range(h)], (0, 0), (1, 1))
    for (h, w) in [(2, 2), (3, 2), (2, 4)]:
        pb = _random_problem(rng, h, w)
        yield dict(pb, mark=pb["mark"][:-1])
        yield dict(pb, wv=pb["wv"][:-1])
        yield dict(pb, wh=pb["wh"][:-1])
