(* C10 — what active_edges_connected_crossable posts before it calls
   active_vertices_connected (the declarations of the five auxiliary arrays and
   the local degree constraints), and what those constraints mean. *)
From Coq Require Import ZArith List Bool Arith Lia.
From Cspuz Require Import Lib.PyErr Core.Expr Core.Program Core.Build
  Graph.GraphModel Graph.ReachProofs Graph.Avc Graph.AvcCert Graph.AvcSem
  Graph.Crossable Graph.CrossableGraph.
Import ListNotations.
Local Open Scope nat_scope.

(* ------------------------------------------------------------------------ *)
(* count_true_t is constraints.py::count_true on BoolExpr-like operands       *)

Lemma count_true_go_t l : forall ops c,
  forallb is_bool_expr_like l = true ->
  count_true_go l ops c = Ok (ops ++ ct_ops l, (c + ct_const l)%Z).
Proof.
  induction l as [|x l IH]; intros ops c H; simpl.
  - rewrite app_nil_r, Z.add_0_r. reflexivity.
  - simpl in H. apply andb_true_iff in H. destruct H as [Hx Hl].
    destruct x; simpl in Hx; try discriminate.
    + rewrite IH by exact Hl. destruct b; f_equal; f_equal; lia.
    + rewrite IH by exact Hl. rewrite <- app_assoc. reflexivity.
    + rewrite IH by exact Hl. rewrite <- app_assoc. reflexivity.
Qed.

Lemma count_true_t_ok l :
  forallb is_bool_expr_like l = true -> count_true l = Ok (count_true_t l).
Proof.
  intros H. unfold count_true, count_true_t. rewrite (count_true_go_t l [] 0%Z H). simpl.
  destruct (0 <? ct_const l)%Z; [|rewrite app_nil_r]; destruct (ct_ops l); reflexivity.
Qed.

Section Ev.
  Variable en : env.
  Notation ev := (eval gsem_avc en).
  Notation hd := (holds gsem_avc en).

  Lemma count_true_t_eval l (f : expr -> bool) :
    forallb is_bool_expr_like l = true ->
    (forall e, In e l -> ev e = Some (VB (f e))) ->
    ev (count_true_t l) = Some (VI (Z.of_nat (length (filter f l)))).
  Proof.
    intros Hb Hf. rewrite <- zsum_b2z_count.
    replace (map (fun x => b2z (f x)) l) with (map b2z (map f l)) by (rewrite map_map; reflexivity).
    apply (count_true_eval en l (map f l)); [|apply count_true_t_ok; exact Hb].
    rewrite map_map. apply map_ext_in. exact Hf.
  Qed.

  Lemma holds_of_ev a c : ev a = Some (VB c) -> hd a = c.
  Proof. intros H. unfold holds. rewrite H. destruct c; reflexivity. Qed.

  Lemma ev_bvar i : ev (BVar i) = Some (VB (eb en i)).
  Proof. reflexivity. Qed.

  Lemma ev_not a ca : ev a = Some (VB ca) -> ev (b_not a) = Some (VB (negb ca)).
  Proof. intros H. simpl. rewrite H. reflexivity. Qed.

  Lemma ev_and a b ca cb :
    ev a = Some (VB ca) -> ev b = Some (VB cb) -> ev (b_and a b) = Some (VB (ca && cb)).
  Proof. intros Ha Hb. simpl. rewrite Ha, Hb. simpl. rewrite andb_true_r. reflexivity. Qed.

  Lemma ev_imp a b ca cb :
    ev a = Some (VB ca) -> ev b = Some (VB cb) -> ev (b_imp a b) = Some (VB (implb ca cb)).
  Proof. intros Ha Hb. simpl. rewrite Ha, Hb. reflexivity. Qed.

  Lemma ev_iff a b ca cb :
    ev a = Some (VB ca) -> ev b = Some (VB cb) -> ev (b_iff a b) = Some (VB (Bool.eqb ca cb)).
  Proof. intros Ha Hb. simpl. rewrite Ha, Hb. reflexivity. Qed.

  Lemma ev_eq_int d z c : ev d = Some (VI z) -> ev (i_eq d (PyInt c)) = Some (VB (z =? c)%Z).
  Proof. intros H. simpl. rewrite H. reflexivity. Qed.

  Lemma ev_ge_int d z c : ev d = Some (VI z) -> ev (i_ge d (PyInt c)) = Some (VB (c <=? z)%Z).
  Proof. intros H. simpl. rewrite H. reflexivity. Qed.

  Lemma ev_le_int d z c : ev d = Some (VI z) -> ev (i_le d (PyInt c)) = Some (VB (z <=? c)%Z).
  Proof. intros H. simpl. rewrite H. reflexivity. Qed.
End Ev.

(* ------------------------------------------------------------------------ *)
(* lists                                                                      *)

Lemma forallb_loop2 {A} (P : A -> bool) a b (f : nat -> nat -> list A) :
  forallb P (loop2 a b f) = true <->
  forall y x, y < a -> x < b -> forallb P (f y x) = true.
Proof.
  rewrite forallb_forall. split.
  - intros H y x Hy Hx. apply forallb_forall. intros e He. apply H. apply in_loop2.
    exists y, x. auto.
  - intros H e He. apply in_loop2 in He. destruct He as [y [x [Hy [Hx He]]]].
    specialize (H y x Hy Hx). rewrite forallb_forall in H. apply H. exact He.
Qed.

Lemma forallb_map_seq {A} (P : A -> bool) (f : nat -> A) n :
  forallb P (map f (seq 0 n)) = true <-> forall i, i < n -> P (f i) = true.
Proof.
  rewrite forallb_forall. split.
  - intros H i Hi. apply H. apply in_map. apply in_seq. lia.
  - intros H e He. apply in_map_iff in He. destruct He as [i [<- Hi]]. apply in_seq in Hi.
    apply H. lia.
Qed.

Lemma zip_with_map {A B} (f : A -> A -> A) (g1 g2 : B -> A) l :
  zip_with f (map g1 l) (map g2 l) = map (fun i => f (g1 i) (g2 i)) l.
Proof. unfold zip_with. induction l as [|a l IH]; [reflexivity|]. simpl. rewrite IH. reflexivity. Qed.

Lemma nth_map_seq {A} (f : nat -> A) n p d : p < n -> nth p (map f (seq 0 n)) d = f p.
Proof.
  intros Hp. rewrite (nth_indep _ d (f 0)) by (rewrite map_length, seq_length; exact Hp).
  rewrite map_nth. rewrite seq_nth by exact Hp. reflexivity.
Qed.

(* ------------------------------------------------------------------------ *)
(* the declarations and the local constraints, explicitly                     *)

Definition bvars (k n : nat) : list expr := map (fun i => BVar (k + i)) (seq 0 n).

Definition local_cons (fr : frame) (sc : bool) (k : nat) : list expr :=
  let n := (fh fr + 1) * (fw fr + 1) in
  let passed := bvars k n in
  let cross := bvars (k + n) n in
  let single := bvars (k + 2 * n) n in
  let dh := bvars (k + 3 * n) n in
  let dv := bvars (k + 4 * n) n in
  zip_with b_imp cross passed ++
  loop2 (fh fr + 1) (fw fr + 1) (point_cons fr sc passed cross) ++
  zip_with b_iff single (zip_with b_and passed (map b_not cross)) ++
  zip_with b_iff dh cross ++
  zip_with b_iff dv cross.

Definition split_acts (fr : frame) (k : nat) : list expr :=
  let n := (fh fr + 1) * (fw fr + 1) in
  split_actives fr (bvars (k + 2 * n) n) (bvars (k + 3 * n) n) (bvars (k + 4 * n) n).

Lemma next_id_ensure st l : next_id (ensure st l) = next_id st.
Proof. reflexivity. Qed.

Lemma post_crossable_body_spec st fr sc prim st' ps cr :
  post_crossable_body st fr sc prim = Ok (st', (ps, cr)) ->
  let n := (fh fr + 1) * (fw fr + 1) in
  let k := next_id st in
  ps = bvars k n /\ cr = bvars (k + n) n /\
  exists st10,
    vars st10 = vars st ++ repeat DBool (5 * n) /\
    keys st10 = keys st ++ repeat false (5 * n) /\
    cons st10 = cons st ++ local_cons fr sc k /\
    post_avc st10 (split_acts fr k) (split_graph (fh fr + 1) (fw fr + 1)) false prim = Ok st'.
Proof.
  intros H n k. unfold post_crossable_body in H. cbv zeta in H. fold n in H.
  unfold bool_array in H.
  destruct (bool_vars st n) as [st1 passed] eqn:E1.
  destruct (bool_vars st1 n) as [st2 cross] eqn:E2.
  set (st4 := ensure (ensure st2 (zip_with b_imp cross passed))
                     (loop2 (fh fr + 1) (fw fr + 1) (point_cons fr sc passed cross))) in H.
  destruct (bool_vars st4 n) as [st5 single] eqn:E5.
  destruct (bool_vars st5 n) as [st6 dh] eqn:E6.
  destruct (bool_vars st6 n) as [st7 dv] eqn:E7.
  apply bool_vars_spec in E1. destruct E1 as [P1 [V1 [C1 K1]]].
  apply bool_vars_spec in E2. destruct E2 as [P2 [V2 [C2 K2]]].
  apply bool_vars_spec in E5. destruct E5 as [P5 [V5 [C5 K5]]].
  apply bool_vars_spec in E6. destruct E6 as [P6 [V6 [C6 K6]]].
  apply bool_vars_spec in E7. destruct E7 as [P7 [V7 [C7 K7]]].
  assert (N1 : next_id st1 = k + n).
  { unfold next_id. rewrite V1, app_length, repeat_length. reflexivity. }
  assert (N4 : next_id st4 = k + 2 * n).
  { unfold st4. rewrite !next_id_ensure. unfold next_id. rewrite V2, V1, !app_length, !repeat_length.
    unfold k, next_id. lia. }
  assert (N5 : next_id st5 = k + 3 * n).
  { unfold next_id. rewrite V5, app_length, repeat_length. fold (next_id st4). lia. }
  assert (N6 : next_id st6 = k + 4 * n).
  { unfold next_id. rewrite V6, app_length, repeat_length. fold (next_id st5). lia. }
  rewrite N1 in P2. rewrite N4 in P5. rewrite N5 in P6. rewrite N6 in P7.
  fold (bvars k n) in P1. fold (bvars (k + n) n) in P2. fold (bvars (k + 2 * n) n) in P5.
  fold (bvars (k + 3 * n) n) in P6. fold (bvars (k + 4 * n) n) in P7.
  match type of H with
  | match post_avc ?s ?a ?g false prim with _ => _ end = _ =>
      destruct (post_avc s a g false prim) as [st11|e] eqn:EA; [|discriminate]
  end.
  inversion H; subst st' ps cr. clear H.
  split; [exact P1|]. split; [exact P2|].
  eexists. split; [|split; [|split; [|subst single dh dv; exact EA]]].
  - simpl. rewrite V7, V6, V5. unfold st4. simpl. rewrite V2, V1, <- !app_assoc.
    f_equal. rewrite <- !repeat_app. f_equal. lia.
  - simpl. rewrite K7, K6, K5. unfold st4. simpl. rewrite K2, K1, <- !app_assoc.
    f_equal. rewrite <- !repeat_app. f_equal. lia.
  - simpl. rewrite C7, C6, C5. unfold st4. simpl. rewrite C2, C1, <- !app_assoc.
    unfold local_cons. fold n. subst passed cross single dh dv. reflexivity.
Qed.

(* ------------------------------------------------------------------------ *)
(* meaning of the local constraints                                           *)

Lemma filter_map_len {A B} (f : B -> bool) (g : A -> B) l :
  length (filter f (map g l)) = length (filter (fun a => f (g a)) l).
Proof. induction l as [|a l IH]; [reflexivity|]. simpl. destruct (f (g a)); simpl; rewrite IH; reflexivity. Qed.

(* the boolean content of the constraints posted for one lattice point *)
Definition point_ok (bd sc pa pc : bool) (dz : Z) : bool :=
  forallb (fun b : bool => b)
    ((if bd then [negb pc] else []) ++
     [implb (negb pa) (dz =? 0)%Z; implb (pa && pc) (dz =? 4)%Z] ++
     (if sc then [implb (pa && negb pc) (dz =? 2)%Z]
      else [implb (pa && negb pc) (1 <=? dz)%Z; implb (pa && negb pc) (dz <=? 2)%Z])).

Lemma point_ok_iff bd sc pa pc d :
  d <= 4 -> (bd = true -> d <> 4) ->
  (implb pc pa && point_ok bd sc pa pc (Z.of_nat d) = true <->
   pa = Nat.ltb 0 d /\ pc = Nat.eqb d 4 /\
   (d = 0 \/ (sc = false /\ d = 1) \/ d = 2 \/ d = 4)).
Proof.
  intros Hd Hb.
  destruct d as [|[|[|[|[|d]]]]]; [| | | | |lia];
    destruct bd, sc, pa, pc; try (exfalso; apply Hb; reflexivity);
    vm_compute; (split; [intros H; try discriminate H; repeat split; try reflexivity; tauto
                        |intros [H1 [H2 H3]]; try discriminate H1; try discriminate H2; try reflexivity;
                         exfalso; destruct H3 as [H3|[[H3 H4]|[H3|H3]]]; discriminate]).
Qed.

Section Local.
  Variable fr : frame.
  Variable sc : bool.
  Variable k : nat.
  Variable en : env.
  Notation h := (fh fr).
  Notation w := (fw fr).
  Notation n := ((fh fr + 1) * (fw fr + 1)).
  Notation ev := (eval gsem_avc en).
  Notation hd := (holds gsem_avc en).
  Notation act := (seg_pattern en fr).

  Hypothesis Hshape : frame_shaped fr = true.
  Hypothesis Hbl : forallb is_bool_expr_like (hor fr ++ ver fr) = true.
  Hypothesis Hdef : forall e, In e (hor fr ++ ver fr) -> exists b, ev e = Some (VB b).

  Lemma shape_lengths : length (hor fr) = (h + 1) * w /\ length (ver fr) = h * (w + 1).
  Proof.
    unfold frame_shaped in Hshape. apply andb_true_iff in Hshape. destruct Hshape as [H1 H2].
    apply Nat.eqb_eq in H1. apply Nat.eqb_eq in H2. split; assumption.
  Qed.

  Lemma seg_expr_in s : seg_in h w s = true -> In (seg_expr fr s) (hor fr ++ ver fr).
  Proof.
    destruct shape_lengths as [Lh Lv]. destruct s as [[|] y x]; intros Hs; apply in_or_app.
    - right. apply seg_in_v in Hs. simpl. unfold ver_at. apply nth_In. rewrite Lv.
      apply rowmajor_lt; lia.
    - left. apply seg_in_h in Hs. simpl. unfold hor_at. apply nth_In. rewrite Lh.
      apply rowmajor_lt; lia.
  Qed.

  Lemma seg_expr_ev s : seg_in h w s = true -> ev (seg_expr fr s) = Some (VB (act s)).
  Proof.
    intros Hs. destruct (Hdef _ (seg_expr_in s Hs)) as [b Hb].
    unfold seg_pattern. rewrite (holds_of_ev en _ _ Hb). exact Hb.
  Qed.

  Lemma seg_expr_bool_like s : seg_in h w s = true -> is_bool_expr_like (seg_expr fr s) = true.
  Proof.
    intros Hs. rewrite forallb_forall in Hbl. apply Hbl. apply seg_expr_in. exact Hs.
  Qed.

  Lemma vertex_neighbors_segs y x :
    vertex_neighbors fr y x = map (seg_expr fr) (segs_at h w (y, x)).
  Proof.
    unfold vertex_neighbors, segs_at. rewrite !map_app.
    destruct (Nat.ltb 0 y), (Nat.ltb y h), (Nat.ltb 0 x), (Nat.ltb x w); reflexivity.
  Qed.

  Lemma degree_expr_ev y x :
    y <= h -> x <= w ->
    ev (count_true_t (vertex_neighbors fr y x)) = Some (VI (Z.of_nat (deg h w act (y, x)))).
  Proof.
    intros Hy Hx. rewrite vertex_neighbors_segs.
    rewrite (count_true_t_eval en _ hd).
    - unfold deg. rewrite filter_map_len. reflexivity.
    - apply forallb_forall. intros e He. apply in_map_iff in He. destruct He as [s [<- Hs]].
      apply seg_expr_bool_like. apply (segs_at_spec h w y x s Hy Hx) in Hs. apply Hs.
    - intros e He. apply in_map_iff in He. destruct He as [s [<- Hs]].
      apply (segs_at_spec h w y x s Hy Hx) in Hs. rewrite (seg_expr_ev s (proj1 Hs)).
      unfold seg_pattern. reflexivity.
  Qed.

  Ltac ev_tac Hd :=
    repeat first [ apply ev_bvar | eapply ev_not | eapply ev_and | eapply ev_imp | eapply ev_iff
                 | eapply ev_eq_int | eapply ev_ge_int | eapply ev_le_int | exact Hd ].

  Definition on_border (y x : nat) : bool :=
    Nat.eqb y 0 || Nat.eqb y h || Nat.eqb x 0 || Nat.eqb x w.

  Lemma point_cons_eval y x :
    y <= h -> x <= w ->
    forallb hd (point_cons fr sc (bvars k n) (bvars (k + n) n) y x) =
    point_ok (on_border y x) sc (eb en (k + (y * (w + 1) + x))) (eb en (k + n + (y * (w + 1) + x)))
             (Z.of_nat (deg h w act (y, x))).
  Proof.
    intros Hy Hx. pose proof (degree_expr_ev y x Hy Hx) as Hd.
    assert (Hp : y * (w + 1) + x < n) by (apply rowmajor_lt; lia).
    unfold point_cons, bvars, on_border. rewrite !(nth_map_seq _ _ _ _ Hp), !Nat.add_sub.
    set (d := count_true_t (vertex_neighbors fr y x)) in *.
    set (a := k + (y * (w + 1) + x)). set (c := k + n + (y * (w + 1) + x)).
    unfold point_ok.
    destruct (Nat.eqb y 0 || Nat.eqb y h || Nat.eqb x 0 || Nat.eqb x w); destruct sc;
      cbn [app forallb];
      repeat (erewrite (holds_of_ev en) by (ev_tac Hd)); reflexivity.
  Qed.

  Lemma border_not4 y x :
    y <= h -> x <= w -> on_border y x = true -> deg h w act (y, x) <> 4.
  Proof.
    intros Hy Hx Hb H4. apply deg4_interior in H4. unfold interior in H4. simpl in H4.
    unfold on_border in Hb. rewrite !orb_true_iff, !Nat.eqb_eq in Hb. lia.
  Qed.

  (* the values the auxiliary arrays must take *)
  Definition outputs_ok : Prop :=
    forall y x, y <= h -> x <= w ->
      let p := y * (w + 1) + x in
      eb en (k + p) = visited h w act (y, x) /\
      eb en (k + n + p) = crossing h w act (y, x) /\
      eb en (k + 2 * n + p) = (visited h w act (y, x) && negb (crossing h w act (y, x))) /\
      eb en (k + 3 * n + p) = crossing h w act (y, x) /\
      eb en (k + 4 * n + p) = crossing h w act (y, x).

  Lemma eqb_true_eq a b : Bool.eqb a b = true <-> a = b.
  Proof. apply Bool.eqb_true_iff. Qed.

  Lemma local_cons_iff :
    forallb hd (local_cons fr sc k) = true <-> degree_rule h w act sc /\ outputs_ok.
  Proof.
    unfold local_cons, bvars.
    rewrite map_map, !zip_with_map, !forallb_app, !andb_true_iff, forallb_loop2, !forallb_map_seq.
    fold (bvars k n). fold (bvars (k + n) n).
    split.
    - intros [A [B [C [D E]]]].
      assert (Hpt : forall y x, y <= h -> x <= w ->
                eb en (k + (y * (w + 1) + x)) = visited h w act (y, x) /\
                eb en (k + n + (y * (w + 1) + x)) = crossing h w act (y, x) /\
                (deg h w act (y, x) = 0 \/ (sc = false /\ deg h w act (y, x) = 1) \/
                 deg h w act (y, x) = 2 \/ deg h w act (y, x) = 4)).
      { intros y x Hy Hx.
        assert (Hp : y * (w + 1) + x < n) by (apply rowmajor_lt; lia).
        specialize (A _ Hp). specialize (B y x ltac:(lia) ltac:(lia)).
        rewrite (point_cons_eval y x Hy Hx) in B.
        rewrite (holds_of_ev en _ _ (ev_imp en _ _ _ _ (ev_bvar en _) (ev_bvar en _))) in A.
        apply (point_ok_iff (on_border y x) sc _ _ (deg h w act (y, x)));
          [apply deg_le4|apply border_not4; assumption|].
        apply andb_true_iff. split; assumption. }
      split.
      + intros [y x] [Hy Hx]. simpl in Hy, Hx. split; [apply (Hpt y x Hy Hx)|apply deg4_interior].
      + intros y x Hy Hx p.
        assert (Hp : p < n) by (apply rowmajor_lt; lia).
        destruct (Hpt y x Hy Hx) as [P1 [P2 _]]. fold p in P1, P2.
        specialize (C _ Hp). specialize (D _ Hp). specialize (E _ Hp).
        erewrite (holds_of_ev en) in C by (ev_tac P1).
        erewrite (holds_of_ev en) in D by (ev_tac P1).
        erewrite (holds_of_ev en) in E by (ev_tac P1).
        apply Bool.eqb_prop in C. apply Bool.eqb_prop in D. apply Bool.eqb_prop in E.
        rewrite P1, P2 in C. rewrite P2 in D, E. repeat split; assumption.
    - intros [Hrule Hout]. repeat split.
      + intros p Hp. destruct (rowmajor_decode (w + 1) (h + 1) p Hp) as [y [x [Hy [Hx ->]]]].
        destruct (Hout y x ltac:(lia) ltac:(lia)) as [P1 [P2 _]].
        erewrite (holds_of_ev en) by (ev_tac P1). rewrite P1, P2.
        unfold visited, crossing. destruct (Nat.eqb_spec (deg h w act (y, x)) 4) as [->|]; reflexivity.
      + intros y x Hy Hx. rewrite (point_cons_eval y x ltac:(lia) ltac:(lia)).
        destruct (Hout y x ltac:(lia) ltac:(lia)) as [P1 [P2 _]].
        destruct (Hrule (y, x)) as [Hr _]; [split; simpl; lia|].
        assert (Hiff := point_ok_iff (on_border y x) sc (eb en (k + (y * (w + 1) + x)))
                          (eb en (k + n + (y * (w + 1) + x))) (deg h w act (y, x))
                          (deg_le4 _ _ _ _) (border_not4 y x ltac:(lia) ltac:(lia))).
        destruct Hiff as [_ Hiff]. specialize (Hiff (conj P1 (conj P2 Hr))).
        apply andb_true_iff in Hiff. apply Hiff.
      + intros p Hp. destruct (rowmajor_decode (w + 1) (h + 1) p Hp) as [y [x [Hy [Hx ->]]]].
        destruct (Hout y x ltac:(lia) ltac:(lia)) as [P1 [P2 [P3 _]]].
        erewrite (holds_of_ev en) by (ev_tac P1). apply eqb_true_eq. rewrite P1, P2, P3. reflexivity.
      + intros p Hp. destruct (rowmajor_decode (w + 1) (h + 1) p Hp) as [y [x [Hy [Hx ->]]]].
        destruct (Hout y x ltac:(lia) ltac:(lia)) as [P1 [P2 [P3 [P4 _]]]].
        erewrite (holds_of_ev en) by (ev_tac P1). apply eqb_true_eq. rewrite P2, P4. reflexivity.
      + intros p Hp. destruct (rowmajor_decode (w + 1) (h + 1) p Hp) as [y [x [Hy [Hx ->]]]].
        destruct (Hout y x ltac:(lia) ltac:(lia)) as [P1 [P2 [P3 [P4 P5]]]].
        erewrite (holds_of_ev en) by (ev_tac P1). apply eqb_true_eq. rewrite P2, P5. reflexivity.
  Qed.
End Local.
