(* util.blocks_to_block_id + util.encode_grid_segmentation (the legacy border coder of
   aquarium / star battle) and the Rooms combinator's serializer write the same text for every
   partition of a board into rooms: both write the two border bitmaps of the partition, five
   flags per character. *)
From Coq Require Import ZArith List Ascii Bool NArith Lia Sorting.Permutation.
From Cspuz Require Import Lib.PyErr Codec.Comb Codec.CombWf Codec.CombBasics Codec.CombLeaf Codec.CombRoundTrip
  Codec.RoomsGrid Codec.RoomsFill Codec.RoomsProofs Codec.Legacy Codec.LegacyProofs Codec.LegacyEq.
Import ListNotations.
Local Open Scope Z_scope.

Definition zcell (c : cell) : Z * Z := (Z.of_nat (fst c), Z.of_nat (snd c)).

(* the text of a partition: the flags between horizontally adjacent cells, then the flags
   between vertically adjacent cells, each sequence in groups of five *)
Definition rooms_text (H W : nat) (rs : list (list cell)) : str :=
  let F1 := concat (vg H W (rid_of rs)) in let F2 := concat (hg H W (rid_of rs)) in
  cbs (length F1) F1 ++ cbs (length F2) F2.

(* ------------------------------------------------------------------ blocks_to_block_id *)
(* wherever Rooms._serialize's assignment loop succeeds, the legacy loop does the same writes *)
Lemma zset_grid_set g y x v i : grid_get g y x = Ok v ->
  zset g (Z.of_nat y) (Z.of_nat x) i = Ok (grid_set g y x i).
Proof.
  unfold grid_get, nth_res. intros Hg.
  destruct (nth_error g y) as [row|] eqn:Ey; [|discriminate].
  destruct (nth_error row x) as [v'|] eqn:Ex; [|discriminate].
  assert (Hy : (y < length g)%nat) by (apply nth_error_Some; congruence).
  assert (Hx : (x < length row)%nat) by (apply nth_error_Some; congruence).
  unfold zset, wrap_index.
  destruct (Z.leb_spec 0 (Z.of_nat y)); [|lia]. destruct (Z.ltb_spec (Z.of_nat y) (Z.of_nat (length g))); [|lia].
  cbn [andb bind]. rewrite Nat2Z.id. unfold nth_res. rewrite Ey. cbn [bind].
  destruct (Z.leb_spec 0 (Z.of_nat x)); [|lia]. destruct (Z.ltb_spec (Z.of_nat x) (Z.of_nat (length row))); [|lia].
  cbn [andb bind]. rewrite Nat2Z.id. unfold grid_set. rewrite Ey. reflexivity.
Qed.

Lemma assign_block_of_cells h w i : forall post g g',
  rooms_assign_cells h w g i (map cell_to_pv post) = Ok g' ->
  assign_block g i (map zcell post) = Ok g'.
Proof.
  induction post as [|[y x] post IH]; intros g g' Hra.
  - simpl in Hra. inversion Hra; subst. reflexivity.
  - cbn [map cell_to_pv cell_pv fst snd rooms_assign_cells] in Hra.
    destruct ((0 <=? Z.of_nat y) && (Z.of_nat y <? h)); [|discriminate].
    destruct ((0 <=? Z.of_nat x) && (Z.of_nat x <? w)); [|discriminate].
    rewrite !Nat2Z.id in Hra.
    destruct (grid_get g y x) as [v|] eqn:Eg; [|discriminate].
    destruct (v =? -1); [|discriminate].
    cbn [map zcell fst snd assign_block]. rewrite (zset_grid_set g y x v i Eg). cbn [bind].
    apply IH. exact Hra.
Qed.

Lemma assign_blocks_of_rooms h w : forall rs i g g',
  rooms_assign h w g i (map room_to_pv rs) = Ok g' ->
  assign_blocks g i (map (map zcell) rs) = Ok g'.
Proof.
  induction rs as [|r rs IH]; intros i g g' Hra.
  - simpl in Hra. inversion Hra; subst. reflexivity.
  - cbn [map room_to_pv rooms_assign] in Hra.
    destruct (rooms_assign_cells h w g i (map cell_to_pv r)) as [g1|] eqn:E1; [|discriminate].
    cbn [map assign_blocks]. rewrite (assign_block_of_cells h w i r g g1 E1). cbn [bind].
    apply IH. exact Hra.
Qed.

Theorem blocks_to_block_id_valid H W rs : valid_rooms (Z.of_nat H) (Z.of_nat W) rs ->
  blocks_to_block_id (Z.of_nat H) (Z.of_nat W) (map (map zcell) rs)
  = Ok (mk_grid H W (fun y x => rid_of rs (y, x))).
Proof.
  intros Hval. unfold blocks_to_block_id.
  apply (assign_blocks_of_rooms (Z.of_nat H) (Z.of_nat W)).
  apply (assign_correct H W rs Hval).
Qed.

(* ------------------------------------------------------------------ the flags of encode_grid_segmentation *)
Lemma zget_mk H W f y x : (y < H)%nat -> (x < W)%nat ->
  zget (mk_grid H W f) (Z.of_nat y) (Z.of_nat x) = Ok (f y x).
Proof.
  intros Hy Hx. unfold zget, py_index, mk_grid.
  rewrite map_length, seq_length.
  destruct (Z.leb_spec 0 (Z.of_nat y)); [|lia]. destruct (Z.ltb_spec (Z.of_nat y) (Z.of_nat H)); [|lia].
  cbn [andb]. rewrite Nat2Z.id. unfold nth_res. rewrite nth_error_map_seq by exact Hy. cbn [bind].
  rewrite map_length, seq_length.
  destruct (Z.leb_spec 0 (Z.of_nat x)); [|lia]. destruct (Z.ltb_spec (Z.of_nat x) (Z.of_nat W)); [|lia].
  cbn [andb]. rewrite Nat2Z.id. rewrite nth_error_map_seq by exact Hx. reflexivity.
Qed.

Lemma zrange_nat n : zrange (Z.of_nat n) = map Z.of_nat (seq 0 n).
Proof. unfold zrange. rewrite Nat2Z.id. reflexivity. Qed.

(* mapM over the index pairs of an a x b block *)
Lemma mapM_pairs {B} (F : Z * Z -> res B) (G : nat -> nat -> B) a b :
  (forall y x, (y < a)%nat -> (x < b)%nat -> F (Z.of_nat y, Z.of_nat x) = Ok (G y x)) ->
  mapM F (flat_map (fun y => map (fun x => (y, x)) (map Z.of_nat (seq 0 b))) (map Z.of_nat (seq 0 a)))
  = Ok (concat (map (fun y => map (fun x => G y x) (seq 0 b)) (seq 0 a))).
Proof.
  intros HF.
  rewrite (mapM_all_ok F (fun yx => G (Z.to_nat (fst yx)) (Z.to_nat (snd yx)))).
  - f_equal. rewrite flat_map_concat_map, concat_map, !map_map. f_equal.
    apply map_ext. intros y. rewrite !map_map. apply map_ext. intros x.
    cbn [fst snd]. rewrite !Nat2Z.id. reflexivity.
  - intros [zy zx] Hin. apply in_flat_map in Hin as (zy' & Hy & Hin).
    apply in_map_iff in Hin as (zx' & E & Hx). inversion E; subst zy' zx'. clear E.
    apply in_map_iff in Hy as (y & <- & Hy). apply in_map_iff in Hx as (x & <- & Hx).
    apply in_seq in Hy, Hx. cbn [fst snd]. rewrite !Nat2Z.id. apply HF; lia.
Qed.

Lemma zrange_pred n : zrange (Z.of_nat n - 1) = map Z.of_nat (seq 0 (n - 1)).
Proof. unfold zrange. f_equal. f_equal. lia. Qed.

Lemma seg_vertical_mk H W (rid : cell -> Z) :
  seg_vertical (Z.of_nat H) (Z.of_nat W) (mk_grid H W (fun y x => rid (y, x))) = Ok (concat (vg H W rid)).
Proof.
  unfold seg_vertical. set (g := mk_grid H W (fun y x => rid (y, x))).
  rewrite zrange_pred, zrange_nat. unfold vg, mk_grid.
  apply (mapM_pairs _ (vflag rid) H (W - 1)).
  intros y x Hy Hx. cbn [fst snd].
  replace (Z.of_nat x + 1) with (Z.of_nat (x + 1)) by lia.
  unfold g. rewrite !zget_mk by lia. reflexivity.
Qed.

Lemma seg_horizontal_mk H W (rid : cell -> Z) :
  seg_horizontal (Z.of_nat H) (Z.of_nat W) (mk_grid H W (fun y x => rid (y, x))) = Ok (concat (hg H W rid)).
Proof.
  unfold seg_horizontal. set (g := mk_grid H W (fun y x => rid (y, x))).
  rewrite zrange_pred, zrange_nat. unfold hg, mk_grid.
  apply (mapM_pairs _ (hflag rid) (H - 1) W).
  intros y x Hy Hx. cbn [fst snd].
  replace (Z.of_nat y + 1) with (Z.of_nat (y + 1)) by lia.
  unfold g. rewrite !zget_mk by lia. reflexivity.
Qed.

(* ------------------------------------------------------------------ the flags are bits; their number *)
Lemma mk_grid_bits H W f : (forall y x, bit (f y x)) -> Forall (Forall bit) (mk_grid H W f).
Proof.
  intros Hf. unfold mk_grid. apply Forall_forall. intros r Hin. apply in_map_iff in Hin as (y & <- & _).
  apply Forall_forall. intros v Hv. apply in_map_iff in Hv as (x & <- & _). apply Hf.
Qed.

Lemma vflag_bit rid y x : bit (vflag rid y x).
Proof. unfold vflag, bit. destruct (rid (y, x) =? rid (y, (x + 1)%nat)); auto. Qed.

Lemma hflag_bit rid y x : bit (hflag rid y x).
Proof. unfold hflag, bit. destruct (rid (y, x) =? rid ((y + 1)%nat, x)); auto. Qed.

Lemma vg_bits H W rid : Forall (Forall bit) (vg H W rid).
Proof. apply mk_grid_bits. apply vflag_bit. Qed.

Lemma hg_bits H W rid : Forall (Forall bit) (hg H W rid).
Proof. apply mk_grid_bits. apply hflag_bit. Qed.

Lemma wfg_concat_length hh ww g : wfg hh ww g -> length (concat g) = (hh * ww)%nat.
Proof.
  intros [Hl Hr]. subst hh. induction Hr as [|r g Hrl _ IH]; [reflexivity|].
  cbn [concat length]. rewrite app_length, IH, Hrl. reflexivity.
Qed.

Lemma vg_length H W rid : length (concat (vg H W rid)) = (H * (W - 1))%nat.
Proof. apply wfg_concat_length. apply mk_grid_wfg. Qed.

Lemma hg_length H W rid : length (concat (hg H W rid)) = ((H - 1) * W)%nat.
Proof. apply wfg_concat_length. apply mk_grid_wfg. Qed.

(* ------------------------------------------------------------------ Grid(MultiDigit(2, 5), hh, ww) on a bitmap *)
Lemma grid_ser_bits e hh ww g : wfg hh ww g -> Forall (Forall bit) g ->
  grid_ser (md_ser 2 5) e (Some (Z.of_nat hh, Z.of_nat ww)) (VList [VList (grid_to_pv_rows g)]) 0
  = Ok (Some (1%nat, cbs (length (concat g)) (concat g))).
Proof.
  intros Hw Hb. pose proof (wfg_concat_length hh ww g Hw) as Hlen. destruct Hw as [Hl Hr].
  unfold grid_ser. cbn [py_items length Nat.eqb nth_res nth_error grid_dims].
  rewrite Nat2Z.id. subst hh.
  pose proof (flatten_int_rows g 0%nat [] eq_refl) as Hf. cbn [app] in Hf.
  change (grid_to_pv_rows g) with (int_rows g). rewrite Hf.
  replace (Z.of_nat (length g) * Z.of_nat ww) with (Z.of_nat (length (concat g))) by (rewrite Hlen; lia).
  assert (HF : Forall bit (concat g)) by (apply Forall_concat; exact Hb).
  destruct (bitmap_text_eq e (concat g) HF) as [_ Hs].
  exact Hs.
Qed.

(* ------------------------------------------------------------------ both encoders write rooms_text *)
Lemma rooms_ser_text H W rs skip allow : (1 <= H)%nat -> (1 <= W)%nat ->
  valid_rooms (Z.of_nat H) (Z.of_nat W) rs ->
  serialize_problem (Rooms skip allow) (rooms_to_pv rs) (Z.of_nat H) (Z.of_nat W) = Ok (rooms_text H W rs).
Proof.
  intros HH HW Hval.
  assert (Henv : env_ok (mk_env (Z.of_nat H) (Z.of_nat W))) by (split; simpl; lia).
  unfold serialize_problem. cbn [ser]. unfold rooms_ser.
  rewrite (rooms_ser_raw_valid (mk_env (Z.of_nat H) (Z.of_nat W)) rs Henv Hval).
  cbn [height width mk_env]. rewrite !Nat2Z.id.
  replace (Z.of_nat W - 1) with (Z.of_nat (W - 1)) by lia.
  replace (Z.of_nat H - 1) with (Z.of_nat (H - 1)) by lia.
  rewrite (grid_ser_bits _ H (W - 1) (vg H W (rid_of rs)) (mk_grid_wfg _ _ _) (vg_bits H W _)).
  rewrite (grid_ser_bits _ (H - 1) W (hg H W (rid_of rs)) (mk_grid_wfg _ _ _) (hg_bits H W _)).
  destruct skip; reflexivity.
Qed.

Lemma segmentation_text H W rs :
  encode_grid_segmentation (Z.of_nat H) (Z.of_nat W) (mk_grid H W (fun y x => rid_of rs (y, x)))
  = Ok (rooms_text H W rs).
Proof.
  unfold encode_grid_segmentation. rewrite seg_vertical_mk. cbn [bind].
  rewrite convert_binary_seq_cbs by (apply Forall_concat; apply vg_bits). cbn [bind].
  rewrite seg_horizontal_mk. cbn [bind].
  rewrite convert_binary_seq_cbs by (apply Forall_concat; apply hg_bits). reflexivity.
Qed.

(* stronger: blocks_to_block_id succeeds too, and the text is explicit *)
Theorem segmentation_eq_rooms_total :
  forall h w rs, 1 <= h -> 1 <= w -> valid_rooms h w rs ->
    exists bid, blocks_to_block_id h w (map (map zcell) rs) = Ok bid /\
      encode_grid_segmentation h w bid = Ok (rooms_text (Z.to_nat h) (Z.to_nat w) rs) /\
      forall skip allow, serialize_problem (Rooms skip allow) (rooms_to_pv rs) h w = Ok (rooms_text (Z.to_nat h) (Z.to_nat w) rs).
Proof.
  intros h w rs Hh Hw Hval.
  set (H := Z.to_nat h). set (W := Z.to_nat w).
  assert (EH : h = Z.of_nat H) by (unfold H; lia).
  assert (EW : w = Z.of_nat W) by (unfold W; lia).
  rewrite EH, EW in Hval |- *.
  exists (mk_grid H W (fun y x => rid_of rs (y, x))). split; [|split].
  - apply blocks_to_block_id_valid. exact Hval.
  - apply segmentation_text.
  - intros skip allow. apply rooms_ser_text; try lia. exact Hval.
Qed.

Theorem segmentation_eq_rooms_proof :
  forall h w rs bid, 1 <= h -> 1 <= w -> valid_rooms h w rs ->
    blocks_to_block_id h w (map (map zcell) rs) = Ok bid ->
    exists text, encode_grid_segmentation h w bid = Ok text /\
                 serialize_problem (Rooms false false) (rooms_to_pv rs) h w = Ok text.
Proof.
  intros h w rs bid Hh Hw Hval Hbid.
  destruct (segmentation_eq_rooms_total h w rs Hh Hw Hval) as (bid' & Hb & Hs & Hr).
  rewrite Hbid in Hb. inversion Hb; subst bid'.
  exists (rooms_text (Z.to_nat h) (Z.to_nat w) rs). split; [exact Hs|apply Hr].
Qed.
