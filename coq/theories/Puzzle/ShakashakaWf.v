(* C11: the program of solve_shakashaka is well formed on every board; composition with C02 (solve_reports). *)
From Coq Require Import ZArith List Bool Arith Lia.
From Cspuz Require Import Lib.PyErr Core.Expr Core.Program Backend.Z3 Backend.Z3Oracle Backend.Z3SolveProofs
     Backend.SolveLoop Backend.SolveZ3Proofs
     Puzzle.PuzzleBase Puzzle.ModelBase Puzzle.ModelLemmas Puzzle.SatAbs Puzzle.SolveCompose Puzzle.WfLemmas
     Puzzle.Building Puzzle.Rules_shakashaka Puzzle.Shakashaka Puzzle.ShakashakaSem Puzzle.ShakashakaProofs.
Import ListNotations.
Local Open Scope nat_scope.

Section S.
  Variables h w : nat.
  Variable grid : list Z.
  Let vs := repeat (DInt 0 4) (h * w).

  Lemma ok_sk_var k : k < h * w -> ok vs false (sk_var k) = true.
  Proof. intros H. unfold sk_var. apply ok_ivar_repeat. exact H. Qed.
  Lemma ok_sk_is k v : k < h * w -> ok vs true (sk_is k v) = true.
  Proof. intros H. unfold sk_is. autorewrite with okdb. apply ok_sk_var. exact H. Qed.
  Lemma ok_sk_cell_is c v : fst c < h -> snd c < w -> ok vs true (sk_is (cidx w c) v) = true.
  Proof. intros Hy Hx. apply ok_sk_is. destruct c as [y x]. apply cidx_lt; assumption. Qed.

  Lemma ok_ct_exprs l : (forall e, In e l -> ok vs true e = true) -> ok vs false (ct_exprs l) = true.
  Proof.
    intros H. unfold ct_exprs. destruct l as [|e r] eqn:E; [reflexivity|]. rewrite <- E in *.
    rewrite ok_add_map by (subst; discriminate). apply forallb_In. intros x Hx. rewrite ok_cond. apply H. exact Hx.
  Qed.
  Lemma ok_py_and a b : ok vs true a = true -> ok vs true b = true -> ok vs true (py_and a b) = true.
  Proof.
    intros Ha Hb.
    assert (G : ok vs true (BNode AND [a; b]) = true) by (autorewrite with okdb; rewrite Ha, Hb; reflexivity).
    destruct a; try exact G; destruct b; try exact G; apply ok_pybool.
  Qed.
  Lemma ok_py_or a b : ok vs true a = true -> ok vs true b = true -> ok vs true (py_or a b) = true.
  Proof.
    intros Ha Hb.
    assert (G : ok vs true (BNode OR [a; b]) = true) by (autorewrite with okdb; rewrite Ha, Hb; reflexivity).
    destruct a; try exact G; destruct b; try exact G; apply ok_pybool.
  Qed.

  (* the clue part *)
  Lemma sk_cell_ok y x : y < h -> x < w -> forallb (ok vs true) (sk_cell h w grid (y, x)) = true.
  Proof.
    intros Hy Hx. unfold sk_cell. destruct (sk_white grid w (y, x)); [reflexivity|].
    cbn [forallb]. rewrite (ok_sk_cell_is (y, x) 0 Hy Hx). cbn [andb].
    destruct (0 <=? at2 grid w y x)%Z; [|reflexivity].
    autorewrite with okdb. apply ok_ct_exprs. intros e He. apply in_map_iff in He. destruct He as [[y' x'] [<- Hn]].
    destruct (nbr4_in h w y x y' x' Hy Hx Hn) as [Hy' Hx'].
    autorewrite with okdb. apply ok_sk_var. apply cidx_lt; assumption.
  Qed.

  (* the local patterns at lattice point (y, x) *)
  Section Vertex.
    Variables y x : nat.
    Hypotheses (Hy : y <= h) (Hx : x <= w).

    Lemma ok_sk_diag i : ok vs true (sk_diag h w y x i) = true.
    Proof.
      unfold sk_diag. destruct (sk_sector h w y x (Nat.div i 2)) as [c|] eqn:E; [|reflexivity].
      destruct (sk_sector_in h w y x _ c Hy Hx E). apply ok_sk_cell_is; assumption.
    Qed.
    Lemma ok_sk_empty k : ok vs true (sk_empty h w grid y x k) = true.
    Proof.
      unfold sk_empty. destruct (sk_sector h w y x k) as [c|] eqn:E; [|reflexivity].
      destruct (sk_white grid w c); [|reflexivity].
      destruct (sk_sector_in h w y x _ c Hy Hx E). apply ok_sk_cell_is; assumption.
    Qed.
    Lemma sk_vertex_ok : forallb (ok vs true) (sk_vertex h w grid (y, x)) = true.
    Proof.
      unfold sk_vertex. rewrite forallb_app. apply andb_true_intro. split.
      - rewrite forallb_flat_map. apply forallb_In. intros i _.
        set (X := py_or _ _).
        assert (OX : ok vs true X = true).
        { unfold X. apply ok_py_or; [apply ok_sk_diag|]. apply ok_py_and; [apply ok_sk_empty|apply ok_sk_diag]. }
        pose proof (ok_sk_diag i) as OD. clearbody X.
        destruct (sk_diag h w y x i); try reflexivity; cbn [forallb]; rewrite ok_imp, OD, OX; reflexivity.
      - cbn [forallb]. autorewrite with okdb. apply ok_ct_exprs. intros e He.
        unfold sk_angles in He. apply in_flat_map in He. destruct He as [k [_ He]].
        destruct (sk_sector h w y x k) as [c|] eqn:E; [|destruct He].
        destruct (sk_white grid w c); [|destruct He]. destruct He as [<-|[]].
        destruct (sk_sector_in h w y x _ c Hy Hx E).
        autorewrite with okdb. rewrite !ok_sk_cell_is by assumption. reflexivity.
    Qed.
  End Vertex.

  Lemma shakashaka_constraints_ok : forallb (ok vs true) (shakashaka_constraints h w grid) = true.
  Proof.
    unfold shakashaka_constraints. rewrite forallb_app, !forallb_flat_map. apply andb_true_intro. split.
    - apply forallb_cells. intros y x Hy Hx. apply sk_cell_ok; assumption.
    - apply forallb_cells. intros y x Hy Hx. apply sk_vertex_ok; lia.
  Qed.
End S.

Lemma shakashaka_model_wf pb st : solve_shakashaka_model pb = Ok st -> wf_state st /\ wf_keys st.
Proof.
  unfold solve_shakashaka_model. destruct (Nat.ltb _ _); [discriminate|].
  intros H. inversion H; subst st; clear H. split.
  - apply shakashaka_constraints_ok.
  - unfold wf_keys; simpl. rewrite !repeat_length. reflexivity.
Qed.

Theorem shakashaka_solve_reports : forall oracle, oracle_sound_on oracle -> oracle_complete_on oracle ->
  forall h w grid st,
  solve_shakashaka_model [[Z.of_nat h; Z.of_nat w]; grid] = Ok st ->
  solve_reports oracle st (seq 0 (h * w)) (rules_shakashaka [[Z.of_nat h; Z.of_nat w]; grid]).
Proof.
  intros oracle Os Oc h w grid st Hst.
  apply (solve_reports_intro oracle no_graph); try assumption.
  - exact (shakashaka_model_wf _ _ Hst).
  - unfold solve_shakashaka_model in Hst. rewrite dim2_0, dim2_1 in Hst. destruct (Nat.ltb _ _); [discriminate|].
    inversion Hst; subst st. simpl. apply repeat_keys.
  - intros ans. exact (shakashaka_exact h w grid st ans Hst).
Qed.
