Require Extraction.
Require Import ExtrOcamlBasic.
From Coq Require Import ZArith List.
(* fully qualified names (followed by a blank) so that vlib.build_runner finds the modules to build *)
Require Import Cspuz.Lib.PyErr Cspuz.Generator.Segmentation .
Extraction "model.ml" Z.add Nat.add pyerr_code make_config candidates apply_update initial
  split_block is_connected min_num max_num min_size max_size.
