(* C07: the executable specifications (used by the harness and by the meaning of
   Op.GRAPH_DIVISION) reflect the relational ones; the GRAPH_DIVISION node posted
   by the primitive route evaluates to the specification. *)
From Coq Require Import ZArith List Bool Arith Lia.
From Cspuz Require Import Lib.PyErr Core.Expr Core.Program Core.Build
  Graph.GraphModel Graph.ReachProofs Graph.VarGroups Graph.VarGroupsSound Graph.VarGroupsPrim
  Graph.VarGroupsEval Graph.VarGroupsMain Graph.VarGroupsSized Graph.VarGroupsSizedExact
  Graph.VarGroupsCut Graph.VarGroupsBorders.
Import ListNotations.
Open Scope nat_scope.

Theorem realisable_b_spec g blk sizes :
  wf_graph g = true -> (realisable_b g blk sizes = true <-> realisable g blk sizes).
Proof.
  intros Hwf. unfold realisable_b, realisable. rewrite andb_true_iff, !forallb_forall. split.
  - intros [H1 H2]. split.
    + intros v Hv. apply connected_b_spec; [exact Hwf|]. apply H1. apply in_seq; lia.
    + intros v s Hv Hs. specialize (H2 v). rewrite Hs in H2. apply Z.eqb_eq. apply H2. apply in_seq; lia.
  - intros [H1 H2]. split.
    + intros v Hv. apply in_seq in Hv. apply connected_b_spec; [exact Hwf|]. apply H1; lia.
    + intros v Hv. apply in_seq in Hv. destruct (sizes v) as [s|] eqn:Hs; [|reflexivity].
      apply Z.eqb_eq. apply H2; [lia|exact Hs].
Qed.

Theorem border_exact_b_spec g bd sizes :
  wf_graph g = true -> (border_exact_b g bd sizes = true <-> border_exact g bd sizes).
Proof.
  intros Hwf. unfold border_exact_b, border_exact. rewrite andb_true_iff, !forallb_forall. split.
  - intros [H1 H2]. split.
    + intros v s l Hv Hs [Hnd Hl]. specialize (H1 v). rewrite Hs in H1.
      assert (Hin : In v (seq 0 (nv g))) by (apply in_seq; lia).
      specialize (H1 Hin). apply Z.eqb_eq in H1. rewrite <- H1. unfold zn. f_equal.
      apply same_elements_length; [exact Hnd|apply component_nodup|].
      intros w. rewrite Hl. destruct (cut_component_is_block g bd Hwf v Hv) as [_ Hc]. rewrite Hc. tauto.
    + intros k u v Hk Hb R. specialize (H2 (k, (u, v))).
      assert (Hin : In (k, (u, v)) (combine (seq 0 (length (edges g))) (edges g))) by (apply in_combine_seq; exact Hk).
      specialize (H2 Hin). simpl in H2. rewrite Hb in H2. simpl in H2. apply negb_true_iff in H2.
      destruct (wf_graph_edge g k u v Hwf Hk) as [Hu _].
      apply (cut_component_spec g bd Hwf u v Hu) in R. apply mem_In in R. congruence.
  - intros [H1 H2]. split.
    + intros v Hv. apply in_seq in Hv. destruct (sizes v) as [s|] eqn:Hs; [|reflexivity].
      apply Z.eqb_eq. apply (H1 v s (cut_component g bd v)); [lia|exact Hs|].
      apply cut_component_is_block; [exact Hwf|lia].
    + intros [k [u v]] Hin. apply in_combine_seq in Hin. simpl.
      destruct (bd k) eqn:Hb; [|reflexivity]. simpl. apply negb_true_iff.
      destruct (mem v (cut_component g bd u)) eqn:Hm; [|reflexivity]. exfalso.
      destruct (wf_graph_edge g k u v Hwf Hin) as [Hu _].
      apply (H2 k u v Hin Hb). apply (cut_component_spec g bd Hwf u v Hu). apply mem_In. exact Hm.
Qed.

(* the specification only looks at border flags of existing edges and at sizes of
   existing vertices *)
Lemma same_cut_ext g bd bd' u v :
  (forall k, k < length (edges g) -> bd k = bd' k) -> same_cut g bd u v -> same_cut g bd' u v.
Proof.
  intros H. apply reach_weaken; [auto|].
  intros k a b Hk. unfold cut. rewrite (H k (nth_error_lt _ _ _ Hk)). auto.
Qed.

Lemma border_exact_ext g bd bd' sz sz' :
  (forall k, k < length (edges g) -> bd k = bd' k) -> (forall v, v < nv g -> sz v = sz' v) ->
  border_exact g bd sz -> border_exact g bd' sz'.
Proof.
  intros Hb Hs [H1 H2]. split.
  - intros v s l Hv Hsv [Hnd Hl]. apply (H1 v s l Hv); [rewrite Hs by exact Hv; exact Hsv|].
    split; [exact Hnd|]. intros w. rewrite Hl. split; intros [Hw R]; (split; [exact Hw|]).
    + apply (same_cut_ext g bd' bd); [intros k Hk; symmetry; apply Hb; exact Hk|exact R].
    + apply (same_cut_ext g bd bd'); assumption.
  - intros k u v Hk Hbk R. apply (H2 k u v Hk); [rewrite Hb by (apply (nth_error_lt _ _ _ Hk)); exact Hbk|].
    apply (same_cut_ext g bd' bd); [intros j Hj; symmetry; apply Hb; exact Hj|exact R].
Qed.

(* ------------------------------------------------------------------------ *)
(* evaluation of the posted GRAPH_DIVISION node                              *)

Local Arguments zn : simpl never.

Lemma val_nat_zn n : val_nat (Some (VI (zn n))) = Some n.
Proof. unfold val_nat, zn. destruct (Z.leb_spec 0 (Z.of_nat n)); [|lia]. now rewrite Nat2Z.id. Qed.

Lemma flat_edges_val gsem en es :
  all_some_nat (map val_nat (map (eval gsem en) (flat_map (fun '(u, v) => [PyInt (zn u); PyInt (zn v)]) es))) =
  Some (flat_map (fun '(u, v) => [u; v]) es).
Proof.
  induction es as [|[u v] r IH]; [reflexivity|].
  cbn [flat_map app map eval]. rewrite !val_nat_zn. cbn [all_some_nat]. rewrite IH. reflexivity.
Qed.

Lemma as_bools_map_VB {A} (h : A -> bool) (l : list A) : as_bools (map (fun x => VB (h x)) l) = Some (map h l).
Proof. induction l as [|a l IH]; simpl; [reflexivity|]. rewrite IH. reflexivity. Qed.

Lemma map_nth_seq {A B} (f : A -> B) (h : nat -> B) (l : list A) (d : A) :
  (forall i, i < length l -> f (nth i l d) = h i) -> map f l = map h (seq 0 (length l)).
Proof.
  intros H. apply nth_ext with (d := f d) (d' := h 0).
  - rewrite !map_length, seq_length. reflexivity.
  - intros i Hi. rewrite map_length in Hi. rewrite map_nth, H by exact Hi.
    rewrite map_nth, seq_nth by exact Hi. reflexivity.
Qed.

Theorem gdiv_node_holds gsem0 g sizes bd en sval pat :
  wf_graph g = true -> length sizes = nv g -> length bd = length (edges g) ->
  (forall i, i < length sizes ->
     match nth i sizes PyNone with
     | PyNone => sval i = None
     | e => exists z, eval graph_sem en e = Some (VI z) /\ sval i = Some z
     end) ->
  (forall e, e < length bd -> eval graph_sem en (nth e bd PyNone) = Some (VB (pat e))) ->
  gsem0 = graph_sem ->
  (holds gsem0 en (BNode G_DIV (gdiv_operands g sizes bd)) = true <-> border_exact g pat sval).
Proof.
  intros Hwf Hls Hlb Hsz Hbd ->.
  set (svals := map (eval graph_sem en) sizes).
  assert (Hbds : map (eval graph_sem en) bd = map (fun k => Some (VB (pat k))) (seq 0 (length (edges g)))).
  { rewrite <- Hlb. apply (map_nth_seq _ _ bd PyNone). exact Hbd. }
  assert (Hev : eval graph_sem en (BNode G_DIV (gdiv_operands g sizes bd)) =
                Some (VB (border_exact_b g (fun k => nth k (map pat (seq 0 (length (edges g)))) false)
                            (fun v => match nth v svals None with Some (VI z) => Some z | _ => None end)))).
  { assert (Hg : forall vs, graph_sem G_DIV vs = gdiv_sem vs) by reflexivity.
    cbn [eval]. unfold eval_bop. rewrite Hg. unfold gdiv_operands.
    rewrite !map_app. cbn [map eval app]. fold svals.
    unfold gdiv_sem. rewrite !val_nat_zn.
    assert (Hlen : length (svals ++ map (eval graph_sem en) (flat_edges g) ++ map (eval graph_sem en) bd)
                   = nv g + 2 * length (edges g) + length (edges g)).
    { rewrite !app_length. unfold svals. rewrite !map_length, flat_edges_length. lia. }
    rewrite Hlen, Nat.eqb_refl.
    assert (Hsl : length svals = nv g) by (unfold svals; rewrite map_length; exact Hls).
    rewrite (firstn_app_exact svals _ (nv g) Hsl), (skipn_app_exact svals _ (nv g) Hsl).
    assert (Hfl : length (map (eval graph_sem en) (flat_edges g)) = 2 * length (edges g))
      by (rewrite map_length; apply flat_edges_length).
    rewrite (firstn_app_exact _ _ (2 * length (edges g)) Hfl), (skipn_app_exact _ _ (2 * length (edges g)) Hfl).
    unfold flat_edges. rewrite flat_edges_val, pairs_of_flat.
    rewrite Hbds. rewrite (all_some_map_Some (fun k => VB (pat k)) (seq 0 (length (edges g)))).
    rewrite (as_bools_map_VB pat (seq 0 (length (edges g)))).
    assert (Hok : forallb (fun v => match v with None | Some (VI _) => true | _ => false end) svals = true).
    { apply forallb_forall. intros x Hx. unfold svals in Hx. apply in_map_iff in Hx.
      destruct Hx as [e [<- He]]. destruct (In_nth _ _ PyNone He) as [i [Hi Hn]].
      specialize (Hsz i Hi). rewrite Hn in Hsz.
      destruct e; try reflexivity; destruct Hsz as [z [Hz _]]; rewrite Hz; reflexivity. }
    rewrite Hok. cbn [option_map]. destruct g; reflexivity. }
  unfold holds. rewrite Hev.
  split.
  - intros H.
    assert (Hb : border_exact_b g (fun k => nth k (map pat (seq 0 (length (edges g)))) false)
                   (fun v => match nth v svals None with Some (VI z) => Some z | _ => None end) = true)
      by (destruct (border_exact_b _ _ _); [reflexivity|discriminate]).
    apply (border_exact_b_spec g _ _ Hwf) in Hb. eapply border_exact_ext; [| |exact Hb].
    + intros k Hk. apply (nth_map_seq pat (length (edges g)) k false Hk).
    + intros v Hv. unfold svals. rewrite (nth_indep _ None (eval graph_sem en PyNone)) by (rewrite map_length; lia).
      rewrite map_nth.  rewrite <- Hls in Hv. specialize (Hsz v Hv).
      destruct (nth v sizes PyNone) as [b0|z0| |id0|id0 lo0 hi0|o0 args0|o0 args0];
        [| |cbn [eval]; rewrite Hsz; reflexivity| | | |];
        destruct Hsz as [z [Hz Hs]]; rewrite Hs, Hz; reflexivity.
  - intros H.
    assert (Hb : border_exact g (fun k => nth k (map pat (seq 0 (length (edges g)))) false)
                   (fun v => match nth v svals None with Some (VI z) => Some z | _ => None end)).
    { eapply border_exact_ext; [| |exact H].
      - intros k Hk. symmetry. apply (nth_map_seq pat (length (edges g)) k false Hk).
      - intros v Hv. unfold svals. rewrite (nth_indep _ None (eval graph_sem en PyNone)) by (rewrite map_length; lia).
        rewrite map_nth.  rewrite <- Hls in Hv. specialize (Hsz v Hv).
        destruct (nth v sizes PyNone) as [b0|z0| |id0|id0 lo0 hi0|o0 args0|o0 args0];
          [| |cbn [eval]; rewrite Hsz; reflexivity| | | |];
          destruct Hsz as [z [Hz Hs]]; rewrite Hs, Hz; reflexivity. }
    apply (border_exact_b_spec g _ _ Hwf) in Hb. rewrite Hb. reflexivity.
Qed.
