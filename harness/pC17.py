"""C17 — decoding arbitrary text never crashes and only yields re-encodable problems."""
import hashlib
import itertools
import re

import vlib
import c15gen as G
import c16trans as T
import c17lib as L

PROPS = "Props/C17.v"
EXTRACT = "C17"
RULE = ("translator (T): the <P>_COMBINATOR terms and deserialize_<p> wrapper options of the nine combinator-based puzzle modules "
        "are re-read from the source (harness/c16trans.py, fail-closed) into Gen/Codecs.v; Props/C17.v proves totality of exactly "
        "those terms.  correspondence (C): a byte-level fuzz stream is run through the REAL decoders (deserialize_<p> of nurikabe, "
        "masyu, slitherlink, sudoku, nurimisaki, yajilin, heyawake, lits, norinori; deserialize_problem and Combinator.deserialize at "
        "an offset for curated + random library combinator terms; the helpers _is_hex/_is_alnum_lower/_from_base16/_from_base36/"
        "int(s, 10|16|36)/str.isdigit on every 1-3 character string over a 41-character alphabet; the URL regular expression's groups) "
        "and through the extracted Coq model (Codec/Comb.v de / de_at, Codec/Puzzles.v deserialize_problem_cu / deserialize_url_cu, "
        "Codec/Yajilin.v; side-condition predicates of Codec/TotalModel.v against their Python twins); outcomes compared as None | value "
        "| error enum; URLs declaring a size of six or more digits are left to the search (the extracted model counts fuel in unary).  Stream: genuine URLs of every module "
        "and their mutations — every prefix of the body, delete/insert/replace of 1-3 characters, every URL-alphabet / separator / "
        "Latin-1 / non-Latin-1 digit character in every position class (scheme, host, '?', name, each size field, each slash, "
        "first/middle/last body character, appended), declared sizes 0 / 1 / off-by-one / swapped / huge / zero-padded / signed / "
        "Unicode digits / empty, empty bodies, other prefixes and names, embedded newlines, non-URL text.  search: the same stream (plus "
        "compass.parse_puzz_link_url and bench/pzv_problem.solve_problem with stubbed solvers) judged on the real code alone against "
        "the property: any exception other than ValueError (or no return within 2 s) is a violation; a returned problem must have the "
        "declared dimensions (independent string-split reading of the URL), must serialize again (serialize_problem_as_url with the "
        "declared size, and the module's serialize_<p> on non-empty boards), and decoding that canonical text must return the same "
        "value (type-strict ==).  A case is non-trivial when it is a distinct (decoder, text).")
TRUSTED = [
    "Codec/Comb.v, CombWf.v, CombBasics.v, CombLeaf.v, RoomsGrid.v (C15's model of problem_serializer.py and lemmas), Codec/Yajilin.v, "
    "Puzzles.v, Url.v, Legacy.v (C16) are imported unchanged (they follow the code as it is after C17's fixes); C17 adds only "
    "predicates (Codec/TotalModel.v) and proofs (Codec/Total*.v); the decode side of those models is tied to the Python again by this "
    "check's own correspondence on malformed input",
    "CPython int()/str.isdigit/re semantics on Latin-1 text as transcribed in Codec/Comb.v (py_int, isdigit_c, is_hex, is_alnum_lower, "
    "url_match); validated against the interpreter on every run (kinds 'helper:*': every 1-3 character string over a 41-character "
    "alphabet; 'regex': the four groups of _DESERIALIZE_URL_REG.match on every URL of the stream)",
    "independent reading of a URL by string splitting (c17lib.declared) and the shape predicates (rows x columns; rooms partition the "
    "board) used as the oracle for 'dimensions stated in the URL'",
    "fail-closed translator harness/c16trans.py (shared with C16) producing Gen/Codecs.v",
]
ASSUMPTIONS = [
    "text is modelled as Latin-1 (code points 0..255); strings with characters above U+00FF (e.g. Arabic-Indic or fullwidth digits, "
    "which \\d, int() and str.isdigit accept) are exercised on the real code by the search but are outside the model and the theorems",
    "totality is stated for terms satisfying dec_ok (Dict lists of equal length; Seq/Grid/ValuedRooms over a base whose successful "
    "decode reads a character or yields an item — Seq(FixStr(''), n) never terminates in Python; explicit Grid sizes with h*w >= 0) "
    "and, at problem level, for terms that yield exactly one item (deserialize_problem asserts it); all nine puzzle terms qualify",
    "resource use is outside the property: a URL declaring more than ~10^7 rows of zero width makes Grid allocate one empty list per "
    "row; such sizes are not generated (huge heights are paired with widths >= 2)",
    "re-encodability is judged with the declared size (serialize_problem_as_url); serialize_<p>(problem) wrappers that take the size "
    "from the problem itself are judged on boards with at least one row and column (an empty problem does not carry its width)",
    "library combinators: re-encodability is judged for well-formed terms (C15's wf: alternatives distinguishable by their first "
    "character) whose Tupl elements yield one item or none (tupl_single); crash-freedom for every dec_ok term",
    "CPython refuses int()/str() on more than 4300 decimal digits (ValueError, an allowed outcome); py_int does not model that limit "
    "and the streams contain no digit run of that length",
    "when 25 calls have hit the 2 s alarm (only on a broken tree) the alarm drops to 0.05 s so that the run still ends; outcomes after "
    "that point may be reported as Timeout although the call was merely slow",
]

ERR = {1: "IndexError", 2: "KeyError", 3: "AssertionError", 4: "TypeError", 5: "ValueError",
       6: "RecursionError", 7: "NotImplementedError", 8: "Other"}


def key_of(*parts):
    s = ":".join(str(p) for p in parts)
    return s if len(s) <= 100 else s[:70] + "#" + hashlib.md5(s.encode()).hexdigest()[:10]


# ---------------------------------------------------------------- translator

def translate(ctx):
    tr = T.translate_all()
    ctx._c17_tr = tr
    T.write_gen(tr)


def get_tr(ctx):
    tr = getattr(ctx, "_c17_tr", None)
    if tr is None:
        tr = T.translate_all()
        ctx._c17_tr = tr
    return tr


# ---------------------------------------------------------------- the stream (shared by tie and search)

def url_targets(ctx):
    ts = getattr(ctx, "_c17_targets", None)
    if ts is None:
        tr = get_tr(ctx)
        ts = [L.UrlTarget(m, tr[m]) for m in T.MODULES]
        ctx._c17_targets = ts
    return ts


def url_stream(ctx):
    """list of (target, class, text) — generated once per run"""
    st = getattr(ctx, "_c17_stream", None)
    if st is not None:
        return st
    rng = ctx.rng
    targets = url_targets(ctx)
    per_module = 40 if ctx.thorough else 4
    n_edit = 60 if ctx.thorough else 24
    names = sorted({t.name for t in targets} | {"mashu", "compass"})
    st = []
    seeds = L.seed_urls(ctx, targets, per_module)
    seen_mod = {}
    for (t, url, name, h, w, body) in seeds:
        k = seen_mod.get(t.module, 0)
        seen_mod[t.module] = k + 1
        with_pos = ctx.thorough or k < 2
        reps = 6 if ctx.thorough else 1
        for rep in range(reps):
            for cls, text in L.mutations(rng, url, name, h, w, body, n_edit, with_pos and rep == 0, names):
                st.append((t, cls, text))
        # every decoder also sees the other modules' URLs
        other = rng.choice(targets)
        if other is not t:
            st.append((other, "foreign", url))
    ctx._c17_stream = st
    return st


def comb_stream(ctx):
    st = getattr(ctx, "_c17_cstream", None)
    if st is not None:
        return st
    rng = ctx.rng
    cts = L.comb_targets(ctx, 400 if ctx.thorough else 60)
    st = []
    for ct in cts:
        for cls, text in L.comb_texts(rng, ct, 40 if ctx.thorough else 6):
            st.append((ct, cls, text))
    ctx._c17_cstream = st
    return st


# ---------------------------------------------------------------- correspondence

def parse_model(r):
    t = r.split()
    if not t or t[0] == "EXN":
        return ("model-exn", r)
    if t[0] == "E":
        return ("err", ERR[int(t[1])])
    if t[0] == "N":
        return ("ok", None)
    if t[0] == "S":
        v, _ = G.parse_pv(t, 1)
        return ("ok", v)
    if t[0] == "K":                                   # K k [ items ]
        v, _ = G.parse_pv(t, 2)
        return ("ok", (int(t[1]), v))
    return ("model-exn", r)


def pv_ok(v):
    try:
        G.pv_tok(v)
        return True
    except TypeError:
        return False


def cmp(ctx, kind, inp, mo, io):
    if io[0] == "err" and io[1] in ("Timeout", "ZeroDivisionError", "OverflowError", "MemoryError"):
        io = ("err", "Other")
    if mo[0] == "ok" and io[0] == "ok":
        same = L.strict_eq(mo[1], io[1])
        ctx.corr(kind, inp, "same" if same else ("ok", L.short(mo[1])), "same" if same else ("ok", L.short(io[1])))
    else:
        ctx.corr(kind, inp, mo if mo[0] != "ok" else ("ok", L.short(mo[1])), io if io[0] != "ok" else ("ok", L.short(io[1])))


def allowed_tok(al):
    if al is None:
        return "A"
    if isinstance(al, str):
        return "O " + G.hx(al)
    return "L %d %s" % (len(al), " ".join(G.hx(a) for a in al))


HELPER_ALPHABET = "0123456789" + "abfgzAFGZ" + "+-_ xX.\t\n" + "\xa0\x85\xb2\xb3\xb9\xe9\xff" + "٣３①½ \U0001d7d8"


def helper_cases(ctx):
    """every string of length 1..3 over a 41-character alphabet (length 3: all in thorough, a third in quick)"""
    al = HELPER_ALPHABET
    for n in (1, 2, 3):
        for tup in itertools.product(al, repeat=n):
            if n == 3 and not ctx.thorough and (hash(tup) % 3):
                continue
            yield "".join(tup)
    yield ""


def correspond_helpers(ctx, m):
    import cspuz.problem_serializer as ps
    texts = list(helper_cases(ctx))
    lat = [s for s in texts if L.latin1(s)]
    # model side (Latin-1 only)
    reqs = []
    for s in lat:
        reqs.append("INT 10 " + G.hx(s))
        reqs.append("INT 16 " + G.hx(s))
        reqs.append("INT 36 " + G.hx(s))
        reqs.append("CLS " + G.hx(s))
    outs = m.batch(reqs)
    for i, s in enumerate(lat):
        for j, base in enumerate((10, 16, 36)):
            mo = parse_model(outs[4 * i + j])
            io = vlib.guarded(int, s, base)
            cmp(ctx, "helper:int%d" % base, s, mo, io)
        if s:
            cls = outs[4 * i + 3].split()
            # per-character isdigit, whole-string _is_hex / _is_alnum_lower
            cmp(ctx, "helper:isdigit", s, ("ok", cls[0]), ("ok", "".join("1" if c.isdigit() else "0" for c in s)))
            cmp(ctx, "helper:is_hex", s, ("ok", cls[1]), ("ok", "1" if ps._is_hex(s) else "0"))
            cmp(ctx, "helper:is_alnum_lower", s, ("ok", cls[2]), ("ok", "1" if ps._is_alnum_lower(s) else "0"))
        cmp(ctx, "helper:from_base16", s, parse_model(outs[4 * i + 1]), vlib.guarded(ps._from_base16, s))
        cmp(ctx, "helper:from_base36", s, parse_model(outs[4 * i + 2]), vlib.guarded(ps._from_base36, s))
    # beyond Latin-1 there is no model: record what CPython does so that the distribution is visible
    for s in texts:
        if not L.latin1(s):
            ctx.count("helper:non-latin1")


BIG = re.compile(r"[0-9]{6,}")


def correspond(ctx):
    m = ctx.model("C17")
    ctx._c17_model = m
    correspond_helpers(ctx, m)
    # URL level
    # the extracted model counts loop fuel in unary: declared sizes with six or more digits are left to the search
    st = [(t, cls, text) for (t, cls, text) in url_stream(ctx) if L.latin1(text) and not BIG.search(text)]
    reqs = []
    for (t, cls, text) in st:
        o = t.opts
        reqs.append("DU %d %s %s %s %d %d" % (t.tr["custom"], T.term_tok(t.term), G.hx(text), allowed_tok(o["allowed"]),
                                              int(o["allow_failure"]), int(o["return_size"])))
    outs = m.batch(reqs)
    for (t, cls, text), o in zip(st, outs):
        io = t.run(text)
        ctx.count("tie-class:" + cls.split(":")[0])
        if io[0] == "ok" and io[1] is not None and not pv_ok(io[1]):
            ctx.corr("url:" + t.module, text, "value", ("ok", L.short(io[1])))
            continue
        cmp(ctx, "url:" + t.module, text, parse_model(o), io)
    # library combinators: deserialize_problem and deserialize at an offset
    cs = [(ct, cls, text) for (ct, cls, text) in comb_stream(ctx) if L.latin1(text)]
    reqs = []
    for (ct, cls, text) in cs:
        reqs.append("DP 0 %d %d %s %s" % (ct.h, ct.w, ct.tok, G.hx(text)))
        reqs.append("DE 0 %d %d %d %s %s" % (ct.h, ct.w, min(2, len(text)), ct.tok, G.hx(text)))
    outs = m.batch(reqs)
    for i, (ct, cls, text) in enumerate(cs):
        cmp(ctx, "comb:problem", (ct.id, text), parse_model(outs[2 * i]), ct.run(text))
        idx = min(2, len(text))
        io = ct.run_at(text, idx)
        if io[0] == "ok" and io[1] is not None:
            io = ("ok", (io[1][0], io[1][1]))
        cmp(ctx, "comb:at", (ct.id, text, idx), parse_model(outs[2 * i + 1]), io)
    # the side conditions themselves: python twin vs the Coq predicates
    terms = {}
    for (ct, _, _) in cs:
        terms[ct.tok] = ct.term
    toks = sorted(terms)
    outs = m.batch(["OKS " + k for k in toks])
    for k, o in zip(toks, outs):
        t = terms[k]
        cmp(ctx, "side-conditions", k, ("ok", o.strip()),
            ("ok", "%d %d %d %d %d %d" % (int(L.dec_ok(t)), int(L.single(t)), int(G.wf(t)), int(L.tupl_elems_single(t)), int(L.productive(t)), int(L.reenc_ok(t)))))
    # the regular expression itself: groups of _DESERIALIZE_URL_REG.match vs url_match
    import cspuz.problem_serializer as ps
    texts = sorted({text for (_, _, text) in st})
    outs = m.batch(["UM " + G.hx(u) for u in texts])
    for u, o in zip(texts, outs):
        mm = ps._DESERIALIZE_URL_REG.match(u)
        cmp(ctx, "regex", u, parse_model(o), ("ok", None if mm is None else (mm[1], mm[2], mm[3], mm[4])))


# ---------------------------------------------------------------- search (real code only)

class Viol:
    """at most one recorded violation per (decoder kind, category)"""

    def __init__(self, ctx):
        self.ctx = ctx

    def __call__(self, tid, text, res, extra=None):
        cat, what, detail = res
        fam = "comb" if tid.startswith("comb:") else tid
        key = key_of(fam, cat)
        d = dict(detail)
        d.update({"decoder": tid, "text": text, "category": cat})
        if extra:
            d.update(extra)
        self.ctx.violation(key, "%s on %r: %s" % (tid, L.short(text, 120), what), d)


def search(ctx):
    viol = Viol(ctx)
    for (t, cls, text) in url_stream(ctx):
        r = t.run(text)
        ctx.prop_case(t.id, text)
        ctx.count("class:" + cls.split(":")[0])
        ctx.count("outcome:" + ("none" if r == ("ok", None) else "value" if r[0] == "ok" else r[1]))
        res = t.judge(text, r)
        if res is not None:
            viol(t.id, text, res)
    for (ct, cls, text) in comb_stream(ctx):
        r = ct.run(text)
        ctx.prop_case("comb", (ct.id, text))
        ctx.count("comb-outcome:" + ("none" if r == ("ok", None) else "value" if r[0] == "ok" else r[1]))
        res = ct.judge(text, r)
        if res is not None:
            viol(ct.id, text, res, {"term_tok": ct.tok, "h": ct.h, "w": ct.w})
        for idx in (0, min(1, len(text)), len(text)):
            ra = ct.run_at(text, idx)
            res = ct.judge_at(text, idx, ra)
            if res is not None:
                viol(ct.id, text, res, {"term_tok": ct.tok, "h": ct.h, "w": ct.w, "idx": idx})
    # legacy compass decoder
    comp = L.CompassTarget()
    rng = ctx.rng
    for (url, name, h, w, body) in L.compass_seeds(ctx, 30 if ctx.thorough else 5):
        for cls, text in L.mutations(rng, url, name, h, w, body, 40 if ctx.thorough else 16, False, ["compass"]):
            r = comp.run(text)
            ctx.prop_case(comp.id, text)
            res = comp.judge(text, r)
            if res is not None:
                viol(comp.id, text, res)
    # bench dispatcher over a slice of the URL stream
    try:
        bench = L.BenchTarget()
    except Exception as ex:                                  # not importable: say so, nothing to judge
        ctx.note("bench/pzv_problem.py not importable: %r" % (ex,))
        bench = None
    if bench is not None:
        st = url_stream(ctx)
        step = 1 if ctx.thorough else 5
        for (t, cls, text) in st[::step]:
            r = bench.run(text)
            ctx.prop_case(bench.id, text)
            res = bench.judge(text, r)
            if res is not None:
                viol(bench.id, text, res)
        ctx.count("bench:solver-reached", len(bench.calls))


def replay(ctx, rp):
    v = rp.get("violation", {}).get("detail", {})
    print(rp)
    if not v or "decoder" not in v:
        return 0
    tid, text = v["decoder"], v["text"]
    if tid.startswith("url:") and tid != "url:compass":
        t = [x for x in url_targets(ctx) if x.id == tid][0]
    elif tid == "url:compass":
        t = L.CompassTarget()
    elif tid.startswith("bench:"):
        t = L.BenchTarget()
    else:
        import c15tie
        t = L.CombTarget(c15tie.parse_term(v["term_tok"].split())[0], v["h"], v["w"])
    r = t.run(text)
    res = t.judge(text, r)
    print("outcome:", L.short(r), "judgement:", res)
    return 1 if res is not None else 0
