From Coq Require Import ZArith List Bool Arith.
From Cspuz Require Import Lib.PyErr Core.Expr Core.Program Graph.GraphModel Graph.Acyclic
  Graph.AcyclicExact Graph.AcyclicFlags Graph.AcyclicDecide Graph.AcyclicUnionFind Graph.AcyclicExamples.
Import ListNotations.
Local Open Scope nat_scope.

(* C09, both directions, every loop-free multigraph, every edge pattern, every
   caller state and assignment; edge flags = arbitrary BoolExpr-like objects
   denoting the pattern over the caller's variables (flags_denote). *)
Theorem acyclic_exact : forall gsem st flags g A en,
  wf_graph g = true -> loop_free g = true -> 1 <= nv g ->
  flags_denote gsem (next_id st) en flags (length (edges g)) A ->
  exists st' newv newc,
    post_acyclic st flags g = Ok st' /\
    vars st' = vars st ++ newv /\ keys st' = keys st ++ repeat false (length newv) /\
    cons st' = cons st ++ newc /\
    ((exists en', agree_below (next_id st) en en' /\
                  in_bounds_from en' (next_id st) newv = true /\
                  forallb (holds gsem en') newc = true)
     <-> forest g A).
Proof. exact AcyclicExact.acyclic_exact. Qed.
Print Assumptions acyclic_exact.

(* whole-program form: a model of the caller's program extends to a model of
   the program after the call exactly when the active edges form a forest *)
Theorem acyclic_exact_program : forall gsem st flags g A en,
  wf_graph g = true -> loop_free g = true -> 1 <= nv g ->
  flags_denote gsem (next_id st) en flags (length (edges g)) A ->
  closed_state st -> model_of gsem en st ->
  exists st', post_acyclic st flags g = Ok st' /\
    ((exists en', agree_below (next_id st) en en' /\ model_of gsem en' st') <-> forest g A).
Proof. exact AcyclicFlags.acyclic_exact_program. Qed.
Print Assumptions acyclic_exact_program.

(* flags_denote holds for every list of BoolExpr-like flags over the caller's
   variables that have a boolean value; the pattern is their value *)
Theorem flags_boolean_denote : forall gsem k en flags m,
  flags_boolean gsem k en flags m -> flags_denote gsem k en flags m (pattern_of gsem en flags).
Proof. exact AcyclicFlags.flags_boolean_denote. Qed.
Print Assumptions flags_boolean_denote.

(* instance: variables, ~v, v & w, v | w, Python True / False *)
Theorem acyclic_exact_simple_flags : forall gsem st flags g en,
  wf_graph g = true -> loop_free g = true -> 1 <= nv g ->
  (forall e, e < length (edges g) -> exists f, nth_error flags e = Some f /\ simple_flag (next_id st) f) ->
  closed_state st -> model_of gsem en st ->
  exists st', post_acyclic st flags g = Ok st' /\
    ((exists en', agree_below (next_id st) en en' /\ model_of gsem en' st')
     <-> forest g (pattern_of gsem en flags)).
Proof. exact AcyclicFlags.acyclic_exact_simple_flags. Qed.
Print Assumptions acyclic_exact_simple_flags.

(* the certificate level on its own *)
Theorem acyclic_cert : forall g A, wf_graph g = true -> loop_free g = true ->
  ((exists r, ranks_in_range g r = true /\ cert_acyclic g A r = true) <-> forest g A).
Proof. exact AcyclicExact.acyclic_cert. Qed.
Print Assumptions acyclic_cert.

(* the executable specification run by the harness decides the specification *)
Theorem forest_b_spec : forall g A, wf_graph g = true -> (forest_b g A = true <-> forest g A).
Proof. exact AcyclicDecide.forest_b_spec. Qed.
Print Assumptions forest_b_spec.

(* the bridge formulation of "no cycle" coincides with the union-find formulation
   (an active edge never joins two vertices already joined by earlier active
   edges), for every multigraph, loops included *)
Theorem uf_forest_spec : forall g A, uf_forest g A = true <-> forest g A.
Proof. exact AcyclicUnionFind.uf_forest_spec. Qed.
Print Assumptions uf_forest_spec.

(* n = 0 is outside the domain: int_array(0, 0, -1) raises ValueError *)
Theorem acyclic_zero_vertices : forall st flags g, nv g = 0 -> post_acyclic st flags g = Err ValueError.
Proof. exact AcyclicExamples.post_acyclic_zero_vertices. Qed.
Print Assumptions acyclic_zero_vertices.

(* why the statement says loop-free: an active self-loop is a cycle the encoding accepts *)
Theorem acyclic_loop_free_needed :
  let g := {| nv := 1; edges := [(0, 0)] |} in
  let A := fun _ : nat => true in
  wf_graph g = true /\
  (exists r, ranks_in_range g r = true /\ cert_acyclic g A r = true) /\ ~ forest g A.
Proof. exact AcyclicExamples.loop_free_needed. Qed.
Print Assumptions acyclic_loop_free_needed.
