(* C11: the program of solve_slalom is well formed whenever the model is defined; composition with C02 (solve_reports). *)
From Coq Require Import ZArith List Bool Arith Lia.
From Cspuz Require Import Lib.PyErr Core.Expr Core.Program Graph.GraphModel Graph.CycleLemmas Graph.Cycle
     Backend.Z3 Backend.Z3Oracle Backend.Z3SolveProofs Backend.SolveLoop Backend.SolveZ3Proofs
     Puzzle.PuzzleBase Puzzle.ModelBase Puzzle.ModelLemmas Puzzle.SatAbs Puzzle.SolveCompose Puzzle.WfLemmas
     Puzzle.CycleFrameBase Puzzle.Rules_slalom Puzzle.Slalom Puzzle.SlalomCompose Puzzle.SlalomWalk Puzzle.SlalomLemmas
     Puzzle.SlalomProofs.
Import ListNotations.
Local Open Scope nat_scope.

Lemma ok_ct_exprs vs es : forallb (ok vs true) es = true -> ok vs false (ct_exprs es) = true.
Proof.
  intros H. destruct es as [|e r]; [reflexivity|]. unfold ct_exprs.
  rewrite ok_add_map by discriminate. rewrite forallb_forall in *. intros x Hx. rewrite ok_cond. apply H. exact Hx.
Qed.

Lemma sl_dirs_step_onb h w y x d : y < h -> x < w -> In d (sl_dirs h w y x) ->
  fst (step_dir y x d) < h /\ snd (step_dir y x d) < w.
Proof.
  intros Hy Hx. unfold sl_dirs. rewrite !in_app_iff.
  intros [H|[H|[H|H]]];
    match type of H with In _ (if ?b then _ else _) => destruct b eqn:E end; simpl in H; try contradiction;
    destruct H as [<-|[]]; apply Nat.ltb_lt in E; simpl; lia.
Qed.

Section W.
  Variables fh fw G : nat.
  Let h := S fh.
  Let w := S fw.
  Let N := frame_n fh fw.
  Let pre := repeat DBool (N + N) ++ sl_aux_decls fh fw.
  Let base := length pre.
  Let vs := pre ++ repeat (DInt 0 (Z.of_nat G)) (h * w) ++ repeat DBool (h * w).

  Lemma ok_sl_low i : i < N + N -> ok vs true (BVar i) = true.
  Proof.
    intros H. unfold vs, pre. rewrite <- !app_assoc. apply (ok_bvar_block []). simpl. lia.
  Qed.
  Lemma ok_sl_pid c : fst c < h -> snd c < w -> ok vs true (BVar (sl_pid h w base c)) = true.
  Proof.
    intros Hy Hx. unfold vs. rewrite app_assoc. rewrite <- (app_nil_r (repeat DBool (h * w))).
    apply ok_bvar_block. rewrite app_length, repeat_length. fold base. unfold sl_pid.
    pose proof (cidx_lt h w (fst c) (snd c) Hy Hx) as H. unfold cidx in *. simpl in H. lia.
  Qed.
  Lemma ok_sl_ord c : fst c < h -> snd c < w -> ok vs false (sl_ord w G base c) = true.
  Proof.
    intros Hy Hx. unfold vs, sl_ord. apply ok_ivar_block. fold base.
    pose proof (cidx_lt h w (fst c) (snd c) Hy Hx) as H. unfold cidx in *. simpl in H. lia.
  Qed.

  Lemma ok_sl_in y x d : y < h -> x < w -> In d (sl_dirs h w y x) -> ok vs true (sl_in fh fw y x d) = true.
  Proof.
    intros Hy Hx Hd. pose proof (sl_edge_lt_dirs fh fw y x d Hy Hx Hd) as He. fold N in He.
    unfold sl_in. rewrite ok_and. cbn [forallb]. rewrite ok_xor, ok_pybool, !ok_sl_low by (fold N; lia). reflexivity.
  Qed.
  Lemma ok_sl_out y x d : y < h -> x < w -> In d (sl_dirs h w y x) -> ok vs true (sl_out fh fw y x d) = true.
  Proof.
    intros Hy Hx Hd. pose proof (sl_edge_lt_dirs fh fw y x d Hy Hx Hd) as He. fold N in He.
    unfold sl_out. rewrite ok_and. cbn [forallb]. rewrite ok_iff, ok_pybool, !ok_sl_low by (fold N; lia). reflexivity.
  Qed.

  Lemma sl_cell_ok oy ox black gs y x : y < h -> x < w ->
    forallb (ok vs true) (sl_cell h w G base oy ox black gs (y, x)) = true.
  Proof.
    intros Hy Hx. unfold sl_cell. replace (h - 1) with fh by (unfold h; lia). replace (w - 1) with fw by (unfold w; lia).
    rewrite forallb_app. apply andb_true_iff. split.
    - cbn [forallb]. rewrite !ok_eq, ok_cond, (ok_sl_pid (y, x)) by assumption.
      rewrite !ok_ct_exprs; [reflexivity| |].
      + rewrite forallb_map. apply forallb_In. intros d Hd. apply ok_sl_out; assumption.
      + rewrite forallb_map. apply forallb_In. intros d Hd. apply ok_sl_in; assumption.
    - destruct (negb _).
      + cbn [forallb]. rewrite ok_not, (ok_sl_pid (y, x)) by assumption. reflexivity.
      + destruct (_ && _); [reflexivity|].
        assert (Hstep : forall d, In d (sl_dirs h w y x) -> ok vs false (sl_ord w G base (step_dir y x d)) = true).
        { intros d Hd. destruct (sl_dirs_step_onb h w y x d Hy Hx Hd). apply ok_sl_ord; assumption. }
        destruct (sl_gate_id gs (y, x)) as [n|].
        * rewrite forallb_app. apply andb_true_iff. split.
          -- rewrite forallb_map. apply forallb_In. intros d Hd.
             rewrite ok_imp, ok_sl_in, ok_eq, (Hstep d Hd), ok_sub by assumption. cbn [forallb].
             rewrite (ok_sl_ord (y, x)), ok_pyint by assumption. reflexivity.
          -- destruct (1 <=? n)%Z; [|reflexivity]. cbn [forallb].
             rewrite ok_imp, ok_eq, (ok_sl_pid (y, x)), (ok_sl_ord (y, x)), ok_pyint by assumption. reflexivity.
        * rewrite forallb_map. apply forallb_In. intros d Hd.
          rewrite ok_imp, ok_sl_in, ok_eq, (Hstep d Hd), (ok_sl_ord (y, x)) by assumption. reflexivity.
  Qed.

  Lemma sl_constraints_ok oy ox black gs :
    (forall k c, k < G -> In c (gate_cells gs k) -> fst c < h /\ snd c < w) -> oy < h -> ox < w ->
    forallb (ok vs true) (sl_constraints h w G base oy ox black gs) = true.
  Proof.
    intros Hg Hoy Hox. unfold sl_constraints. rewrite !forallb_app.
    apply andb_true_iff; split; [|apply andb_true_iff; split; [|apply andb_true_iff; split]].
    - rewrite forallb_map. apply forallb_seq. intros k Hk. unfold sl_gate_count.
      rewrite ok_eq, ok_pyint, andb_true_r. apply ok_ct_vars_lt. intros i Hi.
      apply in_map_iff in Hi. destruct Hi as [c [<- Hc]]. destruct (Hg k c ltac:(lia) Hc). apply ok_sl_pid; assumption.
    - cbn [forallb]. rewrite (ok_sl_pid (oy, ox)) by assumption. reflexivity.
    - rewrite forallb_flat_map. apply forallb_cells. intros y x Hy Hx. apply sl_cell_ok; assumption.
    - unfold sl_aux. rewrite forallb_flat_map. apply forallb_In. intros [y0 x0] H0. apply cells_in in H0.
      rewrite forallb_flat_map. apply forallb_In. intros [y1 x1] H1. apply cells_in in H1.
      destruct (_ && _); [|reflexivity]. cbn [forallb].
      rewrite ok_imp, ok_and, ok_ne. cbn [forallb].
      rewrite (ok_sl_pid (y0, x0)), (ok_sl_pid (y1, x1)), (ok_sl_ord (y0, x0)), (ok_sl_ord (y1, x1)) by (simpl; lia).
      reflexivity.
  Qed.
End W.

Lemma slalom_model_shape pb st : solve_slalom_model pb = Ok st ->
  (wf_state st /\ wf_keys st) /\
  1 <= dim pb 0 /\ 1 <= dim pb 1 /\
  exists r, keys st = repeat true (frame_n (dim pb 0 - 1) (dim pb 1 - 1)) ++ r.
Proof.
  unfold solve_slalom_model. cbv zeta.
  assert (D0 : dim pb 0 = Z.to_nat (getz (sec pb 0) 0)) by reflexivity.
  assert (D1 : dim pb 1 = Z.to_nat (getz (sec pb 0) 1)) by reflexivity.
  destruct (_ || _)%bool eqn:Eg; [discriminate|].
  apply orb_false_iff in Eg. destruct Eg as [G0 G1]. apply Z.ltb_ge in G0, G1.
  destruct (sl_outside pb); [discriminate|].
  destruct (dim pb 0) as [|fh] eqn:Eh; [lia|]. destruct (dim pb 1) as [|fw] eqn:Ew; [lia|].
  replace (S fh - 1) with fh by lia. replace (S fw - 1) with fw by lia.
  destruct (sl_cycle_shape fh fw) as [st1 [Hc [Hv [Hk [W1 [K1 HB]]]]]]. rewrite Hc.
  set (G := n_gates (sec pb 3)).
  unfold int_array. replace (Z.of_nat G <? 0)%Z with false by (symmetry; apply Z.ltb_ge; lia).
  rewrite int_vars_spec. unfold bool_array. rewrite bool_vars_spec. cbn [vars keys Program.cons].
  destruct (_ || _)%bool eqn:Echk; [discriminate|].
  apply orb_false_iff in Echk. destruct Echk as [Echk _]. apply orb_false_iff in Echk. destruct Echk as [Eg Eo].
  apply negb_false_iff in Eo. apply andb_prop in Eo. destruct Eo as [Eoy Eox].
  apply Nat.ltb_lt in Eoy. apply Nat.ltb_lt in Eox.
  intros H. inversion H; subst st; clear H.
  assert (Ebase : next_id st1 = length (repeat DBool (frame_n fh fw + frame_n fh fw) ++ sl_aux_decls fh fw)).
  { unfold next_id. rewrite Hv. reflexivity. }
  split; [split|split; [lia|split; [lia|]]].
  - unfold wf_state, ensure. cbn [vars Program.cons]. apply wf_cons_app.
    + rewrite <- app_assoc. apply wf_cons_more. exact W1.
    + rewrite Ebase, Hv, <- app_assoc. apply (sl_constraints_ok fh fw G); [|exact Eoy|exact Eox].
      intros k c Hk' Hc'. split; apply Nat.ltb_lt.
      * destruct (Nat.ltb (fst c) (S fh)) eqn:E; [reflexivity|]. exfalso.
        assert (existsb (fun k => existsb (fun c => negb (Nat.ltb (fst c) (S fh) && Nat.ltb (snd c) (S fw)))
                                          (gate_cells (sec pb 3) k)) (seq 0 G) = true); [|congruence].
        apply existsb_exists. exists k. split; [apply in_seq; lia|]. apply existsb_exists. exists c. split; [exact Hc'|].
        rewrite E. reflexivity.
      * destruct (Nat.ltb (snd c) (S fw)) eqn:E; [reflexivity|]. exfalso.
        assert (existsb (fun k => existsb (fun c => negb (Nat.ltb (fst c) (S fh) && Nat.ltb (snd c) (S fw)))
                                          (gate_cells (sec pb 3) k)) (seq 0 G) = true); [|congruence].
        apply existsb_exists. exists k. split; [apply in_seq; lia|]. apply existsb_exists. exists c. split; [exact Hc'|].
        rewrite E, andb_false_r. reflexivity.
  - unfold wf_keys, ensure. cbn [vars keys]. rewrite !app_length. cbn [length]. rewrite !repeat_length. unfold wf_keys in K1. lia.
  - unfold ensure. cbn [keys]. rewrite Hk, <- !app_assoc. eexists. reflexivity.
Qed.

Lemma slalom_model_wf pb st : solve_slalom_model pb = Ok st -> wf_state st /\ wf_keys st.
Proof. intros H. exact (proj1 (slalom_model_shape pb st H)). Qed.

Theorem slalom_solve_reports : forall oracle, oracle_sound_on oracle -> oracle_complete_on oracle ->
  forall h w oy ox black gs st,
  slalom_wf [[Z.of_nat h; Z.of_nat w]; [oy; ox]; black; gs] = true ->
  solve_slalom_model [[Z.of_nat h; Z.of_nat w]; [oy; ox]; black; gs] = Ok st ->
  solve_reports oracle st (seq 0 (n_lattice_edges h w)) (rules_slalom [[Z.of_nat h; Z.of_nat w]; [oy; ox]; black; gs]).
Proof.
  intros oracle Os Oc h w oy ox black gs st Hwf Hst.
  apply (solve_reports_intro oracle no_graph); try assumption.
  - exact (slalom_model_wf _ _ Hst).
  - destruct (slalom_model_shape _ _ Hst) as [_ [H1 [H2 [r Hk]]]]. rewrite dim2_0 in Hk, H1. rewrite dim2_1 in Hk, H2. rewrite Hk.
    intros i Hi. apply keys_prefix.
    replace (frame_n (h - 1) (w - 1)) with (n_lattice_edges h w); [exact Hi|].
    unfold n_lattice_edges, frame_n. destruct h, w; try lia.
  - intros ans. exact (slalom_exact h w oy ox black gs st ans Hwf Hst).
Qed.
