(* C19 — model of cspuz/generator/deterministic_random.py (class XorShift, seed,
   randint, choice, shuffle, random) and of the dispatch in srandom.py when the
   deterministic PRNG is enabled.  No proofs in this file.

   The global `_rng` object is the explicit state `xs`; every function that
   draws returns the new state.  `randint` loops (`while True`) in Python; the
   model gives the loop an explicit fuel and reports `Diverge` when it runs out
   (never observed: every draw is accepted with probability > 1/2).
   `random()` is float(next()) / 2^32; the model returns the numerator, the
   value is the rational numerator / 2^32 (exact in binary64, see TRUSTED in
   harness/pC19.py). *)
From Coq Require Import ZArith List Bool.
From Cspuz Require Import Lib.PyErr.
Import ListNotations.
Open Scope Z_scope.

Definition M32 : Z := 4294967296.          (* _XORSHIFT_DOMAIN_SIZE = 1 << 32 *)
Definition MASK32 : Z := 4294967295.       (* 0xFFFFFFFF *)

Record xs := mkxs { sx : Z; sy : Z; sz : Z; sw : Z }.

(* XorShift.__init__(seed) *)
Definition seed_state (seed : Z) : xs :=
  mkxs 123456789 362436069 521288629 (Z.lxor 88675123 (Z.land seed MASK32)).

(* XorShift.next() *)
Definition next (s : xs) : Z * xs :=
  let t := Z.land (Z.lxor (sx s) (Z.shiftl (sx s) 11)) MASK32 in
  let w' := Z.lxor (Z.lxor (sw s) (Z.shiftr (sw s) 19)) (Z.lxor t (Z.shiftr t 8)) in
  (w', mkxs (sy s) (sz s) (sw s) w').

(* outcome of a computation that may draw: a value and the new PRNG state, a
   Python exception, or fuel exhaustion of the rejection loop *)
Inductive out (A : Type) :=
  | Done (a : A) (s : xs)
  | Raise (e : pyerr)
  | Diverge.
Arguments Done {A} a s.
Arguments Raise {A} e.
Arguments Diverge {A}.

Definition R (A : Type) := xs -> out A.
Definition retR {A} (a : A) : R A := fun s => Done a s.
Definition raiseR {A} (e : pyerr) : R A := fun _ => Raise e.
Definition bindR {A B} (m : R A) (f : A -> R B) : R B :=
  fun s => match m s with
           | Done a s' => f a s'
           | Raise e => Raise e
           | Diverge => Diverge
           end.

Declare Scope rand_scope.
Delimit Scope rand_scope with rand.
Notation "'do*' x '<-' c1 ';' c2" := (bindR c1 (fun x => c2))
  (at level 61, x pattern, c1 at next level, right associativity) : rand_scope.
Notation "'do*' ' x '<-' c1 ';' c2" := (bindR c1 (fun x => c2))
  (at level 61, x pattern, c1 at next level, right associativity) : rand_scope.
Open Scope rand_scope.

Definition nextR : R Z := fun s => let '(x, s') := next s in Done x s'.

(* the rejection loop of randint:  while True: x = next(); if x < limit: return x *)
Fixpoint draw_below (fuel : nat) (limit : Z) (s : xs) : out Z :=
  match fuel with
  | O => Diverge
  | S f => let '(x, s') := next s in
           if x <? limit then Done x s' else draw_below f limit s'
  end.

Definition RANDINT_FUEL : nat := 256.

(* deterministic_random.randint(a, b)  (after the fix: a + x % w) *)
Definition randint (a b : Z) : R Z :=
  fun s =>
    if b <? a then Raise ValueError else
    let w := b - a + 1 in
    if M32 <? w then Raise ValueError else
    let limit := M32 - M32 mod w in
    match draw_below RANDINT_FUEL limit s with
    | Done x s' => Done (a + x mod w) s'
    | Raise e => Raise e
    | Diverge => Diverge
    end.

(* deterministic_random.choice(cand) *)
Definition choice {A} (cand : list A) : R A :=
  match cand with
  | [] => raiseR ValueError
  | _ => do* idx <- randint 0 (Z.of_nat (length cand) - 1);
         match nth_error cand (Z.to_nat idx) with
         | Some a => retR a
         | None => raiseR IndexError
         end
  end.

(* seq[n] = v (no effect when n is out of range; shuffle never does that) *)
Fixpoint set_nth {A} (l : list A) (n : nat) (v : A) : list A :=
  match l, n with
  | [], _ => []
  | _ :: t, O => v :: t
  | x :: t, S n' => x :: set_nth t n' v
  end.

(* seq[i], seq[j] = seq[j], seq[i]: the right-hand side is evaluated first, then
   seq[i] and seq[j] are assigned in this order *)
Definition swap {A} (l : list A) (i j : nat) : list A :=
  match nth_error l i, nth_error l j with
  | Some a, Some b => set_nth (set_nth l i b) j a
  | _, _ => l
  end.

(* deterministic_random.shuffle(seq):
     for i in range(1, len(seq)): j = randint(0, i); if i != j: swap *)
Fixpoint shuffle_from {A} (n : nat) (i : nat) (l : list A) : R (list A) :=
  match n with
  | O => retR l
  | S n' => do* j <- randint 0 (Z.of_nat i);
            let l' := if Nat.eqb i (Z.to_nat j) then l else swap l i (Z.to_nat j) in
            shuffle_from n' (S i) l'
  end.
Definition shuffle {A} (l : list A) : R (list A) :=
  shuffle_from (length l - 1) 1 l.

(* deterministic_random.random(): numerator of float(next()) / 2^32 *)
Definition random_num : R Z := nextR.

(* the stream of raw words, for the correspondence of XorShift.next itself *)
Fixpoint words (n : nat) (s : xs) : list Z :=
  match n with
  | O => []
  | S n' => let '(x, s') := next s in x :: words n' s'
  end.
