"""C20 translator (tie T): reads the constant tables and the decision structure that the
C20 model is parameterised by out of /repo's *current* source with Python's ast, and
renders them as coq/theories/Gen/ConfigTables.v.

Fail-closed: every function that is read is matched against the exact statement shapes
the Coq model (Backend/Config.v) gives a meaning to; anything else raises TranslateError
(the check then reports the translator as a tie that no longer holds).

  configuration.py  _get_default, _strtobool, _detect_backend, Config.__init__, `config = Config()`
  solver.py         _get_backend_by_name (if/elif chain), _get_default_backend, _get_backend,
                    Solver.find_answer / Solver.solve (class instantiated = _get_backend(backend))
  backend/sugar_like.py, backend/z3.py   the external entry point of every class in the chain
  graph.py          every `use_graph_primitive` decision site, its guard, every call that forwards
                    (or fixes) the argument, every place a native operator is emitted
"""
import ast
import os


class TranslateError(Exception):
    pass


def fail(msg, node=None, path=None):
    where = ""
    if node is not None and hasattr(node, "lineno"):
        where = " (line %d)" % node.lineno
    raise TranslateError("%s%s%s" % ((path + ": ") if path else "", msg, where))


# ------------------------------------------------------------------ generic helpers

def parse_file(path):
    with open(path) as f:
        return ast.parse(f.read(), path)


def body_nodoc(fn):
    b = list(fn.body)
    if b and isinstance(b[0], ast.Expr) and isinstance(b[0].value, ast.Constant) and isinstance(b[0].value.value, str):
        b = b[1:]
    return b


class _Strip(ast.NodeTransformer):
    def visit_arg(self, node):
        node.annotation = None
        node.type_comment = None
        return node

    def visit_FunctionDef(self, node):
        self.generic_visit(node)
        node.returns = None
        node.type_comment = None
        node.body = body_nodoc(node) or [ast.Pass()]
        return node

    def visit_AnnAssign(self, node):
        self.generic_visit(node)
        if node.value is None:
            return None
        return ast.Assign(targets=[node.target], value=node.value)


def norm(node):
    """dump of a function with annotations and docstring removed"""
    import copy
    n = _Strip().visit(copy.deepcopy(node))
    return ast.dump(n, annotate_fields=True, include_attributes=False)


def norm_src(src):
    return norm(ast.parse(src).body[0])


def is_overload(fn):
    for d in fn.decorator_list:
        if isinstance(d, ast.Name) and d.id == "overload":
            return True
        if isinstance(d, ast.Attribute) and d.attr == "overload":
            return True
    return False


def module_funcs(mod, path):
    out = {}
    for n in mod.body:
        if isinstance(n, ast.FunctionDef) and not is_overload(n):
            if n.name in out:
                fail("function %s defined twice" % n.name, n, path)
            out[n.name] = n
    return out


def module_class(mod, name, path):
    cs = [n for n in mod.body if isinstance(n, ast.ClassDef) and n.name == name]
    if len(cs) != 1:
        fail("expected exactly one class %s" % name, None, path)
    return cs[0]


def class_methods(cls, path):
    out = {}
    for n in cls.body:
        if isinstance(n, ast.FunctionDef) and not is_overload(n):
            if n.name in out:
                fail("method %s.%s defined twice" % (cls.name, n.name), n, path)
            out[n.name] = n
    return out


def const_str(n, path, what):
    if isinstance(n, ast.Constant) and isinstance(n.value, str):
        return n.value
    fail("%s: expected a string literal" % what, n, path)


def str_tuple(n, path, what):
    if isinstance(n, (ast.Tuple, ast.List)) and all(isinstance(e, ast.Constant) and isinstance(e.value, str) for e in n.elts):
        return [e.value for e in n.elts]
    fail("%s: expected a tuple of string literals" % what, n, path)


def is_name(n, ident):
    return isinstance(n, ast.Name) and n.id == ident


def is_self_attr(n, attr=None):
    return isinstance(n, ast.Attribute) and is_name(n.value, "self") and (attr is None or n.attr == attr)


def dotted(n):
    parts = []
    while isinstance(n, ast.Attribute):
        parts.append(n.attr)
        n = n.value
    if isinstance(n, ast.Name):
        parts.append(n.id)
        return ".".join(reversed(parts))
    return None


def has_import_from(mod, module, name, level):
    for n in mod.body:
        if isinstance(n, ast.ImportFrom) and (n.module or "") == module and n.level == level:
            for a in n.names:
                if a.name == name and a.asname in (None, name):
                    return True
    return False


def assigned_names(mod):
    """module-level names bound more than once / rebound would change what a Name means"""
    cnt = {}
    for n in ast.walk(mod):
        if isinstance(n, ast.Global):
            for x in n.names:
                cnt[x] = cnt.get(x, 0) + 100
    for n in mod.body:
        tg = []
        if isinstance(n, ast.Assign):
            tg = n.targets
        elif isinstance(n, (ast.AnnAssign, ast.AugAssign)):
            tg = [n.target]
        for t in tg:
            for m in ast.walk(t):
                if isinstance(m, ast.Name):
                    cnt[m.id] = cnt.get(m.id, 0) + 1
        if isinstance(n, (ast.FunctionDef, ast.ClassDef)) and not (isinstance(n, ast.FunctionDef) and is_overload(n)):
            cnt[n.name] = cnt.get(n.name, 0) + 1
        if isinstance(n, (ast.Import, ast.ImportFrom)):
            for a in n.names:
                nm = (a.asname or a.name).split(".")[0]
                cnt[nm] = cnt.get(nm, 0) + 1
    return cnt


def require_single_binding(mod, names, path):
    cnt = assigned_names(mod)
    for nm in names:
        if cnt.get(nm, 0) != 1:
            fail("module-level name %s is bound %d times (expected exactly once)" % (nm, cnt.get(nm, 0)), None, path)


# ------------------------------------------------------------------ configuration.py

T_GET_DEFAULT = '''
def _get_default(infer_from_env, env_key, default):
    if infer_from_env:
        return os.environ.get(env_key, default)
    else:
        return default
'''


def read_configuration(path):
    mod = parse_file(path)
    fs = module_funcs(mod, path)
    for need in ("_get_default", "_strtobool", "_detect_backend"):
        if need not in fs:
            fail("function %s not found" % need, None, path)
    require_single_binding(mod, ["_get_default", "_strtobool", "_detect_backend", "Config", "config", "os"], path)
    if not any(isinstance(n, ast.Import) and any(a.name == "os" and a.asname is None for a in n.names) for n in mod.body):
        fail("`import os` not found", None, path)
    if norm(fs["_get_default"]) != norm_src(T_GET_DEFAULT):
        fail("_get_default has an unexpected body", fs["_get_default"], path)

    # _strtobool
    f = fs["_strtobool"]
    if [a.arg for a in f.args.args] != ["s"] or f.args.vararg or f.args.kwarg or f.args.kwonlyargs:
        fail("_strtobool: unexpected signature", f, path)
    b = body_nodoc(f)
    if len(b) != 2 or ast.dump(b[0]) != ast.dump(ast.parse("s = s.lower()").body[0]):
        fail("_strtobool: expected `s = s.lower()` followed by one if-chain", f, path)

    def in_test(t):
        if isinstance(t, ast.Compare) and is_name(t.left, "s") and len(t.ops) == 1 and isinstance(t.ops[0], ast.In):
            return str_tuple(t.comparators[0], path, "_strtobool")
        fail("_strtobool: expected `s in (<strings>)`", t, path)

    def ret_bool(body, want):
        if len(body) == 1 and isinstance(body[0], ast.Return) and isinstance(body[0].value, ast.Constant) and body[0].value.value is want:
            return
        fail("_strtobool: expected `return %s`" % want, body[0] if body else None, path)

    i1 = b[1]
    if not isinstance(i1, ast.If):
        fail("_strtobool: expected if-chain", i1, path)
    t_true = in_test(i1.test)
    ret_bool(i1.body, True)
    if len(i1.orelse) != 1 or not isinstance(i1.orelse[0], ast.If):
        fail("_strtobool: expected elif", i1, path)
    i2 = i1.orelse[0]
    t_false = in_test(i2.test)
    ret_bool(i2.body, False)
    if not (len(i2.orelse) == 1 and isinstance(i2.orelse[0], ast.Raise) and isinstance(i2.orelse[0].exc, ast.Call)
            and is_name(i2.orelse[0].exc.func, "ValueError")):
        fail("_strtobool: the chain must end with `raise ValueError(...)`", i2, path)

    # _detect_backend
    f = fs["_detect_backend"]
    if f.args.args or f.args.vararg or f.args.kwarg or f.args.kwonlyargs:
        fail("_detect_backend: unexpected signature", f, path)
    b = body_nodoc(f)
    detect = []
    if not b or not isinstance(b[-1], ast.Return):
        fail("_detect_backend: must end with `return <name>`", f, path)
    fallback = const_str(b[-1].value, path, "_detect_backend fallback")
    for st in b[:-1]:
        ok = (isinstance(st, ast.Try) and len(st.body) == 2 and not st.orelse and not st.finalbody
              and isinstance(st.body[0], ast.Import) and len(st.body[0].names) == 1 and st.body[0].names[0].asname is None
              and isinstance(st.body[1], ast.Return)
              and len(st.handlers) == 1 and is_name(st.handlers[0].type, "ImportError") and st.handlers[0].name is None
              and len(st.handlers[0].body) == 1 and isinstance(st.handlers[0].body[0], ast.Pass))
        if not ok:
            fail("_detect_backend: expected `try: import M; return NAME  except ImportError: pass`", st, path)
        detect.append((st.body[0].names[0].name, const_str(st.body[1].value, path, "_detect_backend")))

    # Config
    cls = module_class(mod, "Config", path)
    if cls.decorator_list or cls.keywords or not (len(cls.bases) == 0 or (len(cls.bases) == 1 and is_name(cls.bases[0], "object"))):
        fail("class Config: unexpected bases/decorators", cls, path)
    for n in cls.body:
        if isinstance(n, ast.Expr) and isinstance(n.value, ast.Constant) and isinstance(n.value.value, str):
            continue
        if isinstance(n, ast.AnnAssign) and n.value is None:
            continue
        if isinstance(n, ast.FunctionDef) and n.name == "__init__":
            continue
        fail("class Config: unexpected member (only annotations and __init__ are modelled)", n, path)
    init = class_methods(cls, path).get("__init__")
    if init is None:
        fail("Config.__init__ not found", cls, path)
    a = init.args
    if ([x.arg for x in a.args] != ["self", "infer_from_env"] or a.vararg or a.kwarg or a.kwonlyargs or a.posonlyargs
            or len(a.defaults) != 1 or not (isinstance(a.defaults[0], ast.Constant) and a.defaults[0].value is True)):
        fail("Config.__init__: expected (self, infer_from_env=True)", init, path)
    b = body_nodoc(init)
    if len(b) != 9:
        fail("Config.__init__: expected 9 statements, found %d" % len(b), init, path)

    def get_default_call(n, what):
        """_get_default(infer_from_env, "<ENV>", <default expr>) -> (env, default node)"""
        if (isinstance(n, ast.Call) and is_name(n.func, "_get_default") and len(n.args) == 3 and not n.keywords
                and is_name(n.args[0], "infer_from_env")):
            return const_str(n.args[1], path, what), n.args[2]
        fail("%s: expected _get_default(infer_from_env, <ENV>, <default>)" % what, n, path)

    def assign1(st, what):
        if isinstance(st, ast.Assign) and len(st.targets) == 1:
            return st.targets[0], st.value
        fail("%s: expected a simple assignment" % what, st, path)

    # 0: default_backend = _get_default(infer_from_env, ENV, "auto")
    tg, val = assign1(b[0], "Config.__init__[0]")
    if not isinstance(tg, ast.Name):
        fail("Config.__init__[0]: expected a local name", b[0], path)
    v0 = tg.id
    env_backend, d = get_default_call(val, "Config.__init__[0]")
    backend_default = const_str(d, path, "default of " + env_backend)
    # 1: if default_backend == "auto": self.default_backend = _detect_backend() else: self.default_backend = default_backend
    st = b[1]
    ok = (isinstance(st, ast.If) and isinstance(st.test, ast.Compare) and is_name(st.test.left, v0)
          and len(st.test.ops) == 1 and isinstance(st.test.ops[0], ast.Eq)
          and len(st.body) == 1 and len(st.orelse) == 1)
    if not ok:
        fail("Config.__init__[1]: expected `if %s == <auto>: ... else: ...`" % v0, st, path)
    auto = const_str(st.test.comparators[0], path, "auto name")
    tg, val = assign1(st.body[0], "Config.__init__[1] then")
    if not (is_self_attr(tg, "default_backend") and isinstance(val, ast.Call) and is_name(val.func, "_detect_backend")
            and not val.args and not val.keywords):
        fail("Config.__init__[1]: expected self.default_backend = _detect_backend()", st.body[0], path)
    tg, val = assign1(st.orelse[0], "Config.__init__[1] else")
    if not (is_self_attr(tg, "default_backend") and is_name(val, v0)):
        fail("Config.__init__[1]: expected self.default_backend = %s" % v0, st.orelse[0], path)
    # 2: self.backend_path = _get_default(infer_from_env, ENV, None)
    tg, val = assign1(b[2], "Config.__init__[2]")
    if not is_self_attr(tg, "backend_path"):
        fail("Config.__init__[2]: expected self.backend_path = ...", b[2], path)
    env_path, d = get_default_call(val, "Config.__init__[2]")
    if not (isinstance(d, ast.Constant) and d.value is None):
        fail("Config.__init__[2]: default of backend_path must be None", b[2], path)

    # 3, 4: if self.default_backend in (...): X = "True" else: X = "False"
    def default_block(st, what):
        ok = (isinstance(st, ast.If) and isinstance(st.test, ast.Compare) and is_self_attr(st.test.left, "default_backend")
              and len(st.test.ops) == 1 and isinstance(st.test.ops[0], ast.In) and len(st.body) == 1 and len(st.orelse) == 1)
        if not ok:
            fail("%s: expected `if self.default_backend in (...): X = <on> else: X = <off>`" % what, st, path)
        names = str_tuple(st.test.comparators[0], path, what)
        t1, v1 = assign1(st.body[0], what)
        t2, v2 = assign1(st.orelse[0], what)
        if not (isinstance(t1, ast.Name) and isinstance(t2, ast.Name) and t1.id == t2.id):
            fail("%s: both branches must assign the same local" % what, st, path)
        return t1.id, names, const_str(v1, path, what), const_str(v2, path, what)

    g1, on1, s_on1, s_off1 = default_block(b[3], "Config.__init__[3]")
    g2, on2, s_on2, s_off2 = default_block(b[4], "Config.__init__[4]")
    if g1 == g2 or g1 == v0 or g2 == v0:
        fail("Config.__init__: the default locals must be distinct", b[4], path)
    if (s_on1, s_off1) != (s_on2, s_off2):
        fail("Config.__init__: the two default blocks use different on/off strings", b[4], path)
    blocks = {g1: on1, g2: on2}

    # 5, 6: self.<flag> = _strtobool(_get_default(infer_from_env, ENV, X))
    flags = {}
    for k in (5, 6):
        tg, val = assign1(b[k], "Config.__init__[%d]" % k)
        if not (is_self_attr(tg) and isinstance(val, ast.Call) and is_name(val.func, "_strtobool") and len(val.args) == 1 and not val.keywords):
            fail("Config.__init__[%d]: expected self.<flag> = _strtobool(_get_default(...))" % k, b[k], path)
        env, d = get_default_call(val.args[0], "Config.__init__[%d]" % k)
        if not (isinstance(d, ast.Name) and d.id in blocks):
            fail("Config.__init__[%d]: default must be one of the locals %s" % (k, sorted(blocks)), b[k], path)
        if tg.attr in flags:
            fail("Config.__init__: flag %s assigned twice" % tg.attr, b[k], path)
        flags[tg.attr] = (env, blocks[d.id], d.id)
    if sorted(flags) != ["use_graph_division_primitive", "use_graph_primitive"]:
        fail("Config.__init__: expected the flags use_graph_primitive and use_graph_division_primitive, found %s" % sorted(flags), init, path)
    if flags["use_graph_primitive"][2] == flags["use_graph_division_primitive"][2]:
        fail("Config.__init__: both flags use the same default local", init, path)
    # 7: self.solver_timeout = None
    tg, val = assign1(b[7 if len(b) > 8 else 7], "Config.__init__[7]")
    # (b has 9 entries because statement 1..8 + nothing else; index 7 is solver_timeout, see below)
    return mod, fs, b, {
        "detect": detect, "fallback": fallback, "env_backend": env_backend, "backend_default": backend_default,
        "auto": auto, "env_path": env_path,
        "env_prim": flags["use_graph_primitive"][0], "prim_on": flags["use_graph_primitive"][1],
        "env_div": flags["use_graph_division_primitive"][0], "div_on": flags["use_graph_division_primitive"][1],
        "on_str": s_on1, "off_str": s_off1, "true": t_true, "false": t_false,
    }
