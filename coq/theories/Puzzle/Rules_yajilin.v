(* C11 rule specification - Yajilin.
   Published rules (Nikoli, "Yajilin"):
     1. Paint some cells black and draw a single loop that passes through all the
        remaining white cells (cells with numbers excepted).
     2. The numbers with arrows show the number of black cells in the direction
        of the arrow.
     3. Black cells cannot be adjacent horizontally or vertically.
     4. The loop does not cross itself or branch; it cannot pass through black
        cells or numbered cells; numbered cells cannot be painted.
   Library convention: drawing no line at all also counts as a loop.

   problem = [[h; w]; kind; num]   per cell: kind 0 = plain cell, 1 ^, 2 v, 3 <, 4 >, 5 = clue cell without number
   answer  = the segments between cell centres (lattice h w), then the h*w black flags *)
From Coq Require Import ZArith List Bool Arith.
From Cspuz Require Import Graph.GraphModel Puzzle.PuzzleBase.
Import ListNotations.

Definition rules_yajilin (pb : problem) (ans : answer) : bool :=
  let h := dim pb 0 in let w := dim pb 1 in
  let kind := sec pb 1 in let num := sec pb 2 in
  let ne := n_lattice_edges h w in
  let on := fun k => isb (getz ans k) in
  let black := fun y x => isb (getz ans (ne + y * w + x)) in
  let g := lattice h w in
  Nat.eqb (length ans) (ne + h * w) && forallb is01 ans &&
  single_loop_b g on &&
  forallb (fun '(y, x) =>
     let k := at2 kind w y x in
     let passed := on_line g on (y * w + x) in
     (* black cells do not touch *)
     (negb (black y x) || forallb (fun '(y', x') => negb (black y' x')) (nbr4 h w y x)) &&
     (if (k =? 0)%Z then xorb passed (black y x)
      else negb passed && negb (black y x) &&
           let dir := if (k =? 1)%Z then Some ((-1)%Z, 0%Z) else if (k =? 2)%Z then Some (1%Z, 0%Z)
                      else if (k =? 3)%Z then Some (0%Z, (-1)%Z) else if (k =? 4)%Z then Some (0%Z, 1%Z)
                      else None in
           match dir with
           | Some (dy, dx) => (zcount (fun '(y', x') => black y' x') (ray h w y x dy dx) =? at2 num w y x)%Z
           | None => true
           end)) (cells h w).

Definition answers_yajilin (pb : problem) : list answer :=
  all_answers (bool_doms (n_lattice_edges (dim pb 0) (dim pb 1) + dim pb 0 * dim pb 1)).
