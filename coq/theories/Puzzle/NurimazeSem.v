(* C11 Tier 1 - nurimaze: what the constraints posted after the connectivity helper (Nurimaze.v::
   nurimaze_constraints) say about an assignment, as a boolean function of the two grids white / path. *)
From Coq Require Import ZArith List Bool Arith Lia.
From Cspuz Require Import Lib.PyErr Core.Expr Core.Program
     Puzzle.PuzzleBase Puzzle.SatAbs Puzzle.ModelBase Puzzle.ModelLemmas Puzzle.NurimisakiProofs Puzzle.Nurimaze.
Import ListNotations.
Local Open Scope nat_scope.

Definition nm_cell_sem (h w : nat) (wv wh mark : list Z) (sy sx gy gx : Z) (white pth : nat * nat -> bool)
    (c : nat * nat) : bool :=
  let '(y, x) := c in
  let m := at2 mark w y x in
  (if Nat.ltb (S x) w && (at2 wv (w - 1) y x =? 0)%Z then Bool.eqb (white (y, x)) (white (y, S x)) else true) &&
  (if Nat.ltb (S y) h && (at2 wh w y x =? 0)%Z then Bool.eqb (white (y, x)) (white (S y, x)) else true) &&
  (if nm_is y x sy sx || nm_is y x gy gx
   then pth (y, x) && Nat.eqb (count pth (nbr4 h w y x)) 1
   else implb (pth (y, x)) (Nat.eqb (count pth (nbr4 h w y x)) 2)) &&
  ((m =? 0)%Z || white (y, x)) &&
  (if (m =? 1)%Z then pth (y, x) else if (m =? 2)%Z then negb (pth (y, x)) else true).

Definition nm_sem (h w : nat) (wv wh mark : list Z) (sy sx gy gx : Z) (white pth : nat * nat -> bool) : bool :=
  forallb (fun '(y, x) => white (y, x) || white (y, S x) || white (S y, x) || white (S y, S x)) (cells (h - 1) (w - 1)) &&
  forallb (fun '(y, x) => negb (white (y, x) && white (y, S x) && white (S y, x) && white (S y, S x)))
          (cells (h - 1) (w - 1)) &&
  forallb (fun c => implb (pth c) (white c)) (cells h w) &&
  forallb (nm_cell_sem h w wv wh mark sy sx gy gx white pth) (cells h w).

Section Sem.
  Variable gsem : op -> list (option value) -> option bool.
  Variable en : env.
  Variables (base h w : nat) (wv wh mark : list Z) (sy sx gy gx : Z).
  Let hold := holds gsem en.
  Let white (c : nat * nat) : bool := eb en (cidx w c).
  Let pth (c : nat * nat) : bool := eb en (base + cidx w c).

  Lemma nm_hold_var i : hold (BVar i) = eb en i.
  Proof. unfold hold, holds. simpl. destruct (eb en i); reflexivity. Qed.
  Lemma nm_hold_not i : hold (BNode NOT [BVar i]) = negb (eb en i).
  Proof. unfold hold, holds. simpl. destruct (eb en i); reflexivity. Qed.
  Lemma nm_hold_iff i j : hold (BNode IFF [BVar i; BVar j]) = Bool.eqb (eb en i) (eb en j).
  Proof. unfold hold, holds. simpl. destruct (eb en i), (eb en j); reflexivity. Qed.
  Lemma nm_hold_imp i j : hold (BNode IMP [BVar i; BVar j]) = implb (eb en i) (eb en j).
  Proof. unfold hold, holds. simpl. destruct (eb en i), (eb en j); reflexivity. Qed.
  Lemma nm_hold_eq ids k : hold (BNode EQ [ct_vars ids; PyInt (Z.of_nat k)]) = Nat.eqb (count (eb en) ids) k.
  Proof.
    unfold hold, holds. cbn [eval map]. rewrite eval_ct_vars_g. cbn.
    rewrite znat_eqb. destruct (Nat.eqb (count (eb en) ids) k); reflexivity.
  Qed.
  Lemma nm_hold_imp_eq i ids k :
    hold (BNode IMP [BVar i; BNode EQ [ct_vars ids; PyInt (Z.of_nat k)]]) = implb (eb en i) (Nat.eqb (count (eb en) ids) k).
  Proof.
    unfold hold, holds. cbn [eval map]. rewrite eval_ct_vars_g. cbn.
    rewrite znat_eqb. destruct (eb en i), (Nat.eqb (count (eb en) ids) k); reflexivity.
  Qed.

  Lemma nm_hold_block_or y x :
    hold (nm_block_or w y x) = white (y, x) || white (y, S x) || white (S y, x) || white (S y, S x).
  Proof.
    unfold hold, holds, nm_block_or, nm_white, white. simpl.
    destruct (eb en (cidx w (y, x))), (eb en (cidx w (y, S x))), (eb en (cidx w (S y, x))), (eb en (cidx w (S y, S x))); reflexivity.
  Qed.
  Lemma nm_hold_block_nand y x :
    hold (nm_block_nand w y x) = negb (white (y, x) && white (y, S x) && white (S y, x) && white (S y, S x)).
  Proof.
    unfold hold, holds, nm_block_nand, nm_white, white. simpl.
    destruct (eb en (cidx w (y, x))), (eb en (cidx w (y, S x))), (eb en (cidx w (S y, x))), (eb en (cidx w (S y, S x))); reflexivity.
  Qed.

  Lemma nm_count_path y x :
    count (eb en) (map (fun d => base + cidx w d) (nbr4 h w y x)) = count pth (nbr4 h w y x).
  Proof. rewrite count_map. reflexivity. Qed.

  Lemma nm_cell_holds c :
    forallb hold (nm_cell base h w wv wh mark sy sx gy gx c) = nm_cell_sem h w wv wh mark sy sx gy gx white pth c.
  Proof.
    destruct c as [y x]. unfold nm_cell, nm_cell_sem. rewrite !forallb_app, !andb_assoc.
    change 1%Z with (Z.of_nat 1). change 2%Z with (Z.of_nat 2) at 1.
    repeat (apply (f_equal2 andb)).
    - destruct (Nat.ltb (S x) w && (at2 wv (w - 1) y x =? 0)%Z); [|reflexivity].
      cbn [forallb]. unfold nm_white. rewrite nm_hold_iff, andb_true_r. reflexivity.
    - destruct (Nat.ltb (S y) h && (at2 wh w y x =? 0)%Z); [|reflexivity].
      cbn [forallb]. unfold nm_white. rewrite nm_hold_iff, andb_true_r. reflexivity.
    - destruct (nm_is y x sy sx || nm_is y x gy gx); cbn [forallb]; unfold nm_path.
      + rewrite nm_hold_var, nm_hold_eq, nm_count_path, andb_true_r. reflexivity.
      + rewrite nm_hold_imp_eq, nm_count_path, andb_true_r. reflexivity.
    - destruct (at2 mark w y x =? 0)%Z; [reflexivity|]. cbn [forallb orb]. unfold nm_white. rewrite nm_hold_var, andb_true_r. reflexivity.
    - destruct (at2 mark w y x =? Z.of_nat 1)%Z; [cbn [forallb]; unfold nm_path; rewrite nm_hold_var, andb_true_r; reflexivity|].
      destruct (at2 mark w y x =? 2)%Z; [|reflexivity].
      cbn [forallb]. unfold nm_path. rewrite nm_hold_not, andb_true_r. reflexivity.
  Qed.

  Lemma nurimaze_constraints_sem :
    forallb hold (nurimaze_constraints base h w wv wh mark sy sx gy gx) = nm_sem h w wv wh mark sy sx gy gx white pth.
  Proof.
    unfold nurimaze_constraints, nm_sem. rewrite !forallb_app, !forallb_map, forallb_flat_map.
    rewrite <- !andb_assoc. repeat (apply (f_equal2 andb)).
    - apply forallb_ext_in. intros [y x] _. apply nm_hold_block_or.
    - apply forallb_ext_in. intros [y x] _. apply nm_hold_block_nand.
    - apply forallb_ext_in. intros c _. unfold nm_path, nm_white. apply nm_hold_imp.
    - apply forallb_ext_in. intros c _. apply nm_cell_holds.
  Qed.
End Sem.

(* the semantic function only looks at the cells of the board *)
Lemma nm_sem_ext h w wv wh mark sy sx gy gx (white1 white2 pth1 pth2 : nat * nat -> bool) :
  (forall y x, y < h -> x < w -> white1 (y, x) = white2 (y, x)) ->
  (forall y x, y < h -> x < w -> pth1 (y, x) = pth2 (y, x)) ->
  nm_sem h w wv wh mark sy sx gy gx white1 pth1 = nm_sem h w wv wh mark sy sx gy gx white2 pth2.
Proof.
  intros Ew Ep. unfold nm_sem.
  assert (Hblk : forall y x, In (y, x) (cells (h - 1) (w - 1)) -> S y < h /\ S x < w).
  { intros y x Hc. apply cells_in in Hc. lia. }
  repeat (apply (f_equal2 andb)).
  - apply forallb_ext_in. intros [y x] Hc. destruct (Hblk y x Hc). rewrite !Ew by lia. reflexivity.
  - apply forallb_ext_in. intros [y x] Hc. destruct (Hblk y x Hc). rewrite !Ew by lia. reflexivity.
  - apply forallb_ext_in. intros [y x] Hc. apply cells_in in Hc. rewrite Ew, Ep by tauto. reflexivity.
  - apply forallb_ext_in. intros [y x] Hc. apply cells_in in Hc. destruct Hc as [Hy Hx]. unfold nm_cell_sem.
    assert (Hcnt : count pth1 (nbr4 h w y x) = count pth2 (nbr4 h w y x)).
    { apply count_ext_in. intros [y' x'] Hn. destruct (nbr4_in h w y x y' x' Hy Hx Hn). apply Ep; assumption. }
    rewrite Hcnt, (Ew y x Hy Hx), (Ep y x Hy Hx).
    repeat (apply (f_equal2 andb)); try reflexivity.
    + destruct (Nat.ltb_spec (S x) w) as [L|L]; [|reflexivity]. rewrite (Ew y (S x) Hy L). reflexivity.
    + destruct (Nat.ltb_spec (S y) h) as [L|L]; [|reflexivity]. rewrite (Ew (S y) x L Hx). reflexivity.
Qed.
