"""C19 — problem generation is sound and reproducible under the deterministic PRNG.

Model: coq/theories/Generator/{XorShift,Builder,Anneal}.v, theorems Props/C19.v,
runner coq/extract/C19.  This file: correspondence (PRNG call sequences, builder
candidates, neighbour lists, whole generate_problem runs incl. a second run in a
subprocess under another PYTHONHASHSEED / random.seed) and the property-level
search (independent Python oracles on real runs).

Run as a script (`python pC19.py --subrun`) it is the subprocess side of the
whole-run reproducibility check: JSON run configurations on stdin, JSON results
on stdout.
"""
import copy
import json
import os
import re
import subprocess
import sys
from fractions import Fraction

if __name__ != "__main__":
    import vlib

PROPS = "Props/C19.v"
RULE = ("correspondence: (prng) seeds x sequences of next/randint/choice/shuffle/random through cspuz.generator.srandom "
        "with the deterministic PRNG enabled vs the extracted XorShift model, result by result plus the final 4-word state "
        "(seeds and bounds are int objects created at run time; choice over list / range / tuple; lists up to 1000 elements; "
        "choice over ranges of up to 2^32 candidates; pure randint streams over widths near 2^31, 3*2^30, 2^32/3; the same "
        "seed -- incl. 0 and the default None, passed positionally / by keyword / omitted -- enabled again after other draws, "
        "other seeds, switching the PRNG off and on); (cand) Builder.candidates + copy_with_update of Choice/ArrayBuilder2D "
        "(all symmetry x disallow_adjacent x use_move combinations, valid and malformed initial grids, boards up to 7x7 with "
        "structured contents) vs the model, in order, plus PRNG state; the same builder object asked a second time continuing "
        "the stream (model run from the recorded state) after the caller emptied the returned lists, and a third time after "
        "re-seeding; (nb) build_neighbor_generator over nested list/tuple patterns vs the model's neighbour list, one generator "
        "object used three times likewise; (run) whole generate_problem runs with synthetic table-driven "
        "solver/uniqueness/score/pretest/clue_penalty callbacks that exist in Python and in the OCaml driver: the sequence of "
        "problems handed to the solver, the result, the callback call count and the final PRNG state vs the model's run; a "
        "second run over the same builder objects (same seed) and a third one that continues the stream (model run from that "
        "state); every srandom draw of those runs is replayed on the model from the recorded state; each run is repeated in a "
        "subprocess under a different PYTHONHASHSEED and random.seed.  In cand / nb / run the same integers reach the real "
        "code in input variants: values as the spec's ints, as fresh int objects (choice sets shifted outside the small-int "
        "cache [-5, 256]), as str, as tuples, default as an equal float; the choice set as list / tuple / range / generator / "
        "iter / map; ArrayBuilder2D arguments by keyword / defaults omitted / positional; disallow_adjacent as list / tuple / "
        "True spelled out; the caller's choice list modified after construction; generate_problem called with builder_pattern, "
        "with initial_problem + neighbor_generator, or with every defaulted argument omitted.  "
        "search: independent Python oracles on the real code: randint/choice/shuffle/random ranges and coverage; every draw "
        "of long randint / choice(range(w)) streams over the wide widths against textbook rejection sampling on a reference "
        "xorshift128; same seed => same stream and same run after arbitrary srandom histories in one process; neighbour "
        "locality / symmetry / adjacency; candidate sequences independent of the argument form and reproducible on the same "
        "builder / generator object; builder arguments and current problems left unmodified; soundness of the returned problem, "
        "earlier problems unmutated (deep copies), same-seed reproducibility across processes and on reused builder objects, "
        "incl. SegmentationBuilder2D patterns.  A case is non-trivial when it is a distinct (kind, input) pair.")
TRUSTED = [
    "the fail-closed pure-integer translator harness/pyint_translate.py (XorShift.__init__ / next, randint prelude and acceptance test -> Gen/PyIntRandom.v on every run; theorems *_from_source)",
    "IEEE-754: an integer < 2^53 divided by 2^32 is exact in binary64, so srandom.random() == numerator / 2^32 exactly (checked with fractions.Fraction on every draw)",
    "the acceptance test random() < exp((next - current) / temperature) is a Section variable of the model; the OCaml driver instantiates it with the same binary64 operations and the same libm exp as CPython",
    "synthetic callbacks (hash of the printed problem) are written twice: harness/pC19.py::Callbacks and coq/extract/C19/driver.ml",
]
ASSUMPTIONS = [
    "callbacks do not raise, do not draw from srandom and do not modify the problem they are given (they may be stateful: the model threads an abstract world state)",
    "Choice values and grid cells are integers in the model; the real code is also run on str / tuple / float encodings of the same integers (it only compares values with == / !=) and decoded before comparison; patterns are Builders, constants, lists and tuples",
    "disallow_adjacent is True, False or a re-iterable list / tuple of (dy, dx) tuples: the constructor stores the object itself and iterates it for every cell, so a one-shot iterator there is outside the accepted inputs (lists of lists are not accepted either: membership is tested with tuples); initial= is a list of lists and is aliased by design (initial() returns it)",
    "seed None means seed 0 (srandom.use_deterministic_prng spells this out); the model is run with 0",
    "randint's rejection loop is given fuel 256 in the model (each draw is accepted with probability > 1/2)",
    "SegmentationBuilder2D is not part of the Coq model (C18 models it): reproducibility of runs over such patterns is observed by the search, not proved",
    "'regardless of the backend': the backend only enters through the solver callback; the runs use synthetic callbacks, backend independence of real solvers is C02's subject",
    "bench/generator.py needs the cspuz_core backend (a z3 run of its first sudoku did not finish in 10 min) and is not executed; it only calls randint with a = 0, where the fixed randint is unchanged",
    "CPython set iteration order and object aliasing are outside the model; 'earlier problems are never mutated' is tested with deep copies",
    "temperature stays a positive finite float (a temperature that underflows to 0.0 raises ZeroDivisionError in Python; not modelled)",
]

ERRC = {"IndexError": 1, "KeyError": 2, "AssertionError": 3, "TypeError": 4, "ValueError": 5,
        "RecursionError": 6, "NotImplementedError": 7}
ERRN = {v: k for k, v in ERRC.items()}
M32 = 1 << 32
HMOD = 2147483647
FOUR = [(-1, 0), (1, 0), (0, -1), (0, 1)]


# ------------------------------------------------------------------ watchdog

class Hang(Exception):
    pass


class time_limit:
    """raise Hang inside the block after `seconds` (a mutated rejection / retry loop in the
    implementation must not make the check itself hang)."""

    def __init__(self, seconds):
        self.seconds = seconds

    def _fire(self, *a):
        raise Hang("no result after %ss" % self.seconds)

    def __enter__(self):
        import signal
        self.old = signal.signal(signal.SIGALRM, self._fire)
        signal.setitimer(signal.ITIMER_REAL, self.seconds)

    def __exit__(self, *a):
        import signal
        signal.setitimer(signal.ITIMER_REAL, 0)
        signal.signal(signal.SIGALRM, self.old)
        return False


# ------------------------------------------------------------------ input variants (hardening classes 1, 2, 6)
#
# The model speaks integers.  A *variant* says in which Python form the same integers reach the real code:
#   form   lit    the int objects of the spec as they are
#          fresh  int(str(v)): a new object per use (outside CPython's small-int cache: equal, never identical)
#          str    "v<int>" built at run time;   tuple  ("t", <int>);   fdef  the default as float(v), choices as ints
#   cont   container of a choice set: list / tuple / range / one-shot generator, iter(list), map
#   kw     ArrayBuilder2D arguments: all by keyword / defaults omitted / positional
#   dis    custom disallow_adjacent as list or tuple of tuples; "four": True spelled out as the four directions
#   poison after construction the caller's choice list is modified (the builder must have taken a copy)
# Everything read back from the real code is decoded to integers (dec_prob) before it is compared.

DEFAULT_VARIANT = {"form": "lit", "cont": "list", "kw": "all", "dis": "list", "poison": False}
_VARIANT = [dict(DEFAULT_VARIANT)]
_LEAF_RE = re.compile(r"v-?[0-9]+\Z")


class variant:
    def __init__(self, var=None):
        self.var = dict(DEFAULT_VARIANT)
        if var:
            self.var.update(var)

    def __enter__(self):
        _VARIANT.append(self.var)

    def __exit__(self, *a):
        _VARIANT.pop()
        return False


def cur_variant():
    return _VARIANT[-1]


def fresh_int(v):
    return int(str(v))


def enc(v, role="c"):
    """integer of the spec -> the Python value handed to cspuz (role 'd': a default)."""
    f = _VARIANT[-1]["form"]
    if f == "lit":
        return v
    if f == "fresh":
        return fresh_int(v)
    if f == "str":
        return "v%d" % v
    if f == "tuple":
        return ("t", fresh_int(v))
    if f == "fdef":
        return float(v) if role == "d" else fresh_int(v)
    raise ValueError(f)


def is_leaf_tuple(p):
    return _VARIANT[-1]["form"] == "tuple" and isinstance(p, tuple) and len(p) == 2 and p[0] == "t"


def dec_leaf(v):
    """inverse of enc; anything that is not a value of the current form is returned unchanged (and is then
    printed as ?type, i.e. shows up as a mismatch)."""
    f = _VARIANT[-1]["form"]
    if f == "str":
        return int(v[1:]) if isinstance(v, str) and _LEAF_RE.match(v) else v
    if f == "tuple":
        return v[1] if is_leaf_tuple(v) and type(v[1]) is int else v
    if f == "fdef":
        return int(v) if type(v) is float and v == int(v) else v
    return v


def dec_prob(p):
    if _VARIANT[-1]["form"] in ("lit", "fresh"):
        return p
    if is_leaf_tuple(p):
        return dec_leaf(p)
    if isinstance(p, list):
        return [dec_prob(x) for x in p]
    if isinstance(p, tuple):
        return tuple(dec_prob(x) for x in p)
    return dec_leaf(p)


def dec_update(u):
    return [(y, x, dec_leaf(v)) for (y, x, v) in u]


def gen_variant(rng, plain=0.35):
    if rng.random() < plain:
        return dict(DEFAULT_VARIANT)
    return {"form": rng.choice(["fresh", "fresh", "fresh", "str", "tuple", "fdef", "lit"]),
            "cont": rng.choice(["list", "list", "tuple", "range", "gen", "iter", "map"]),
            "kw": rng.choice(["all", "omit", "pos"]),
            "dis": rng.choice(["list", "tuple", "four"]),
            "poison": rng.random() < 0.5}


def var_key(var):
    return "%s/%s/%s/%s/%d" % (var["form"], var["cont"], var["kw"], var["dis"], int(var["poison"]))


# ------------------------------------------------------------------ printing

def show_prob_int(p):
    if isinstance(p, list):
        return "[ " + "".join(show_prob_int(x) + " " for x in p) + "]"
    if isinstance(p, tuple):
        return "( " + "".join(show_prob_int(x) + " " for x in p) + ")"
    if isinstance(p, bool) or not isinstance(p, int):
        return "?" + type(p).__name__            # not a value of the modelled domain: shows up as a mismatch
    return str(p)


def show_prob(p):
    """printed form of a problem as the model prints it (values decoded along the current variant)."""
    return show_prob_int(dec_prob(p))


def dis_list(d):
    if d is True:
        return list(FOUR)
    if d is False:
        return []
    return [tuple(x) for x in d]


def pat_tokens(spec):
    k = spec[0]
    if k == "C":
        return "C %d %s %d" % (len(spec[1]), " ".join(map(str, spec[1])), spec[2])
    if k == "A":
        _, h, w, ch, d, dis, sym, mv, init = spec
        ds = dis_list(dis)
        s = "A %d %d %d %s %d %d %d %d %s" % (h, w, len(ch), " ".join(map(str, ch)), d, int(sym), int(mv), len(ds),
                                           " ".join("%d %d" % t for t in ds))
        if init is None:
            return s + " -"
        return s + " I %d %s" % (len(init), " ".join("%d %s" % (len(r), " ".join(map(str, r))) for r in init))
    if k == "K":
        return "K %d" % spec[1]
    if k in ("L", "T"):
        return "%s %d %s" % (k, len(spec[1]), " ".join(pat_tokens(s) for s in spec[1]))
    raise ValueError(k)


def mk_choice(vals, keep=None):
    """the choice set in the container form of the current variant; every element a separately encoded object."""
    var = _VARIANT[-1]
    cont = var["cont"]
    vals = list(vals)
    if cont == "range":
        if var["form"] in ("lit", "fresh", "fdef") and vals and vals == list(range(vals[0], vals[0] + len(vals))):
            return range(fresh_int(vals[0]), fresh_int(vals[0] + len(vals)))      # range yields new int objects
        cont = "gen"
    if cont == "list":
        lst = [enc(v) for v in vals]
        if keep is not None:
            keep.append(("choice", lst, list(lst), var["poison"]))
        return lst
    if cont == "tuple":
        return tuple(enc(v) for v in vals)
    if cont == "gen":
        return (enc(v) for v in vals)
    if cont == "iter":
        return iter([enc(v) for v in vals])
    if cont == "map":
        return map(enc, vals)
    raise ValueError(cont)


def poison_kept(keep):
    """modify the caller's own choice lists after the builders were constructed."""
    for item in keep:
        if item[0] == "choice" and item[3]:
            lst = item[1]
            lst.append(enc(97))
            if len(lst) > 1:
                lst[0] = enc(98)
            item[2][:] = list(lst)


def build_pattern(spec, keep=None):
    """spec -> the Python pattern, in the argument forms of the current variant.  `keep` collects
    (what, object handed to cspuz, copy) so that callers can check the arguments are left alone."""
    top = keep is None
    if top:
        keep = []
    r = build_pattern_rec(spec, keep)
    poison_kept(keep)
    return r


def build_pattern_rec(spec, keep):
    from cspuz.generator import ArrayBuilder2D, Choice, SegmentationBuilder2D
    var = _VARIANT[-1]
    k = spec[0]
    if k == "C":
        if var["kw"] == "all":
            return Choice(choice=mk_choice(spec[1], keep), default=enc(spec[2], "d"))
        return Choice(mk_choice(spec[1], keep), enc(spec[2], "d"))
    if k == "A":
        _, h, w, ch, d, dis, sym, mv, init = spec
        if isinstance(dis, bool):
            dd = [(-1, 0), (1, 0), (0, -1), (0, 1)] if (dis and var["dis"] == "four") else dis
        else:
            dd = [tuple(x) for x in dis]
            if var["dis"] == "tuple":
                dd = tuple(dd)
        ini = None if init is None else [[enc(v) for v in row] for row in init]
        if ini is not None:
            keep.append(("initial", ini, copy.deepcopy(ini), False))
        if not isinstance(dd, bool):
            keep.append(("disallow_adjacent", dd, copy.deepcopy(dd), False))
        cho, de = mk_choice(ch, keep), enc(d, "d")
        if var["kw"] == "pos":
            return ArrayBuilder2D(h, w, cho, de, dd, sym, ini, mv)
        if var["kw"] == "omit":
            kw = {}
            if dd is not False:
                kw["disallow_adjacent"] = dd
            if sym:
                kw["symmetry"] = sym
            if ini is not None:
                kw["initial"] = ini
            if mv:
                kw["use_move"] = mv
            return ArrayBuilder2D(h, w, cho, de, **kw)
        return ArrayBuilder2D(height=h, width=w, choice=cho, default=de, disallow_adjacent=dd, symmetry=sym,
                              initial=ini, use_move=mv)
    if k == "K":
        return enc(spec[1])
    if k == "L":
        return [build_pattern_rec(s, keep) for s in spec[1]]
    if k == "T":
        return tuple(build_pattern_rec(s, keep) for s in spec[1])
    if k == "S":
        return SegmentationBuilder2D(spec[1], spec[2], **spec[3])
    raise ValueError(k)


def args_changed(keep):
    """arguments handed to the builders that no longer equal their copies."""
    return [(what, cp, obj) for (what, obj, cp, _) in keep if obj != cp]


def enc_grid(g):
    return [[enc(v) for v in row] for row in g]


def has_model(spec):
    if spec[0] == "S":
        return False
    if spec[0] in ("L", "T"):
        return all(has_model(s) for s in spec[1])
    return True


# ------------------------------------------------------------------ PRNG access

def prng_state():
    import cspuz.generator.deterministic_random as dr
    r = dr._rng
    return (r._x, r._y, r._z, r._w)


def seed_prng(seed, how="pos"):
    """enable the deterministic PRNG.  The seed object is created at run time (never a cached literal);
    seed None = the documented default (0).  how: positional / keyword / seed argument left out (None only)."""
    import cspuz.generator.srandom as sr
    sd = None if seed is None else fresh_int(seed)
    if how == "kw":
        sr.use_deterministic_prng(enabled=True, seed=sd)
    elif how == "omit" and sd is None:
        sr.use_deterministic_prng(True)
    else:
        sr.use_deterministic_prng(True, sd)


def do_history(hist):
    """things a process may have done with srandom before the run under test: ('seed', s) enable with another
    seed, ('draw', n) n mixed draws, ('off',) switch to Python's random, ('py', n) n draws from it."""
    import cspuz.generator.srandom as sr
    for h in hist:
        if h[0] == "seed":
            seed_prng(h[1])
        elif h[0] == "draw":
            for i in range(h[1]):
                if i % 3 == 0:
                    sr.randint(0, 1000 + i)
                elif i % 3 == 1:
                    sr.random()
                else:
                    sr.choice(range(7))
        elif h[0] == "off":
            sr.use_deterministic_prng(False)
        elif h[0] == "py":
            for i in range(h[1]):
                sr.random()


def gen_history(rng):
    hist = []
    for _ in range(rng.choice([0, 1, 1, 2, 3])):
        k = rng.random()
        if k < 0.3:
            hist.append(["seed", rng.choice([0, 1, 5, 88675123, rng.randint(0, 10 ** 6)])])
        elif k < 0.75:
            hist.append(["draw", rng.choice([1, 2, 3, 7, 20])])
        elif k < 0.9:
            hist.append(["off"])
        else:
            hist.append(["py", rng.choice([1, 3])])
    return hist


class RefXorShift:
    """reference xorshift128 (Marsaglia 2003, p. 5) with the seeding rule of the documentation: the
    32 low bits of the seed are xor-ed into w.  Independent of cspuz; used by the search only."""

    def __init__(self, seed):
        self.s = [123456789, 362436069, 521288629, 88675123 ^ (seed % M32)]

    def next(self):
        x, y, z, w = self.s
        t = (x ^ (x << 11)) % M32
        w2 = (w ^ (w >> 19)) ^ (t ^ (t >> 8))
        self.s = [y, z, w, w2]
        return w2


def ref_randint(g, a, b):
    """textbook rejection sampling on 32-bit words: the first word below the largest multiple of w."""
    w = b - a + 1
    limit = (M32 // w) * w
    words = []
    while True:
        x = g.next()
        words.append(x)
        if x < limit:
            return a + x % w, words


def err_tok(name):
    return "E%d" % ERRC.get(name, 8)


# ------------------------------------------------------------------ synthetic callbacks (twin of driver.ml)

def phash(salt, p):
    h = salt % HMOD
    for ch in show_prob(p):
        h = (h * 1000003 + ord(ch) + 12345) % HMOD
    return h


class Callbacks:
    """pure functions of the printed problem (and, when stateful, of the number of
    solver calls so far); the same arithmetic is in coq/extract/C19/driver.ml."""

    def __init__(self, cfg, watch=True):
        self.cfg = cfg
        self.calls = 0
        self.trace = []          # (sat, printed problem)
        self.kept = []           # (object, deep copy at the time of the call)
        self.last = None         # (problem object, sat, uniqueness verdict or None)
        self.watch = watch
        self.events = []         # ("solve", snapshot) / ("update",): order of solver calls and accepted moves

    # file-like: generate_problem(verbose=True) prints "score: a -> b ..." to sys.stderr exactly when it
    # replaces the current problem by the neighbour it just evaluated
    def write(self, text):
        if text.startswith("score:"):
            self.events.append(("update",))

    def flush(self):
        pass

    def solver(self, problem):
        c = self.cfg
        self.calls += 1
        h = phash(c["salt"] + (self.calls if c["stateful"] else 0), problem)
        sat = c["ksat"] == 0 or h % c["ksat"] != 0
        self.trace.append((1 if sat else 0, show_prob(problem)))
        if self.watch:
            snap = copy.deepcopy(problem)
            self.kept.append((problem, snap))
            self.events.append(("solve", dec_prob(snap)))
        self.last = [problem, sat, None]
        return (True, h) if sat else (False, None)

    def uniqueness(self, ans):
        r = (ans // 7) % self.cfg["kuniq"] == 0
        self.last[2] = r
        return r

    def score(self, ans):
        return (ans // 13) % 23

    def pretest(self, problem):
        return phash(self.cfg["salt"] + 1, problem) % self.cfg["kpre"] != 0

    def clue_penalty(self, problem):
        from cspuz.generator import count_non_default_values
        return count_non_default_values(dec_prob(problem), 0, 2)


def run_tokens(cfg, state=None):
    """the model's request for a run; `state` (4 words) replaces the seed for a run that continues the stream."""
    sd = ":".join(map(str, state)) if state is not None else str(0 if cfg["seed"] is None else cfg["seed"])
    return "RUN %s %s %d %d %d %d %d %d %d %s %s | %s" % (
        sd, "-" if cfg["max_steps"] is None else cfg["max_steps"], int(cfg["solve_initial"]), cfg["salt"],
        cfg["ksat"], cfg["kuniq"], cfg["kpre"], int(cfg["pen"]), int(cfg["stateful"]),
        float(cfg["t0"]).hex(), float(cfg["decay"]).hex(), pat_tokens(cfg["pattern"]))


def call_generate(cfg, cb, pattern):
    """generate_problem in the calling convention cfg['gp']:
       pattern   every argument by keyword, builder_pattern= (verbose, so that accepted moves are visible)
       explicit  initial_problem= / neighbor_generator= taken from build_neighbor_generator
       omit      arguments that equal their documented defaults are left out (also score / uniqueness when the
                 synthetic uniqueness test accepts everything, verbose, pretest, clue_penalty)."""
    from cspuz.generator import generate_problem
    gp = cfg.get("gp", "pattern")
    if gp == "omit":
        kw = {"builder_pattern": pattern}
        if cfg["kuniq"] != 1:
            kw["uniqueness"] = cb.uniqueness
            kw["score"] = cb.score
        if cfg["pen"]:
            kw["clue_penalty"] = cb.clue_penalty
        if cfg["kpre"]:
            kw["pretest"] = cb.pretest
        if cfg["t0"] != 5.0:
            kw["initial_temperature"] = cfg["t0"]
        if cfg["decay"] != 0.995:
            kw["temperature_decay"] = cfg["decay"]
        if cfg["max_steps"] is not None:
            kw["max_steps"] = cfg["max_steps"]
        if cfg["solve_initial"]:
            kw["solve_initial_problem"] = True
        return generate_problem(cb.solver, **kw)
    kw = dict(score=cb.score, clue_penalty=cb.clue_penalty if cfg["pen"] else None, uniqueness=cb.uniqueness,
              pretest=cb.pretest if cfg["kpre"] else None, initial_temperature=cfg["t0"],
              temperature_decay=cfg["decay"], max_steps=cfg["max_steps"],
              solve_initial_problem=cfg["solve_initial"], verbose=True)
    if gp == "explicit":
        from cspuz.generator import build_neighbor_generator
        ini, gen = build_neighbor_generator(pattern)
        return generate_problem(cb.solver, initial_problem=ini, neighbor_generator=gen, **kw)
    return generate_problem(cb.solver, builder_pattern=pattern, **kw)


def python_run(cfg, hook=None, watch=True, pattern=None, reseed=True):
    """one real generate_problem run; returns (outcome, callbacks, pattern object).  cfg may carry
    'var' (input variant), 'hist' (what the process did with srandom before), 'seedhow', 'gp'.
    pattern: reuse these builder objects instead of building new ones; reseed=False: continue the stream."""
    with variant(cfg.get("var")):
        keep = []
        cb = Callbacks(cfg, watch=watch)
        cb.keep = keep
        cb.has_events = cfg.get("gp", "pattern") != "omit"
        cb.result = None
        cb.args_changed = []
        if pattern is None:
            try:
                pattern = build_pattern(cfg["pattern"], keep)
            except Exception as ex:
                return ("err", err_name(ex)), cb, None
        old_stderr = sys.stderr
        hooked = False
        try:
            try:
              with time_limit(60):
                if reseed:
                    do_history(cfg.get("hist") or [])
                    seed_prng(cfg["seed"], cfg.get("seedhow", "pos"))
                if hook:
                    hook(True)
                    hooked = True
                sys.stderr = cb
                r = call_generate(cfg, cb, pattern)
              out = ("ok", ("None" if r is None else show_prob(r), prng_state(), cb.calls, tuple(cb.trace)))
              cb.result = r
            except BaseException as ex:  # noqa
                if isinstance(ex, (KeyboardInterrupt, SystemExit)):
                    raise
                out = ("err", err_name(ex))
                cb.result = None
        finally:
            sys.stderr = old_stderr
            if hooked:
                hook(False)
        cb.args_changed = args_changed(keep)
    return out, cb, pattern


def err_name(ex):
    if isinstance(ex, Hang):
        return "Hang"
    for cls, nm in ((RecursionError, "RecursionError"), (IndexError, "IndexError"), (KeyError, "KeyError"),
                    (AssertionError, "AssertionError"), (TypeError, "TypeError"), (ValueError, "ValueError"),
                    (NotImplementedError, "NotImplementedError"), (ZeroDivisionError, "ZeroDivisionError"),
                    (AttributeError, "AttributeError"), (OverflowError, "OverflowError")):
        if isinstance(ex, cls):
            return nm
    return "Other:" + type(ex).__name__


def parse_run_reply(r):
    if r.startswith("E") and not r.startswith("EXN"):
        return ("err", ERRN.get(int(r[1:]), "Other"))
    if not r.startswith("OK "):
        return ("model", r)
    parts = r[3:].split(" | ")
    res, st, world = parts[0].strip(), tuple(int(x) for x in parts[1].split()), int(parts[2])
    tr = []
    rest = parts[3] if len(parts) > 3 else ""
    for item in rest.split(" ; "):
        item = item.strip()
        if item:
            tr.append((int(item[0]), item[2:].strip()))
    return ("ok", (res, st, world, tuple(tr)))


# ------------------------------------------------------------------ subprocess side

def subrun_main():
    import random as pyrandom
    req = json.load(sys.stdin)
    pyrandom.seed(req["pyseed"])
    outs = []
    for cfg in req["runs"]:
        for _ in range(pyrandom.randint(0, 3)):
            pyrandom.random()                      # perturb the global generator between runs
        out, cb, _ = python_run(cfg, watch=False)
        outs.append(out)
    json.dump(outs, sys.stdout)


def tuplify(x):
    if isinstance(x, list):
        return tuple(tuplify(y) for y in x)
    return x


# ------------------------------------------------------------------ generators of inputs

SEEDS_EDGE = [0, 1, 2, 88675123, M32 - 1, M32, M32 + 5, -1, -2, -M32, (1 << 40) + 17, 123456789, 2 ** 31, 2 ** 31 - 1]


# widths at which the rejection loop of randint runs often (rejection probability 2^32 mod w / 2^32: just under
# 1/2 at 2^31 + 1, 1/4 at 3 * 2^30, 1/3 near 2^32 / 3 + 1) or never (powers of two, 2^32)
WIDE_WIDTHS = [M32, M32 - 1, (1 << 31) + 1, (1 << 31), (1 << 31) - 1, 3 * (1 << 30), (M32 // 3) + 1, (1 << 31) + 2,
               3 * (1 << 30) + 1, 3 * (1 << 30) - 1, (1 << 31) + (1 << 30) + (1 << 29), 5 * (1 << 29), (M32 // 3) * 2 + 1]


def gen_ab(rng):
    k = rng.random()
    if k < 0.25:
        a = 0
        b = rng.choice([0, 1, 2, 3, 5, 9, 10, 99, 255, 256, 1000, rng.randint(0, 10 ** 6)])
    elif k < 0.5:
        a = rng.choice([1, 2, 5, 7, 100, -1, -3, -100, 10 ** 9, -10 ** 9, rng.randint(-10 ** 6, 10 ** 6)])
        b = a + rng.choice([0, 1, 2, 3, 4, 6, 9, 15, 16, 100, rng.randint(0, 10 ** 5)])
    elif k < 0.7:
        # wide domains: rejection is frequent just above 2^31
        w = rng.choice(WIDE_WIDTHS + [rng.randint(1 << 30, M32), (1 << 31) + rng.randint(1, 1 << 20)])
        a = rng.choice([0, 1, -5, -(1 << 31), 12345, -(1 << 33)])
        b = a + w - 1
    elif k < 0.8:
        a = rng.randint(-50, 50)
        b = a + rng.choice([M32, M32 + 1, 1 << 40])            # too wide: ValueError
    elif k < 0.9:
        a = rng.randint(-50, 50)
        b = a - rng.choice([1, 2, 100])                        # a > b: ValueError
    else:
        a = rng.randint(-(1 << 34), 1 << 34)
        b = a + rng.randint(0, 1 << 20)
    return a, b


def gen_ops(rng, n):
    ops = []
    for _ in range(n):
        k = rng.random()
        if k < 0.15:
            ops.append(("n",))
        elif k < 0.55:
            ops.append(("r",) + gen_ab(rng))
        elif k < 0.66:
            ops.append(("c", rng.choice([0, 1, 1, 2, 3, 5, 8, 17, 100, 257, 4096])))
        elif k < 0.7:
            # choice over a huge Sequence (a range): by Props/C19.v::choice_uniform it is randint(0, len - 1)
            ops.append(("C", rng.choice(WIDE_WIDTHS[1:] + [rng.randint(1 << 30, M32)])))
        elif k < 0.85:
            ops.append(("s", rng.choice([0, 1, 2, 3, 4, 6, 9, 20, 21, 64, 257] + ([1000] if rng.random() < 0.2 else []))))
        else:
            ops.append(("f",))
    return ops


def op_tokens(op):
    if op[0] == "C":
        return "r 0 %d" % (op[1] - 1)
    return " ".join(map(str, op))


def choice_seq(n, i):
    """the candidates 0..n-1 as a list / range / tuple (all are Sequences), by position in the op list."""
    return [list(range(n)), range(n), tuple(range(n))][(n + i) % 3]


def py_ops(seed, ops, hist=None, how="pos"):
    import cspuz.generator.srandom as sr
    import cspuz.generator.deterministic_random as dr
    out = []
    try:
        with time_limit(20):
            do_history(hist or [])
            seed_prng(seed, how)
    except Exception as ex:
        return [err_tok(err_name(ex)) + ":enabling-the-prng"], prng_state()
    for i, op in enumerate(ops):
        try:
          with time_limit(20):
            if op[0] == "n":
                out.append(str(dr._rng.next()))
            elif op[0] == "r":
                out.append(str(sr.randint(fresh_int(op[1]), fresh_int(op[2]))))
            elif op[0] == "c":
                cand = choice_seq(op[1], i)
                c0 = list(cand)
                out.append(str(sr.choice(cand)))
                if list(cand) != c0:
                    out.append("candidates-modified")
            elif op[0] == "C":
                out.append(str(sr.choice(range(op[1]))))
            elif op[0] == "s":
                l = list(range(op[1]))
                sr.shuffle(l)
                out.append("P" + "".join(" %d" % v for v in l))
            else:
                r = sr.random()
                fr = Fraction(r) * M32
                out.append(str(fr.numerator) if fr.denominator == 1 else "frac:%r" % r)
        except BaseException as ex:  # noqa
            if isinstance(ex, (KeyboardInterrupt, SystemExit)):
                raise
            out.append(err_tok(err_name(ex)))
    return out, prng_state()


# offsets that move a whole choice set (and its default) outside CPython's small-int cache [-5, 256], or across its edge
OFFSETS = [1000, 257, 255, -10, -7, 300, 4096, 1 << 31, (1 << 40) + 3, -(1 << 33), 65535]


def gen_choice_set(rng):
    ch, d = gen_choice_set0(rng)
    if rng.random() < 0.3:
        off = rng.choice(OFFSETS)
        ch, d = [v + off for v in ch], d + off
    return ch, d


def gen_choice_set0(rng):
    k = rng.random()
    if k < 0.3:
        return [0, 1], 0
    if k < 0.5:
        return [0, 1, 2], 0
    if k < 0.65:
        return [-1, 0, 1, 2, 3], -1
    if k < 0.75:
        return [1, 2, 3], 0                                    # default not in the choice set
    if k < 0.8:
        return [], 0
    if k < 0.85:
        return [4], 4
    if k < 0.9:
        return [0, 1, 1, 2], 1                                 # duplicates
    ch = sorted(rng.sample(range(-3, 6), rng.randint(1, 5)))
    return ch, rng.choice(ch + [7])


def gen_array_spec(rng, small=False, allow_bad=True):
    h = rng.choice([0, 1, 1, 2, 2, 3, 3, 4] if not small else [1, 2, 2, 3])
    w = rng.choice([0, 1, 2, 2, 3, 3, 4, 5] if not small else [1, 2, 3, 3])
    ch, d = gen_choice_set(rng)
    k = rng.random()
    if k < 0.4:
        dis = False
    elif k < 0.8:
        dis = True
    else:
        dis = rng.choice([[(0, 1), (0, -1)], [(1, 0)], [(1, 1), (-1, -1), (1, -1), (-1, 1)],
                          [(-1, 0), (1, 0), (0, -1), (0, 1), (1, 1), (-1, -1)], [(0, 2), (0, -2)], [(0, 0)]])
        dis = [list(t) for t in dis]
    sym = rng.random() < 0.5
    mv = rng.random() < 0.35
    init = None
    k = rng.random()
    vals = list(ch) + [d]
    if k < 0.12:
        init = [[rng.choice(vals) for _ in range(w)] for _ in range(h)]
    elif k < 0.2 and allow_bad:
        kind = rng.choice(["short", "ragged", "big", "empty"])
        if kind == "short":
            init = [[rng.choice(vals) for _ in range(w)] for _ in range(max(0, h - 1))]
        elif kind == "ragged":
            init = [[rng.choice(vals) for _ in range(max(0, w - (1 if y == h - 1 else 0)))] for y in range(h)]
        elif kind == "big":
            init = [[rng.choice(vals) for _ in range(w + 1)] for _ in range(h + 1)]
        else:
            init = []
    return ["A", h, w, ch, d, dis, sym, mv, init]


def gen_choice_spec(rng):
    ch, d = gen_choice_set(rng)
    return ["C", ch, d]


def gen_pattern(rng, depth=0, allow_bad=True):
    k = rng.random()
    if depth == 0:
        if k < 0.35:
            return gen_array_spec(rng, allow_bad=allow_bad)
        if k < 0.42:
            return gen_choice_spec(rng)
    if depth >= 2 or k < 0.5 and depth > 0:
        k2 = rng.random()
        if k2 < 0.4:
            return gen_choice_spec(rng)
        if k2 < 0.8:
            return gen_array_spec(rng, small=True, allow_bad=allow_bad)
        return ["K", rng.randint(-3, 9)]
    n = rng.choice([0, 1, 2, 2, 3])
    return [rng.choice(["L", "T"]), [gen_pattern(rng, depth + 1, allow_bad) for _ in range(n)]]


def structured_grid(rng, h, w, vals, d, shape):
    """a larger board with a targeted layout of non-default cells."""
    g = [[d for _ in range(w)] for _ in range(h)]
    nd = [v for v in vals if v != d] or [d]
    cells = []
    if shape == "diag":
        cells = [(i, i) for i in range(min(h, w))]
    elif shape == "x":
        cells = [(i, i * (w - 1) // max(1, h - 1)) for i in range(h)] + [(i, (h - 1 - i) * (w - 1) // max(1, h - 1)) for i in range(h)]
    elif shape == "spiral":
        y, x, dy, dx, seen = 0, 0, 0, 1, set()
        for _ in range(h * w):
            seen.add((y, x))
            if (y + x) % 2 == 0:
                cells.append((y, x))
            if not (0 <= y + dy < h and 0 <= x + dx < w) or (y + dy, x + dx) in seen:
                dy, dx = dx, -dy
            y, x = y + dy, x + dx
            if not (0 <= y < h and 0 <= x < w) or (y, x) in seen:
                break
    elif shape == "checker":
        cells = [(y, x) for y in range(h) for x in range(w) if (y + x) % 2 == 0]
    elif shape == "full":
        cells = [(y, x) for y in range(h) for x in range(w)]
    elif shape == "sympair":
        cells = [(0, 0), (h - 1, w - 1), (0, w - 1), (h - 1, 0), (h // 2, w // 2)]
    for (y, x) in cells:
        if 0 <= y < h and 0 <= x < w:
            g[y][x] = rng.choice(nd)
    return g


LARGE_SIZES = [(4, 5), (5, 5), (2, 7), (7, 7), (1, 9), (6, 1), (3, 8), (5, 4)]
SHAPES = ["diag", "x", "spiral", "checker", "full", "sympair", "empty"]


def gen_large_array(rng):
    """boards just beyond the exhaustive-ish small scope, with structured contents as initial grid."""
    h, w = rng.choice(LARGE_SIZES)
    ch, d = gen_choice_set(rng)
    if not ch:
        ch, d = [0, 1, 2], 0
    dis = rng.choice([False, True, True, [[1, 1], [-1, -1], [1, -1], [-1, 1]], [[0, 2], [0, -2], [2, 0], [-2, 0]]])
    sym = rng.random() < 0.6
    mv = rng.random() < 0.4
    g = structured_grid(rng, h, w, ch, d, rng.choice(SHAPES))
    if sym and rng.random() < 0.7:        # make it point symmetric (the invariant the symmetry option keeps)
        for y in range(h):
            for x in range(w):
                if (g[y][x] != d) != (g[h - 1 - y][w - 1 - x] != d):
                    g[h - 1 - y][w - 1 - x] = g[y][x]
    return ["A", h, w, ch, d, dis, sym, mv, g]


def gen_run_cfg(rng, pattern=None, thorough=False, hardened=True):
    pat = pattern if pattern is not None else gen_pattern(rng)
    t0, decay = rng.choice([(5.0, 0.995), (5.0, 0.995), (0.5, 0.9), (100.0, 1.0), (0.001, 0.8), (2.0, 0.5), (1.0, 0.99)])
    extra = {}
    if hardened and rng.random() < 0.6:
        # seed None / 0 / outside the small-int cache, after some history in this process; argument forms
        extra = {"var": gen_variant(rng, plain=0.2), "hist": gen_history(rng),
                 "seedhow": rng.choice(["pos", "kw", "omit"]), "gp": rng.choice(["pattern", "pattern", "explicit", "omit"])}
    seeds = SEEDS_EDGE + [rng.randint(0, 10 ** 6) for _ in range(10)]
    if extra:
        seeds = seeds + [None, None, None, 0, 0, 0, 257, -6, 1000]
    return {
        **extra,
        "pattern": pat,
        "seed": rng.choice(seeds),
        "max_steps": rng.choice([0, 1, 3, 8, 15, 25, 40] + ([60, 80] if thorough else [])),
        "solve_initial": rng.random() < 0.35,
        "salt": rng.randint(0, 10 ** 6),
        "ksat": rng.choice([0, 0, 0, 2, 3, 5, 5, 1]),
        "kuniq": rng.choice([1, 3, 10, 50, 50, 400, 400, 10 ** 9]),
        "kpre": rng.choice([0, 0, 2, 5]),
        "pen": rng.random() < 0.4,
        "stateful": rng.random() < 0.3,
        "t0": t0, "decay": decay,
    }


def walk_problem(rng, spec, steps, errs=None):
    """a problem reachable from the initial one by a few real neighbour steps (or None
    when the pattern raises)."""
    from cspuz.generator import build_neighbor_generator
    try:
        with time_limit(30):
            pattern = build_pattern(spec)
            seed_prng(rng.randint(0, 1000))
            p, gen = build_neighbor_generator(pattern)
            for _ in range(steps):
                ns = list(gen(p))
                if not ns:
                    break
                p = rng.choice(ns)
        return p
    except Exception as ex:
        if errs is not None:
            errs.append("%s: %s" % (type(ex).__name__, ex))
        return None


# ------------------------------------------------------------------ srandom hook (records every draw)

class DrawLog:
    def __init__(self):
        self.items = []
        self.orig = None

    def __call__(self, on):
        import cspuz.generator.srandom as sr
        if on:
            self.orig = (sr.randint, sr.choice, sr.shuffle, sr.random)
            o_randint, o_choice, o_shuffle, o_random = self.orig
            log = self.items

            def randint(a, b):
                s0 = prng_state()
                r = o_randint(a, b)
                log.append(("r %d %d" % (a, b), s0, str(r), prng_state()))
                return r

            def choice(c):
                s0 = prng_state()
                r = o_choice(c)
                idx = [i for i, e in enumerate(c) if e is r or e == r]
                log.append(("c %d" % len(c), s0, idx, prng_state()))
                return r

            def shuffle(l):
                s0 = prng_state()
                ids = {id(e): i for i, e in enumerate(l)}
                o_shuffle(l)
                log.append(("s %d" % len(l), s0, "P" + "".join(" %d" % ids[id(e)] for e in l), prng_state()))

            def random():
                s0 = prng_state()
                r = o_random()
                fr = Fraction(r) * M32
                log.append(("f", s0, str(fr.numerator) if fr.denominator == 1 else "frac:%r" % r, prng_state()))
                return r

            sr.randint, sr.choice, sr.shuffle, sr.random = randint, choice, shuffle, random
        else:
            sr.randint, sr.choice, sr.shuffle, sr.random = self.orig


# ------------------------------------------------------------------ correspondence

def parse_x_reply(o):
    body, st = o.rsplit("|", 1)
    return ([x.strip() for x in body.split(" ; ") if x.strip()], tuple(int(x) for x in st.split()))


def corr_prng(ctx, m):
    rng = ctx.rng
    nseq = 400 if ctx.thorough else 120
    seeds = list(SEEDS_EDGE) + [rng.randint(-(1 << 33), 1 << 34) for _ in range(nseq - len(SEEDS_EDGE))]
    reqs, cases = [], []
    for seed in seeds:
        ops = gen_ops(rng, rng.choice([1, 5, 20, 40]))
        reqs.append("X %d | %s" % (seed, " ".join(op_tokens(op) for op in ops)))
        cases.append((seed, ops, [], "pos"))
    # histories: the same seed (0, the default None, small, outside the small-int cache) enabled again after the
    # process has already drawn / used other seeds / switched the deterministic PRNG off and on
    for i in range(nseq):
        seed = rng.choice([0, 0, None, None, 1, 257, 1000, -6, 88675123, M32, rng.randint(0, 10 ** 6)])
        ops = gen_ops(rng, rng.choice([1, 5, 12]))
        hist = gen_history(rng) or [["draw", 2]]
        reqs.append("X %d | %s" % (0 if seed is None else seed, " ".join(op_tokens(op) for op in ops)))
        cases.append((seed, ops, hist, rng.choice(["pos", "kw", "omit"])))
    # the rejection loop: long pure randint streams over the widths where a word is often rejected
    for i in range(60 if ctx.thorough else 24):
        seed = rng.randint(0, 10 ** 9)
        w = WIDE_WIDTHS[i % len(WIDE_WIDTHS)]
        a = rng.choice([0, 1, -5, -(1 << 31), -(1 << 33), 12345])
        ops = [("r", a, a + w - 1)] * 150
        reqs.append("X %d | %s" % (seed, " ".join(op_tokens(op) for op in ops)))
        cases.append((seed, ops, [], "pos"))
    # the raw stream and the seeding
    for seed in seeds[:40]:
        reqs.append("W %d 64" % seed)
    outs = m.batch(reqs)
    for (seed, ops, hist, how), o in zip(cases, outs[:len(cases)]):
        mo = parse_x_reply(o)
        po = py_ops(seed, ops, hist, how)
        for op in ops:
            ctx.count("prng-op:" + op[0])
        if hist:
            ctx.count("prng-after-history:seed=%s" % ("None" if seed is None else "0" if seed == 0 else "other"))
        ctx.corr("prng", (seed, tuple(ops), json.dumps(hist), how), mo, (po[0], po[1]))
    import cspuz.generator.deterministic_random as dr
    for seed, o in zip(seeds[:40], outs[len(cases):]):
        g = dr.XorShift(fresh_int(seed))
        s0 = (g._x, g._y, g._z, g._w)
        ws = [g.next() for _ in range(64)]
        ctx.corr("words", seed, tuple(int(x) for x in o.split()), tuple(ws))
        ctx.corr("seed", seed, tuple(int(x) for x in m.call("S %d" % seed).split()), s0)


def show_updates(spec, cands):
    ups = []
    for u in cands:
        if spec[0] == "C":
            ups.append("V %s" % show_prob_int(dec_leaf(u)))
        else:
            ups.append("U" + "".join(" %d %d %s" % (y, x, show_prob_int(v)) for (y, x, v) in dec_update(u)))
    return tuple(ups)


def py_candidates(spec, cur, seed):
    with time_limit(30):
        b = build_pattern(spec)
        seed_prng(seed)
        cands = b.candidates(cur)
        applied = [show_prob(b.copy_with_update(cur, u)) for u in cands]
        return (show_updates(spec, cands), tuple(applied), prng_state())


def py_candidates_hist(spec, cur, seed):
    """candidates() three times on ONE builder object: after seeding; again, continuing the stream, after
    the caller has emptied the list it got (and the update lists in it); again after re-seeding with the same
    seed.  Returns the three (updates, state) pairs and whether the builder's arguments were left alone."""
    with time_limit(30):
        keep = []
        b = build_pattern(spec, keep)
        seed_prng(seed)
        c1 = b.candidates(cur)
        r1 = (show_updates(spec, c1), prng_state())
        for u in c1:
            if isinstance(u, list):
                del u[:]
        del c1[:]
        c2 = b.candidates(cur)
        r2 = (show_updates(spec, c2), prng_state())
        seed_prng(seed, "kw")
        c3 = b.candidates(cur)
        r3 = (show_updates(spec, c3), prng_state())
        return (r1, r2, r3, tuple(w for (w, _, _) in args_changed(keep)))


def parse_cand_reply(r):
    if r.startswith("E") and not r.startswith("EXN"):
        return ("err", ERRN.get(int(r[1:]), "Other"))
    if not r.startswith("OK"):
        return ("model", r)
    a, b, c = r[2:].split("|")
    ups = tuple(x.strip() for x in a.split(" ; ") if x.strip())
    app = tuple(x.strip() for x in b.split(" ; ") if x.strip())
    return ("ok", (ups, app, tuple(int(x) for x in c.split())))


def gen_cand_case(rng, large=False):
    """(spec, variant, current problem as integers) for the candidates stream."""
    var = gen_variant(rng)
    if large:
        spec = gen_large_array(rng)
        cur = copy.deepcopy(spec[8])
        if rng.random() < 0.5:
            spec[8] = None
        return spec, var, cur
    if rng.random() < 0.15:
        spec = gen_choice_spec(rng)
        return spec, var, rng.choice(spec[1] + [spec[2], 9])
    spec = gen_array_spec(rng)
    if rng.random() < 0.6:
        with variant(var):
            cur = walk_problem(rng, spec, rng.randint(0, 6))
            cur = None if cur is None else dec_prob(cur)
        if cur is None:
            cur = copy.deepcopy(spec[8]) if spec[8] is not None else []
    else:
        vals = list(spec[3]) + [spec[4], 8]
        cur = [[rng.choice(vals) for _ in range(spec[2])] for _ in range(spec[1])]
    return spec, var, cur


def enc_cur(spec, cur):
    return enc(cur) if spec[0] == "C" else enc_grid(cur)


def corr_candidates(ctx, m):
    rng = ctx.rng
    n = 1500 if ctx.thorough else 350
    nl = 150 if ctx.thorough else 40
    reqs, cases = [], []
    for i in range(n + nl):
        spec, var, cur = gen_cand_case(rng, large=i >= n)
        seed = rng.randint(0, 10 ** 6)
        reqs.append("CAND %d | %s | %s" % (seed, pat_tokens(spec), show_prob_int(cur)))
        cases.append((spec, var, cur, seed))
    outs = m.batch(reqs)
    hist_cases = []
    for (spec, var, cur, seed), o in zip(cases, outs):
        mo = parse_cand_reply(o)
        with variant(var):
            raw = enc_cur(spec, cur)
            raw0 = copy.deepcopy(raw)
            po = vlib.guarded(py_candidates, spec, raw, seed)
            changed = raw != raw0
        if spec[0] == "A":
            ctx.count("cand:sym=%d,adj=%s,move=%d" % (spec[6], "custom" if isinstance(spec[5], list) else spec[5], spec[7]))
            if spec[1] * spec[2] >= 20:
                ctx.count("cand:board>=20cells")
        else:
            ctx.count("cand:choice")
        ctx.count("cand-variant:form=" + var["form"])
        ctx.count("cand-variant:cont=" + var["cont"])
        if spec[0] == "A" and any(not (-5 <= v <= 256) for v in list(spec[3]) + [spec[4]]):
            ctx.count("cand:values-outside-small-int-cache")
        ctx.corr("cand", (json.dumps(spec), show_prob_int(cur), seed, var_key(var)), mo, po)
        ctx.count("cand-outcome:" + (po[1] if po[0] == "err" else ("empty" if not po[1][0] else "some")))
        if changed:
            ctx.violation("candidates-mutate-current", "candidates()/copy_with_update() modified the current problem",
                          {"builder": spec, "variant": var, "current": cur, "seed": seed})
        if mo[0] == "ok":
            hist_cases.append((spec, var, cur, seed, mo))
    # the same builder object asked again (class: histories / object reuse)
    outs2 = m.batch(["CAND %s | %s | %s" % (" ".join(map(str, mo[1][2])), pat_tokens(spec), show_prob_int(cur))
                     for (spec, var, cur, seed, mo) in hist_cases])
    for (spec, var, cur, seed, mo), o2 in zip(hist_cases, outs2):
        mo2 = parse_cand_reply(o2)
        if mo2[0] != "ok":
            continue
        with variant(var):
            po = vlib.guarded(py_candidates_hist, spec, enc_cur(spec, cur), seed)
        first = (mo[1][0], mo[1][2])
        ctx.corr("cand-twice", (json.dumps(spec), show_prob_int(cur), seed, var_key(var)),
                 ("ok", (first, (mo2[1][0], mo2[1][2]), first, ())), po)


def py_neighbours(spec, p, seed):
    with time_limit(30):
        from cspuz.generator import build_neighbor_generator
        pattern = build_pattern(spec)
        _, gen = build_neighbor_generator(pattern)
        seed_prng(seed)
        ns = list(gen(p))
        return (tuple(show_prob(q) for q in ns), prng_state())


def py_neighbours_twice(spec, p, seed):
    """one generator object used twice (continuing the stream), then once more after re-seeding."""
    with time_limit(30):
        from cspuz.generator import build_neighbor_generator
        keep = []
        pattern = build_pattern(spec, keep)
        _, gen = build_neighbor_generator(pattern)
        seed_prng(seed)
        r1 = (tuple(show_prob(q) for q in gen(p)), prng_state())
        r2 = (tuple(show_prob(q) for q in gen(p)), prng_state())
        seed_prng(seed)
        r3 = (tuple(show_prob(q) for q in gen(p)), prng_state())
        return (r1, r2, r3, tuple(w for (w, _, _) in args_changed(keep)))


def parse_nb_reply(r):
    if r.startswith("E") and not r.startswith("EXN"):
        return ("err", ERRN.get(int(r[1:]), "Other"))
    if not r.startswith("OK"):
        return ("model", r)
    a, c = r[2:].split("|")
    return ("ok", (tuple(x.strip() for x in a.split(" ; ") if x.strip()), tuple(int(x) for x in c.split())))


def corr_neighbours(ctx, m):
    from cspuz.generator import build_neighbor_generator
    rng = ctx.rng
    n = 1200 if ctx.thorough else 300
    reqs, cases = [], []
    ctx._c19_nb = []
    for i in range(n):
        spec = gen_pattern(rng, allow_bad=False)
        if i % 12 == 11:
            spec = ["L", [gen_large_array(rng), gen_choice_spec(rng)]] if rng.random() < 0.5 else gen_large_array(rng)
        var = gen_variant(rng)
        with variant(var):
            p = walk_problem(rng, spec, rng.randint(0, 5))
            if p is None:
                continue
            p = dec_prob(p)
            # the initial problem itself
            ini = vlib.guarded(lambda: show_prob(build_neighbor_generator(build_pattern(spec))[0]))
        ctx.corr("initial", (json.dumps(spec), var_key(var)), ("ok", m.call("INIT " + pat_tokens(spec))), ini)
        seed = rng.randint(0, 10 ** 6)
        reqs.append("NB %d | %s | %s" % (seed, pat_tokens(spec), show_prob_int(p)))
        cases.append((spec, var, p, seed))
    outs = m.batch(reqs)
    twice = []
    for (spec, var, p, seed), o in zip(cases, outs):
        mo = parse_nb_reply(o)
        with variant(var):
            raw = enc_problem(spec, p)
            raw0 = copy.deepcopy(raw)
            po = vlib.guarded(py_neighbours, spec, raw, seed)
            changed = raw != raw0
        ctx.count("nb-variant:form=" + var["form"])
        ctx.corr("neighbours", (json.dumps(spec), show_prob_int(p), seed, var_key(var)), mo, po)
        ctx._c19_nb.append((spec, var, p, seed))
        if changed:
            ctx.violation("generator-mutates-current", "the neighbour generator modified the current problem",
                          {"pattern": spec, "variant": var, "current": p, "seed": seed})
        if mo[0] == "ok" and (ctx.thorough or len(twice) < 120):
            twice.append((spec, var, p, seed, mo))
    outs2 = m.batch(["NB %s | %s | %s" % (" ".join(map(str, mo[1][1])), pat_tokens(spec), show_prob_int(p))
                     for (spec, var, p, seed, mo) in twice])
    for (spec, var, p, seed, mo), o2 in zip(twice, outs2):
        mo2 = parse_nb_reply(o2)
        if mo2[0] != "ok":
            continue
        with variant(var):
            po = vlib.guarded(py_neighbours_twice, spec, enc_problem(spec, p), seed)
        ctx.corr("neighbours-twice", (json.dumps(spec), show_prob_int(p), seed, var_key(var)),
                 ("ok", (mo[1], mo2[1], mo[1], ())), po)


def enc_problem(spec, p):
    """integer problem -> the value forms of the current variant, along the pattern."""
    k = spec[0]
    if k in ("C", "K"):
        return enc(p)
    if k == "A":
        return enc_grid(p)
    if k == "L":
        return [enc_problem(s, x) for s, x in zip(spec[1], p)]
    if k == "T":
        return tuple(enc_problem(s, x) for s, x in zip(spec[1], p))
    return p


def corr_runs(ctx, m):
    rng = ctx.rng
    n = 2500 if ctx.thorough else 400
    cfgs = [gen_run_cfg(rng, thorough=ctx.thorough) for _ in range(n)]
    # a few fixed shapes: default max_steps (None -> 1000) on a tiny pattern, the bench-like patterns
    cfgs.append(dict(gen_run_cfg(rng, ["C", [0, 1, 2], 0]), max_steps=None, kuniq=10 ** 9, ksat=2))
    cfgs.append(dict(gen_run_cfg(rng, ["A", 3, 3, [0, 1, 2], 0, True, True, False, None]), max_steps=30, kuniq=400))
    cfgs.append(dict(gen_run_cfg(rng, ["A", 3, 3, [0, 1], 0, True, False, True, None]), max_steps=20, kuniq=10 ** 9))
    cfgs.append(dict(gen_run_cfg(rng, ["A", 3, 4, [-1, 0, 1, 2, 3], -1, False, True, True, None]), max_steps=10, kuniq=10 ** 9))
    cfgs.append(dict(gen_run_cfg(rng, ["L", [["A", 2, 2, [0, 1], 0, False, False, False, None], ["C", [1, 2, 3], 1],
                                             ["T", [["C", [0, 5], 0], ["K", 4]]]]]), max_steps=25, kuniq=50))
    # shifted clue encodings ("1000 = empty, 1000 + k = clue k") and boards beyond the small scope
    cfgs.append(dict(gen_run_cfg(rng, ["A", 3, 3, [1000, 1001, 1002, 1003], 1000, False, True, False, None]), max_steps=20, kuniq=400,
                     var=dict(DEFAULT_VARIANT, form="fresh", cont="range")))
    cfgs.append(dict(gen_run_cfg(rng, ["A", 4, 4, [-10, -9, -8], -10, True, True, False, None]), max_steps=15, kuniq=10 ** 9,
                     var=dict(DEFAULT_VARIANT, form="fresh", cont="gen", kw="omit")))
    for _ in range(30 if ctx.thorough else 8):
        cfgs.append(dict(gen_run_cfg(rng, gen_large_array(rng)), max_steps=rng.choice([2, 5, 10]), kuniq=10 ** 9))
    outs = m.batch([run_tokens(c) for c in cfgs])
    ctx._c19_runs = []
    replays = []
    again = []
    import random as pyrandom
    for cfg, o in zip(cfgs, outs):
        pyrandom.seed(rng.randint(0, 10 ** 9))
        log = DrawLog()
        po, cb, pattern = python_run(cfg, hook=log)
        mo = parse_run_reply(o)
        ctx.count("run:" + ("err" if po[0] == "err" else ("found" if po[1][0] != "None" else "none")))
        ctx.count("run-seed:" + ("None" if cfg["seed"] is None else "0" if cfg["seed"] == 0 else "other")
                  + (",after-history" if cfg.get("hist") else ""))
        ctx.count("run-call-form:" + cfg.get("gp", "pattern"))
        if "var" in cfg:
            ctx.count("run-variant:form=" + cfg["var"]["form"])
        ctx.corr("run", json.dumps(cfg), mo, po)
        # the same builder objects used for a second generation under the same seed, then for a third one that
        # continues the stream (no re-seeding)
        po2 = po3 = None
        if po[0] == "ok" and mo[0] == "ok":
            po2, cb2, _ = python_run(cfg, pattern=pattern)
            ctx.corr("run-same-objects", json.dumps(cfg), mo, po2)
            cb.args_changed = cb.args_changed + cb2.args_changed
            if len(again) < (600 if ctx.thorough else 150):
                po3, cb3, _ = python_run(cfg, pattern=pattern, reseed=False)
                again.append((cfg, mo[1][1], po3))
        ctx._c19_runs.append((cfg, po, cb, pattern, po2))
        # every srandom draw of the run, replayed on the model from the recorded state
        prev = None
        for (call, s0, res, s1) in log.items:
            if prev is not None and prev != s0:
                ctx.mismatches.append({"kind": "draw-chain", "input": json.dumps(cfg), "model": list(prev), "impl": list(s0)})
            prev = s1
            replays.append((cfg, call, s0, res, s1))
            ctx.count("run-draw:" + call[0])
        ctx.count("run-solver-calls", len(cb.trace))
    outs3 = m.batch([run_tokens(cfg, state=st) for (cfg, st, _) in again])
    for (cfg, st, po3), o3 in zip(again, outs3):
        ctx.corr("run-continued-same-objects", (json.dumps(cfg), st), parse_run_reply(o3), po3)
    if ctx.thorough or len(replays) <= 60000:
        sel = replays
    else:
        sel = [replays[i] for i in sorted(ctx.rng.sample(range(len(replays)), 60000))]
    outs = m.batch(["X %d %d %d %d | %s" % (s0 + (call,)) for (_, call, s0, _, _) in sel])
    for (cfg, call, s0, res, s1), o in zip(sel, outs):
        body, st = o.rsplit("|", 1)
        mres = body.replace(" ; ", "").strip()
        mst = tuple(int(x) for x in st.split())
        if call.startswith("c "):
            ok = (not res and mres.startswith("E")) or (mres.isdigit() and int(mres) in res)
            ctx.corr("draw", (call, s0), (True, mst), (ok, s1), nontrivial=True)
        else:
            ctx.corr("draw", (call, s0), (mres, mst), (res, s1))
    ctx.count("draws-recorded", len(replays))
    # second run of every configuration in another process: other hash seed, other global random state
    env = dict(os.environ)
    env["PYTHONHASHSEED"] = str(rng.randint(1, 10 ** 6))
    env["PYTHONPATH"] = vlib.REPO
    p = subprocess.run([sys.executable, os.path.abspath(__file__), "--subrun"],
                       input=json.dumps({"pyseed": rng.randint(0, 10 ** 9), "runs": cfgs}),
                       stdout=subprocess.PIPE, stderr=subprocess.PIPE, text=True, env=env, timeout=3000)
    if p.returncode != 0:
        raise RuntimeError("subrun failed: " + p.stderr[-2000:])
    second = [tuplify(x) for x in json.loads(p.stdout)]
    ctx._c19_second = []
    for (cfg, po, cb, _, _), so in zip(ctx._c19_runs, second):
        ctx.corr("rerun-other-process", json.dumps(cfg), po, so)
        ctx._c19_second.append(so)


def translate(ctx):
    """tie T for the PRNG core: XorShift.__init__ / next and the prelude and acceptance test of randint are translated
    from source into Gen/PyIntRandom.v on every run; Generator/XorShiftGen.v proves them equal to the model
    (Props/C19.v::*_from_source)"""
    import pyint_translate as T
    src = open(os.path.join(vlib.REPO, "cspuz", "generator", "deterministic_random.py")).read()
    F = ["x", "y", "z", "w"]
    C = {"_XORSHIFT_DOMAIN_SIZE": 1 << 32}
    import ast
    tree = ast.parse(src)
    dom = [n for n in tree.body if isinstance(n, ast.Assign) and ast.unparse(n.targets[0]) == "_XORSHIFT_DOMAIN_SIZE"]
    if len(dom) != 1 or ast.unparse(dom[0].value) != "1 << 32":
        raise T.TranslateError("_XORSHIFT_DOMAIN_SIZE is not `1 << 32`")
    txt = T.HEADER % ("cspuz/generator/deterministic_random.py (XorShift.__init__, XorShift.next, randint)",
                      "w = b - a + 1 (after `if a > b: raise`)")
    txt += T.translate_method(src, "XorShift", "__init__", "xorshift_init_py", F, init=True) + "\n"
    txt += T.translate_method(src, "XorShift", "next", "xorshift_next_py", F) + "\n"
    txt += T.translate_function(src, "randint", "randint_prelude_py", consts=C, nonzero=["w"], upto=["w", "limit"]) + "\n"
    txt += T.translate_loop_accept(src, "randint", "randint_accept_py", ["a", "w", "limit"], "_rng.next()", consts=C, nonzero=["w"])
    vlib.write_if_changed(os.path.join(vlib.THEORIES, "Gen", "PyIntRandom.v"), txt)


def correspond(ctx):
    m = ctx.model("C19")
    corr_prng(ctx, m)
    corr_candidates(ctx, m)
    corr_neighbours(ctx, m)
    corr_runs(ctx, m)


# ------------------------------------------------------------------ search: independent oracles

def nd_symmetric(g, h, w, d):
    return all((g[y][x] != d) == (g[h - 1 - y][w - 1 - x] != d) for y in range(h) for x in range(w))


def adj_ok(g, h, w, d, D):
    for y in range(h):
        for x in range(w):
            if g[y][x] == d:
                continue
            for dy, dx in D:
                y2, x2 = y + dy, x + dx
                if 0 <= y2 < h and 0 <= x2 < w and g[y2][x2] != d:
                    return False
    return True


def check_grid_step(spec, g, g2):
    """independent reading of the property for one ArrayBuilder2D neighbour: returns a
    list of complaints."""
    _, h, w, ch, d, dis, sym, mv, _ = spec
    D = dis_list(dis)
    bad = []
    if not isinstance(g2, list) or not all(isinstance(r, list) and all(type(v) is int for v in r) for r in g2):
        return ["grid replaced by %s" % type(g2).__name__]
    if len(g2) != len(g) or any(len(r2) != len(r) for r, r2 in zip(g, g2)):
        return ["shape changed"]
    if len(g) != h or any(len(r) != w for r in g):
        return []          # an initial grid of another shape: the invariants are not defined
    changed = [(y, x) for y in range(h) for x in range(w) if g[y][x] != g2[y][x]]
    allowed = set(ch) | {d}
    old_vals = {v for r in g for v in r}
    for (y, x) in changed:
        if g2[y][x] not in allowed and not (mv and g2[y][x] in old_vals):
            bad.append("cell (%d,%d) set to %r: not a choice value" % (y, x, g2[y][x]))
    if len(changed) > (4 if (mv and sym) else 2):
        bad.append("%d cells changed" % len(changed))
    if sym and nd_symmetric(g, h, w, d) and not nd_symmetric(g2, h, w, d):
        bad.append("point symmetry of the non-default cells lost")
    return bad


def check_local(spec, p, q):
    """q must differ from p inside exactly one builder position."""
    k = spec[0]
    if k == "C":
        if type(q) is int and q == p:
            return 0, []
        if type(q) is not int or q not in spec[1]:
            return 1, ["Choice value %r not in the choice set" % (q,)]
        return 1, []
    if k == "A":
        if q == p:
            return 0, []
        return 1, check_grid_step(spec, p, q)
    if k == "K":
        return (0, []) if q == p else (1, ["constant leaf changed"])
    if k in ("L", "T"):
        if type(q) is not (list if k == "L" else tuple) or len(q) != len(spec[1]):
            return 1, ["container type/length changed"]
        n, bad = 0, []
        for s, a, b in zip(spec[1], p, q):
            c, bb = check_local(s, a, b)
            n += c
            bad += bb
        return n, bad
    return 0, []


def call_valid(ctx, key, detail, f, *args):
    """call an srandom function on arguments inside its documented domain: an exception there
    is itself a failure of the property (the value is not in the promised range)."""
    try:
        with time_limit(20):
            return True, f(*args)
    except Exception as ex:  # noqa
        d = dict(detail)
        d["exception"] = "%s: %s" % (type(ex).__name__, ex)
        ctx.violation(key, "an srandom function raised on arguments inside its domain", d)
        return False, None


def search_prng(ctx):
    import itertools
    import cspuz.generator.srandom as sr
    rng = ctx.rng
    n = 3000 if (ctx.thorough or ctx.deep) else 800
    for i in range(n):
        a, b = gen_ab(rng)
        if a > b or b - a + 1 > M32:
            continue
        seed = rng.randint(0, 10 ** 6)
        seed_prng(seed)
        for j in range(5):
            ok, v = call_valid(ctx, "randint-raises", {"seed": seed, "a": a, "b": b, "draw_index": j}, sr.randint, a, b)
            ctx.prop_case("randint-range", (seed, a, b, j))
            if not ok:
                break
            if not (a <= v <= b):
                ctx.violation("randint-out-of-range", "srandom.randint(a, b) with the deterministic PRNG returned a value outside [a, b]",
                              {"seed": seed, "a": a, "b": b, "draw_index": j, "value": v})
    # exact support and rough uniformity on small domains (deterministic: fixed seeds)
    for (a, b, draws) in [(0, 2, 6000), (5, 9, 10000), (-3, 3, 14000), (1, 6, 12000), (-10, -7, 8000), (7, 7, 100)]:
        seed_prng(4242 + a)
        cnt = {}
        for j in range(draws):
            ok, v = call_valid(ctx, "randint-raises", {"seed": 4242 + a, "a": a, "b": b, "draw_index": j}, sr.randint, a, b)
            if not ok:
                break
            cnt[v] = cnt.get(v, 0) + 1
        ctx.prop_case("randint-support", (a, b))
        w = b - a + 1
        exp = draws / w
        if set(cnt) != set(range(a, b + 1)):
            ctx.violation("randint-out-of-range" if any(not (a <= v <= b) for v in cnt) else "randint-support",
                          "the values drawn by randint(a, b) are not exactly the integers of [a, b]",
                          {"seed": 4242 + a, "a": a, "b": b, "draws": draws, "values_seen": sorted(cnt)})
        elif w > 1 and max(abs(c - exp) for c in cnt.values()) > 6 * (exp ** 0.5):
            ctx.violation("randint-not-uniform", "frequencies of randint(a, b) deviate by more than 6 sigma",
                          {"seed": 4242 + a, "a": a, "b": b, "draws": draws, "counts": cnt})
    # a wide domain (w = 3 * 2^30): without the rejection step the lower third would be hit twice as often
    seed_prng(31337)
    w3 = 3 * (1 << 30)
    low = 0
    for j in range(6000):
        ok, v = call_valid(ctx, "randint-raises", {"seed": 31337, "a": -5, "b": w3 - 6, "draw_index": j}, sr.randint, -5, w3 - 6)
        if not ok:
            break
        low += v < (1 << 30) - 5
    ctx.prop_case("randint-wide-uniform", w3)
    if abs(low - 2000) > 6 * (6000 * (1 / 3) * (2 / 3)) ** 0.5:
        ctx.violation("randint-not-uniform", "randint over a domain of 3*2^30 values hits the lowest third with frequency far from 1/3",
                      {"seed": 31337, "a": -5, "b": w3 - 6, "draws": 6000, "in_lowest_third": low})
    # choice: every candidate, nothing else; shuffle: every permutation of 3 and 4 elements; random in [0, 1)
    seed_prng(99)
    cand = ["a", "b", "c", "d", "e"]
    cnt = {}
    for j in range(5000):
        ok, v = call_valid(ctx, "choice-raises", {"seed": 99, "candidates": cand, "draw_index": j}, sr.choice, cand)
        if not ok:
            break
        cnt[v] = cnt.get(v, 0) + 1
    ctx.prop_case("choice-support", 5)
    if set(cnt) != set(cand) or max(abs(c - 1000) for c in cnt.values()) > 6 * 1000 ** 0.5:
        ctx.violation("choice-not-uniform", "choice does not cover the candidates uniformly", {"seed": 99, "counts": cnt})
    for k in (3, 4):
        cnt = {}
        N = 2000 * (6 if k == 3 else 24)
        for j in range(N):
            l = list(range(k))
            ok, _ = call_valid(ctx, "shuffle-raises", {"seed": 99, "n": k, "draw_index": j}, sr.shuffle, l)
            if not ok:
                break
            cnt[tuple(l)] = cnt.get(tuple(l), 0) + 1
        ctx.prop_case("shuffle-support", k)
        perms = set(itertools.permutations(range(k)))
        if set(cnt) != perms or max(abs(c - 2000) for c in cnt.values()) > 6 * 2000 ** 0.5:
            ctx.violation("shuffle-not-uniform", "shuffle does not produce every permutation uniformly",
                          {"seed": 99, "n": k, "counts": {repr(p): c for p, c in cnt.items()}})
    lo, hi = 1.0, 0.0
    for j in range(20000):
        ok, r = call_valid(ctx, "random-raises", {"seed": 99, "draw_index": j}, sr.random)
        if not ok:
            break
        lo, hi = min(lo, r), max(hi, r)
        if not (0.0 <= r < 1.0):
            ctx.violation("random-out-of-range", "random() outside [0, 1)", {"value": r})
    ctx.prop_case("random-range", 20000)
    if lo > 0.01 or hi < 0.99:
        ctx.violation("random-not-uniform", "random() does not spread over [0, 1)", {"min": lo, "max": hi})


def search_prng_stream(ctx):
    """the deterministic draws against an independent reference: xorshift128 as published + textbook rejection
    sampling (the first 32-bit word below the largest multiple of w, reduced mod w).  Every value that came from a
    word in the incomplete last bucket carries modulo bias, whatever the frequencies of a short sample look like;
    the wide domains are those where such words are frequent."""
    import cspuz.generator.srandom as sr
    rng = ctx.rng
    ndraw = 400 if (ctx.thorough or ctx.deep) else 160
    doms = []
    for w in WIDE_WIDTHS:
        for a in (0, rng.choice([1, -5, -(1 << 31), -(1 << 33), 12345])):
            doms.append((a, a + w - 1))
    doms += [(0, 2), (5, 9), (-3, 3), (0, 255), (0, 256), (-6, 257), (1000, 1000), (0, 99999), (-(1 << 40), -(1 << 40) + 6)]
    for (a, b) in doms:
        seed = rng.choice([0, 1, rng.randint(0, 10 ** 9), rng.randint(-(1 << 33), 1 << 34)])
        ref = RefXorShift(seed)
        seed_prng(seed)
        w = b - a + 1
        synced = True
        for j in range(ndraw):
            exp, words = ref_randint(ref, a, b)
            use_choice = a == 0 and j % 4 == 3                # choice over a Sequence of w candidates draws the same
            detail = {"seed": seed, "a": a, "b": b, "draw_index": j, "via": "choice(range(w))" if use_choice else "randint"}
            if use_choice:
                ok, v = call_valid(ctx, "choice-raises", detail, sr.choice, range(fresh_int(w)))
            else:
                ok, v = call_valid(ctx, "randint-raises", detail, sr.randint, fresh_int(a), fresh_int(b))
            ctx.prop_case("randint-vs-rejection-sampler", (seed, a, b, j))
            if len(words) > 1:
                ctx.count("ref-draws-with-%s-rejections" % (len(words) - 1 if len(words) < 4 else "3+"))
            if not ok:
                synced = False
                break
            if v != exp:
                synced = False
                ctx.violation("randint-not-rejection-sampled",
                              "a deterministic draw differs from rejection sampling on the reference xorshift128 stream "
                              "(a value computed from a 32-bit word in the incomplete last bucket is biased towards the low residues)",
                              dict(detail, value=v, expected=exp, reference_words=words, limit=(M32 // w) * w))
                break
        # random(): the next reference word / 2^32
        if not synced:
            continue
        ok, r = call_valid(ctx, "random-raises", {"seed": seed}, sr.random)
        if ok and Fraction(r) != Fraction(ref.next(), M32):
            ctx.violation("random-not-word-over-2^32", "random() is not the next 32-bit word divided by 2^32",
                          {"seed": seed, "after_randint_draws": ndraw, "a": a, "b": b, "value": r})


def observe_stream(seed, how):
    """what a client sees right after enabling the deterministic PRNG with `seed`."""
    import cspuz.generator.srandom as sr
    with time_limit(30):
        seed_prng(seed, how)
        out = [sr.randint(0, 999) for _ in range(6)]
        out.append(sr.choice(["a", "b", "c", "d", "e"]))
        l = list(range(8))
        sr.shuffle(l)
        out.append(tuple(l))
        out.append(sr.random())
        out.append(sr.randint(-(1 << 31), 1 << 30))
        return tuple(out)


def search_reseed(ctx):
    """same seed, same stream / candidates / generated problem -- within ONE process, whatever the process did
    with srandom before (the subprocess rerun covers 'first use in a fresh process')."""
    rng = ctx.rng
    seeds = [0, None, 1, 7, 257, -6, 1000, M32, 88675123, (1 << 40) + 17] + [rng.randint(0, 10 ** 6) for _ in range(4)]
    nh = 6 if (ctx.thorough or ctx.deep) else 3
    pats = [["A", 3, 3, [0, 1, 2, 3], 0, False, True, False, None],
            ["A", 2, 4, [0, 1], 0, True, False, True, None],
            ["L", [["C", [0, 1, 2], 0], ["A", 2, 2, [5, 6], 5, False, False, False, None]]]]
    for seed in seeds:
        base_cfg = dict(gen_run_cfg(rng, rng.choice(pats), hardened=False), seed=seed, max_steps=6, kuniq=10 ** 9, ksat=3)
        first = None
        for k in range(nh + 1):
            hist = [] if k == 0 else (gen_history(rng) or [["draw", 3]])
            if k == 1:
                hist = [["draw", 5]]                          # plain: some draws, then the same seed again
            how = rng.choice(["pos", "kw", "omit"])
            try:
                do_history(hist)
                st = observe_stream(seed, how)
                do_history(hist)
            except Exception as ex:
                ctx.violation("reseed-raises", "enabling the deterministic PRNG with a valid seed / drawing from it raised",
                              {"seed": seed, "seed_passed": how, "history": hist, "exception": "%s: %s" % (type(ex).__name__, ex)})
                break
            po, cb, _ = python_run(dict(base_cfg, seedhow=how), watch=False)
            obs = (st, po)
            ctx.prop_case("same-seed-after-history", (seed, json.dumps(hist), how))
            if first is None:
                first = (obs, hist, how)
            elif obs != first[0]:
                what = "draw stream" if st != first[0][0] else "generate_problem run"
                ctx.violation("same-seed-different-after-history",
                              "use_deterministic_prng(True, seed) with the same seed twice in one process: the %s differs "
                              "(the second time the process had used srandom before)" % what,
                              {"seed": seed, "first_history": first[1], "first_seed_passed": first[2],
                               "second_history": hist, "second_seed_passed": how,
                               "first_stream": list(first[0][0]), "second_stream": list(st),
                               "run_cfg": base_cfg, "first_run": first[0][1], "second_run": po})
                break
    # seed None is the seed 0 of the documentation
    try:
        a, b = observe_stream(None, "omit"), observe_stream(0, "pos")
    except Exception:
        return                                            # reported above as reseed-raises
    ctx.prop_case("seed-none-is-zero", 0)
    if a != b:
        ctx.violation("seed-none-differs-from-0", "use_deterministic_prng(True) and use_deterministic_prng(True, 0) give different streams",
                      {"stream_none": list(a), "stream_0": list(b)})


def search_neighbours(ctx):
    from cspuz.generator import build_neighbor_generator
    rng = ctx.rng
    cases = list(getattr(ctx, "_c19_nb", []))
    extra = 600 if (ctx.thorough or ctx.deep) else 150
    for i in range(extra):
        spec = gen_pattern(rng, allow_bad=False)
        if i % 10 == 9:
            spec = ["T", [gen_large_array(rng), gen_choice_spec(rng)]] if rng.random() < 0.5 else gen_large_array(rng)
        var = gen_variant(rng)
        errs = []
        with variant(var):
            p = walk_problem(rng, spec, rng.randint(0, 8), errs)
            p = None if p is None else dec_prob(p)
        if p is not None:
            cases.append((spec, var, p, rng.randint(0, 10 ** 6)))
        else:
            ctx.violation("generator-raises", "the neighbour generator raised on a well-formed pattern and a problem it produced itself",
                          {"pattern": spec, "variant": var, "exception": errs[:1]})
    for (spec, var, p0, seed) in cases:
        with variant(var):
            p = enc_problem(spec, p0)
            praw = copy.deepcopy(p)
            try:
                with time_limit(30):
                    keep = []
                    _, gen = build_neighbor_generator(build_pattern(spec, keep))
                    seed_prng(seed)
                    ns = [dec_prob(q) for q in gen(p)]
                    seed_prng(seed)
                    ns2 = [dec_prob(q) for q in gen(p)]          # same generator object, same seed, once more
            except Exception as ex:
                ctx.violation("generator-raises", "the neighbour generator raised on a well-formed pattern and a problem it produced itself",
                              {"pattern": spec, "variant": var, "current": p0, "seed": seed, "exception": "%s: %s" % (type(ex).__name__, ex)})
                continue
            changed = p != praw
            argch = args_changed(keep)
        if var != DEFAULT_VARIANT:
            # the same integers in the plain form (lists of the spec's own int objects, every keyword given)
            try:
                with time_limit(30):
                    _, gen = build_neighbor_generator(build_pattern(spec))
                    seed_prng(seed)
                    ns_plain = list(gen(copy.deepcopy(p0)))
            except Exception:
                ns_plain = None
            ctx.prop_case("neighbours-form-independent", (json.dumps(spec), show_prob_int(p0), seed, var_key(var)))
            if ns_plain is not None and ns_plain != ns:
                k = 0
                while k < min(len(ns), len(ns_plain)) and ns[k] == ns_plain[k]:
                    k += 1
                ctx.violation("neighbours-depend-on-argument-form",
                              "same pattern, same current problem, same seed: the candidate sequence depends on the form in which the "
                              "same values were passed (object identity of equal values / container type / one-shot iterable / keyword use)",
                              {"pattern": spec, "variant": var, "current": p0, "seed": seed, "first_difference_at": k,
                               "count_plain": len(ns_plain), "count_variant": len(ns),
                               "plain_form": ns_plain[k:k + 1], "variant_form": ns[k:k + 1]})
        ctx.prop_case("neighbour-locality", (json.dumps(spec), show_prob_int(p0), seed, var_key(var)))
        for q in ns:
            try:
                n, bad = check_local(spec, p0, q)
            except Exception as ex:      # a neighbour so malformed that the oracle cannot read it
                n, bad = 1, ["malformed neighbour %s" % type(ex).__name__]
            if n > 1:
                bad = bad + ["%d builder positions changed" % n]
            if bad:
                ctx.violation("neighbour:" + bad[0].split(":")[0].split(" (")[0][:60].replace(" ", "-"),
                              "a neighbour differs from the current problem by more than one builder update with choice-set values",
                              {"pattern": spec, "variant": var, "current": p0, "neighbour": q, "seed": seed, "complaints": bad})
        if ns2 != ns:
            ctx.violation("neighbours-not-reproducible", "the same generator object, re-seeded with the same seed, produced another candidate sequence",
                          {"pattern": spec, "variant": var, "current": p0, "seed": seed, "first": ns[:6], "second": ns2[:6]})
        if changed:
            ctx.violation("generator-mutates-current", "the neighbour generator modified the current problem",
                          {"pattern": spec, "variant": var, "current": p0, "seed": seed})
        if argch:
            ctx.violation("builder-argument-mutated", "an argument handed to a builder was modified",
                          {"pattern": spec, "variant": var, "argument": argch[0][0], "before": argch[0][1], "after": argch[0][2]})


def search_candidates(ctx):
    """symmetry / adjacency of ArrayBuilder2D updates, read off the real candidates():
    an update is a move iff use_move and it names 4 (symmetry) / 2 (no symmetry) cells."""
    rng = ctx.rng
    n = 1500 if (ctx.thorough or ctx.deep) else 400
    nl = 150 if (ctx.thorough or ctx.deep) else 40
    for i in range(n + nl):
        var = gen_variant(rng)
        if i < n:
            spec = gen_array_spec(rng, allow_bad=False)
            if spec[8] is not None:
                spec[8] = None
        else:
            spec = gen_large_array(rng)
        _, h, w, ch, d, dis, sym, mv, _ = spec
        D = dis_list(dis)
        errs = []
        with variant(var):
            cur = walk_problem(rng, spec, rng.randint(0, 10), errs)
            if cur is None:
                ctx.violation("generator-raises", "the neighbour generator raised on a well-formed pattern and a problem it produced itself",
                              {"pattern": spec, "variant": var, "exception": errs[:1]})
                continue
            keep = []
            b = build_pattern(spec, keep)
            seed = rng.randint(0, 10 ** 6)
            seed_prng(seed)
            cur0 = dec_prob(copy.deepcopy(cur))
            try:
                with time_limit(30):
                    cands = b.candidates(cur)
                    results = [dec_prob(b.copy_with_update(cur, u)) for u in cands]
                    ucands = [dec_update(u) for u in cands]
                    seed_prng(seed)
                    again = [dec_update(u) for u in b.candidates(cur)]   # the same builder, the same seed, once more
            except Exception as ex:
                ctx.violation("generator-raises", "candidates()/copy_with_update() raised on a grid the builder produced itself",
                              {"builder": spec, "variant": var, "current": cur0, "seed": seed, "exception": "%s: %s" % (type(ex).__name__, ex)})
                continue
            changed = dec_prob(cur) != cur0
            argch = args_changed(keep)
        if var != DEFAULT_VARIANT:
            try:
                with time_limit(30):
                    bp = build_pattern(spec)
                    seed_prng(seed)
                    plain = [[tuple(t) for t in u] for u in bp.candidates(copy.deepcopy(cur0))]
            except Exception:
                plain = None
            ctx.prop_case("candidates-form-independent", (json.dumps(spec), show_prob_int(cur0), seed, var_key(var)))
            if plain is not None and plain != ucands:
                k = 0
                while k < min(len(plain), len(ucands)) and plain[k] == ucands[k]:
                    k += 1
                ctx.violation("candidates-depend-on-argument-form",
                              "same builder parameters, same grid, same seed: candidates() depends on the form in which the same values "
                              "were passed (object identity of equal values / container type / one-shot iterable / keyword use)",
                              {"builder": spec, "variant": var, "current": cur0, "seed": seed, "first_difference_at": k,
                               "count_plain": len(plain), "count_variant": len(ucands),
                               "plain_form": [list(map(list, u)) for u in plain[k:k + 1]],
                               "variant_form": [list(map(list, u)) for u in ucands[k:k + 1]]})
        ctx.prop_case("array-candidates", (json.dumps(spec), show_prob_int(cur0), seed, var_key(var)))
        D_ok = (0, 0) not in D and all((-dy, -dx) in D for dy, dx in D)
        pre_sym = nd_symmetric(cur0, h, w, d)
        pre_adj = adj_ok(cur0, h, w, d, D)
        for u, q in zip(ucands, results):
            is_move = mv and len(u) == (4 if sym else 2)
            bad = check_grid_step(spec, cur0, q)
            if any(not (0 <= y < h and 0 <= x < w) for (y, x, _) in u):
                bad.append("update names a cell outside the grid")
            touched = {(y, x) for (y, x, _) in u}
            if not bad and any(cur0[y][x] != q[y][x] and (y, x) not in touched for y in range(h) for x in range(w)):
                bad.append("a cell outside the update changed")
            if not is_move:
                for (y, x, v) in u:
                    if type(v) is not int or v not in set(ch) | {d}:
                        bad.append("value %r not in the choice set" % (v,))
                if not bad and D and D_ok and pre_adj and (pre_sym or not sym) and not adj_ok(q, h, w, d, D):
                    bad.append("two non-default cells became adjacent")
            if bad:
                ctx.violation("array-update:" + bad[0].split(":")[0].split(" (")[0][:60].replace(" ", "-"),
                              "an ArrayBuilder2D update breaks locality / symmetry / adjacency",
                              {"builder": spec, "variant": var, "current": cur0, "update": [list(t) for t in u], "result": q,
                               "seed": seed, "complaints": bad})
        if again != ucands:
            ctx.violation("candidates-not-reproducible", "the same builder object, re-seeded with the same seed, proposed other candidates",
                          {"builder": spec, "variant": var, "current": cur0, "seed": seed,
                           "first": [list(map(list, u)) for u in ucands[:6]], "second": [list(map(list, u)) for u in again[:6]]})
        if changed:
            ctx.violation("candidates-mutate-current", "candidates()/copy_with_update() modified the current problem",
                          {"builder": spec, "variant": var, "current": cur0, "seed": seed})
        if argch:
            ctx.violation("builder-argument-mutated", "an argument handed to a builder was modified",
                          {"builder": spec, "variant": var, "argument": argch[0][0], "before": argch[0][1], "after": argch[0][2]})


def search_runs(ctx):
    """soundness of the returned problem and purity, read off the callback logs of the
    real runs; when the correspondence did not run, make runs here."""
    runs = getattr(ctx, "_c19_runs", None)
    if not runs:
        runs = []
        for _ in range(150):
            cfg = gen_run_cfg(ctx.rng)
            po, cb, pattern = python_run(cfg)
            po2 = None
            if po[0] == "ok":
                po2, cb2, _ = python_run(cfg, pattern=pattern)
                cb.args_changed = cb.args_changed + cb2.args_changed
            runs.append((cfg, po, cb, pattern, po2))
    for (cfg, po, cb, pattern, po2) in runs:
        ctx.prop_case("run-sound", json.dumps(cfg))
        if po[0] != "ok":
            continue
        with variant(cfg.get("var")):
            search_one_run(ctx, cfg, po, cb)
        if po2 is not None:
            ctx.prop_case("same-seed-same-objects", json.dumps(cfg))
            if po2 != po:
                ctx.violation("run-not-reproducible-same-objects",
                              "a second generate_problem over the same builder objects, same seed, in the same process gave another run",
                              {"cfg": cfg, "first": po, "second": po2})
        if cb.args_changed:
            what, before, after = cb.args_changed[0]
            ctx.violation("builder-argument-mutated", "an argument handed to a builder was modified during generate_problem",
                          {"cfg": cfg, "argument": what, "before": before, "after": after})
    second = getattr(ctx, "_c19_second", None)
    if second:
        for (cfg, po, _, _, _), so in zip(runs, second):
            ctx.prop_case("same-seed-same-run", json.dumps(cfg))
            if po != so:
                ctx.violation("run-not-reproducible", "same seed, different run in another process (other hash seed / global random state / history)",
                              {"cfg": cfg, "first": po, "second": so})


def search_one_run(ctx, cfg, po, cb):
    r = cb.result
    if r is not None:
        last = cb.last
        uniq_seen = not (cfg.get("gp") == "omit" and cfg["kuniq"] == 1)     # there the default uniqueness test runs, not ours
        if last is None or last[0] is not r or last[1] is not True or (uniq_seen and last[2] is not True):
            ctx.violation("returned-problem-not-accepted",
                          "generate_problem returned a problem that was not the one the solver reported satisfiable and the uniqueness test accepted",
                          {"cfg": cfg, "returned": show_prob(r), "last_solver_call": None if last is None else [show_prob(last[0]), last[1], last[2]]})
    # every problem handed to the solver is a one-update neighbour of the problem that is current at
    # that moment (initial problem, then whatever the last accepted move installed)
    if has_model(cfg["pattern"]) and cb.has_events:
        from cspuz.generator import build_neighbor_generator
        try:
            current = dec_prob(build_neighbor_generator(build_pattern(cfg["pattern"]))[0])
        except Exception:
            current = None
        last = None
        first = cfg["solve_initial"]
        for ev in cb.events:
            if current is None:
                break
            if ev[0] == "update":
                if last is not None:
                    current = last
                continue
            last = ev[1]
            if first:
                first = False
                if last != current:
                    ctx.violation("initial-problem-not-solved-first", "solve_initial_problem=True did not hand the initial problem to the solver first",
                                  {"cfg": cfg, "initial": current, "solved": last})
                continue
            try:
                n, bad = check_local(cfg["pattern"], current, last)
            except Exception as ex:
                n, bad = 1, ["malformed neighbour %s" % type(ex).__name__]
            if n > 1:
                bad = bad + ["%d builder positions differ from the current problem" % n]
            if bad:
                ctx.violation("tried-neighbour-not-local", "a problem handed to the solver is not a one-update neighbour of the current problem",
                              {"cfg": cfg, "current": current, "tried": last, "complaints": bad})
                break
    for i, (obj, snap) in enumerate(cb.kept):
        if obj != snap:
            ctx.violation("earlier-problem-mutated", "a problem handed to the solver earlier was modified later in the run",
                          {"cfg": cfg, "index": i, "at_call": dec_prob(snap), "now": dec_prob(obj)})
            break


def seg_run(spec, seed, pyseed, max_steps):
    with time_limit(30):
        import random as pyrandom
        from cspuz.generator import generate_problem
        pyrandom.seed(pyseed)
        cfg = {"salt": 7, "ksat": 0, "kuniq": 10 ** 9, "kpre": 0, "stateful": False}
        cb = Callbacks(cfg)
        seed_prng(seed)
        pattern = build_pattern(spec)
        r = generate_problem(cb.solver, builder_pattern=pattern, score=cb.score, uniqueness=cb.uniqueness, max_steps=max_steps)
        bad = [i for i, (o, s) in enumerate(cb.kept) if o != s]
        return (None if r is None else show_prob(r), tuple(cb.trace)), bad


def search_segmentation(ctx):
    """reproducibility of runs over SegmentationBuilder2D patterns (observed, not modelled)."""
    rng = ctx.rng
    n = 40 if (ctx.thorough or ctx.deep) else 12
    for i in range(n):
        h, w = rng.choice([(2, 2), (2, 3), (3, 3), (3, 4)])
        kw = rng.choice([{}, {"min_block_size": 2}, {"max_block_size": 3, "min_num_blocks": 2}, {"min_num_blocks": 2, "max_num_blocks": 4}])
        seg = ["S", h, w, kw]
        spec = seg if rng.random() < 0.5 else ["L", [seg, ["C", [0, 1, 2], 0]]]
        seed = rng.randint(0, 10 ** 6)
        try:
            a, bad_a = seg_run(spec, seed, 1, 6)
            b, bad_b = seg_run(spec, seed, 2, 6)
        except Exception as ex:
            ctx.violation("segmentation-run-raises", "generate_problem over a SegmentationBuilder2D pattern raised / did not terminate",
                          {"pattern": spec, "seed": seed, "exception": "%s: %s" % (type(ex).__name__, ex)})
            if isinstance(ex, Hang):
                break
            continue
        ctx.prop_case("segmentation-same-seed", (json.dumps(spec), seed))
        if a != b:
            k = 0
            while k < min(len(a[1]), len(b[1])) and a[1][k] == b[1][k]:
                k += 1
            ctx.violation("segmentation-not-reproducible",
                          "same deterministic seed, different candidate sequence for a SegmentationBuilder2D pattern when Python's global random state differs",
                          {"pattern": spec, "seed": seed, "first_difference_at_solver_call": k,
                           "run_random_seed_1": list(a[1][k:k + 1]), "run_random_seed_2": list(b[1][k:k + 1])})
        if bad_a or bad_b:
            ctx.violation("earlier-problem-mutated", "a problem handed to the solver earlier was modified later in the run",
                          {"pattern": spec, "seed": seed})


def search(ctx):
    errors = []
    for part in (search_prng, search_prng_stream, search_reseed, search_neighbours, search_candidates, search_runs,
                 search_segmentation):
        try:
            part(ctx)
        except Exception:                      # keep searching with the other oracles, report at the end
            import traceback
            errors.append(traceback.format_exc()[-1500:])
    if errors:
        raise RuntimeError("search parts failed:\n" + "\n".join(errors))


def replay(ctx, rp):
    v = rp.get("violation", {})
    print(json.dumps(rp, indent=1)[:4000])
    d = v.get("detail", {})
    key = v.get("key", "")
    if key == "randint-out-of-range" and "seed" in d:
        import cspuz.generator.srandom as sr
        seed_prng(d["seed"])
        vals = [sr.randint(d["a"], d["b"]) for _ in range(d.get("draw_index", 0) + 1)]
        print("randint(%d, %d) draws: %r" % (d["a"], d["b"], vals))
        return 1 if not (d["a"] <= vals[-1] <= d["b"]) else 0
    if key == "segmentation-not-reproducible":
        a, _ = seg_run(d["pattern"], d["seed"], 1, 6)
        b, _ = seg_run(d["pattern"], d["seed"], 2, 6)
        print("equal runs:", a == b)
        return 0 if a == b else 1
    if key.startswith("neighbour:") or key == "generator-mutates-current":
        from cspuz.generator import build_neighbor_generator
        spec = d["pattern"]
        p = tuplify_like(spec, d["current"])
        with variant(d.get("variant")):
            _, gen = build_neighbor_generator(build_pattern(spec))
            seed_prng(d["seed"])
            bad = []
            for q in gen(enc_problem(spec, p)):
                q = dec_prob(q)
                n, b = check_local(spec, p, q)
                if n > 1 or b:
                    bad.append((show_prob_int(q), n, b))
        print("offending neighbours:", bad[:5])
        return 1 if bad else 0
    if key.startswith("array-update:") and "builder" in d:
        spec = d["builder"]
        with variant(d.get("variant")):
            b = build_pattern(spec)
            seed_prng(d["seed"])
            cur = enc_grid(d["current"])
            bad = []
            for u in b.candidates(cur):
                q = dec_prob(b.copy_with_update(cur, u))
                c = check_grid_step(spec, d["current"], q)
                if c:
                    bad.append((dec_update(u), c))
        print("offending updates (symmetry / locality oracle only):", bad[:5])
        return 1 if bad else 0
    if key in ("neighbours-depend-on-argument-form", "candidates-depend-on-argument-form"):
        from cspuz.generator import build_neighbor_generator
        spec = d.get("pattern", d.get("builder"))
        p = tuplify_like(spec, d["current"])
        res = []
        for var in (None, d["variant"]):
            with variant(var):
                _, gen = build_neighbor_generator(build_pattern(spec))
                seed_prng(d["seed"])
                res.append([dec_prob(q) for q in gen(enc_problem(spec, p))])
        print("plain form: %d neighbours, variant form: %d neighbours, equal: %s" % (len(res[0]), len(res[1]), res[0] == res[1]))
        return 0 if res[0] == res[1] else 1
    if key == "randint-not-rejection-sampled":
        import cspuz.generator.srandom as sr
        ref = RefXorShift(d["seed"])
        seed_prng(d["seed"])
        for j in range(d["draw_index"] + 1):
            exp, words = ref_randint(ref, d["a"], d["b"])
            v = sr.choice(range(d["b"] + 1)) if (d["a"] == 0 and j % 4 == 3) else sr.randint(d["a"], d["b"])
            if v != exp:
                print("draw %d: %d, rejection sampling gives %d (words %r)" % (j, v, exp, words))
                return 1
        return 0
    if key == "same-seed-different-after-history":
        outs = []
        for hist, how in ((d["first_history"], d["first_seed_passed"]), (d["second_history"], d["second_seed_passed"])):
            do_history(hist)
            outs.append(observe_stream(d["seed"], how))
            do_history(hist)
            outs.append(python_run(dict(d["run_cfg"], seedhow=how), watch=False)[0])
        print("streams equal:", outs[0] == outs[2], " runs equal:", outs[1] == outs[3])
        return 0 if (outs[0] == outs[2] and outs[1] == outs[3]) else 1
    return 2


def tuplify_like(spec, v):
    """JSON turned tuples into lists: restore them along the pattern."""
    if spec[0] == "T":
        return tuple(tuplify_like(s, x) for s, x in zip(spec[1], v))
    if spec[0] == "L":
        return [tuplify_like(s, x) for s, x in zip(spec[1], v)]
    return v


if __name__ == "__main__":
    if "--subrun" in sys.argv:
        subrun_main()
