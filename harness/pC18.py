"""C18 — SegmentationBuilder2D only ever produces valid room partitions."""
import contextlib
import copy
import importlib
import random
import types
from collections import Counter

import vlib

PROPS = "Props/C18.v"
RULE = ("correspondence: the same (config, blocks, PRNG draws) is run through the real "
        "SegmentationBuilder2D.__init__/candidates/copy_with_update/initial, split_block and _is_connected "
        "(with the PRNG object the module uses replaced by a replayer of the explicit draws: randint(a,b) = a + d mod (b-a+1), "
        "choice(seq) = canonical(seq)[d mod len]) and through the extracted Coq model (make_config, candidates, apply_update, "
        "initial, split_block, is_connected); whole candidate lists are compared (the merge prefix, which Python builds from a set, "
        "sorted on both sides), incl. the number of draws consumed and the error class.  Inputs: boards 0..5 (thorough 0..6) per side; "
        "bounds None/0/small/tight/infeasible/negative; blocks = independently generated random partitions in random cell order, plus a malformed "
        "stream (missing cells, overlapping blocks, disconnected blocks, duplicate cells, empty blocks); draws plentiful or nearly exhausted.  "
        "search: random walks over updates proposed by the real code (real PRNG behind a call budget), every proposed update applied and the "
        "result checked by an independent invariant checker (Counter of cells, own flood fill, own bound defaulting); purity half (TEST, not a "
        "theorem): deep-copy the value, apply, mutate every list reachable from the result, compare the value with its copy.  A case is "
        "non-trivial when it is a distinct (kind, config, blocks, draws/update) tuple.")
TRUSTED = [
    "reading of the property: 'proposed updates' = elements of candidates(value); 'applying' = copy_with_update; values = lists of lists of (y, x) tuples; "
    "the bound configuration is the one stored by __init__ (None/0 mean default); allow_unmet_constraints_first=False for the claim about initial()",
    "the PRNG used by segmentation.py (random or srandom) returns randint(a,b) in [a,b] and choice(seq) in seq; modelled as explicit draws",
    "CPython list/tuple/set/dict/deque semantics as transcribed in Generator/Segmentation.v; BFS distances of split_block are modelled level-synchronously (same dict as the queue BFS), "
    "the recursive flood fill of _is_connected as the same level iteration; set iteration order of the merge pairs is not modelled (compared as sorted lists)",
    "purity ('never modifies the value it was applied to') is about Python aliasing and is TESTED by the harness, not proved",
    "search also reports as violations: candidates() raising on a value that satisfies the invariant, and initial() raising anything but the IndexError of "
    "random.choice([]) (infeasible bounds); initial() runs that exceed a PRNG call budget (bounds that can never be met) are skipped",
]
ASSUMPTIONS = [
    "cells of supplied blocks lie inside the board (negative indices would wrap in Python; not modelled)",
    "block sizes stay below the interpreter recursion limit (_is_connected recurses once per cell; a RecursionError yields no value and is outside the model)",
    "initial(): height >= 1 and width >= 1 when no initial_blocks are given; supplied initial_blocks form a partition into connected blocks",
]

ERRCODE = {1: "IndexError", 2: "KeyError", 3: "AssertionError", 4: "TypeError", 5: "ValueError",
           6: "RecursionError", 7: "NotImplementedError", 8: "Other"}


class DrawsExhausted(Exception):
    pass


class BudgetExceeded(Exception):
    pass


def is_merge(u):
    return len(u[0]) == 2 and len(u[1]) == 1


def canon_list(seq):
    """candidate list with the merge prefix (built from a Python set) in sorted order."""
    k = 0
    while k < len(seq) and is_merge(seq[k]):
        k += 1
    return sorted(seq[:k], key=lambda u: tuple(u[0])) + list(seq[k:])


class Replay:
    """stands in for the `random` / `srandom` module inside segmentation.py"""

    def __init__(self, draws):
        self.draws = list(draws)
        self.pos = 0

    def _next(self):
        if self.pos >= len(self.draws):
            raise DrawsExhausted()
        d = self.draws[self.pos]
        self.pos += 1
        return d

    def randint(self, a, b):
        d = self._next()
        return a + d % (b - a + 1)

    def choice(self, seq):
        if len(seq) == 0:
            raise IndexError("Cannot choose from an empty sequence")
        d = self._next()
        return canon_list(seq)[d % len(seq)]

    def shuffle(self, seq):
        raise NotImplementedError("PRNG call not covered by the model: shuffle")

    def random(self):
        raise NotImplementedError("PRNG call not covered by the model: random")

    def remaining(self):
        return len(self.draws) - self.pos


class BudgetRandom:
    """the real PRNG (a random.Random) behind a call budget, so that initial() cannot spin forever"""

    def __init__(self, rng, budget):
        self.rng, self.budget = rng, budget

    def _tick(self):
        self.budget -= 1
        if self.budget < 0:
            raise BudgetExceeded()

    def randint(self, a, b):
        self._tick()
        return self.rng.randint(a, b)

    def choice(self, seq):
        self._tick()
        return self.rng.choice(seq)

    def shuffle(self, seq):
        self._tick()
        self.rng.shuffle(seq)

    def random(self):
        self._tick()
        return self.rng.random()


def seg_module():
    return importlib.import_module("cspuz.generator.segmentation")


PRNG_MODULES = ("random", "cspuz.generator.srandom", "cspuz.generator.deterministic_random")


@contextlib.contextmanager
def patched(obj):
    """replace whatever PRNG segmentation.py refers to (module `random`, `srandom`, or names imported from them)."""
    seg = seg_module()
    saved = {}
    for name, val in list(vars(seg).items()):
        if isinstance(val, types.ModuleType) and val.__name__ in PRNG_MODULES:
            saved[name] = val
        elif name in ("randint", "choice", "shuffle") and callable(val):
            saved[name] = val
    if not saved:
        raise RuntimeError("segmentation.py: no PRNG module/function found to patch")
    try:
        for name, val in saved.items():
            setattr(seg, name, obj if isinstance(val, types.ModuleType) else getattr(obj, name))
        yield obj
    finally:
        for name, val in saved.items():
            setattr(seg, name, val)


# ---------------------------------------------------------------- wire format

def enc_block(b):
    return " ".join([str(len(b))] + ["%d %d" % (y, x) for (y, x) in b])


def enc_blocks(bs):
    return " ".join([str(len(bs))] + [enc_block(b) for b in bs])


def enc_nats(l):
    return " ".join([str(len(l))] + [str(v) for v in l])


def enc_opt(v):
    return "_" if v is None else str(v)


def enc_cfg(cfg):
    h, w, mn, mx, ms, xs, allow = cfg
    return "%d %d %s %s %s %s %d" % (h, w, enc_opt(mn), enc_opt(mx), enc_opt(ms), enc_opt(xs), 1 if allow else 0)


def enc_update(u):
    return enc_nats(u[0]) + " " + enc_blocks(u[1])


class Cur:
    def __init__(self, toks):
        self.t, self.i = toks, 0

    def int(self):
        v = int(self.t[self.i])
        self.i += 1
        return v

    def block(self):
        k = self.int()
        return tuple((self.int(), self.int()) for _ in range(k))

    def blocks(self):
        n = self.int()
        return tuple(self.block() for _ in range(n))

    def nats(self):
        n = self.int()
        return tuple(self.int() for _ in range(n))

    def update(self):
        ex = self.nats()
        return (ex, self.blocks())


def parse_err(t):
    return ("err", ERRCODE[int(t[1])])


def parse_cand(r):
    t = r.split()
    if t[0] == "E":
        return parse_err(t)
    if t[0] != "OK":
        raise RuntimeError("bad model reply " + r[:200])
    c = Cur(t[1:])
    rest = c.int()
    n = c.int()
    return ("ok", (tuple(c.update() for _ in range(n)), rest))


def parse_blocks_reply(r, with_rest):
    t = r.split()
    if t[0] == "E":
        return parse_err(t)
    if t[0] != "OK":
        raise RuntimeError("bad model reply " + r[:200])
    c = Cur(t[1:])
    if with_rest:
        rest = c.int()
        return ("ok", (c.blocks(), rest))
    return ("ok", c.blocks())


def parse_split(r):
    t = r.split()
    if t[0] == "E":
        return parse_err(t)
    c = Cur(t[1:])
    rest = c.int()
    return ("ok", (c.block(), c.block(), rest))


def norm_blocks(bs):
    return tuple(tuple((int(y), int(x)) for (y, x) in b) for b in bs)


def norm_update(u):
    return (tuple(int(i) for i in u[0]), norm_blocks(u[1]))


def norm_err(r):
    if r[0] == "err" and r[1].startswith("Other"):
        return ("err", "Other")
    return r


# ---------------------------------------------------------------- input generators (independent of the code under test)

def neighbours(c):
    y, x = c
    return [(y - 1, x), (y + 1, x), (y, x - 1), (y, x + 1)]


def rand_partition(rng, h, w, k):
    """k connected regions grown from random seeds; cell order inside a block and block order are random."""
    cells = [(y, x) for y in range(h) for x in range(w)]
    k = max(1, min(k, len(cells)))
    seeds = rng.sample(cells, k)
    owner = {s: i for i, s in enumerate(seeds)}
    blocks = [[s] for s in seeds]
    frontier = list(seeds)
    while len(owner) < len(cells):
        c = rng.choice(frontier)
        free = [n for n in neighbours(c) if 0 <= n[0] < h and 0 <= n[1] < w and n not in owner]
        if not free:
            frontier.remove(c)
            continue
        n = rng.choice(free)
        owner[n] = owner[c]
        blocks[owner[c]].append(n)
        frontier.append(n)
    mode = rng.randint(0, 2)
    for b in blocks:
        if mode == 0:
            b.sort()
        elif mode == 1:
            rng.shuffle(b)
    rng.shuffle(blocks)
    return blocks


def malform(rng, h, w, blocks):
    """one defect: missing cells / overlap / disconnected block / duplicate cell / empty block"""
    bs = [list(b) for b in blocks]
    kind = rng.choice(["missing-block", "missing-cell", "overlap", "swap", "dup-cell", "empty-block"])
    if kind == "missing-block" and len(bs) > 1:
        bs.pop(rng.randrange(len(bs)))
    elif kind == "missing-cell":
        b = rng.choice(bs)
        if len(b) > 1:
            b.pop(rng.randrange(len(b)))
    elif kind == "overlap" and len(bs) > 1:
        i, j = rng.sample(range(len(bs)), 2)
        bs[j].insert(rng.randint(0, len(bs[j])), rng.choice(bs[i]))
    elif kind == "swap" and len(bs) > 1:
        i, j = rng.sample(range(len(bs)), 2)
        a, b = rng.randrange(len(bs[i])), rng.randrange(len(bs[j]))
        bs[i][a], bs[j][b] = bs[j][b], bs[i][a]
    elif kind == "dup-cell":
        b = rng.choice(bs)
        b.insert(rng.randint(0, len(b)), rng.choice(b))
    elif kind == "empty-block":
        bs.insert(rng.randint(0, len(bs)), [])
    return kind, bs


def rand_bounds(rng, h, w, nblocks, sizes):
    """(min_num, max_num, min_size, max_size) — None / 0 / loose / tight around the current value / infeasible / negative"""
    n = max(1, h * w)

    def pick(cur, lo):
        r = rng.random()
        if r < 0.25:
            return None
        if r < 0.30:
            return 0
        if r < 0.60:
            return max(lo, cur + rng.choice([-1, 0, 0, 1]))
        if r < 0.95:
            return rng.randint(lo, n + 1)
        return rng.choice([-1, -2, n + 3])
    smin, smax = (min(sizes), max(sizes)) if sizes else (1, 1)
    return (pick(nblocks, 1), pick(nblocks, 1), pick(smin, 1), pick(smax, 1))


def rand_draws(rng, n, small=False):
    if small:
        return [rng.randint(0, 3) for _ in range(n)]
    return [rng.randint(0, 997) for _ in range(n)]


def mk_builder(cfg, initial_blocks=None):
    seg = seg_module()
    h, w, mn, mx, ms, xs, allow = cfg
    return seg.SegmentationBuilder2D(h, w, min_num_blocks=mn, max_num_blocks=mx, min_block_size=ms,
                                     max_block_size=xs, allow_unmet_constraints_first=allow,
                                     initial_blocks=initial_blocks)


def impl_candidates(cfg, blocks, draws):
    def f():
        b = mk_builder(cfg)
        cur = [list(x) for x in blocks]
        with patched(Replay(draws)) as rp:
            cands = b.candidates(cur)
        return (tuple(norm_update(u) for u in canon_list(cands)), rp.remaining())
    return norm_err(vlib.guarded(f))


def impl_apply(blocks, u):
    def f():
        b = mk_builder((1, 1, None, None, None, None, False))
        return norm_blocks(b.copy_with_update([list(x) for x in blocks], ([*u[0]], [list(x) for x in u[1]])))
    return norm_err(vlib.guarded(f))


def impl_initial(cfg, ib, draws):
    def f():
        b = mk_builder(cfg, None if ib is None else [list(x) for x in ib])
        with patched(Replay(draws)) as rp:
            r = b.initial()
        return (norm_blocks(r), rp.remaining())
    return norm_err(vlib.guarded(f))


def impl_split(block, draws):
    def f():
        seg = seg_module()
        with patched(Replay(draws)) as rp:
            a, b = seg.split_block(list(block))
        return (tuple(a), tuple(b), rp.remaining())
    return norm_err(vlib.guarded(f))


def impl_isconn(block, excl):
    def f():
        return bool(seg_module()._is_connected(list(block), excl))
    return norm_err(vlib.guarded(f))


def board_sizes(ctx, lo=1):
    hi = 6 if ctx.thorough else 5
    return [(h, w) for h in range(lo, hi + 1) for w in range(lo, hi + 1)]


# ---------------------------------------------------------------- correspondence

def correspond(ctx):
    rng = ctx.rng
    m = ctx.model("C18")
    ctx._c18_states = []

    # --- __init__ defaults
    reqs, cases = [], []
    vals = [None, 0, 1, 2, 3, 7, -1]
    for (h, w) in [(0, 0), (0, 3), (1, 1), (2, 3), (3, 2), (4, 5)]:
        for _ in range(40 if not ctx.thorough else 200):
            cfg = (h, w, rng.choice(vals), rng.choice(vals), rng.choice(vals), rng.choice(vals), False)
            reqs.append("CFG " + enc_cfg(cfg))
            cases.append(cfg)
    for cfg, o in zip(cases, m.batch(reqs)):
        def f():
            b = mk_builder(cfg)
            return (b.min_num_blocks, b.max_num_blocks, b.min_block_size, b.max_block_size)
        mo = ("ok", tuple(int(v) for v in o.split()[1:]))
        ctx.corr("init-defaults", cfg, mo, vlib.guarded(f))

    # --- candidates (+ apply on the proposed updates)
    per = 40 if not ctx.thorough else 120
    reqs, cases = [], []
    for (h, w) in board_sizes(ctx):
        for rep in range(per):
            k = rng.choice([1, 1, 2, 2, 3, 4, rng.randint(1, h * w), h * w])
            blocks = rand_partition(rng, h, w, k)
            label = "valid"
            if rng.random() < 0.25:
                label, blocks = malform(rng, h, w, blocks)
            sizes = [len(b) for b in blocks]
            mn, mx, ms, xs = rand_bounds(rng, h, w, len(blocks), sizes)
            cfg = (h, w, mn, mx, ms, xs, False)
            r = rng.random()
            if r < 0.08:
                draws = rand_draws(rng, rng.randint(0, 12))
            elif r < 0.25:
                draws = rand_draws(rng, 40 * h * w + 40, small=True)   # many equal pairs -> re-draws
            else:
                draws = rand_draws(rng, 30 * h * w + 40)
            reqs.append("CAND %s %s %s" % (enc_cfg(cfg), enc_blocks(blocks), enc_nats(draws)))
            cases.append((cfg, norm_blocks(blocks), tuple(draws), label))
    outs = m.batch(reqs)
    areqs, acases = [], []
    for (cfg, blocks, draws, label), o in zip(cases, outs):
        mo = parse_cand(o)
        io = impl_candidates(cfg, blocks, draws)
        ctx.count("cand-input:" + label)
        ctx.count("cand-result:" + (io[1] if io[0] == "err" else "ok"))
        if io[0] == "ok":
            for u in io[1][0]:
                ctx.count("cand-kind:" + ("merge" if is_merge(u) else "split" if len(u[0]) == 1 else "move"))
        ctx.corr("candidates", (cfg, blocks, draws[:8], len(draws)), mo, io)
        if io[0] == "ok" and io[1][0]:
            ups = list(io[1][0])
            for u in rng.sample(ups, min(3, len(ups))):
                areqs.append("APPLY %s %s" % (enc_blocks(blocks), enc_update(u)))
                acases.append((blocks, u))
            if label == "valid":
                ctx._c18_states.append((cfg, blocks, ups))
        # arbitrary update shapes through copy_with_update
        if rng.random() < 0.3:
            ex = tuple(rng.randint(0, len(blocks) + 1) for _ in range(rng.randint(0, 3)))
            nw = norm_blocks(rand_partition(rng, 2, 2, rng.randint(1, 3)))[:rng.randint(0, 2)]
            areqs.append("APPLY %s %s" % (enc_blocks(blocks), enc_update((ex, nw))))
            acases.append((blocks, (ex, nw)))
    for (blocks, u), o in zip(acases, m.batch(areqs)):
        ctx.corr("copy_with_update", (blocks, u), parse_blocks_reply(o, False), impl_apply(blocks, u))

    # --- initial()
    reqs, cases = [], []
    isz = [(0, 0), (0, 2), (2, 0)] + board_sizes(ctx)
    for (h, w) in isz:
        for rep in range(14 if not ctx.thorough else 40):
            ib = None
            if h * w > 0 and rng.random() < 0.35:
                ib = norm_blocks(rand_partition(rng, h, w, rng.randint(1, h * w)))
            nb = len(ib) if ib else 1
            sizes = [len(b) for b in ib] if ib else [h * w]
            mn, mx, ms, xs = rand_bounds(rng, h, w, rng.choice([nb, 2, 3]), rng.choice([sizes, [1, 2], [2, 3]]))
            cfg = (h, w, mn, mx, ms, xs, rng.random() < 0.1)
            draws = rand_draws(rng, rng.choice([0, 5, 60, 150, 400]))
            reqs.append("INIT %s %s %s" % (enc_cfg(cfg), "0" if ib is None else "1 " + enc_blocks(ib), enc_nats(draws)))
            cases.append((cfg, ib, tuple(draws)))
    for (cfg, ib, draws), o in zip(cases, m.batch(reqs)):
        io = impl_initial(cfg, ib, draws)
        ctx.count("initial-result:" + (io[1] if io[0] == "err" else "ok"))
        ctx.corr("initial", (cfg, ib, draws[:8], len(draws)), parse_blocks_reply(o, True), io)

    # --- split_block and _is_connected on arbitrary cell sets
    reqs, cases = [], []
    for (h, w) in board_sizes(ctx):
        for rep in range(16 if not ctx.thorough else 50):
            cells = [(y, x) for y in range(h) for x in range(w)]
            if rng.random() < 0.6:
                blk = rng.choice(rand_partition(rng, h, w, rng.randint(1, 3)))
            else:
                blk = rng.sample(cells, rng.randint(1, len(cells)))
            if rng.random() < 0.1:
                blk = blk + [rng.choice(blk)]
            draws = rand_draws(rng, rng.choice([0, 1, 2, 6, 30]), small=rng.random() < 0.4)
            reqs.append("SPLIT %s %s" % (enc_block(blk), enc_nats(draws)))
            cases.append(("split", tuple(blk), tuple(draws)))
            for _ in range(3):
                r = rng.random()
                excl = None if r < 0.1 else rng.choice(blk) if r < 0.8 else (rng.randint(-1, h), rng.randint(-1, w))
                reqs.append("ISCONN %s %s" % (enc_block(blk), "_" if excl is None else "%d %d" % excl))
                cases.append(("isconn", tuple(blk), excl))
    for (kind, blk, arg), o in zip(cases, m.batch(reqs)):
        if kind == "split":
            ctx.corr("split_block", (blk, arg), parse_split(o), impl_split(blk, arg))
        else:
            ctx.corr("_is_connected", (blk, arg), ("ok", o.strip() == "T"), impl_isconn(blk, arg))


# ---------------------------------------------------------------- independent oracle

def own_bounds(cfg):
    h, w, mn, mx, ms, xs, _ = cfg
    return (mn if mn else 1, mx if mx else h * w, ms if ms else 1, xs if xs else h * w)


def block_connected(b):
    s = set(b)
    if not s:
        return False
    start = next(iter(s))
    seen, stack = {start}, [start]
    while stack:
        c = stack.pop()
        for n in neighbours(c):
            if n in s and n not in seen:
                seen.add(n)
                stack.append(n)
    return len(seen) == len(s)


def inv_failure(cfg, blocks, with_bounds=True):
    """None when `blocks` satisfies the property's invariant, else a short reason"""
    h, w = cfg[0], cfg[1]
    if not isinstance(blocks, list) or any(not isinstance(b, list) for b in blocks):
        return "not-a-list-of-lists"
    cnt = Counter(c for b in blocks for c in b)
    want = Counter((y, x) for y in range(h) for x in range(w))
    if cnt != want:
        return "not-a-partition"
    for b in blocks:
        if not block_connected(b):
            return "block-not-connected"
    if with_bounds:
        mn, mx, ms, xs = own_bounds(cfg)
        if not (mn <= len(blocks) <= mx):
            return "block-count-out-of-bounds"
        if any(not (ms <= len(b) <= xs) for b in blocks):
            return "block-size-out-of-bounds"
    return None


def scramble(value):
    """mutate every list reachable from a value"""
    for b in value:
        if isinstance(b, list):
            b.append((-7, -7))
            b.reverse()
            if len(b) > 1:
                b.pop(0)
    value.append([(-9, -9)])
    value.reverse()


def kind_of(u):
    return "merge" if is_merge(u) else "split" if len(u[0]) == 1 else "move"


def check_step(ctx, cfg, builder, cur, u, where):
    """apply one proposed update to cur; returns the new value (or None after reporting)"""
    snap = copy.deepcopy(cur)
    usnap = copy.deepcopy(u)
    key0 = "%dx%d:%s" % (cfg[0], cfg[1], kind_of(u))
    try:
        new = builder.copy_with_update(cur, u)
    except Exception as ex:  # noqa
        ctx.violation(key0 + ":apply-raises", "copy_with_update raised on a proposed update",
                      {"cfg": list(cfg), "value": snap, "update": usnap, "error": vlib.err_name(ex), "where": where})
        return None
    ctx.prop_case("step-" + kind_of(u), (cfg, norm_blocks(snap), norm_update(usnap)))
    if cur != snap:
        ctx.violation(key0 + ":modified-by-apply", "TEST(purity): copy_with_update modified its argument",
                      {"cfg": list(cfg), "value": snap, "update": usnap, "after": cur, "where": where})
    why = inv_failure(cfg, new)
    if why:
        ctx.violation(key0 + ":" + why, "applying a proposed update leaves the invariant: " + why,
                      {"cfg": list(cfg), "value": snap, "update": usnap, "result": new, "where": where})
        return None
    keep = copy.deepcopy(new)
    scramble(new)
    if cur != snap:
        ctx.violation(key0 + ":aliased-result", "TEST(purity): mutating the result of copy_with_update changed the value it was applied to",
                      {"cfg": list(cfg), "value": snap, "update": usnap, "where": where})
        cur[:] = copy.deepcopy(snap)
    return keep


def feasible_cfgs(rng, h, w):
    n = h * w
    out = [(h, w, None, None, None, None, False)]
    for _ in range(6):
        ms = rng.choice([None, 1, 1, 2, 3])
        lo = ms or 1
        xs = rng.choice([None, lo, lo + 1, lo + 2, n])
        hi = xs or n
        kmin = -(-n // hi)
        kmax = max(kmin, n // lo)
        mn = rng.choice([None, kmin, rng.randint(kmin, kmax)])
        mx = rng.choice([None, kmax, rng.randint(mn or kmin, kmax)])
        if mx is not None and mn is not None and mx < mn:
            mx = mn
        out.append((h, w, mn, mx, ms, xs, False))
    return out


def search(ctx):
    rng = ctx.rng
    hi = 6
    sizes = [(h, w) for h in range(1, hi + 1) for w in range(1, hi + 1)]
    walks = 0
    nsteps = 200
    budget_walks = (4000 if ctx.thorough else 260) * (2 if getattr(ctx, "deep", False) else 1)
    # 1. walks from initial()
    while walks < budget_walks:
        h, w = rng.choice(sizes)
        for cfg in feasible_cfgs(rng, h, w):
            walks += 1
            builder = mk_builder(cfg)
            br = BudgetRandom(rng, 4000)
            try:
                with patched(br):
                    cur = builder.initial()
            except BudgetExceeded:
                ctx.count("search:initial-budget-exceeded")
                continue
            except IndexError:
                ctx.count("search:initial-no-candidates")   # random.choice([]) on an infeasible configuration
                continue
            except Exception as ex:  # noqa
                ctx.violation("%dx%d:initial:raises-%s" % (h, w, vlib.err_name(ex)),
                              "initial() raised while walking towards the bounds (an intermediate value was not a partition into connected blocks)",
                              {"cfg": list(cfg), "error": vlib.err_name(ex), "where": "initial"})
                continue
            ctx.prop_case("initial", (cfg, norm_blocks(cur)))
            why = inv_failure(cfg, cur)
            if why:
                ctx.violation("%dx%d:initial:%s" % (h, w, why), "initial() returned a value outside the invariant: " + why,
                              {"cfg": list(cfg), "result": cur, "where": "initial"})
                continue
            steps = nsteps if walks % 4 == 0 else 40
            for t in range(steps):
                br.budget = 100000
                try:
                    with patched(br):
                        cands = builder.candidates(cur)
                except Exception as ex:  # noqa
                    ctx.violation("%dx%d:candidates:raises-%s" % (h, w, vlib.err_name(ex)),
                                  "candidates() raised on a value that satisfies the invariant",
                                  {"cfg": list(cfg), "value": copy.deepcopy(cur), "error": vlib.err_name(ex), "where": "walk step %d" % t})
                    break
                if not cands:
                    break
                # every proposed update must keep the invariant (sampled when there are many)
                probe = cands if len(cands) <= 12 else rng.sample(cands, 12)
                for u in probe:
                    check_step(ctx, cfg, builder, cur, u, "walk step %d" % t)
                kinds = sorted({kind_of(u) for u in cands})
                k = rng.choice(kinds)
                u = rng.choice([c for c in cands if kind_of(c) == k])
                new = check_step(ctx, cfg, builder, cur, u, "walk step %d" % t)
                if new is None:
                    break
                cur = new
            ctx.count("search:walks")
    # 2. every update proposed for the independently generated valid states of the correspondence run
    for (cfg, blocks, ups) in getattr(ctx, "_c18_states", []):
        if inv_failure(cfg, [list(b) for b in blocks]) is not None:
            continue   # the random bounds do not hold for this state: the property says nothing
        builder = mk_builder(cfg)
        for u in ups:
            cur = [list(b) for b in blocks]
            check_step(ctx, cfg, builder, cur, ([*u[0]], [list(b) for b in u[1]]), "generated state")


def replay(ctx, rp):
    v = rp.get("violation", {}).get("detail", {})
    print(rp)
    if not v or "cfg" not in v:
        return 0
    cfg = tuple(v["cfg"])
    tup = lambda bs: [[tuple(c) for c in b] for b in bs]  # noqa
    if "update" not in v:
        if "result" in v:
            return 1 if inv_failure(cfg, tup(v["result"])) else 0
        return 1
    builder = mk_builder(cfg)
    cur = tup(v["value"])
    u = (list(v["update"][0]), tup(v["update"][1]))
    # is the recorded update still proposed for the recorded value?  (splits depend on the PRNG: try many seeds)
    rng, found = random.Random(0), False
    for _ in range(400 if kind_of(u) == "split" else 1):
        try:
            with patched(BudgetRandom(rng, 10 ** 6)):
                cands = builder.candidates(copy.deepcopy(cur))
        except Exception as ex:  # noqa
            print("candidates raises:", vlib.err_name(ex))
            return 1
        if any(norm_update(c) == norm_update(u) for c in cands):
            found = True
            break
    if not found:
        print("the recorded update is no longer proposed for the recorded value")
        return 0
    sub = vlib.Ctx("C18", "quick", 0)
    check_step(sub, cfg, builder, cur, u, "replay")
    for x in sub.violations:
        print("still failing:", x["key"], x["what"])
    return 1 if sub.violations else 0
