(* Facts about Core/Program.v: the meaning of a posted program does not depend
   on the order in which its constraints were posted.  This is what allows the
   program-capture ties of C04-C10 to compare the posted constraint trees as a
   multiset: declarations and answer keys are compared exactly, the constraints
   a call added are compared up to a permutation.  Standard library only. *)
From Coq Require Import ZArith List Bool Permutation.
From Cspuz Require Import Lib.PyErr Core.Expr Core.Program.
Import ListNotations.

Lemma forallb_perm {A} (f : A -> bool) (l1 l2 : list A) :
  Permutation l1 l2 -> forallb f l1 = forallb f l2.
Proof.
  induction 1; simpl.
  - reflexivity.
  - rewrite IHPermutation. reflexivity.
  - destruct (f x), (f y); reflexivity.
  - congruence.
Qed.

Lemma skipn_length_app {A} (l r : list A) : skipn (length l) (l ++ r) = r.
Proof. induction l; simpl; auto. Qed.

(* ---- whole programs ------------------------------------------------------ *)

(* same declarations, same answer keys, the same constraints in another order *)
Definition same_program_modulo_order (st1 st2 : state) : Prop :=
  vars st1 = vars st2 /\ keys st1 = keys st2 /\ Permutation (cons st1) (cons st2).

Lemma same_program_modulo_order_refl st : same_program_modulo_order st st.
Proof. repeat split; auto. Qed.

Lemma same_program_modulo_order_sym st1 st2 :
  same_program_modulo_order st1 st2 -> same_program_modulo_order st2 st1.
Proof. intros [Hv [Hk Hp]]. repeat split; auto using Permutation_sym. Qed.

Lemma same_program_modulo_order_trans st1 st2 st3 :
  same_program_modulo_order st1 st2 -> same_program_modulo_order st2 st3 ->
  same_program_modulo_order st1 st3.
Proof.
  intros [Hv [Hk Hp]] [Hv' [Hk' Hp']]. repeat split; try congruence.
  eapply Permutation_trans; eauto.
Qed.

Section Perm.
  Variable gsem : op -> list (option value) -> option bool.

  Lemma satisfies_perm en st1 st2 :
    Permutation (cons st1) (cons st2) -> satisfies gsem en st1 = satisfies gsem en st2.
  Proof. intros H. unfold satisfies. apply forallb_perm. exact H. Qed.

  (* the name used in the design text *)
  Definition sat_perm := satisfies_perm.

  Lemma in_bounds_vars en st1 st2 : vars st1 = vars st2 -> in_bounds en st1 = in_bounds en st2.
  Proof. intros H. unfold in_bounds. rewrite H. reflexivity. Qed.

  Lemma model_of_perm en st1 st2 :
    vars st1 = vars st2 -> Permutation (cons st1) (cons st2) ->
    (model_of gsem en st1 <-> model_of gsem en st2).
  Proof.
    intros Hv Hp. unfold model_of.
    rewrite (in_bounds_vars en st1 st2 Hv), (satisfies_perm en st1 st2 Hp). tauto.
  Qed.

  Lemma satisfiable_perm st1 st2 :
    same_program_modulo_order st1 st2 -> (satisfiable gsem st1 <-> satisfiable gsem st2).
  Proof.
    intros [Hv [_ Hp]]. unfold satisfiable.
    split; intros [en H]; exists en; apply (model_of_perm en st1 st2 Hv Hp); exact H.
  Qed.

  (* the extension form used by the exactness theorems: the constraints a call
     added, evaluated under a completed assignment *)
  Lemma new_cons_perm en (newc newc2 : list expr) :
    Permutation newc newc2 ->
    forallb (holds gsem en) newc = forallb (holds gsem en) newc2.
  Proof. apply forallb_perm. Qed.
End Perm.

(* ---- extensions of a caller's program ------------------------------------ *)

(* what a call that led from [st] to [st'] added *)
Definition added_cons (st st' : state) : list expr := skipn (length (cons st)) (cons st').
Definition added_vars (st st' : state) : list vdecl := skipn (length (vars st)) (vars st').

(* [st2] is [st'] with the constraints added after [st] in another order:
   declarations and answer keys are those of [st'], the caller's constraints
   [cons st] are still in front and untouched, the added ones are permuted *)
Definition reordered_extension (st st' st2 : state) : Prop :=
  vars st2 = vars st' /\ keys st2 = keys st' /\
  exists newc2, cons st2 = cons st ++ newc2 /\ Permutation (added_cons st st') newc2.

Lemma reordered_extension_refl st st' cs :
  cons st' = cons st ++ cs -> reordered_extension st st' st'.
Proof.
  intros H. repeat split. exists cs. split; [exact H|].
  unfold added_cons. rewrite H, skipn_length_app. apply Permutation_refl.
Qed.

Lemma reordered_added_vars st st' st2 :
  reordered_extension st st' st2 -> added_vars st st2 = added_vars st st'.
Proof. intros [Hv _]. unfold added_vars. rewrite Hv. reflexivity. Qed.

Lemma reordered_added_cons st st' st2 :
  reordered_extension st st' st2 -> Permutation (added_cons st st') (added_cons st st2).
Proof.
  intros [_ [_ [newc2 [Hc Hp]]]]. unfold added_cons at 2. rewrite Hc, skipn_length_app. exact Hp.
Qed.

Lemma reordered_added_holds gsem en st st' st2 :
  reordered_extension st st' st2 ->
  forallb (holds gsem en) (added_cons st st2) = forallb (holds gsem en) (added_cons st st').
Proof. intros H. symmetry. apply new_cons_perm, (reordered_added_cons st st' st2 H). Qed.

Lemma reordered_in_bounds en st st' st2 :
  reordered_extension st st' st2 -> in_bounds en st2 = in_bounds en st'.
Proof. intros [Hv _]. apply in_bounds_vars. exact Hv. Qed.

(* when [st'] itself extends [st], the two results are the same program modulo order *)
Lemma reordered_same_program st st' st2 cs :
  cons st' = cons st ++ cs -> reordered_extension st st' st2 -> same_program_modulo_order st' st2.
Proof.
  intros H [Hv [Hk [newc2 [Hc Hp]]]]. repeat split; auto.
  rewrite H, Hc. apply Permutation_app_head.
  unfold added_cons in Hp. rewrite H, skipn_length_app in Hp. exact Hp.
Qed.

(* "the added variables and constraints can be completed over the caller's
   assignment" is the same statement for both programs *)
Lemma completable_perm gsem st st' st2 en :
  reordered_extension st st' st2 ->
  ((exists en', agree_below (next_id st) en en' /\
                in_bounds_from en' (next_id st) (added_vars st st2) = true /\
                forallb (holds gsem en') (added_cons st st2) = true)
   <->
   (exists en', agree_below (next_id st) en en' /\
                in_bounds_from en' (next_id st) (added_vars st st') = true /\
                forallb (holds gsem en') (added_cons st st') = true)).
Proof.
  intros H. rewrite (reordered_added_vars st st' st2 H).
  split; intros [en' [Ha [Hb Hc]]]; exists en'; (split; [exact Ha|split; [exact Hb|]]).
  - rewrite <- (reordered_added_holds gsem en' st st' st2 H). exact Hc.
  - rewrite (reordered_added_holds gsem en' st st' st2 H). exact Hc.
Qed.

(* the hypothesis is satisfiable by a genuinely different order *)
Example reordered_extension_example :
  let st  := {| vars := [DBool; DBool]; keys := [false; false]; cons := [BVar 0] |} in
  let st' := {| vars := [DBool; DBool]; keys := [false; false]; cons := [BVar 0; BVar 1; PyBool true] |} in
  let st2 := {| vars := [DBool; DBool]; keys := [false; false]; cons := [BVar 0; PyBool true; BVar 1] |} in
  reordered_extension st st' st2 /\ cons st2 <> cons st'.
Proof.
  split.
  - repeat split. exists [PyBool true; BVar 1]. split; [reflexivity|]. apply perm_swap.
  - discriminate.
Qed.
