(* C08: the bounded equivalence of NotAdjBounded.v with the enumeration
   restricted to independent patterns (built cell by cell from the last cell,
   a cell may be active only if its right and lower neighbours are not), so
   that larger bounds are within reach of the kernel's vm. *)
From Coq Require Import ZArith List Bool Arith Lia.
From Cspuz Require Import Graph.GraphModel Graph.ReachProofs Graph.Avc Graph.AvcProofs
  Graph.NotAdj Graph.NotAdjForest Graph.NotAdjDiag Graph.NotAdjBounded.
Import ListNotations.
Local Open Scope nat_scope.

(* patterns of the cells n-k .. n-1 (a suffix of the row-major order) *)
Fixpoint ipats (w n k : nat) : list (list bool) :=
  match k with
  | O => [[]]
  | S k' =>
      let c := n - S k' in
      flat_map (fun p =>
          let right_free := if Nat.ltb (S (c mod w)) w then negb (nth 0 p false) else true in
          let down_free := negb (nth (w - 1) p false) in
          if right_free && down_free then [false :: p; true :: p] else [false :: p])
        (ipats w n k')
  end.

Lemma skipn_cons_nth {A} (l : list A) c d : c < length l -> skipn c l = nth c l d :: skipn (S c) l.
Proof.
  revert c. induction l as [|a l IH]; intros c Hc; simpl in Hc; [lia|].
  destruct c as [|c]; [reflexivity|]. simpl. apply IH. lia.
Qed.

Lemma nth_skipn {A} (l : list A) c i d : nth i (skipn c l) d = nth (c + i) l d.
Proof.
  revert c. induction l as [|a l IH]; intros c.
  - rewrite skipn_nil. destruct i, c; reflexivity.
  - destruct c as [|c]; [reflexivity|]. simpl. apply IH.
Qed.

Lemma ipats_complete h w p :
  length p = h * w -> independent (grid_graph h w) (pat_of p) ->
  forall k, k <= h * w -> In (skipn (h * w - k) p) (ipats w (h * w) k).
Proof.
  intros Hlen Hind. induction k as [|k IH]; intros Hk.
  - rewrite Nat.sub_0_r, <- Hlen, skipn_all. left. reflexivity.
  - simpl ipats. set (c := h * w - S k). apply in_flat_map.
    exists (skipn (h * w - k) p). split; [apply IH; lia|].
    assert (Hc : c < h * w) by (unfold c; lia).
    assert (Hsk : skipn c p = nth c p false :: skipn (h * w - k) p).
    { rewrite (skipn_cons_nth p c false) by (rewrite Hlen; exact Hc). f_equal. f_equal. unfold c. lia. }
    rewrite Hsk. destruct (nth c p false) eqn:Ec.
    2:{ destruct (_ && _); left; reflexivity. }
    assert (Hw : w <> 0) by (intros ->; lia).
    destruct (coords_of_cell h w c Hc) as [Hy [Hx Ecd]]. unfold cell_y, cell_x in *.
    assert (Hr : (if Nat.ltb (S (c mod w)) w then negb (nth 0 (skipn (h * w - k) p) false) else true) = true).
    { destruct (Nat.ltb_spec (S (c mod w)) w) as [Hlt|]; [|reflexivity].
      rewrite nth_skipn. replace (h * w - k + 0) with (S c) by (unfold c; lia).
      destruct (nth (S c) p false) eqn:E1; [|reflexivity]. exfalso.
      apply (Hind c (S c)); [|unfold pat_of; auto].
      apply grid_edges_spec. exists (c / w), (c mod w). repeat split; try assumption.
      left. split; [exact Hlt|lia]. }
    assert (Hd : negb (nth (w - 1) (skipn (h * w - k) p) false) = true).
    { rewrite nth_skipn. replace (h * w - k + (w - 1)) with (c + w) by (unfold c; lia).
      destruct (nth (c + w) p false) eqn:E1; [|reflexivity]. exfalso.
      assert (Hin : c + w < h * w).
      { destruct (lt_dec (c + w) (h * w)); [assumption|]. rewrite nth_overflow in E1 by lia. discriminate. }
      apply (Hind c (c + w)); [|unfold pat_of; auto].
      apply grid_edges_spec. exists (c / w), (c mod w). repeat split; try assumption.
      right. split; [nia|simpl; lia]. }
    rewrite Hr, Hd. simpl. right. left. reflexivity.
Qed.

Definition diag_equiv_on_indep (h w : nat) : bool :=
  forallb (fun p => let act := pat_of p in
             Bool.eqb (spec_diag_b h w act) (connected_b (grid_graph h w) (inactive act)))
          (ipats w (h * w) (h * w)).

Definition diag_equiv_check_indep (B : nat) : bool :=
  forallb (fun s : nat * nat => diag_equiv_on_indep (fst s) (snd s)) (shapes_upto B).

Theorem diag_equiv_from_check_indep B :
  diag_equiv_check_indep B = true ->
  forall h w act, 2 <= h -> 2 <= w -> h * w <= B -> independent (grid_graph h w) act ->
    (spec_diag h w act <-> connected (grid_graph h w) (inactive act)).
Proof.
  intros Hchk h w act Hh Hw Hb Hind.
  unfold diag_equiv_check_indep in Hchk. rewrite forallb_forall in Hchk.
  specialize (Hchk (h, w) (in_shapes_upto B h w Hh Hw Hb)). simpl in Hchk.
  unfold diag_equiv_on_indep in Hchk. rewrite forallb_forall in Hchk.
  set (p := map act (seq 0 (h * w))).
  assert (Hlen : length p = h * w) by (unfold p; rewrite map_length, seq_length; reflexivity).
  assert (Hag : forall x, x < h * w -> act x = pat_of p x) by (intros x Hx; symmetry; apply pat_of_map; exact Hx).
  assert (Hag' : forall x, x < h * w -> pat_of p x = act x) by (intros; symmetry; apply Hag; assumption).
  pose proof (grid_wf h w) as Hwf.
  assert (Hnv : nv (grid_graph h w) = h * w) by reflexivity.
  assert (Hind' : independent (grid_graph h w) (pat_of p)).
  { apply (independent_ext_below _ act); [exact Hwf|rewrite Hnv; exact Hag|exact Hind]. }
  pose proof (ipats_complete h w p Hlen Hind' (h * w) (le_n _)) as Hp.
  rewrite Nat.sub_diag in Hp. simpl skipn in Hp.
  specialize (Hchk p Hp). cbv zeta in Hchk. apply eqb_prop in Hchk.
  assert (Hin : forall x, x < nv (grid_graph h w) -> inactive act x = inactive (pat_of p) x).
  { intros x Hx. unfold inactive. rewrite Hag by (rewrite <- Hnv; exact Hx). reflexivity. }
  assert (Hin' : forall x, x < nv (grid_graph h w) -> inactive (pat_of p) x = inactive act x)
    by (intros; symmetry; apply Hin; assumption).
  split.
  - intros Hs. apply (connected_ext_below _ (inactive (pat_of p))); [exact Hwf|exact Hin'|].
    apply connected_b_spec; [exact Hwf|]. rewrite <- Hchk. apply spec_diag_b_spec.
    apply (spec_diag_ext h w act); assumption.
  - intros Hc. apply (spec_diag_ext h w (pat_of p)); [exact Hag'|].
    apply spec_diag_b_spec. rewrite Hchk. apply connected_b_spec; [exact Hwf|].
    apply (connected_ext_below _ (inactive act)); assumption.
Qed.

(* the instance used by the quick build: every independent pattern of every
   shape with h, w >= 2 and h * w <= 16 (about half a minute of vm_compute) *)
Lemma diag_equiv_check_16 : diag_equiv_check_indep 16 = true.
Proof. vm_compute. reflexivity. Qed.

Theorem diag_equiv_16 : forall h w act, 2 <= h -> 2 <= w -> h * w <= 16 ->
  independent (grid_graph h w) act ->
  (spec_diag h w act <-> connected (grid_graph h w) (inactive act)).
Proof. exact (diag_equiv_from_check_indep 16 diag_equiv_check_16). Qed.
