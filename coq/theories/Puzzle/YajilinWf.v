(* C11: the program of solve_yajilin is well formed on every board; composition with C02 (solve_reports). *)
From Coq Require Import ZArith List Bool Arith Lia.
From Cspuz Require Import Lib.PyErr Core.Expr Core.Program Graph.GraphModel Graph.CycleLemmas Graph.Cycle
     Backend.Z3 Backend.Z3Oracle Backend.Z3SolveProofs Backend.SolveLoop Backend.SolveZ3Proofs
     Puzzle.PuzzleBase Puzzle.ModelBase Puzzle.ModelLemmas Puzzle.SatAbs Puzzle.SolveCompose Puzzle.WfLemmas
     Puzzle.CycleFrameBase Puzzle.CycleCompose Puzzle.ViewWf Puzzle.Rules_yajilin Puzzle.Yajilin Puzzle.YajilinProofs.
Import ListNotations.
Local Open Scope nat_scope.

(* ---------------------------------------------------------------- solver.add_answer_key over an array *)
Lemma yj_add_keys_keys l : forall st st', yj_add_keys st l = Ok st' ->
  vars st' = vars st /\ Program.cons st' = Program.cons st /\ length (keys st') = length (keys st) /\
  (forall i, key_true (keys st) i -> key_true (keys st') i) /\
  (forall e i, In e l -> var_id e = Some i -> key_true (keys st') i).
Proof.
  induction l as [|a l IH]; intros st st' H; simpl in H.
  - inversion H; subst. repeat split; auto. intros e i [].
  - destruct (add_answer_key st a) as [s|] eqn:E; [|discriminate].
    apply add_answer_key_spec in E. destruct E as [A1 [A2 [A3 [A4 A5]]]].
    apply IH in H. destruct H as [B1 [B2 [B3 [B4 B5]]]].
    split; [congruence|]. split; [congruence|]. split; [congruence|]. split; [auto|].
    intros e i [<-|He] Hi; [apply B4; apply A5; exact Hi|eapply B5; eauto].
Qed.

(* ---------------------------------------------------------------- the single-cycle helper on a frame that is not a key yet *)
Lemma frame_call_wf h w st0 st1 res :
  vars st0 = repeat DBool (frame_n h w) -> wf_state st0 -> wf_keys st0 ->
  active_edges_single_cycle st0 (AFrame h w (frame_hor h w) (frame_ver h w)) None false = Ok (st1, res) ->
  (wf_state st1 /\ wf_keys st1) /\
  vars st1 = repeat DBool (frame_n h w) ++ repeat DBool (S h * S w) ++
             repeat (DInt 0 (Z.of_nat (S h * S w) - 1)) (S h * S w) ++ repeat DBool (S h * S w) /\
  keys st1 = keys st0 ++ repeat false (S h * S w) ++ repeat false (S h * S w) ++ repeat false (S h * S w).
Proof.
  intros Hv0 W0 K0 H.
  destruct (CycleFrame.cycle_frame h w _ _ (frame_hor_length h w) (frame_ver_length h w))
    as [_ [Hnv [_ [_ [_ [Hc _]]]]]].
  rewrite Hc in H. clear Hc.
  destruct (Cycle.post_cycle _ _ _ false) as [[st' p]|] eqn:E; [|discriminate].
  inversion H; subst st1 res. clear H.
  destruct (post_cycle_wf _ _ _ _ _ E W0 K0) as [WK [Hv [Hk _]]].
  - rewrite Hv0. apply forallb_In. intros e He.
    apply (CycleFrame.frame_edges_in h w _ _ (frame_hor_length h w) (frame_ver_length h w)) in He.
    destruct He as [He|He]; apply in_map_iff in He; destruct He as [k [<- Hk']]; apply in_seq in Hk';
      apply ok_bvar_repeat; unfold frame_n; lia.
  - rewrite Hnv in Hv, Hk. rewrite Hv0 in Hv. split; [exact WK|]. split; [exact Hv|exact Hk].
Qed.

(* ---------------------------------------------------------------- the posted constraints *)
Section Y.
  (* h, w: dimensions of the frame (height - 1, width - 1) *)
  Variables h w : nat.
  Let n := S h * S w.
  Definition yj_vars : list vdecl :=
    (repeat DBool (frame_n h w) ++ repeat DBool n ++ repeat (DInt 0 (Z.of_nat n - 1)) n ++ repeat DBool n) ++ repeat DBool n.
  Let vs := yj_vars.

  Lemma ok_yj_black y x : y < S h -> x < S w -> ok vs true (BVar (yj_black (S h) (S w) (y, x))) = true.
  Proof.
    intros Hy Hx. unfold vs, yj_vars. rewrite <- (app_nil_r (repeat DBool n)) at 3. apply ok_bvar_block.
    rewrite !app_length, !repeat_length. unfold yj_black, yj_base.
    replace (S h - 1) with h by lia. replace (S w - 1) with w by lia.
    pose proof (cidx_lt (S h) (S w) y x Hy Hx). fold n in H |- *. lia.
  Qed.
  Lemma ok_yj_passed y x : y < S h -> x < S w -> ok vs true (BVar (yj_passed (S h) (S w) (y, x))) = true.
  Proof.
    intros Hy Hx. unfold vs, yj_vars. rewrite <- !app_assoc. apply ok_bvar_block.
    rewrite !repeat_length. unfold yj_passed, frame_pid. cbn [fst snd].
    replace (S h - 1) with h by lia. replace (S w - 1) with w by lia. unfold n. nia.
  Qed.

  Lemma yajilin_not_adjacent_ok : forallb (ok vs true) (yajilin_not_adjacent (S h) (S w)) = true.
  Proof.
    unfold yajilin_not_adjacent. rewrite forallb_app, !forallb_map.
    apply andb_true_intro; split; apply forallb_cells; intros y x Hy Hx; unfold yj_nand;
      autorewrite with okdb; rewrite !ok_yj_black by lia; reflexivity.
  Qed.

  Lemma yj_arrow_cells_in k y x cs : y < S h -> x < S w -> yj_arrow_cells (S h) (S w) k y x = Some cs ->
    forall c, In c cs -> fst c < S h /\ snd c < S w.
  Proof.
    intros Hy Hx. unfold yj_arrow_cells.
    destruct (k =? 1)%Z; [|destruct (k =? 2)%Z; [|destruct (k =? 3)%Z; [|destruct (k =? 4)%Z; [|discriminate]]]];
      intros E; inversion E; subst cs; intros c Hc; apply in_map_iff in Hc; destruct Hc as [v [<- Hv]];
      apply in_seq in Hv; simpl; lia.
  Qed.

  Lemma yajilin_cells_ok kind num : forallb (ok vs true) (yajilin_cells (S h) (S w) kind num) = true.
  Proof.
    unfold yajilin_cells. rewrite forallb_flat_map. apply forallb_cells. intros y x Hy Hx.
    unfold yj_cell. destruct (_ =? 0)%Z.
    - cbn [forallb]. rewrite ok_xor, ok_yj_black, ok_yj_passed by assumption. reflexivity.
    - rewrite forallb_app. cbn [forallb]. rewrite !ok_not, ok_yj_black, ok_yj_passed by assumption. cbn [andb].
      destruct (yj_arrow_cells _ _ _ y x) as [cs|] eqn:E; [|reflexivity].
      cbn [forallb]. rewrite ok_eq, ok_pyint, !andb_true_r. apply ok_ct_vars_lt.
      intros i Hi. apply in_map_iff in Hi. destruct Hi as [[y' x'] [<- Hc]].
      destruct (yj_arrow_cells_in _ _ _ _ Hy Hx E _ Hc). apply ok_yj_black; assumption.
  Qed.
End Y.

Lemma yajilin_model_shape_wf pb st : solve_yajilin_model pb = Ok st ->
  (wf_state st /\ wf_keys st) /\
  1 <= dim pb 0 /\ 1 <= dim pb 1 /\
  forall i, In i (seq 0 (frame_n (dim pb 0 - 1) (dim pb 1 - 1)) ++
                  seq (frame_n (dim pb 0 - 1) (dim pb 1 - 1) + 3 * (dim pb 0 * dim pb 1)) (dim pb 0 * dim pb 1)) ->
            key_true (keys st) i.
Proof.
  unfold solve_yajilin_model. cbv zeta.
  assert (D0 : dim pb 0 = Z.to_nat (getz (sec pb 0) 0)) by reflexivity.
  assert (D1 : dim pb 1 = Z.to_nat (getz (sec pb 0) 1)) by reflexivity.
  destruct (_ || _)%bool eqn:Eg; [discriminate|].
  apply orb_false_iff in Eg. destruct Eg as [G0 G1]. apply Z.ltb_ge in G0, G1.
  destruct (dim pb 0) as [|h] eqn:Eh; [lia|]. destruct (dim pb 1) as [|w] eqn:Ew; [lia|].
  replace (S h - 1) with h by lia. replace (S w - 1) with w by lia.
  unfold bool_array. rewrite !bool_vars_spec.
  set (sb := {| vars := vars {| vars := vars empty_state ++ repeat DBool (S h * w);
                               keys := keys empty_state ++ repeat false (S h * w);
                               cons := Program.cons empty_state |} ++ repeat DBool (h * S w);
                keys := _; cons := _ |}).
  assert (Hn : next_id {| vars := vars empty_state ++ repeat DBool (S h * w);
                          keys := keys empty_state ++ repeat false (S h * w);
                          cons := Program.cons empty_state |} = S h * w).
  { unfold next_id. simpl. apply repeat_length. }
  rewrite Hn. change (next_id empty_state) with 0.
  fold (frame_hor h w). fold (frame_ver h w).
  destruct (active_edges_single_cycle sb (AFrame h w (frame_hor h w) (frame_ver h w)) None false)
    as [[st1 res]|e] eqn:Hcall; [|discriminate].
  rewrite bool_vars_spec.
  destruct (yj_add_keys _ (frame_hor h w ++ frame_ver h w)) as [st3|e] eqn:E3; [|discriminate].
  destruct (yj_add_keys st3 _) as [st4|e] eqn:E4; [|discriminate].
  destruct (Nat.ltb _ _); [discriminate|].
  intros Hst. inversion Hst; subst st. clear Hst.
  apply yj_add_keys_keys in E3, E4.
  destruct E3 as [V3 [C3 [L3 [M3 T3]]]], E4 as [V4 [C4 [L4 [M4 T4]]]].
  cbn [vars keys Program.cons ensure] in *.
  assert (Hvb : vars sb = repeat DBool (frame_n h w)).
  { unfold sb, frame_n. cbn [vars empty_state app]. rewrite repeat_app. reflexivity. }
  destruct (frame_call_wf h w sb st1 res Hvb) as [[W1 K1] [V1 Ky1]]; [reflexivity| |exact Hcall|].
  { unfold wf_keys, sb. cbn [vars keys empty_state app]. rewrite !app_length, !repeat_length. reflexivity. }
  assert (Ev : vars st4 = yj_vars h w) by (rewrite V4, V3, V1; reflexivity).
  assert (Nx : next_id st1 = frame_n h w + 3 * (S h * S w)).
  { unfold next_id. rewrite V1, !app_length, !repeat_length. lia. }
  split; [split|split; [lia|split; [lia|]]].
  - unfold wf_state. cbn [vars Program.cons ensure]. rewrite Ev, C4, C3, <- app_assoc.
    apply wf_cons_app; [|apply wf_cons_app].
    + unfold yj_vars. apply wf_cons_more. rewrite <- V1. exact W1.
    + apply yajilin_not_adjacent_ok.
    + apply yajilin_cells_ok.
  - unfold wf_keys. cbn [vars keys ensure]. rewrite L4, L3, V4, V3, !app_length, !repeat_length.
    unfold wf_keys in K1. lia.
  - intros i Hi. apply in_app_or in Hi. destruct Hi as [Hi|Hi]; apply in_seq in Hi.
    + apply M4. apply (T3 (BVar i)); [|reflexivity]. apply in_or_app.
      unfold frame_hor, frame_ver. unfold frame_n in Hi.
      destruct (Nat.lt_ge_cases i (S h * w)); [left|right]; apply in_map; apply in_seq; lia.
    + apply (T4 (BVar i)); [|reflexivity]. apply in_map. apply in_seq. rewrite Nx. lia.
Qed.

Lemma yajilin_model_wf pb st : solve_yajilin_model pb = Ok st -> wf_state st /\ wf_keys st.
Proof. intros H. exact (proj1 (yajilin_model_shape_wf pb st H)). Qed.

Theorem yajilin_solve_reports : forall oracle, oracle_sound_on oracle -> oracle_complete_on oracle ->
  forall h w kind num st,
  solve_yajilin_model [[Z.of_nat h; Z.of_nat w]; kind; num] = Ok st ->
  solve_reports oracle st (seq 0 (n_lattice_edges h w) ++ seq (n_lattice_edges h w + 3 * (h * w)) (h * w))
    (rules_yajilin [[Z.of_nat h; Z.of_nat w]; kind; num]).
Proof.
  intros oracle Os Oc h w kind num st Hst.
  apply (solve_reports_intro oracle no_graph); try assumption.
  - exact (yajilin_model_wf _ _ Hst).
  - destruct (yajilin_model_shape_wf _ _ Hst) as [_ [Hh [Hw Hk]]].
    rewrite dim2_0 in Hh, Hk. rewrite dim2_1 in Hw, Hk.
    replace (n_lattice_edges h w) with (frame_n (h - 1) (w - 1))
      by (unfold n_lattice_edges, frame_n; replace (S (h - 1)) with h by lia; replace (S (w - 1)) with w by lia; reflexivity).
    exact Hk.
  - intros ans. exact (yajilin_exact h w kind num st ans Hst).
Qed.
