(* C11 Tier 1 - firefly: the geometry of "darts" (a lattice point and one of the four directions) on
   PuzzleBase.lattice (S h) (S w): the segment index of a dart (Rules_firefly.ff_seg_id), its reverse dart, the
   correspondence between segment indices and darts, the edge list of the lattice in terms of darts. *)
From Coq Require Import ZArith List Bool Arith Lia.
From Cspuz Require Import Graph.GraphModel Graph.ReachProofs Puzzle.PuzzleBase Puzzle.CycleFrameBase
     Puzzle.CycleCompose Puzzle.CycleLattice Puzzle.Rules_firefly Puzzle.Firefly.
Import ListNotations.
Local Open Scope nat_scope.

Definition pt := (nat * nat)%type.
Definition ff_dirs : list nat := [0; 1; 2; 3].

Lemma ff_dirs_cases d : In d ff_dirs -> d = 0 \/ d = 1 \/ d = 2 \/ d = 3.
Proof. unfold ff_dirs. simpl. intros [H|[H|[H|[H|[]]]]]; auto. Qed.
Lemma ff_opposite_in d : In d ff_dirs -> In (opposite d) ff_dirs.
Proof. intros H. apply ff_dirs_cases in H. destruct H as [->|[->|[->| ->]]]; simpl; auto. Qed.
Lemma ff_opposite_invol d : In d ff_dirs -> opposite (opposite d) = d.
Proof. intros H. apply ff_dirs_cases in H. destruct H as [->|[->|[->| ->]]]; reflexivity. Qed.
Lemma ff_opposite_neq d : In d ff_dirs -> opposite d <> d.
Proof. intros H. apply ff_dirs_cases in H. destruct H as [->|[->|[->| ->]]]; discriminate. Qed.
Lemma ff_opposite_inj d d' : In d ff_dirs -> In d' ff_dirs -> opposite d = opposite d' -> d = d'.
Proof. intros H H' E. rewrite <- (ff_opposite_invol d H), <- (ff_opposite_invol d' H'), E. reflexivity. Qed.

Lemma ff_nth_error_seq m x : x < m -> nth_error (seq 0 m) x = Some x.
Proof. intros Hx. rewrite (nth_error_nth' _ 0) by (rewrite seq_length; lia). rewrite seq_nth by lia. reflexivity. Qed.

(* nth_error in a table laid out row by row *)
Lemma ff_nth_error_rows {A} (g : nat -> nat -> A) m n y x :
  y < n -> x < m ->
  nth_error (flat_map (fun y => map (g y) (seq 0 m)) (seq 0 n)) (y * m + x) = Some (g y x).
Proof.
  revert y. induction n as [|n IH]; intros y Hy Hx; [lia|].
  rewrite seq_S, flat_map_app. cbn [flat_map Nat.add]. rewrite app_nil_r.
  assert (Hlen : length (flat_map (fun y => map (g y) (seq 0 m)) (seq 0 n)) = n * m).
  { clear. induction n as [|n IH]; [reflexivity|].
    rewrite seq_S, flat_map_app, app_length, IH. cbn [flat_map]. rewrite app_nil_r, map_length, seq_length. lia. }
  destruct (Nat.eq_dec y n) as [->|Ny].
  - rewrite nth_error_app2 by (rewrite Hlen; lia). rewrite Hlen.
    replace (n * m + x - n * m) with x by lia.
    apply map_nth_error. apply ff_nth_error_seq. exact Hx.
  - rewrite nth_error_app1 by (rewrite Hlen; nia). apply IH; [lia|exact Hx].
Qed.

Section Geo.
  Variables h w : nat.
  Notation H := (S h).
  Notation W := (S w).

  Definition gvalid (p : pt) : Prop := fst p <= h /\ snd p <= w.
  Definition gidx (p : pt) : nat := fst p * W + snd p.
  Definition gstep (p : pt) (d : nat) : pt := step_dir (fst p) (snd p) d.
  Definition gsid (p : pt) (d : nat) : nat := ff_seg_id H W (fst p) (snd p) d.
  Definition gok (p : pt) (d : nat) : bool := ff_dir_ok H W (fst p) (snd p) d.
  Definition ff_NE : nat := n_lattice_edges H W.

  Lemma gidx_lt p : gvalid p -> gidx p < H * W.
  Proof. destruct p as [y x]. unfold gvalid, gidx. simpl. nia. Qed.
  Lemma gidx_inj p q : gvalid p -> gvalid q -> gidx p = gidx q -> p = q.
  Proof.
    destruct p as [y x], q as [y' x']. unfold gvalid, gidx. simpl. intros [_ Hx] [_ Hx'] E.
    apply rowcol_inj in E; [|lia|lia]. destruct E; subst. reflexivity.
  Qed.
  Lemma gvalid_dec p : {gvalid p} + {~ gvalid p}.
  Proof.
    unfold gvalid. destruct (le_dec (fst p) h), (le_dec (snd p) w); [left; split; assumption| right; tauto..].
  Qed.

  Lemma gstep_valid p d : gvalid p -> In d ff_dirs -> gok p d = true -> gvalid (gstep p d).
  Proof.
    destruct p as [y x]. unfold gvalid, gstep, gok. simpl fst; simpl snd. intros [Hy Hx] Hd Hok.
    apply ff_dirs_cases in Hd. destruct Hd as [->|[->|[->| ->]]]; simpl in *;
      try apply Nat.ltb_lt in Hok; split; lia.
  Qed.

  Lemma gsid_lt p d : gvalid p -> In d ff_dirs -> gok p d = true -> gsid p d < ff_NE.
  Proof.
    destruct p as [y x]. unfold gvalid, gsid, gok, ff_NE, n_lattice_edges. simpl fst; simpl snd. intros [Hy Hx] Hd Hok.
    replace (W - 1) with w by lia. replace (H - 1) with h by lia.
    apply ff_dirs_cases in Hd. destruct Hd as [->|[->|[->| ->]]]; simpl in Hok; apply Nat.ltb_lt in Hok;
      unfold ff_seg_id, hseg, vseg; replace (W - 1) with w by lia; nia.
  Qed.

  (* the same segment seen from its other end *)
  Lemma grev p d : gvalid p -> In d ff_dirs -> gok p d = true ->
    gok (gstep p d) (opposite d) = true /\ gstep (gstep p d) (opposite d) = p /\
    gsid (gstep p d) (opposite d) = gsid p d.
  Proof.
    destruct p as [y x]. unfold gvalid, gstep, gok, gsid. simpl fst; simpl snd. intros [Hy Hx] Hd Hok.
    apply ff_dirs_cases in Hd. destruct Hd as [->|[->|[->| ->]]]; simpl in Hok; apply Nat.ltb_lt in Hok;
      cbn [step_dir opposite fst snd ff_dir_ok ff_seg_id].
    - split; [apply Nat.ltb_lt; lia|]. split; [f_equal; lia|]. reflexivity.
    - split; [apply Nat.ltb_lt; lia|]. split; [f_equal; lia|]. f_equal. lia.
    - split; [apply Nat.ltb_lt; lia|]. split; [f_equal; lia|]. reflexivity.
    - split; [apply Nat.ltb_lt; lia|]. split; [f_equal; lia|]. f_equal. lia.
  Qed.

  Lemma gstep_neq p d : gvalid p -> In d ff_dirs -> gok p d = true -> gstep p d <> p.
  Proof.
    destruct p as [y x]. unfold gvalid, gstep, gok. simpl fst; simpl snd. intros [Hy Hx] Hd Hok E.
    apply ff_dirs_cases in Hd. destruct Hd as [->|[->|[->| ->]]]; simpl in Hok; apply Nat.ltb_lt in Hok;
      cbn [step_dir] in E; inversion E; lia.
  Qed.

  (* a step is determined by its direction *)
  Lemma gstep_inj p q d : gvalid p -> gvalid q -> In d ff_dirs -> gok p d = true -> gok q d = true ->
    gstep p d = gstep q d -> p = q.
  Proof.
    destruct p as [y x], q as [y' x']. unfold gvalid, gstep, gok. simpl fst; simpl snd.
    intros [Hy Hx] [Hy' Hx'] Hd Hok Hok' E.
    apply ff_dirs_cases in Hd. destruct Hd as [->|[->|[->| ->]]]; simpl in Hok, Hok'; apply Nat.ltb_lt in Hok, Hok';
      cbn [step_dir] in E; inversion E; f_equal; lia.
  Qed.

  (* two darts on the same segment are equal or reverse to each other *)
  Lemma gsid_inj p d q d' : gvalid p -> gvalid q -> In d ff_dirs -> In d' ff_dirs ->
    gok p d = true -> gok q d' = true -> gsid p d = gsid q d' ->
    (q = p /\ d' = d) \/ (q = gstep p d /\ d' = opposite d).
  Proof.
    destruct p as [y x], q as [y' x']. unfold gvalid, gstep, gok, gsid. simpl fst; simpl snd.
    intros [Hy Hx] [Hy' Hx'] Hd Hd' Hok Hok' E.
    apply ff_dirs_cases in Hd. apply ff_dirs_cases in Hd'.
    unfold ff_seg_id, hseg, vseg in E. replace (W - 1) with w in E by lia.
    destruct Hd as [->|[->|[->| ->]]]; destruct Hd' as [->|[->|[->| ->]]];
      simpl in Hok, Hok'; apply Nat.ltb_lt in Hok, Hok'; cbn [step_dir opposite]; cbn iota beta in E.
    - (* up, up *) left. assert (E' : (y - 1) * W + x = (y' - 1) * W + x') by lia.
      apply rowcol_inj in E'; [|lia|lia]. split; [f_equal; lia|reflexivity].
    - (* up, down *) right. assert (E' : (y - 1) * W + x = y' * W + x') by lia.
      apply rowcol_inj in E'; [|lia|lia]. split; [f_equal; lia|reflexivity].
    - exfalso. assert (y' * w <= h * w) by (apply Nat.mul_le_mono_r; lia). nia.
    - exfalso. assert (y' * w <= h * w) by (apply Nat.mul_le_mono_r; lia). nia.
    - right. assert (E' : y * W + x = (y' - 1) * W + x') by lia.
      apply rowcol_inj in E'; [|lia|lia]. split; [f_equal; lia|reflexivity].
    - left. assert (E' : y * W + x = y' * W + x') by lia.
      apply rowcol_inj in E'; [|lia|lia]. split; [f_equal; lia|reflexivity].
    - exfalso. assert (y' * w <= h * w) by (apply Nat.mul_le_mono_r; lia). nia.
    - exfalso. assert (y' * w <= h * w) by (apply Nat.mul_le_mono_r; lia). nia.
    - exfalso. assert (y * w <= h * w) by (apply Nat.mul_le_mono_r; lia). nia.
    - exfalso. assert (y * w <= h * w) by (apply Nat.mul_le_mono_r; lia). nia.
    - left. apply rowcol_inj in E; [|lia|lia]. split; [f_equal; lia|reflexivity].
    - right. apply rowcol_inj in E; [|lia|lia]. split; [f_equal; lia|reflexivity].
    - exfalso. assert (y * w <= h * w) by (apply Nat.mul_le_mono_r; lia). nia.
    - exfalso. assert (y * w <= h * w) by (apply Nat.mul_le_mono_r; lia). nia.
    - right. apply rowcol_inj in E; [|lia|lia]. split; [f_equal; lia|reflexivity].
    - left. apply rowcol_inj in E; [|lia|lia]. split; [f_equal; lia|reflexivity].
  Qed.

  (* every segment index belongs to a dart pointing down or right *)
  Lemma gsid_onto k : k < ff_NE ->
    exists p d, gvalid p /\ (d = 1 \/ d = 3) /\ gok p d = true /\ gsid p d = k.
  Proof.
    unfold ff_NE, n_lattice_edges. replace (W - 1) with w by lia. replace (H - 1) with h by lia. intros Hk.
    destruct (Nat.lt_ge_cases k (H * w)) as [Hh|Hv].
    - (* horizontal: k = y * w + x *)
      assert (Hw : w <> 0) by (intros ->; lia).
      exists (k / w, k mod w), 3. unfold gvalid, gok, gsid. cbn [fst snd ff_dir_ok ff_seg_id].
      pose proof (Nat.mod_upper_bound k w Hw) as Hm. pose proof (Nat.div_mod k w Hw) as Hdm.
      assert (k / w < H) by (apply Nat.div_lt_upper_bound; [exact Hw|lia]).
      split; [split; lia|]. split; [right; reflexivity|]. split; [apply Nat.ltb_lt; lia|].
      unfold hseg. replace (W - 1) with w by lia. lia.
    - set (k' := k - H * w). assert (Hk' : k' < h * W) by (unfold k'; lia).
      exists (k' / W, k' mod W), 1. unfold gvalid, gok, gsid. cbn [fst snd ff_dir_ok ff_seg_id].
      pose proof (Nat.mod_upper_bound k' W ltac:(lia)) as Hm. pose proof (Nat.div_mod k' W ltac:(lia)) as Hdm.
      assert (k' / W < h) by (apply Nat.div_lt_upper_bound; lia).
      split; [split; lia|]. split; [left; reflexivity|]. split; [apply Nat.ltb_lt; lia|].
      unfold vseg. replace (W - 1) with w by lia. unfold k' in *. lia.
  Qed.

  (* drawn segments around a point, in the vocabulary of the rules *)
  Lemma gseg on p d : In d ff_dirs -> seg H W on (fst p) (snd p) d = gok p d && on (gsid p d).
  Proof.
    intros Hd. apply ff_dirs_cases in Hd. destruct Hd as [->|[->|[->| ->]]]; reflexivity.
  Qed.

  (* the edge list of the lattice *)
  Lemma lattice_nth_dart p d : gvalid p -> (d = 1 \/ d = 3) -> gok p d = true ->
    nth_error (lattice_edges H W) (gsid p d) = Some (gidx p, gidx (gstep p d)).
  Proof.
    destruct p as [y x]. unfold gvalid, gok, gsid, gidx, gstep. simpl fst; simpl snd. intros [Hy Hx] Hd Hok.
    unfold lattice_edges. replace (W - 1) with w by lia. replace (H - 1) with h by lia.
    assert (Hlen : length (flat_map (fun y => map (fun x => (y * W + x, y * W + S x)) (seq 0 w)) (seq 0 H)) = H * w).
    { generalize H. intros n. induction n as [|n IH]; [reflexivity|].
      rewrite seq_S, flat_map_app, app_length, IH. cbn [flat_map]. rewrite app_nil_r, map_length, seq_length. lia. }
    destruct Hd as [->| ->]; simpl in Hok; apply Nat.ltb_lt in Hok; cbn [ff_seg_id step_dir fst snd].
    - unfold vseg. replace (W - 1) with w by lia.
      rewrite nth_error_app2 by (rewrite Hlen; lia). rewrite Hlen.
      replace (H * w + y * W + x - H * w) with (y * W + x) by lia.
      rewrite (ff_nth_error_rows (fun y x => (y * W + x, S y * W + x)) W h y x) by lia. reflexivity.
    - unfold hseg. replace (W - 1) with w by lia.
      rewrite nth_error_app1 by (rewrite Hlen; nia).
      rewrite (ff_nth_error_rows (fun y x => (y * W + x, y * W + S x)) w H y x) by lia. reflexivity.
  Qed.

  Lemma lattice_edges_len : length (lattice_edges H W) = ff_NE.
  Proof. rewrite lattice_edges_length. unfold ff_NE, n_lattice_edges, frame_n. replace (W - 1) with w by lia. replace (H - 1) with h by lia. reflexivity. Qed.

  (* neighbours through drawn segments = steps along drawn darts *)
  Lemma lattice_nbrs_dart on p d : gvalid p -> In d ff_dirs -> gok p d = true -> on (gsid p d) = true ->
    In (gidx (gstep p d)) (nbrs (lattice H W) on (gidx p)).
  Proof.
    intros Hp Hd Hok Hon. apply nbrs_spec. exists (gsid p d). split; [exact Hon|]. cbn [edges lattice].
    destruct (ff_dirs_cases d Hd) as [->|[->|[->| ->]]].
    - right. destruct (grev p 0 Hp Hd Hok) as [R1 [R2 R3]]. cbn [opposite] in *.
      rewrite <- R3. assert (Hq : gvalid (gstep p 0)) by (apply gstep_valid; assumption).
      set (q := gstep p 0) in *. rewrite <- R2. apply lattice_nth_dart; [exact Hq|left; reflexivity|exact R1].
    - left. apply lattice_nth_dart; [exact Hp|left; reflexivity|exact Hok].
    - right. destruct (grev p 2 Hp Hd Hok) as [R1 [R2 R3]]. cbn [opposite] in *.
      rewrite <- R3. assert (Hq : gvalid (gstep p 2)) by (apply gstep_valid; assumption).
      set (q := gstep p 2) in *. rewrite <- R2. apply lattice_nth_dart; [exact Hq|right; reflexivity|exact R1].
    - left. apply lattice_nth_dart; [exact Hp|right; reflexivity|exact Hok].
  Qed.

  Lemma lattice_nbrs_inv on u v : In v (nbrs (lattice H W) on u) ->
    exists p d, gvalid p /\ In d ff_dirs /\ gok p d = true /\ on (gsid p d) = true /\
                ((u = gidx p /\ v = gidx (gstep p d)) \/ (v = gidx p /\ u = gidx (gstep p d))).
  Proof.
    intros Hn. apply nbrs_spec in Hn. destruct Hn as [k [Hon Hk]]. cbn [edges lattice] in Hk.
    assert (Hlt : k < ff_NE).
    { rewrite <- lattice_edges_len. apply nth_error_Some. destruct Hk as [Hk|Hk]; rewrite Hk; discriminate. }
    destruct (gsid_onto k Hlt) as [p [d [Hp [Hd [Hok Hs]]]]].
    assert (Hd' : In d ff_dirs) by (destruct Hd as [->| ->]; simpl; auto).
    exists p, d. split; [exact Hp|]. split; [exact Hd'|]. split; [exact Hok|]. split; [rewrite Hs; exact Hon|].
    pose proof (lattice_nth_dart p d Hp Hd Hok) as Hnth. rewrite Hs in Hnth.
    destruct Hk as [Hk|Hk]; rewrite Hk in Hnth; inversion Hnth; subst; [left|right]; split; reflexivity.
  Qed.

  (* the degree of a point *)
  Lemma lattice_degree_darts on p : gvalid p ->
    degree (lattice H W) on (gidx p) =
    b2n (gok p 0 && on (gsid p 0)) + b2n (gok p 1 && on (gsid p 1)) +
    b2n (gok p 2 && on (gsid p 2)) + b2n (gok p 3 && on (gsid p 3)).
  Proof.
    intros [Hy Hx]. unfold gidx. rewrite (lattice_degree h w on (fst p) (snd p) Hy Hx).
    rewrite !gseg by (simpl; auto). reflexivity.
  Qed.

  (* the point with a given index *)
  Definition gpt (v : nat) : pt := (v / W, v mod W).
  Lemma gpt_spec v : v < H * W -> gvalid (gpt v) /\ gidx (gpt v) = v.
  Proof.
    intros Hv. unfold gpt, gvalid, gidx. cbn [fst snd].
    pose proof (Nat.mod_upper_bound v W ltac:(lia)) as Hm. pose proof (Nat.div_mod v W ltac:(lia)) as Hdm.
    assert (Hq : v / W < H) by (apply Nat.div_lt_upper_bound; lia). split; [split; lia|lia].
  Qed.
  Lemma gpt_gidx p : gvalid p -> gpt (gidx p) = p.
  Proof.
    intros Hp. destruct (gpt_spec (gidx p) (gidx_lt p Hp)) as [Hv E]. apply gidx_inj; assumption.
  Qed.
End Geo.
