(* C05: the program posted by the model of _division_connected (auxiliary
   encoding) is satisfiable, over the fresh variables, exactly for the
   labelings that meet spec_division.  Level E -> level S (division_eval), then
   DivisionCert.cert_iff_spec. *)
From Coq Require Import ZArith List Bool Arith Lia.
From Cspuz Require Import Lib.PyErr Core.Expr Core.Program Core.Build Graph.GraphModel Graph.ReachProofs
  Graph.Division Graph.DivisionCert Graph.DivisionEval.
Import ListNotations.
Open Scope nat_scope.

(* what "the constraints added by the call are satisfiable for the caller's
   assignment en" means: some assignment that agrees with en on all variables
   declared before the call respects the new domains and the new constraints *)
Definition extends_sat (gsem : op -> list (option value) -> option bool)
           (st st' : state) (en : env) : Prop :=
  exists en', agree_below (next_id st) en en' /\
    in_bounds_from en' (next_id st) (skipn (next_id st) (vars st')) = true /\
    forallb (holds gsem en') (skipn (length (cons st)) (cons st')) = true.

(* the label entries are int-valued expressions over the caller's variables *)
Definition labels_ok (gsem : op -> list (option value) -> option bool) (k : nat) (labels : list expr) : Prop :=
  Forall (fun d => is_int_expr_like d = true /\ max_id d <= k /\
                   forall en, exists z, eval gsem en d = Some (VI z)) labels.

Definition label_of (gsem : op -> list (option value) -> option bool) (en : env) (labels : list expr)
           (v : nat) : Z :=
  match eval gsem en (nth v labels (PyInt 0)) with Some (VI z) => z | _ => 0%Z end.

Lemma labels_ok_nth gsem k labels v :
  labels_ok gsem k labels -> v < length labels ->
  is_int_expr_like (nth v labels (PyInt 0)) = true /\ max_id (nth v labels (PyInt 0)) <= k /\
  forall en, eval gsem en (nth v labels (PyInt 0)) = Some (VI (label_of gsem en labels v)).
Proof.
  intros H Hv. unfold labels_ok in H. rewrite Forall_forall in H.
  destruct (H (nth v labels (PyInt 0)) (nth_In _ _ Hv)) as [H1 [H2 H3]].
  split; [exact H1|]. split; [exact H2|]. intros en. unfold label_of.
  destruct (H3 en) as [z Hz]. rewrite Hz. reflexivity.
Qed.

Lemma label_of_agree gsem k labels en en' v :
  labels_ok gsem k labels -> v < length labels -> agree_below k en en' ->
  label_of gsem en' labels v = label_of gsem en labels v.
Proof.
  intros H Hv Ha. destruct (labels_ok_nth gsem k labels v H Hv) as [_ [Hm _]].
  unfold label_of. rewrite (eval_agree gsem k en en' _ Ha Hm). reflexivity.
Qed.

(* ------------------------------------------------------------------------ *)
(* level E -> level S for the auxiliary branch                                *)

Section AuxEval.
  Variable gsem : op -> list (option value) -> option bool.
  Variables (g : graph) (labels : list expr) (R : nat) (aeg : bool).
  Variable b0 : nat.
  Let n := nv g.
  Let m := length (edges g).

  Definition RK (v : nat) : expr := IVar (b0 + v) 0 (Z.of_nat n - 1).
  Definition RT (v : nat) : expr := BVar (b0 + n + v).
  Definition SF (e : nat) : expr := BVar (b0 + n + n + e).
  Definition LB (v : nat) : expr := nth v labels (PyInt 0).
  Let rank := map RK (seq 0 n).
  Let root := map RT (seq 0 n).
  Let sf := map SF (seq 0 m).

  Variable en : env.
  Variable label : nat -> Z.
  Variables (rk : nat -> Z) (rt fr : nat -> bool).
  Hypothesis Hwf : wf_graph g = true.
  Hypothesis Hlen : length labels = n.
  Hypothesis Hlab : forall v, v < n -> is_int_expr_like (LB v) = true /\ evi gsem en (LB v) (label v).
  Hypothesis Hrk : forall v, v < n -> ei en (b0 + v) = rk v.
  Hypothesis Hrt : forall v, v < n -> eb en (b0 + n + v) = rt v.
  Hypothesis Hfr : forall e, e < m -> eb en (b0 + n + n + e) = fr e.

  Lemma ev_RK v : v < n -> evi gsem en (RK v) (rk v).
  Proof. intros Hv. unfold evi, RK. simpl. rewrite (Hrk v Hv). reflexivity. Qed.
  Lemma ev_RT v : v < n -> evb gsem en (RT v) (rt v).
  Proof. intros Hv. unfold evb, RT. simpl. rewrite (Hrt v Hv). reflexivity. Qed.
  Lemma ev_SF e : e < m -> evb gsem en (SF e) (fr e).
  Proof. intros He. unfold evb, SF. simpl. rewrite (Hfr e He). reflexivity. Qed.

  Lemma incident_edge_lt i j e : In (j, e) (incident g i) -> e < m.
  Proof.
    intros H. apply incident_spec in H. unfold m. apply nth_error_Some. destruct H as [H|H]; rewrite H; discriminate.
  Qed.

  Definition pure_item (i : nat) (je : nat * nat) : expr * list expr :=
    let '(j, e) := je in
    (b_and (SF e) (i_gt (RK i) (RK j)),
     if Nat.ltb i j then [b_imp (SF e) (b_and (py_eq (LB i) (LB j)) (i_ne (RK i) (RK j)))] else []).

  Lemma edge_item_pure i je : i < n -> In je (incident g i) ->
    edge_item labels rank sf i je = Ok (pure_item i je).
  Proof.
    intros Hi Hin. destruct je as [j e]. destruct (incident_lt g i j e Hwf Hin) as [_ Hj].
    pose proof (incident_edge_lt i j e Hin) as He.
    unfold edge_item, pure_item. unfold sf, rank.
    rewrite (nth_res_map_seq SF m e He), (nth_res_map_seq RK n i Hi), (nth_res_map_seq RK n j Hj). simpl.
    destruct (Nat.ltb i j); [|reflexivity].
    rewrite (nth_res_nth labels i (PyInt 0)) by lia. rewrite (nth_res_nth labels j (PyInt 0)) by lia.
    reflexivity.
  Qed.

  Lemma vertex_cons_eval i : i < n ->
    exists cs, vertex_cons labels rank root sf g i = Ok cs /\
               forallb (holds gsem en) cs = cert_vertex g label rk rt fr i.
  Proof.
    intros Hi. unfold vertex_cons.
    rewrite (mapM_all_ok (edge_item labels rank sf i) (pure_item i) (incident g i))
      by (intros je Hje; apply edge_item_pure; assumption).
    simpl. rewrite map_map.
    destruct (count_true_map gsem en (fun je => fst (pure_item i je))
                (fun '(j, e) => fr e && (rk j <? rk i)%Z) (incident g i)) as [ct [Hct Hev]].
    { intros [j e] Hin. destruct (incident_lt g i j e Hwf Hin) as [_ Hj].
      split; [reflexivity|]. simpl. apply evb_and; [apply ev_SF; eapply incident_edge_lt; exact Hin|].
      apply evb_gt; apply ev_RK; assumption. }
    rewrite Hct. simpl. unfold root. rewrite (nth_res_map_seq RT n i Hi). simpl.
    eexists. split; [reflexivity|]. rewrite forallb_app. unfold cert_vertex. f_equal.
    - rewrite map_map. apply forallb_concat_map. intros [j e] Hin.
      destruct (incident_lt g i j e Hwf Hin) as [_ Hj]. simpl.
      destruct (Nat.ltb i j); [|reflexivity]. simpl. rewrite andb_true_r.
      apply evb_holds. apply evb_imp; [apply ev_SF; eapply incident_edge_lt; exact Hin|].
      apply evb_and.
      + destruct (Hlab i Hi) as [Li Ei], (Hlab j Hj) as [Lj Ej]. apply evb_py_eq; assumption.
      + apply evb_ne; apply ev_RK; assumption.
    - simpl. rewrite andb_true_r.
      rewrite (evb_holds gsem en _ _ (evb_eq gsem en _ _ _ _ Hev (evi_cond gsem en (RT i) 0 1 (rt i) (ev_RT i Hi)))).
      destruct (rt i).
      + destruct (Z.eqb_spec (Z.of_nat (countb (fun '(j, e) => fr e && (rk j <? rk i)%Z) (incident g i))) 0),
          (Nat.eqb_spec (countb (fun '(j, e) => fr e && (rk j <? rk i)%Z) (incident g i)) 0); try reflexivity; lia.
      + destruct (Z.eqb_spec (Z.of_nat (countb (fun '(j, e) => fr e && (rk j <? rk i)%Z) (incident g i))) 1),
          (Nat.eqb_spec (countb (fun '(j, e) => fr e && (rk j <? rk i)%Z) (incident g i)) 1); try reflexivity; lia.
  Qed.

  Lemma region_count_eval k :
    exists c, region_count labels root aeg k = Ok c /\
              holds gsem en c = cert_region n label rt aeg k.
  Proof.
    unfold region_count.
    assert (Hz : zip_with (fun r d => b_and r (py_eq d (PyInt (Z.of_nat k)))) root labels
                 = map (fun v => b_and (RT v) (py_eq (LB v) (PyInt (Z.of_nat k)))) (seq 0 n)).
    { unfold root. rewrite <- Hlen. rewrite (zip_with_map_seq _ RT labels (PyInt 0) 0).
      apply map_ext. intros v. rewrite Nat.sub_0_r. reflexivity. }
    rewrite Hz.
    destruct (count_true_map gsem en (fun v => b_and (RT v) (py_eq (LB v) (PyInt (Z.of_nat k))))
                (fun v => rt v && (label v =? Z.of_nat k)%Z) (seq 0 n)) as [ct [Hct Hev]].
    { intros v Hv. apply in_seq in Hv. assert (Hvn : v < n) by lia. split; [reflexivity|].
      apply evb_and; [apply ev_RT; exact Hvn|]. destruct (Hlab v Hvn) as [Lv Ev].
      apply evb_py_eq; [exact Lv|reflexivity|exact Ev|apply evi_int]. }
    rewrite Hct. simpl. eexists. split; [reflexivity|]. unfold cert_region.
    set (c := countb (fun v => rt v && (label v =? Z.of_nat k)%Z) (seq 0 n)) in *.
    destruct aeg.
    - rewrite (evb_holds gsem en _ _ (evb_le gsem en _ _ _ _ Hev (evi_int gsem en 1))).
      destruct (Z.leb_spec (Z.of_nat c) 1), (Nat.leb_spec c 1); try reflexivity; lia.
    - rewrite (evb_holds gsem en _ _ (evb_eq gsem en _ _ _ _ Hev (evi_int gsem en 1))).
      destruct (Z.eqb_spec (Z.of_nat c) 1), (Nat.eqb_spec c 1); try reflexivity; lia.
  Qed.

  Lemma py_nth_root_vertex {A} (l : list A) z a :
    length l = n -> py_nth l z = Ok a ->
    exists v, root_vertex n (RInt z) = Some (Some v) /\ v < n /\ nth_error l v = Some a.
  Proof.
    intros Hl. unfold py_nth, root_vertex. rewrite Hl.
    set (p := (if (z <? 0)%Z then (z + Z.of_nat n)%Z else z)).
    destruct ((0 <=? p)%Z && (p <? Z.of_nat n)%Z) eqn:E; [|discriminate].
    apply andb_true_iff in E. destruct E as [E1 E2]. apply Z.leb_le in E1. apply Z.ltb_lt in E2.
    unfold nth_res. destruct (nth_error l (Z.to_nat p)) as [x|] eqn:En; [|discriminate].
    intros H; inversion H; subst x. exists (Z.to_nat p). split; [reflexivity|]. split; [lia|exact En].
  Qed.

  Lemma aux_roots_eval rs : forall k cs,
    aux_roots labels root k rs = Ok cs ->
    forallb (holds gsem en) cs = roots_hold n label k rs && roots_rooted n rt rs.
  Proof.
    induction rs as [|a rs IH]; intros k cs H; simpl in H.
    - inversion H; reflexivity.
    - destruct a as [|z|l]; [| |discriminate].
      + simpl. apply IH; exact H.
      + destruct (py_nth labels z) as [d|] eqn:Ed; simpl in H; [|discriminate].
        destruct (py_nth root z) as [r|] eqn:Er; simpl in H; [|discriminate].
        destruct (aux_roots labels root (S k) rs) as [rest|] eqn:Erest; simpl in H; [|discriminate].
        inversion H; subst cs. clear H.
        destruct (py_nth_root_vertex labels z d Hlen Ed) as [v [Hv [Hvn Hd]]].
        destruct (py_nth_root_vertex root z r) as [v' [Hv' [_ Hr]]];
          [unfold root; rewrite map_length, seq_length; reflexivity|exact Er|].
        rewrite Hv in Hv'. inversion Hv'; subst v'.
        unfold roots_hold, roots_rooted; fold roots_hold; fold roots_rooted. rewrite Hv.
        cbn [forallb]. rewrite (IH (S k) rest Erest).
        assert (Hd' : d = LB v) by (unfold LB; symmetry; apply nth_error_nth; exact Hd).
        assert (Hr' : r = RT v).
        { unfold root in Hr. rewrite nth_error_map, nth_error_seq in Hr by exact Hvn. inversion Hr; reflexivity. }
        subst d r. destruct (Hlab v Hvn) as [Lv Ev].
        rewrite (evb_holds gsem en _ _ (evb_py_eq gsem en (LB v) (PyInt (Z.of_nat k)) _ _ Lv eq_refl Ev (evi_int gsem en (Z.of_nat k)))).
        rewrite (evb_holds gsem en _ _ (ev_RT v Hvn)).
        destruct (label v =? Z.of_nat k)%Z, (rt v), (roots_hold n label (S k) rs), (roots_rooted n rt rs); reflexivity.
  Qed.

  Lemma aux_constraints_eval roots cs :
    aux_constraints labels rank root sf g R roots aeg = Ok cs ->
    forallb (holds gsem en) cs = cert_division g R label roots aeg rk rt fr.
  Proof.
    unfold aux_constraints. intros H.
    destruct (mapM_ok_all (vertex_cons labels rank root sf g)
                (fun i cs => forallb (holds gsem en) cs = cert_vertex g label rk rt fr i) (seq 0 n))
      as [vs [Hvs HF]].
    { intros i Hi. apply in_seq in Hi. apply vertex_cons_eval. lia. }
    fold n in H. rewrite Hvs in H. simpl in H.
    destruct (mapM_ok_all (region_count labels root aeg)
                (fun k c => holds gsem en c = cert_region n label rt aeg k) (seq 0 R))
      as [rc [Hrc HFr]].
    { intros k _. apply region_count_eval. }
    rewrite Hrc in H. simpl in H.
    destruct (opt_roots (aux_roots labels root 0) roots) as [rs|] eqn:Ers; simpl in H; [|discriminate].
    inversion H; subst cs. rewrite !forallb_app. unfold cert_division. fold n.
    rewrite (forallb_concat_F2 _ _ _ _ HF), (forallb_F2 _ _ _ _ HFr). rewrite andb_assoc. f_equal.
    destruct roots as [l|]; simpl in *.
    - apply aux_roots_eval. exact Ers.
    - inversion Ers; reflexivity.
  Qed.
End AuxEval.

(* ------------------------------------------------------------------------ *)
(* the assignment extended by a certificate                                   *)

Definition extend_env (en : env) (b0 n : nat) (rank : nat -> Z) (is_root forest : nat -> bool) : env :=
  {| eb := fun i => if Nat.ltb i (b0 + n) then eb en i
                    else if Nat.ltb i (b0 + n + n) then is_root (i - (b0 + n))
                    else forest (i - (b0 + n + n));
     ei := fun i => if Nat.ltb i b0 then ei en i else rank (i - b0) |}.

Lemma extend_env_agree en b0 n rank is_root forest :
  agree_below b0 en (extend_env en b0 n rank is_root forest).
Proof.
  intros i Hi. unfold extend_env; simpl.
  destruct (Nat.ltb_spec i (b0 + n)); [|lia]. destruct (Nat.ltb_spec i b0); [|lia]. split; reflexivity.
Qed.

(* ------------------------------------------------------------------------ *)
(* division_exact                                                            *)

Section Exact.
  Variable gsem : op -> list (option value) -> option bool.

  Theorem division_exact st s R g roots aeg st' en :
    wf_graph g = true ->
    length (seq_data s) = nv g ->
    labels_ok gsem (next_id st) (seq_data s) ->
    post_division st s R g roots aeg false = Ok st' ->
    (extends_sat gsem st st' en <-> spec_division g R (label_of gsem en (seq_data s)) roots aeg).
  Proof.
    intros Hwf Hlen Hlab Hpost. unfold post_division in Hpost.
    set (n := nv g) in *. set (m := length (edges g)) in *. set (labels := seq_data s) in *.
    unfold int_array in Hpost. destruct (Z.ltb_spec (Z.of_nat n - 1) 0) as [Hn0|Hn0]; [discriminate|].
    simpl in Hpost. rewrite int_vars_spec in Hpost. unfold bool_array in Hpost.
    rewrite !bool_vars_spec in Hpost. rewrite !add_decls_next, !repeat_length in Hpost.
    set (b0 := next_id st) in *.
    destruct (aux_constraints labels (map (fun i => IVar (b0 + i) 0 (Z.of_nat n - 1)) (seq 0 n))
                (map (fun i => BVar (b0 + n + i)) (seq 0 n))
                (map (fun i => BVar (b0 + n + n + i)) (seq 0 m)) g R roots aeg) as [cs|] eqn:Ecs;
      simpl in Hpost; [|discriminate].
    inversion Hpost; subst st'. clear Hpost.
    (* the shape of the new state *)
    assert (Hvars : skipn b0 (vars (ensure (add_decls (add_decls (add_decls st (repeat (DInt 0 (Z.of_nat n - 1)) n))
                                          (repeat DBool n)) (repeat DBool m)) cs))
                    = repeat (DInt 0 (Z.of_nat n - 1)) n ++ repeat DBool n ++ repeat DBool m).
    { unfold ensure, add_decls; simpl. rewrite <- !app_assoc. unfold b0, next_id. apply skipn_app_len. }
    assert (Hcons : skipn (length (cons st)) (cons (ensure (add_decls (add_decls (add_decls st
                       (repeat (DInt 0 (Z.of_nat n - 1)) n)) (repeat DBool n)) (repeat DBool m)) cs)) = cs).
    { unfold ensure, add_decls; simpl. apply skipn_app_len. }
    unfold extends_sat. change (next_id st) with b0. rewrite Hvars, Hcons.
    (* evaluation of the new constraints under any extension *)
    assert (Heval : forall en' rk rt fr,
               agree_below b0 en en' ->
               (forall v, v < n -> ei en' (b0 + v) = rk v) ->
               (forall v, v < n -> eb en' (b0 + n + v) = rt v) ->
               (forall e, e < m -> eb en' (b0 + n + n + e) = fr e) ->
               forallb (holds gsem en') cs
               = cert_division g R (label_of gsem en labels) roots aeg rk rt fr).
    { intros en' rk rt fr Ha H1 H2 H3.
      apply (aux_constraints_eval gsem g labels R aeg b0 en' (label_of gsem en labels) rk rt fr Hwf Hlen);
        try assumption.
      intros v Hv. assert (Hvl : v < length labels) by (rewrite Hlen; exact Hv).
      destruct (labels_ok_nth gsem b0 labels v Hlab Hvl) as [Li [_ Ev]]. split; [exact Li|].
      unfold evi, LB. rewrite Ev. f_equal. f_equal. apply (label_of_agree gsem b0); assumption. }
    split.
    - intros [en' [Ha [Hb Hc]]].
      rewrite in_bounds_from_app in Hb. apply andb_true_iff in Hb. destruct Hb as [Hb _].
      pose proof (proj1 (in_bounds_repeat_int en' 0%Z (Z.of_nat n - 1)%Z n b0) Hb) as Hb'.
      rewrite (Heval en' (fun v => ei en' (b0 + v)) (fun v => eb en' (b0 + n + v))
                 (fun e => eb en' (b0 + n + n + e)) Ha) in Hc by (intros; reflexivity).
      eapply cert_sound; [exact Hwf| |exact Hc]. intros v Hv. apply Hb'. exact Hv.
    - intros Hspec.
      destruct (cert_complete g R (label_of gsem en labels) roots aeg Hwf Hspec) as [Hrange Hcert].
      set (rk := c_rank g R (label_of gsem en labels) roots) in *.
      set (rt := c_root g R (label_of gsem en labels) roots) in *.
      set (fr := c_forest g R (label_of gsem en labels) roots) in *.
      exists (extend_env en b0 n rk rt fr).
      assert (Hrk : forall v, ei (extend_env en b0 n rk rt fr) (b0 + v) = rk v).
      { intros v. unfold extend_env; simpl. destruct (Nat.ltb_spec (b0 + v) b0); [lia|]. f_equal. lia. }
      split; [apply extend_env_agree|]. split.
      + rewrite in_bounds_from_app. apply andb_true_iff. split.
        * apply (proj2 (in_bounds_repeat_int (extend_env en b0 n rk rt fr) 0%Z (Z.of_nat n - 1)%Z n b0)).
          intros v Hv. rewrite Hrk. apply Hrange. exact Hv.
        * rewrite in_bounds_from_app, !in_bounds_repeat_bool. reflexivity.
      + rewrite (Heval _ rk rt fr (extend_env_agree en b0 n rk rt fr)); [exact Hcert| | |].
        * intros v _. apply Hrk.
        * intros v Hv. unfold extend_env; simpl.
          destruct (Nat.ltb_spec (b0 + n + v) (b0 + n)); [lia|].
          destruct (Nat.ltb_spec (b0 + n + v) (b0 + n + n)); [|lia]. f_equal. lia.
        * intros e _. unfold extend_env; simpl.
          destruct (Nat.ltb_spec (b0 + n + n + e) (b0 + n)); [lia|].
          destruct (Nat.ltb_spec (b0 + n + n + e) (b0 + n + n)); [lia|]. f_equal. lia.
  Qed.
End Exact.
