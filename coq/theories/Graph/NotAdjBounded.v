(* C08: the equivalence "diagonal forest condition <=> the inactive cells are
   connected" on independent patterns, for all grids with h, w >= 2 and
   h * w <= B, from a kernel computation over all patterns of all such shapes
   (diag_equiv_from_check); the instance actually used (B = 16, enumeration
   restricted to independent patterns) is in NotAdjBoundedIndep.v.  The
   unbounded statement NotAdj.diag_equiv_statement is proved independently of
   this computation in NotAdjPlanarA.v / NotAdjPlanarB.v / NotAdjPlanarMain.v. *)
From Coq Require Import ZArith List Bool Arith Lia.
From Cspuz Require Import Graph.GraphModel Graph.ReachProofs Graph.Avc Graph.AvcProofs
  Graph.NotAdj Graph.NotAdjForest Graph.NotAdjDiag.
Import ListNotations.
Local Open Scope nat_scope.

(* ---- the specifications only look at the pattern below the number of vertices *)

Lemma gwalk_ext_below n nb act act' av u v :
  (forall x, x < n -> act x = act' x) ->
  (forall x y, In y (nb x) -> y < n) ->
  gwalk n nb act av u v -> gwalk n nb act' av u v.
Proof.
  intros He Hnb. induction 1 as [v Hv Ha|u v x Hw IH Hx Hax Hav].
  - apply gwalk_refl; [exact Hv|rewrite <- He; assumption].
  - eapply gwalk_step; [exact IH|exact Hx| |exact Hav]. rewrite <- He; [exact Hax|apply (Hnb v x Hx)].
Qed.

Lemma spec_diag_ext h w act act' :
  (forall x, x < h * w -> act x = act' x) -> spec_diag h w act -> spec_diag h w act'.
Proof.
  intros He [Hf Hp].
  assert (He' : forall x, x < h * w -> act' x = act x) by (intros; symmetry; apply He; assumption).
  split.
  - intros a b Ha Haa Hab Hb Hw. apply (Hf a b Ha); [rewrite He; assumption| |exact Hb|].
    + rewrite He; [assumption|apply (diag_nbrs_all_lt h w a b Hb)].
    + apply (gwalk_ext_below _ _ act' act _ _ _ He' (diag_nbrs_all_lt h w) Hw).
  - intros u v Hu Hv Hw. apply (Hp u v Hu Hv).
    apply (gwalk_ext_below _ _ act' act _ _ _ He' (diag_nbrs_all_lt h w) Hw).
Qed.

Lemma reach_ext_below g vok vok' eok u v :
  wf_graph g = true -> (forall x, x < nv g -> vok x = vok' x) -> u < nv g ->
  reach g vok eok u v -> reach g vok' eok u v.
Proof.
  intros Hwf He Hu. induction 1 as [v Hv|u v x Huv IH Hn Hx].
  - apply reach_refl. rewrite <- He; assumption.
  - eapply reach_step; [apply IH; exact Hu|exact Hn|].
    rewrite <- He; [exact Hx|]. apply (nbrs_lt g eok v x Hwf Hn).
Qed.

Lemma connected_ext_below g act act' :
  wf_graph g = true -> (forall x, x < nv g -> act x = act' x) -> connected g act -> connected g act'.
Proof.
  intros Hwf He H u v Hu Hv Hau Hav.
  apply (reach_ext_below g act act' _ u v Hwf He Hu). apply H; try assumption; rewrite He; assumption.
Qed.

Lemma independent_ext_below g act act' :
  wf_graph g = true -> (forall x, x < nv g -> act x = act' x) -> independent g act -> independent g act'.
Proof.
  intros Hwf He H a b Hin. destruct (In_nth_error _ _ Hin) as [k Hk].
  destruct (wf_graph_edge g k a b Hwf Hk) as [Ha Hb]. rewrite <- !He by assumption. apply H. exact Hin.
Qed.

Lemma independent_b_spec g act : independent_b g act = true <-> independent g act.
Proof.
  unfold independent_b, independent. rewrite forallb_forall. split.
  - intros H a b Hin [Ha Hb]. specialize (H (a, b) Hin). simpl in H. rewrite Ha, Hb in H. discriminate.
  - intros H [a b] Hin. simpl. destruct (act a) eqn:Ea; [|reflexivity]. destruct (act b) eqn:Eb; [|reflexivity].
    exfalso. apply (H a b Hin). auto.
Qed.

(* ---- the enumeration is complete *)

Lemma all_patterns_complete : forall n p, length p = n -> In p (all_patterns n).
Proof.
  induction n as [|n IH]; intros p Hp.
  - destruct p; [left; reflexivity|discriminate].
  - destruct p as [|b p]; [discriminate|]. simpl. apply in_flat_map. exists p. split; [apply IH; simpl in Hp; lia|].
    destruct b; simpl; auto.
Qed.

Lemma pat_of_map act n x : x < n -> pat_of (map act (seq 0 n)) x = act x.
Proof.
  intros Hx. unfold pat_of. rewrite (nth_indep _ false (act 0)) by (rewrite map_length, seq_length; exact Hx).
  rewrite map_nth, seq_nth by exact Hx. reflexivity.
Qed.

Lemma in_shapes_upto B h w : 2 <= h -> 2 <= w -> h * w <= B -> In (h, w) (shapes_upto B).
Proof.
  intros Hh Hw Hb. unfold shapes_upto. apply in_flat_map. exists h. split; [apply in_seq; nia|].
  apply in_flat_map. exists w. split; [apply in_seq; nia|].
  destruct (Nat.leb_spec (h * w) B); [left; reflexivity|lia].
Qed.

Definition diag_equiv_check (B : nat) : bool :=
  forallb (fun s : nat * nat => diag_equiv_on (fst s) (snd s)) (shapes_upto B).

Theorem diag_equiv_from_check B :
  diag_equiv_check B = true ->
  forall h w act, 2 <= h -> 2 <= w -> h * w <= B -> independent (grid_graph h w) act ->
    (spec_diag h w act <-> connected (grid_graph h w) (inactive act)).
Proof.
  intros Hchk h w act Hh Hw Hb Hind.
  unfold diag_equiv_check in Hchk. rewrite forallb_forall in Hchk.
  specialize (Hchk (h, w) (in_shapes_upto B h w Hh Hw Hb)). simpl in Hchk.
  unfold diag_equiv_on in Hchk. rewrite forallb_forall in Hchk.
  set (p := map act (seq 0 (h * w))).
  assert (Hp : In p (all_patterns (h * w))).
  { apply all_patterns_complete. unfold p. rewrite map_length, seq_length. reflexivity. }
  specialize (Hchk p Hp). cbv zeta in Hchk.
  assert (Hag : forall x, x < h * w -> act x = pat_of p x) by (intros x Hx; symmetry; apply pat_of_map; exact Hx).
  assert (Hag' : forall x, x < h * w -> pat_of p x = act x) by (intros; symmetry; apply Hag; assumption).
  pose proof (grid_wf h w) as Hwf.
  assert (Hnv : nv (grid_graph h w) = h * w) by reflexivity.
  assert (Hind' : independent_b (grid_graph h w) (pat_of p) = true).
  { apply independent_b_spec. apply (independent_ext_below _ act); [exact Hwf|rewrite Hnv; exact Hag|exact Hind]. }
  rewrite Hind' in Hchk. apply eqb_prop in Hchk.
  assert (Hin : forall x, x < nv (grid_graph h w) -> inactive act x = inactive (pat_of p) x).
  { intros x Hx. unfold inactive. rewrite Hag by (rewrite <- Hnv; exact Hx). reflexivity. }
  assert (Hin' : forall x, x < nv (grid_graph h w) -> inactive (pat_of p) x = inactive act x)
    by (intros; symmetry; apply Hin; assumption).
  split.
  - intros Hs. apply (connected_ext_below _ (inactive (pat_of p))); [exact Hwf|exact Hin'|].
    apply connected_b_spec; [exact Hwf|]. rewrite <- Hchk. apply spec_diag_b_spec.
    apply (spec_diag_ext h w act); assumption.
  - intros Hc. apply (spec_diag_ext h w (pat_of p)); [exact Hag'|].
    apply spec_diag_b_spec. rewrite Hchk. apply connected_b_spec; [exact Hwf|].
    apply (connected_ext_below _ (inactive act)); assumption.
Qed.
