"""regenerate MANIFEST.json from harness/manifest_data.py (kept valid at all times)"""
import json, os, sys
sys.path.insert(0, os.path.dirname(os.path.abspath(__file__)))
import manifest_data as md
ROOT = os.path.dirname(os.path.dirname(os.path.abspath(__file__)))
props = [json.loads(l)["id"] for l in open(os.path.join(ROOT, "properties.jsonl"))]
checks, na = [], []
for pid in props:
    if pid in md.CLAIMED:
        c = md.CLAIMED[pid]
        checks.append({
            "property_id": pid,
            "quick_cmd": "./check %s --tier quick" % pid,
            "thorough_cmd": "./check %s --tier thorough" % pid,
            "evidence_file": "evidence/%s.json" % pid,
            "replay_cmd_template": "./check %s --replay {path}" % pid,
            "engine": "coq-proof+correspondence",
            "level_claimed": {"category": "proof", "text": c["text"], "design_ref": c["design_ref"]},
            "level_note": c["note"],
            "technique": c["technique"],
        })
    else:
        na.append({"property_id": pid, "reason": md.NOT_CLAIMED.get(pid, "check not built yet in this session; see DESIGN.md section 4 for the plan")})
m = {
    "version": 1,
    "setup_cmd": "./setup.sh",
    "hooks": {"guard": "CSPUZ_VERIF", "enable": "no hooks are needed: all observation points are reached through public API / harness-side substitution (guard name reserved)",
              "baseline_off_cmd": "cd /repo && /venv/bin/python -m pytest -ra -q -p no:cacheprovider --timeout=900 --continue-on-collection-errors",
              "source_commits": [], "add_only": True},
    "engines": [{"name": "coq-proof+correspondence", "path": "check", "serves_properties": sorted(md.CLAIMED),
                 "kind_free_text": "Coq 8.16.1 theorems over executable Gallina models (coq/theories), tied to /repo by fail-closed ast translators (Gen/*.v) and by correspondence runs of the OCaml-extracted model against the Python implementation; property-level search for a failing input when a proof or tie breaks"}],
    "checks": checks,
    "notes": md.NOTES,
    "not_applicable": na,
}
json.dump(m, open(os.path.join(ROOT, "MANIFEST.json"), "w"), indent=1)
print("claimed:", sorted(md.CLAIMED), "not claimed:", [x["property_id"] for x in na])
