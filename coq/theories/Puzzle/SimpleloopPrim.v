(* C11 Tier 1, native-operator route - cspuz/puzzle/simpleloop.py::solve_simpleloop when
   cspuz.config.use_graph_primitive is on (the default with the csugar / enigma_csp / cspuz_core backends):
   is_passed = graph.active_edges_single_cycle(solver, grid_frame) declares the array is_passed (the same fresh
   Booleans, right after the frame, as on the auxiliary-variable route), posts one degree constraint per cell
   (count_true(incident segments) == is_passed[i].cond(2, 0)) and ONE native node
   Op.GRAPH_ACTIVE_VERTICES_CONNECTED over the line graph of the frame graph (model
   Graph/Cycle.v::active_edges_single_cycle with prim = true, property C06; the native node means
   Cycle.gsem_c06).  No rank / root variables are declared; everything else solve_simpleloop posts is unchanged
   (Simpleloop.v::sl_cell ...; these constraints mention the frame variables and the is_passed variables, whose
   ids do not move).
   Error points: as Simpleloop.v::solve_simpleloop_model, except for boards with height <= 0 AND width <= 0 where
   one of them is 0: the auxiliary-variable route raises ValueError there (int_array(0, 0, -1) inside the graph
   call on a frame without points) while the native route runs through the graph call (see
   CyclePrimCompose.frame_cycle_prim_z), the loops over the cells are empty and is_passed[py, px] raises IndexError
   (an axis of size <= 0 accepts no index) - the behaviour both routes have for height < 0 and width < 0.
   Exactly one of height, width <= 0: ValueError from Array2D.__init__, as before.
   Theorem simpleloop_exact_prim: same statement as SimpleloopProofs.simpleloop_exact, for the evaluator gsem_c06;
   the graph side is CyclePrimCompose.cycle_frame_prim_compose. *)
From Coq Require Import ZArith List Bool Arith Lia.
From Cspuz Require Import Lib.PyErr Core.Expr Core.Program Graph.GraphModel Graph.Cycle
     Puzzle.PuzzleBase Puzzle.SatAbs Puzzle.ModelBase Puzzle.ModelLemmas Puzzle.WfLemmas
     Puzzle.CycleFrameBase Puzzle.CycleCompose Puzzle.CyclePrimCompose
     Puzzle.Rules_simpleloop Puzzle.Simpleloop Puzzle.SimpleloopProofs Puzzle.SimpleloopWf.
Import ListNotations.
Local Open Scope nat_scope.

Definition solve_simpleloop_model_prim (pb : problem) : res state :=
  let hz := getz (sec pb 0) 0 in let wz := getz (sec pb 0) 1 in
  let pyz := getz (sec pb 0) 2 in let pxz := getz (sec pb 0) 3 in
  let h := dim pb 0 in let w := dim pb 1 in
  let blocked := sec pb 1 in
  if ((hz <=? 0) && (wz <=? 0))%Z then Err IndexError
  else if ((hz <=? 0) || (wz <=? 0))%Z then Err ValueError
  else
  match frame_cycle_prim (h - 1) (w - 1) with
  | Ok (st1, P2 hh ww p) =>
      if Nat.ltb (length blocked) (sl_need h w pyz pxz) then Err IndexError
      else
        match sl_index hh pyz, sl_index ww pxz with
        | Some ry, Some rx =>
            Ok (ensure st1
                  (flat_map (sl_cell w ww p blocked pyz pxz) (cells h w) ++
                   [BNode IFF [nth (ry * ww + rx) p PyNone;
                               PyBool (Nat.odd (sl_npass h w blocked pyz pxz))]]))
        | _, _ => Err IndexError
        end
  | Ok (_, P1 _) => Err TypeError
  | Err e => Err e
  end.

(* the constraints posted after the graph call contain no native node *)
Lemma sl_extra_ok h w py px blocked :
  py < S h -> px < S w ->
  forallb (ok (repeat DBool (frame_n h w + S h * S w)) true) (sl_extra h w py px blocked) = true.
Proof.
  intros Hpy Hpx. unfold sl_extra. rewrite forallb_app. apply andb_true_intro. split; [apply sl_cells_ok|].
  cbn [forallb]. rewrite ok_iff, ok_pybool, !andb_true_r. apply ok_sl_passed. nia.
Qed.

Lemma sl_core_prim h w py px blocked en :
  py < S h -> px < S w ->
  (forall y x, y <= h -> x <= w ->
     eb en (frame_pid h w y x) = on_line (lattice (S h) (S w)) (eb en) (y * S w + x)) ->
  sl_local (S h) (S w) py px blocked (map (fun i => PuzzleBase.b2z (eb en i)) (seq 0 (frame_n h w))) =
  forallb (holds gsem_c06 en) (sl_extra h w py px blocked).
Proof.
  intros Hpy Hpx Hp. rewrite (holds_c06_no_graph _ en _ (sl_extra_ok h w py px blocked Hpy Hpx)).
  apply sl_core; assumption.
Qed.

(* what the model does on a board with cells and the pivot inside *)
Lemma sl_model_prim_inside h w py px blocked :
  py < S h -> px < S w ->
  exists st1,
    frame_cycle_prim h w = Ok (st1, P2 (S h) (S w) (frame_passed h w)) /\
    solve_simpleloop_model_prim [[Z.of_nat (S h); Z.of_nat (S w); Z.of_nat py; Z.of_nat px]; blocked] =
    if Nat.ltb (length blocked) (sl_need (S h) (S w) (Z.of_nat py) (Z.of_nat px)) then Err IndexError
    else Ok (ensure st1 (sl_extra h w py px blocked)).
Proof.
  intros Hpy Hpx. destruct (frame_cycle_prim_ok h w) as [st1 [Hc Hv]].
  exists st1. split; [exact Hc|].
  unfold solve_simpleloop_model_prim.
  set (pb := [[Z.of_nat (S h); Z.of_nat (S w); Z.of_nat py; Z.of_nat px]; blocked]).
  change (sec pb 1) with blocked.
  change (getz (sec pb 0) 0) with (Z.of_nat (S h)). change (getz (sec pb 0) 1) with (Z.of_nat (S w)).
  change (getz (sec pb 0) 2) with (Z.of_nat py). change (getz (sec pb 0) 3) with (Z.of_nat px).
  destruct (sl_dims (S h) (S w) py px [blocked]) as [E0 [E1 _]]. fold pb in E0, E1. rewrite E0, E1.
  replace ((Z.of_nat (S h) <=? 0) && (Z.of_nat (S w) <=? 0))%Z with false
    by (symmetry; apply andb_false_iff; left; apply Z.leb_gt; lia).
  replace ((Z.of_nat (S h) <=? 0) || (Z.of_nat (S w) <=? 0))%Z with false
    by (symmetry; apply orb_false_iff; split; apply Z.leb_gt; lia).
  replace (S h - 1) with h by lia. replace (S w - 1) with w by lia. rewrite Hc.
  destruct (Nat.ltb (length blocked) (sl_need (S h) (S w) (Z.of_nat py) (Z.of_nat px))); [reflexivity|].
  assert (Hi : forall size k, k < size -> sl_index size (Z.of_nat k) = Some k).
  { intros size k Hk. unfold sl_index.
    replace (Z.of_nat k <? 0)%Z with false by (symmetry; apply Z.ltb_ge; lia).
    replace (0 <=? Z.of_nat k)%Z with true by (symmetry; apply Z.leb_le; lia).
    replace (Z.of_nat k <? Z.of_nat size)%Z with true by (symmetry; apply Z.ltb_lt; lia).
    simpl. rewrite Nat2Z.id. reflexivity. }
  rewrite (Hi (S h) py Hpy), (Hi (S w) px Hpx). reflexivity.
Qed.

(* the model rejects every problem without cells or with the pivot outside the board *)
Lemma sl_model_prim_ok_inside h w py px blocked st :
  solve_simpleloop_model_prim [[Z.of_nat h; Z.of_nat w; Z.of_nat py; Z.of_nat px]; blocked] = Ok st ->
  0 < h /\ 0 < w /\ py < h /\ px < w.
Proof.
  unfold solve_simpleloop_model_prim.
  set (pb := [[Z.of_nat h; Z.of_nat w; Z.of_nat py; Z.of_nat px]; blocked]).
  change (sec pb 1) with blocked.
  change (getz (sec pb 0) 0) with (Z.of_nat h). change (getz (sec pb 0) 1) with (Z.of_nat w).
  change (getz (sec pb 0) 2) with (Z.of_nat py). change (getz (sec pb 0) 3) with (Z.of_nat px).
  destruct (sl_dims h w py px [blocked]) as [E0 [E1 _]]. fold pb in E0, E1. rewrite E0, E1.
  destruct ((Z.of_nat h <=? 0) && (Z.of_nat w <=? 0))%Z; [discriminate|].
  destruct ((Z.of_nat h <=? 0) || (Z.of_nat w <=? 0))%Z eqn:Ez; [discriminate|].
  apply orb_false_iff in Ez. destruct Ez as [Eh Ew]. apply Z.leb_gt in Eh. apply Z.leb_gt in Ew.
  destruct h as [|h]; [lia|]. destruct w as [|w]; [lia|].
  replace (S h - 1) with h by lia. replace (S w - 1) with w by lia.
  destruct (frame_cycle_prim_ok h w) as [st1 [Hc _]]. rewrite Hc.
  destruct (Nat.ltb (length blocked) _); [discriminate|].
  unfold sl_index.
  replace (Z.of_nat py <? 0)%Z with false by (symmetry; apply Z.ltb_ge; lia).
  replace (Z.of_nat px <? 0)%Z with false by (symmetry; apply Z.ltb_ge; lia).
  replace (0 <=? Z.of_nat py)%Z with true by (symmetry; apply Z.leb_le; lia).
  replace (0 <=? Z.of_nat px)%Z with true by (symmetry; apply Z.leb_le; lia).
  cbn [andb].
  destruct (Z.of_nat py <? Z.of_nat (S h))%Z eqn:Epy; [|discriminate].
  destruct (Z.of_nat px <? Z.of_nat (S w))%Z eqn:Epx; [|discriminate].
  apply Z.ltb_lt in Epy. apply Z.ltb_lt in Epx. intros _. lia.
Qed.

Theorem simpleloop_exact_prim h w py px blocked st ans :
  solve_simpleloop_model_prim [[Z.of_nat h; Z.of_nat w; Z.of_nat py; Z.of_nat px]; blocked] = Ok st ->
  ((exists en, model_of gsem_c06 en st /\ reads st en (seq 0 (h * (w - 1) + (h - 1) * w)) = ans)
   <-> rules_simpleloop [[Z.of_nat h; Z.of_nat w; Z.of_nat py; Z.of_nat px]; blocked] ans = true).
Proof.
  intros Hst. destruct (sl_model_prim_ok_inside _ _ _ _ _ _ Hst) as [Hh [Hw [Hpy Hpx]]].
  destruct h as [|h]; [lia|]. destruct w as [|w]; [lia|].
  destruct (sl_model_prim_inside h w py px blocked Hpy Hpx) as [st1 [Hcall Hm]].
  rewrite Hm in Hst.
  destruct (Nat.ltb (length blocked) _); [discriminate|]. inversion Hst; subst st. clear Hst Hm.
  destruct (cycle_frame_prim_compose h w (sl_extra h w py px blocked) (sl_local (S h) (S w) py px blocked)
              st1 _ ans Hcall (fun en Hp => sl_core_prim h w py px blocked en Hpy Hpx Hp)) as [_ EX].
  change (S h * (S w - 1) + (S h - 1) * S w) with (n_lattice_edges (S h) (S w)).
  rewrite sl_n_lattice_frame, EX. unfold rules_simpleloop.
  set (pb := [[Z.of_nat (S h); Z.of_nat (S w); Z.of_nat py; Z.of_nat px]; blocked]).
  change (sec pb 1) with blocked.
  destruct (sl_dims (S h) (S w) py px [blocked]) as [E0 [E1 [E2 E3]]]. fold pb in E0, E1, E2, E3.
  rewrite E0, E1, E2, E3, sl_n_lattice_frame. reflexivity.
Qed.

(* the model accepts every board with cells, the pivot inside and enough entries in `blocked` (the premise of
   simpleloop_exact_prim is satisfiable) *)
Lemma simpleloop_model_prim_total h w py px blocked :
  py < h -> px < w -> h * w <= length blocked ->
  exists st, solve_simpleloop_model_prim [[Z.of_nat h; Z.of_nat w; Z.of_nat py; Z.of_nat px]; blocked] = Ok st.
Proof.
  intros Hpy Hpx Hl. destruct h as [|h]; [lia|]. destruct w as [|w]; [lia|].
  destruct (sl_model_prim_inside h w py px blocked Hpy Hpx) as [st1 [_ Hm]]. rewrite Hm.
  replace (Nat.ltb (length blocked) (sl_need (S h) (S w) (Z.of_nat py) (Z.of_nat px))) with false.
  - eexists. reflexivity.
  - symmetry. apply Nat.ltb_ge. unfold sl_need.
    destruct (sl_is_pivot (Z.of_nat py) (Z.of_nat px) (S h - 1, S w - 1)); lia.
Qed.

Example simpleloop_model_prim_ok : exists st, solve_simpleloop_model_prim [[2; 2; 0; 1]; [0; 0; 0; 0]]%Z = Ok st.
Proof. apply (simpleloop_model_prim_total 2 2 0 1 [0; 0; 0; 0]%Z); simpl; lia. Qed.
