(* The independent pzpr decoder decodeBorder (Codec/Pzpr.v) reads the text the Rooms combinator
   (and util.encode_grid_segmentation) writes for a partition back as the border flags of that
   partition: flag 1 exactly between neighbouring cells of different rooms. *)
From Coq Require Import ZArith List Ascii Bool NArith Lia.
From Cspuz Require Import Lib.PyErr Codec.Comb Codec.CombWf Codec.CombBasics Codec.CombLeaf
  Codec.RoomsGrid Codec.RoomsFill Codec.RoomsProofs Codec.Legacy Codec.LegacyProofs Codec.LegacyEq
  Codec.Pzpr Codec.SegmentationEq.
Import ListNotations.
Local Open Scope Z_scope.

(* ------------------------------------------------------------------ one character = five flags *)
Lemma digit5 b0 b1 b2 b3 b4 : bit b0 -> bit b1 -> bit b2 -> bit b3 -> bit b4 ->
  let v := val5 [b0; b1; b2; b3; b4] in
  digit_in 32 (base36_char v) = Some v /\
  (v / 16) mod 2 = b0 /\ (v / 8) mod 2 = b1 /\ (v / 4) mod 2 = b2 /\ (v / 2) mod 2 = b3 /\ v mod 2 = b4.
Proof.
  intros [-> | ->] [-> | ->] [-> | ->] [-> | ->] [-> | ->]; vm_compute; repeat split; reflexivity.
Qed.

Lemma cbs_nil fuel : cbs fuel [] = [].
Proof. destruct fuel; reflexivity. Qed.

(* decodeBorder's reader on the text of convert_binary_seq: the flags, zero-padded to a multiple of five *)
Lemma bits32_cbs_gen : forall fuel F rest, (length F <= fuel)%nat -> Forall bit F ->
  bits32 ((length F + 4) / 5) (cbs fuel F ++ rest)
  = Some (F ++ repeat 0 ((5 - length F mod 5) mod 5), rest).
Proof.
  induction fuel as [|f IH]; intros F rest Hlen Hb.
  - destruct F; [reflexivity|simpl in Hlen; lia].
  - destruct F as [|b0 [|b1 [|b2 [|b3 [|b4 t]]]]];
      repeat match goal with
             | H : Forall bit (_ :: _) |- _ => inversion H; clear H; subst
             end.
    + reflexivity.
    + cbn [cbs firstn skipn]. rewrite cbs_nil.
      repeat match goal with H : bit ?b |- _ => destruct H; subst end; vm_compute; reflexivity.
    + cbn [cbs firstn skipn]. rewrite cbs_nil.
      repeat match goal with H : bit ?b |- _ => destruct H; subst end; vm_compute; reflexivity.
    + cbn [cbs firstn skipn]. rewrite cbs_nil.
      repeat match goal with H : bit ?b |- _ => destruct H; subst end; vm_compute; reflexivity.
    + cbn [cbs firstn skipn]. rewrite cbs_nil.
      repeat match goal with H : bit ?b |- _ => destruct H; subst end; vm_compute; reflexivity.
    + cbn [cbs firstn skipn length].
      replace (S (S (S (S (S (length t))))) + 4)%nat with (length t + 4 + 1 * 5)%nat by lia.
      rewrite Nat.div_add by lia. rewrite Nat.add_1_r.
      replace (S (S (S (S (S (length t))))))%nat with (length t + 1 * 5)%nat by lia.
      rewrite Nat.mod_add by lia.
      cbn [app bits32].
      destruct (digit5 b0 b1 b2 b3 b4) as (E0 & E1 & E2 & E3 & E4 & E5); auto.
      cbv zeta in E0. rewrite E0. rewrite IH by (auto; simpl in Hlen; lia).
      rewrite E1, E2, E3, E4, E5. reflexivity.
Qed.

Lemma bits32_cbs : forall F rest, Forall bit F ->
  bits32 ((length F + 4) / 5) (cbs (length F) F ++ rest)
  = Some (F ++ repeat 0 ((5 - length F mod 5) mod 5), rest).
Proof. intros F rest Hb. apply bits32_cbs_gen; auto. Qed.

Lemma pad_to_exact : forall F k, pad_to (length F) (F ++ repeat 0 k) 0 = F.
Proof.
  intros F k. unfold pad_to. rewrite <- app_assoc. apply firstn_app_exact.
Qed.

(* ------------------------------------------------------------------ decodeBorder on two bitmaps *)
Lemma decode_border_text H W F1 F2 rest :
  length F1 = ((W - 1) * H)%nat -> length F2 = (W * (H - 1))%nat -> Forall bit F1 -> Forall bit F2 ->
  decode_border H W ((cbs (length F1) F1 ++ cbs (length F2) F2) ++ rest) = Some (F1, F2, rest).
Proof.
  intros L1 L2 B1 B2. unfold decode_border. cbv zeta.
  rewrite <- L1, <- L2. rewrite <- app_assoc.
  rewrite (bits32_cbs F1 _ B1). rewrite (bits32_cbs F2 rest B2).
  rewrite !pad_to_exact. reflexivity.
Qed.

(* ------------------------------------------------------------------ the meaning of the flags *)
Lemma nth_concat_rows {A} (f : nat -> nat -> A) (d : A) b : forall a s y x, (y < a)%nat -> (x < b)%nat ->
  nth (y * b + x) (concat (map (fun y => map (fun x => f y x) (seq 0 b)) (seq s a))) d = f (s + y)%nat x.
Proof.
  induction a as [|a IH]; intros s y x Hy Hx; [lia|].
  cbn [seq map concat]. destruct y as [|y].
  - cbn [Nat.mul Nat.add]. rewrite app_nth1 by (rewrite map_length, seq_length; exact Hx).
    rewrite nth_indep with (d' := f s 0%nat) by (rewrite map_length, seq_length; exact Hx).
    rewrite (map_nth (fun x => f s x) (seq 0 b) 0%nat x). rewrite seq_nth by exact Hx.
    rewrite Nat.add_0_r. reflexivity.
  - rewrite app_nth2 by (rewrite map_length, seq_length; lia).
    rewrite map_length, seq_length.
    replace (S y * b + x - b)%nat with (y * b + x)%nat by lia.
    rewrite IH by lia. f_equal. lia.
Qed.

(* flag number y*(W-1)+x of the first list: cells (y, x) and (y, x+1) lie in different rooms *)
Lemma vg_flag H W rid y x : (y < H)%nat -> (x < W - 1)%nat ->
  nth (y * (W - 1) + x) (concat (vg H W rid)) 0 = (if rid (y, x) =? rid (y, (x + 1)%nat) then 0 else 1).
Proof. intros Hy Hx. unfold vg, mk_grid. rewrite nth_concat_rows by assumption. reflexivity. Qed.

(* flag number y*W+x of the second list: cells (y, x) and (y+1, x) lie in different rooms *)
Lemma hg_flag H W rid y x : (y < H - 1)%nat -> (x < W)%nat ->
  nth (y * W + x) (concat (hg H W rid)) 0 = (if rid (y, x) =? rid ((y + 1)%nat, x) then 0 else 1).
Proof. intros Hy Hx. unfold hg, mk_grid. rewrite nth_concat_rows by assumption. reflexivity. Qed.

(* ------------------------------------------------------------------ Rooms against decodeBorder *)
Lemma decode_border_rooms_text H W rs rest :
  decode_border H W (rooms_text H W rs ++ rest)
  = Some (concat (vg H W (rid_of rs)), concat (hg H W (rid_of rs)), rest).
Proof.
  unfold rooms_text. cbv zeta. apply decode_border_text.
  - rewrite vg_length. apply Nat.mul_comm.
  - rewrite hg_length. apply Nat.mul_comm.
  - apply Forall_concat. apply vg_bits.
  - apply Forall_concat. apply hg_bits.
Qed.

Theorem rooms_pzpr_agrees :
  forall h w rs rest, 1 <= h -> 1 <= w -> valid_rooms h w rs ->
    serialize_problem (Rooms false false) (rooms_to_pv rs) h w = Ok (rooms_text (Z.to_nat h) (Z.to_nat w) rs) /\
    decode_border (Z.to_nat h) (Z.to_nat w) (rooms_text (Z.to_nat h) (Z.to_nat w) rs ++ rest)
      = Some (concat (vg (Z.to_nat h) (Z.to_nat w) (rid_of rs)), concat (hg (Z.to_nat h) (Z.to_nat w) (rid_of rs)), rest).
Proof.
  intros h w rs rest Hh Hw Hval. split.
  - destruct (segmentation_eq_rooms_total h w rs Hh Hw Hval) as (_ & _ & _ & Hr). apply Hr.
  - apply decode_border_rooms_text.
Qed.

(* the whole body is consumed *)
Corollary rooms_pzpr_agrees_whole :
  forall h w rs, 1 <= h -> 1 <= w -> valid_rooms h w rs ->
    serialize_problem (Rooms false false) (rooms_to_pv rs) h w = Ok (rooms_text (Z.to_nat h) (Z.to_nat w) rs) /\
    pzpr_decode_rooms (Z.to_nat h) (Z.to_nat w) (rooms_text (Z.to_nat h) (Z.to_nat w) rs)
      = Some (concat (vg (Z.to_nat h) (Z.to_nat w) (rid_of rs)), concat (hg (Z.to_nat h) (Z.to_nat w) (rid_of rs))).
Proof.
  intros h w rs Hh Hw Hval.
  destruct (rooms_pzpr_agrees h w rs [] Hh Hw Hval) as [Hs Hd]. split; [exact Hs|].
  unfold pzpr_decode_rooms. rewrite app_nil_r in Hd. rewrite Hd. reflexivity.
Qed.

(* the legacy encoder's text is read back the same way *)
Corollary segmentation_pzpr_agrees :
  forall h w rs rest, 1 <= h -> 1 <= w -> valid_rooms h w rs ->
    exists bid, blocks_to_block_id h w (map (map zcell) rs) = Ok bid /\
      encode_grid_segmentation h w bid = Ok (rooms_text (Z.to_nat h) (Z.to_nat w) rs) /\
      decode_border (Z.to_nat h) (Z.to_nat w) (rooms_text (Z.to_nat h) (Z.to_nat w) rs ++ rest)
        = Some (concat (vg (Z.to_nat h) (Z.to_nat w) (rid_of rs)), concat (hg (Z.to_nat h) (Z.to_nat w) (rid_of rs)), rest).
Proof.
  intros h w rs rest Hh Hw Hval.
  destruct (segmentation_eq_rooms_total h w rs Hh Hw Hval) as (bid & Hb & Hs & _).
  exists bid. split; [exact Hb|]. split; [exact Hs|]. apply decode_border_rooms_text.
Qed.
