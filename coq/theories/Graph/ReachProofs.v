(* Facts about the executable flood fill of Graph/GraphModel.v
   (component / grow / sweep / add_new) and the relational reach / connected.
   Shared by C04-C10.  Stdlib only. *)
From Coq Require Import List Bool Arith Lia.
From Cspuz Require Import Graph.GraphModel.
Import ListNotations.

(* ------------------------------------------------------------------------ *)
(* small list facts                                                          *)

Lemma mem_In x l : mem x l = true <-> In x l.
Proof.
  unfold mem. rewrite existsb_exists. split.
  - intros [y [Hy He]]. apply Nat.eqb_eq in He. subst; exact Hy.
  - intros H. exists x. split; [exact H|apply Nat.eqb_refl].
Qed.

Lemma mem_not_In x l : mem x l = false <-> ~ In x l.
Proof.
  rewrite <- mem_In. destruct (mem x l); split; intros; congruence.
Qed.

Lemma list_nil_or_snoc {A} (l : list A) : l = [] \/ exists l' x, l = l' ++ [x].
Proof. induction l using rev_ind; [left; reflexivity|right; eauto]. Qed.

Lemma NoDup_snoc {A} (l : list A) c : NoDup l -> ~ In c l -> NoDup (l ++ [c]).
Proof.
  induction l as [|a l IH]; simpl; intros Hn Hc.
  - constructor; [intros []|constructor].
  - inversion Hn; subst. constructor.
    + rewrite in_app_iff. intros [H|[H|[]]]; [contradiction|]. apply Hc; left; symmetry; exact H.
    + apply IH; [assumption|]. intros H; apply Hc; right; exact H.
Qed.

Lemma NoDup_bounded_length (l : list nat) n :
  NoDup l -> (forall v, In v l -> v < n) -> length l <= n.
Proof.
  intros Hn Hb. rewrite <- (seq_length n 0). apply NoDup_incl_length; [exact Hn|].
  intros v Hv. apply in_seq. specialize (Hb v Hv). lia.
Qed.

(* ------------------------------------------------------------------------ *)
(* incident / nbrs in terms of the edge list                                 *)

Lemma incident_from_spec i k0 es w k :
  In (w, k) (incident_from i k0 es) <->
  exists j, k = k0 + j /\ (nth_error es j = Some (i, w) \/ nth_error es j = Some (w, i)).
Proof.
  revert k0. induction es as [|[a b] r IH]; intros k0; simpl.
  - split; [intros []|]. intros [j [_ [H|H]]]; destruct j; discriminate.
  - rewrite !in_app_iff, IH. split.
    + intros [H|[H|H]].
      * destruct (Nat.eqb_spec a i); [|destruct H]. destruct H as [H|[]].
        inversion H; subst. exists 0. split; [lia|]. left; reflexivity.
      * destruct (Nat.eqb_spec b i); [|destruct H]. destruct H as [H|[]].
        inversion H; subst. exists 0. split; [lia|]. right; reflexivity.
      * destruct H as [j [Hk Hj]]. exists (S j). split; [lia|]. exact Hj.
    + intros [j [Hk Hj]]. destruct j as [|j]; simpl in Hj.
      * destruct Hj as [Hj|Hj]; inversion Hj; subst.
        -- left. rewrite Nat.eqb_refl. left. f_equal. lia.
        -- right; left. rewrite Nat.eqb_refl. left. f_equal; lia.
      * right; right. exists j. split; [lia|exact Hj].
Qed.

Lemma incident_spec g i w k :
  In (w, k) (incident g i) <->
  (nth_error (edges g) k = Some (i, w) \/ nth_error (edges g) k = Some (w, i)).
Proof.
  unfold incident. rewrite incident_from_spec. split.
  - intros [j [Hk Hj]]. simpl in Hk. subst. exact Hj.
  - intros H. exists k. split; [reflexivity|exact H].
Qed.

Lemma incident_sym g i w k : In (w, k) (incident g i) <-> In (i, k) (incident g w).
Proof. rewrite !incident_spec. tauto. Qed.

Lemma nbrs_incident g eok v w :
  In w (nbrs g eok v) <-> exists k, eok k = true /\ In (w, k) (incident g v).
Proof.
  unfold nbrs. rewrite in_map_iff. split.
  - intros [[w' k] [Hf Hin]]. simpl in Hf; subst. apply filter_In in Hin.
    destruct Hin as [Hin Hok]. exists k. split; assumption.
  - intros [k [Hok Hin]]. exists (w, k). split; [reflexivity|].
    apply filter_In. split; assumption.
Qed.

Lemma nbrs_spec g eok v w :
  In w (nbrs g eok v) <->
  exists k, eok k = true /\
            (nth_error (edges g) k = Some (v, w) \/ nth_error (edges g) k = Some (w, v)).
Proof.
  rewrite nbrs_incident. split; intros [k [Hok H]]; exists k; (split; [exact Hok|]);
    apply incident_spec; exact H.
Qed.

Lemma nbrs_sym g eok v w : In w (nbrs g eok v) -> In v (nbrs g eok w).
Proof.
  rewrite !nbrs_spec. intros [k [Hok H]]. exists k. split; [exact Hok|tauto].
Qed.

Lemma wf_graph_edge g k a b :
  wf_graph g = true -> nth_error (edges g) k = Some (a, b) -> a < nv g /\ b < nv g.
Proof.
  unfold wf_graph. rewrite forallb_forall. intros H Hn.
  apply nth_error_In in Hn. specialize (H _ Hn). simpl in H.
  apply andb_true_iff in H. destruct H as [H1 H2].
  apply Nat.ltb_lt in H1. apply Nat.ltb_lt in H2. split; assumption.
Qed.

Lemma nbrs_lt g eok v w :
  wf_graph g = true -> In w (nbrs g eok v) -> v < nv g /\ w < nv g.
Proof.
  intros Hwf H. apply nbrs_spec in H. destruct H as [k [_ [H|H]]];
    apply (wf_graph_edge g k _ _ Hwf) in H; tauto.
Qed.

(* ------------------------------------------------------------------------ *)
(* reach                                                                     *)

Lemma reach_vok_start g vok eok u v : reach g vok eok u v -> vok u = true.
Proof. induction 1; assumption. Qed.

Lemma reach_vok_end g vok eok u v : reach g vok eok u v -> vok v = true.
Proof. induction 1; assumption. Qed.

Lemma reach_trans g vok eok u v w :
  reach g vok eok u v -> reach g vok eok v w -> reach g vok eok u w.
Proof.
  intros Huv Hvw. induction Hvw.
  - exact Huv.
  - eapply reach_step; [apply IHHvw; exact Huv| |]; eassumption.
Qed.

Lemma reach_sym g vok eok u v : reach g vok eok u v -> reach g vok eok v u.
Proof.
  induction 1 as [v Hv|u v w Huv IH Hn Hw].
  - apply reach_refl; exact Hv.
  - apply reach_trans with v; [|exact IH].
    eapply reach_step; [apply reach_refl; exact Hw| |].
    + apply nbrs_sym; exact Hn.
    + eapply reach_vok_end; exact Huv.
Qed.

Lemma reach_lt g vok eok u v :
  wf_graph g = true -> u < nv g -> reach g vok eok u v -> v < nv g.
Proof.
  intros Hwf Hu H. induction H; [exact Hu|].
  eapply nbrs_lt in H0; [|exact Hwf]. tauto.
Qed.

(* a step on the left *)
Lemma reach_step_l g vok eok u v w :
  vok u = true -> In v (nbrs g eok u) -> reach g vok eok v w -> reach g vok eok u w.
Proof.
  intros Hu Hn Hvw. apply reach_trans with v; [|exact Hvw].
  eapply reach_step; [apply reach_refl; exact Hu|exact Hn|].
  eapply reach_vok_start; exact Hvw.
Qed.

(* reach only depends on vok / eok pointwise *)
Lemma nbrs_ext g eok eok' v : (forall k, eok k = eok' k) -> nbrs g eok v = nbrs g eok' v.
Proof.
  intros H. unfold nbrs. f_equal. apply filter_ext. intros [a k]. apply H.
Qed.

Lemma reach_ext g vok vok' eok eok' u v :
  (forall x, vok x = vok' x) -> (forall k, eok k = eok' k) ->
  reach g vok eok u v -> reach g vok' eok' u v.
Proof.
  intros Hv He H. induction H.
  - apply reach_refl. rewrite <- Hv; assumption.
  - eapply reach_step; [eassumption| |].
    + rewrite <- (nbrs_ext g eok eok' v He). assumption.
    + rewrite <- Hv; assumption.
Qed.

(* ------------------------------------------------------------------------ *)
(* the flood fill                                                            *)

Section Flood.
  Variable g : graph.
  Variables vok eok : nat -> bool.

  (* every element other than the first has a neighbour earlier in the list *)
  Definition earlier_nbr (l : list nat) : Prop :=
    forall l1 w l2, l = l1 ++ w :: l2 -> l1 <> [] ->
      exists u, In u l1 /\ In w (nbrs g eok u).

  Record good (s : nat) (l : list nat) : Prop := {
    good_head : exists t, l = s :: t;
    good_nodup : NoDup l;
    good_reach : forall v, In v l -> reach g vok eok s v;
    good_earlier : earlier_nbr l }.

  Definition closed (l : list nat) : Prop :=
    forall v c, In v l -> In c (nbrs g eok v) -> vok c = true -> In c l.

  Lemma good_singleton s : vok s = true -> good s [s].
  Proof.
    intros Hs. constructor.
    - exists []; reflexivity.
    - constructor; [intros []|constructor].
    - intros v [H|[]]; subst. apply reach_refl; exact Hs.
    - intros l1 w l2 H Hne. destruct l1 as [|a l1]; [congruence|].
      simpl in H. inversion H. destruct l1; discriminate.
  Qed.

  Lemma good_snoc s l u c :
    good s l -> In u l -> In c (nbrs g eok u) -> vok c = true -> ~ In c l ->
    good s (l ++ [c]).
  Proof.
    intros [[t Ht] Hnd Hr He] Hu Hn Hc Hnew. constructor.
    - exists (t ++ [c]). subst l. reflexivity.
    - apply NoDup_snoc; assumption.
    - intros v Hv. apply in_app_iff in Hv. destruct Hv as [Hv|[Hv|[]]].
      + apply Hr; exact Hv.
      + subst v. eapply reach_step; [apply Hr; exact Hu|exact Hn|exact Hc].
    - intros l1 w l2 Heq Hne.
      destruct (list_nil_or_snoc l2) as [H2|[l2' [x H2]]]; subst l2.
      + apply app_inj_tail in Heq. destruct Heq as [Hl Hw]. subst l1 w.
        exists u. split; assumption.
      + change (l1 ++ w :: l2' ++ [x]) with (l1 ++ (w :: l2') ++ [x]) in Heq.
        rewrite app_assoc in Heq. apply app_inj_tail in Heq. destruct Heq as [Hl _].
        eapply He; eassumption.
  Qed.

  Lemma add_new_ext cand l : exists ext, add_new vok cand l = l ++ ext.
  Proof.
    revert l. induction cand as [|c r IH]; intros l; simpl.
    - exists []. rewrite app_nil_r; reflexivity.
    - destruct (vok c && negb (mem c l)).
      + destruct (IH (l ++ [c])) as [ext H]. exists (c :: ext). rewrite H.
        rewrite <- app_assoc. reflexivity.
      + apply IH.
  Qed.

  Lemma add_new_incl cand l x : In x l -> In x (add_new vok cand l).
  Proof.
    intros H. destruct (add_new_ext cand l) as [ext He]. rewrite He.
    apply in_app_iff; left; exact H.
  Qed.

  Lemma add_new_complete cand l c :
    In c cand -> vok c = true -> In c (add_new vok cand l).
  Proof.
    revert l. induction cand as [|c0 r IH]; intros l Hin Hc; [destruct Hin|].
    simpl. destruct Hin as [Heq|Hin].
    - subst c0. rewrite Hc. simpl. destruct (mem c l) eqn:Hm; simpl.
      + apply add_new_incl. apply mem_In; exact Hm.
      + apply add_new_incl. apply in_app_iff; right; left; reflexivity.
    - destruct (vok c0 && negb (mem c0 l)); apply IH; assumption.
  Qed.

  Lemma add_new_good s cand l u :
    good s l -> In u l -> (forall c, In c cand -> In c (nbrs g eok u)) ->
    good s (add_new vok cand l).
  Proof.
    revert l. induction cand as [|c r IH]; intros l Hg Hu Hc; simpl; [exact Hg|].
    destruct (vok c) eqn:Hv; simpl.
    - destruct (mem c l) eqn:Hm; simpl.
      + apply IH; [exact Hg|exact Hu|]. intros; apply Hc; right; assumption.
      + apply IH.
        * apply good_snoc with u; try assumption.
          -- apply Hc; left; reflexivity.
          -- apply mem_not_In; exact Hm.
        * apply in_app_iff; left; exact Hu.
        * intros; apply Hc; right; assumption.
    - apply IH; [exact Hg|exact Hu|]. intros; apply Hc; right; assumption.
  Qed.

  Lemma fold_sweep s vs acc :
    good s acc -> incl vs acc ->
    let r := fold_left (fun a v => add_new vok (nbrs g eok v) a) vs acc in
    good s r /\ (exists ext, r = acc ++ ext) /\
    (forall v c, In v vs -> In c (nbrs g eok v) -> vok c = true -> In c r).
  Proof.
    revert acc. induction vs as [|v vs IH]; intros acc Hg Hi; simpl.
    - split; [exact Hg|]. split; [exists []; rewrite app_nil_r; reflexivity|].
      intros v c [].
    - destruct (add_new_ext (nbrs g eok v) acc) as [ext1 He1].
      assert (Hg1 : good s (add_new vok (nbrs g eok v) acc)).
      { apply add_new_good with v; [exact Hg|apply Hi; left; reflexivity|auto]. }
      assert (Hi1 : incl vs (add_new vok (nbrs g eok v) acc)).
      { intros x Hx. apply add_new_incl. apply Hi; right; exact Hx. }
      destruct (IH _ Hg1 Hi1) as [Hg2 [[ext2 He2] Hc2]].
      split; [exact Hg2|]. split.
      + exists (ext1 ++ ext2). rewrite He2, He1, app_assoc. reflexivity.
      + intros v' c [Hv|Hv] Hn Hc.
        * subst v'. rewrite He2. apply in_app_iff; left.
          apply add_new_complete; assumption.
        * eapply Hc2; eassumption.
  Qed.

  Lemma sweep_props s l :
    good s l ->
    good s (sweep g vok eok l) /\ (exists ext, sweep g vok eok l = l ++ ext) /\
    (forall v c, In v l -> In c (nbrs g eok v) -> vok c = true -> In c (sweep g vok eok l)).
  Proof. intros Hg. apply (fold_sweep s l l Hg). intros x Hx; exact Hx. Qed.

  Lemma grow_good s fuel l : good s l -> good s (grow fuel g vok eok l).
  Proof.
    revert l. induction fuel as [|f IH]; intros l Hg; simpl; [exact Hg|].
    destruct (Nat.eqb _ _); [exact Hg|]. apply IH. apply sweep_props; exact Hg.
  Qed.

  Lemma good_length s l :
    wf_graph g = true -> s < nv g -> good s l -> length l <= nv g.
  Proof.
    intros Hwf Hs Hg. apply NoDup_bounded_length; [apply (good_nodup _ _ Hg)|].
    intros v Hv. eapply reach_lt; [exact Hwf|exact Hs|]. apply (good_reach _ _ Hg); exact Hv.
  Qed.

  Lemma grow_closed s :
    wf_graph g = true -> s < nv g ->
    forall fuel l, good s l -> nv g < fuel + length l -> closed (grow fuel g vok eok l).
  Proof.
    intros Hwf Hs. induction fuel as [|f IH]; intros l Hg Hf; simpl.
    - pose proof (good_length s l Hwf Hs Hg). simpl in Hf. lia.
    - destruct (sweep_props s l Hg) as [Hg' [[ext He] Hc]].
      destruct (Nat.eqb_spec (length (sweep g vok eok l)) (length l)) as [Hl|Hl].
      + assert (ext = []).
        { rewrite He, app_length in Hl. destruct ext; [reflexivity|simpl in Hl; lia]. }
        subst ext. rewrite app_nil_r in He. rewrite He in Hc. exact Hc.
      + apply IH; [exact Hg'|]. rewrite He, app_length in *. lia.
  Qed.

  Lemma closed_reach s l :
    closed l -> In s l -> forall v, reach g vok eok s v -> In v l.
  Proof.
    intros Hc Hs v H. induction H as [u Hu|u v w Huv IH Hn Hw]; [exact Hs|].
    apply (Hc v w); [apply IH; exact Hs|exact Hn|exact Hw].
  Qed.
End Flood.

(* ------------------------------------------------------------------------ *)
(* component                                                                 *)

Lemma component_good g vok eok s :
  vok s = true -> good g vok eok s (component g vok eok s).
Proof.
  intros Hs. unfold component. rewrite Hs. apply grow_good. apply good_singleton; exact Hs.
Qed.

Lemma component_not_ok g vok eok s : vok s = false -> component g vok eok s = [].
Proof. intros Hs. unfold component. rewrite Hs. reflexivity. Qed.

Lemma component_head g vok eok s :
  vok s = true -> exists t, component g vok eok s = s :: t.
Proof. intros Hs. apply (good_head _ _ _ _ _ (component_good g vok eok s Hs)). Qed.

Lemma component_nodup g vok eok s : NoDup (component g vok eok s).
Proof.
  destruct (vok s) eqn:Hs.
  - apply (good_nodup _ _ _ _ _ (component_good g vok eok s Hs)).
  - rewrite component_not_ok by exact Hs. constructor.
Qed.

Lemma component_sound g vok eok s v :
  In v (component g vok eok s) -> reach g vok eok s v.
Proof.
  destruct (vok s) eqn:Hs.
  - apply (good_reach _ _ _ _ _ (component_good g vok eok s Hs)).
  - rewrite component_not_ok by exact Hs. intros [].
Qed.

Lemma component_complete g vok eok s v :
  wf_graph g = true -> s < nv g ->
  reach g vok eok s v -> In v (component g vok eok s).
Proof.
  intros Hwf Hlt H. pose proof (reach_vok_start _ _ _ _ _ H) as Hs.
  assert (Hc : closed g vok eok (component g vok eok s)).
  { unfold component. rewrite Hs. apply grow_closed with s; try assumption.
    - apply good_singleton; exact Hs.
    - simpl. lia. }
  apply (closed_reach g vok eok s _ Hc); [|exact H].
  destruct (component_head g vok eok s Hs) as [t Ht]. rewrite Ht. left; reflexivity.
Qed.

Theorem component_spec g vok eok s v :
  wf_graph g = true -> s < nv g ->
  (In v (component g vok eok s) <-> reach g vok eok s v).
Proof.
  intros Hwf Hs. split; [apply component_sound|apply component_complete; assumption].
Qed.

Lemma component_vok g vok eok s v : In v (component g vok eok s) -> vok v = true.
Proof. intros H. eapply reach_vok_end. apply component_sound; exact H. Qed.

Lemma component_lt g vok eok s v :
  wf_graph g = true -> s < nv g -> In v (component g vok eok s) -> v < nv g.
Proof. intros Hwf Hs H. eapply reach_lt; [exact Hwf|exact Hs|apply component_sound; exact H]. Qed.

Theorem component_length g vok eok s :
  wf_graph g = true -> s < nv g -> length (component g vok eok s) <= nv g.
Proof.
  intros Hwf Hs. apply NoDup_bounded_length; [apply component_nodup|].
  intros v Hv. eapply component_lt; eassumption.
Qed.

(* every element other than the first has a neighbour (through an allowed
   edge) occurring earlier in the list; the neighbour relation is given in both
   orientations (it is symmetric, [nbrs_sym]) *)
Theorem component_earlier_nbr g vok eok s l1 w l2 :
  component g vok eok s = l1 ++ w :: l2 -> l1 <> [] ->
  exists u, In u l1 /\ In w (nbrs g eok u) /\ In u (nbrs g eok w).
Proof.
  intros Heq Hne. destruct (vok s) eqn:Hs.
  - destruct (good_earlier _ _ _ _ _ (component_good g vok eok s Hs) l1 w l2 Heq Hne)
      as [u [Hu Hn]].
    exists u. split; [exact Hu|]. split; [exact Hn|apply nbrs_sym; exact Hn].
  - rewrite component_not_ok in Heq by exact Hs. destruct l1; discriminate.
Qed.

(* the same by positions *)
Theorem component_earlier_nbr_nth g vok eok s p w :
  nth_error (component g vok eok s) p = Some w -> 0 < p ->
  exists q u, q < p /\ nth_error (component g vok eok s) q = Some u /\
              In w (nbrs g eok u) /\ In u (nbrs g eok w).
Proof.
  intros Hn Hp. destruct (nth_error_split _ _ Hn) as [l1 [l2 [Heq Hlen]]].
  assert (Hne : l1 <> []) by (intros ->; simpl in Hlen; lia).
  destruct (component_earlier_nbr g vok eok s l1 w l2 Heq Hne) as [u [Hu [H1 H2]]].
  destruct (In_nth_error _ _ Hu) as [q Hq].
  assert (Hql : q < length l1) by (apply nth_error_Some; congruence).
  exists q, u. split; [lia|]. split; [|split; assumption].
  rewrite Heq. rewrite nth_error_app1 by exact Hql. exact Hq.
Qed.

(* ------------------------------------------------------------------------ *)
(* connected_b                                                               *)

Theorem connected_b_spec g act :
  wf_graph g = true -> (connected_b g act = true <-> connected g act).
Proof.
  intros Hwf. unfold connected_b, connected.
  destruct (filter act (seq 0 (nv g))) as [|s l] eqn:Hf.
  - split; [|reflexivity]. intros _ u v Hu Hv Hau Hav. exfalso.
    assert (In u (filter act (seq 0 (nv g)))).
    { apply filter_In. split; [apply in_seq; lia|exact Hau]. }
    rewrite Hf in H. destruct H.
  - assert (Hs : In s (filter act (seq 0 (nv g)))) by (rewrite Hf; left; reflexivity).
    apply filter_In in Hs. destruct Hs as [Hs Has]. apply in_seq in Hs.
    assert (Hlt : s < nv g) by lia.
    rewrite forallb_forall. split.
    + intros H u v Hu Hv Hau Hav.
      assert (Hin : forall x, x < nv g -> act x = true -> reach g act all_edges_ok s x).
      { intros x Hx Hax. apply component_sound. apply mem_In.
        assert (Hxl : In x (filter act (seq 0 (nv g)))).
        { apply filter_In. split; [apply in_seq; lia|exact Hax]. }
        rewrite Hf in Hxl. destruct Hxl as [Hxl|Hxl]; [|exact (H x Hxl)].
        subst x. apply mem_In. destruct (component_head g act all_edges_ok s Has) as [t Ht].
        rewrite Ht; left; reflexivity. }
      apply reach_trans with s; [apply reach_sym|]; apply Hin; assumption.
    + intros H x Hx. apply mem_In. apply component_complete; [exact Hwf|exact Hlt|].
      assert (Hx' : In x (filter act (seq 0 (nv g)))) by (rewrite Hf; right; exact Hx).
      clear Hx. rename Hx' into Hx. apply filter_In in Hx. destruct Hx as [Hx Hax].
      apply in_seq in Hx. apply H; try assumption; lia.
Qed.
