From Coq Require Import ZArith List Bool Arith.
From Cspuz Require Import Graph.GraphModel Graph.ReachProofs Graph.Avc.
Theorem connected_b_decides : forall g act,
  wf_graph g = true -> (connected_b g act = true <-> connected g act).
Proof. exact connected_b_spec. Qed.
Print Assumptions connected_b_decides.
