"""C11 plug-in: fivecells (solve_fivecells(height, width, problem)); -2 hole, -1 no number, 0..4 number."""
import c11lib as L

NAME = "fivecells"
MODULE = "cspuz.puzzle.fivecells"
FUNC = "solve_fivecells"
T2_PER_FILE = 2


def call(mod, pb):
    return mod.solve_fivecells(pb["h"], pb["w"], pb["grid"])


def _nedges(pb):
    g, h, w = pb["grid"], pb["h"], pb["w"]
    n = 0
    for y in range(h):
        for x in range(w):
            if g[y][x] >= -1:
                if y + 1 < h and g[y + 1][x] >= -1:
                    n += 1
                if x + 1 < w and g[y][x + 1] >= -1:
                    n += 1
    return n


def ncand(pb):
    return 2 ** _nedges(pb)


def encode(pb):
    return [[pb["h"], pb["w"]], L.flat(pb["grid"])]


def _rand(rng, h, w, holes, pnum):
    cells = [(y, x) for y in range(h) for x in range(w)]
    hs = set(rng.sample(cells, holes))
    return {"h": h, "w": w, "grid": [[-2 if (y, x) in hs else (-1 if rng.random() > pnum else rng.randint(0, 4))
                                      for x in range(w)] for y in range(h)]}


def families(tier, rng):
    th = tier == "thorough"
    for (h, w, holes) in [(1, 1, 0), (1, 2, 0), (1, 5, 0), (5, 1, 0), (2, 3, 1), (3, 2, 1), (2, 2, 0), (2, 3, 0), (3, 3, 4),
                          (2, 5, 0), (5, 2, 0), (3, 4, 2), (4, 3, 2), (3, 3, 0), (1, 6, 1), (2, 6, 2)]:
        for pnum in (0.0, 0.3, 0.7):
            for _ in range(40 if th else 5):
                pb = _rand(rng, h, w, holes, pnum)
                if _nedges(pb) <= 16:
                    yield pb


def tier2(tier, rng):
    th = tier == "thorough"
    if th:
        yield _rand(rng, 2, 3, 1, 0.4)
    for (h, w, holes, k) in [(1, 1, 0, 4), (1, 5, 0, 2), (5, 1, 0, 2), (2, 2, 0, 4)]:
        for _ in range(k if th else 1):
            yield _rand(rng, h, w, holes, 0.4)
