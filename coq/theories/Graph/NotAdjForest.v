(* C08, level S: the rank certificate "ranks differ on adjacent vertices, an
   active vertex has at most one active neighbour of smaller rank, a pinned
   one none" is satisfiable exactly when the active vertices induce a forest
   in which no two distinct pinned vertices are joined.  Generic in the graph
   (neighbour lists on 0..n-1); instantiated with the diagonal neighbours of
   a grid in NotAdjDiag.v. *)
From Coq Require Import ZArith List Bool Arith Lia.
From Cspuz Require Import Graph.GraphModel Graph.ReachProofs Graph.NotAdj.
Import ListNotations.
Local Open Scope nat_scope.

(* ------------------------------------------------------------------------ *)
(* list facts                                                                *)

Lemma filter_length_le {A} (f : A -> bool) l : length (filter f l) <= length l.
Proof. induction l as [|a l IH]; simpl; [lia|]. destruct (f a); simpl; lia. Qed.

Lemma filter_ext_in' {A} (f g : A -> bool) l :
  (forall x, In x l -> f x = g x) -> filter f l = filter g l.
Proof.
  induction l as [|a l IH]; intros H; simpl; [reflexivity|].
  rewrite (H a (or_introl eq_refl)), IH; [reflexivity|]. intros x Hx. apply H. right. exact Hx.
Qed.

Lemma filter_nil_iff {A} (f : A -> bool) l : filter f l = [] <-> forall x, In x l -> f x = false.
Proof.
  induction l as [|a l IH]; simpl.
  - split; [intros _ x []|reflexivity].
  - destruct (f a) eqn:E.
    + split; [discriminate|]. intros H. rewrite (H a (or_introl eq_refl)) in E. discriminate.
    + rewrite IH. split.
      * intros H x [<-|Hx]; [exact E|apply H; exact Hx].
      * intros H x Hx. apply H. right. exact Hx.
Qed.

(* a filtered duplicate-free list with two elements yields two different members *)
Lemma filter_two {A} (f : A -> bool) l :
  NoDup l -> 2 <= length (filter f l) ->
  exists a b, a <> b /\ In a l /\ In b l /\ f a = true /\ f b = true.
Proof.
  intros Hnd Hlen. assert (Hnd' : NoDup (filter f l)) by (apply NoDup_filter; exact Hnd).
  destruct (filter f l) as [|a [|b r]] eqn:E; simpl in Hlen; try lia.
  assert (Ha : In a (filter f l)) by (rewrite E; left; reflexivity).
  assert (Hb : In b (filter f l)) by (rewrite E; right; left; reflexivity).
  apply filter_In in Ha. apply filter_In in Hb.
  exists a, b. inversion Hnd' as [|? ? Hna _]. subst.
  split; [intros ->; apply Hna; left; reflexivity|]. tauto.
Qed.

Lemma app_snoc_split {A} (l pre post : list A) (v x : A) :
  l ++ [v] = pre ++ x :: post ->
  (exists post', post = post' ++ [v] /\ l = pre ++ x :: post') \/ (post = [] /\ x = v /\ pre = l).
Proof.
  revert pre. induction l as [|a l IH]; intros pre H.
  - destruct pre as [|p pre]; simpl in H.
    + inversion H; subst. right. auto.
    + inversion H. destruct pre; discriminate.
  - destruct pre as [|p pre]; simpl in H.
    + inversion H; subst. left. exists l. auto.
    + inversion H; subst. destruct (IH pre H2) as [[post' [H3 H4]]|[H3 [H4 H5]]].
      * left. exists post'. split; [exact H3|]. simpl. rewrite H4. reflexivity.
      * right. subst. auto.
Qed.

Lemma NoDup_split_unique {A} (l : list A) : forall p1 q1 p2 q2 v,
  NoDup l -> l = p1 ++ v :: q1 -> l = p2 ++ v :: q2 -> p1 = p2 /\ q1 = q2.
Proof.
  induction l as [|a l IH]; intros p1 q1 p2 q2 v Hnd H1 H2.
  - destruct p1; discriminate.
  - inversion Hnd as [|? ? Hna Hnd']. subst.
    destruct p1 as [|x p1]; destruct p2 as [|y p2]; simpl in *.
    + injection H1 as E1 E2. injection H2 as E3 E4. subst. auto.
    + injection H1 as E1 E2. injection H2 as E3 E4. subst. exfalso. apply Hna.
      apply in_or_app. right. left. reflexivity.
    + injection H1 as E1 E2. injection H2 as E3 E4. subst. exfalso. apply Hna.
      apply in_or_app. right. left. reflexivity.
    + injection H1 as E1 E2. injection H2 as E3 E4. subst.
      destruct (IH p1 q1 p2 q2 v Hnd' eq_refl E4) as [-> ->]. auto.
Qed.

Lemma NoDup_app_intro {A} (l1 l2 : list A) :
  NoDup l1 -> NoDup l2 -> (forall x, In x l1 -> In x l2 -> False) -> NoDup (l1 ++ l2).
Proof.
  induction l1 as [|a l1 IH]; intros H1 H2 H; simpl; [exact H2|].
  inversion H1 as [|? ? Hna Hnd]; subst. constructor.
  - intros Hin. apply in_app_or in Hin. destruct Hin as [Hin|Hin]; [contradiction|].
    apply (H a); [left; reflexivity|exact Hin].
  - apply IH; [exact Hnd|exact H2|]. intros x Hx1 Hx2. apply (H x); [right; exact Hx1|exact Hx2].
Qed.

Lemma find_some_seq (f : nat -> bool) n v :
  find f (seq 0 n) = Some v -> v < n /\ f v = true.
Proof. intros H. apply find_some in H. destruct H as [H1 H2]. apply in_seq in H1. split; [lia|exact H2]. Qed.

Lemma find_none_seq (f : nat -> bool) n :
  find f (seq 0 n) = None -> forall v, v < n -> f v = false.
Proof. intros H v Hv. apply (find_none _ _ H). apply in_seq. lia. Qed.

(* ------------------------------------------------------------------------ *)

Section ForestCert.
  Variable n : nat.
  Variable nb : nat -> list nat.
  Variables act pin : nat -> bool.
  Hypothesis nb_lt : forall v u, v < n -> In u (nb v) -> u < n.
  Hypothesis nb_sym : forall v u, v < n -> In u (nb v) -> In v (nb u).
  Hypothesis nb_irrefl : forall v, ~ In v (nb v).
  Hypothesis nb_nodup : forall v, NoDup (nb v).

  Definition cap (v : nat) : nat := if pin v then 0 else 1.

  Definition lowers (rank : nat -> Z) (v : nat) : list nat :=
    filter (fun u => (rank u <? rank v)%Z && act u) (nb v).

  (* the certificate, symmetric form *)
  Definition g_cert (rank : nat -> Z) : Prop :=
    (forall v u, v < n -> In u (nb v) -> rank u <> rank v) /\
    (forall v, v < n -> act v = true -> length (lowers rank v) <= cap v).

  Notation walk := (gwalk n nb act).

  (* ---- facts about walks *)
  Lemma walk_lt av u v : walk av u v -> u < n /\ v < n.
  Proof.
    induction 1 as [v Hv Ha|u v x Hw IH Hx Hax Hav]; [tauto|].
    destruct IH as [H1 H2]. split; [exact H1|]. apply (nb_lt v x H2 Hx).
  Qed.
  Lemma walk_act av u v : walk av u v -> act u = true /\ act v = true.
  Proof. induction 1 as [v Hv Ha|u v x Hw IH Hx Hax Hav]; tauto. Qed.
  Lemma walk_trans av u v x : walk av u v -> walk av v x -> walk av u x.
  Proof.
    intros H1 H2. induction H2 as [v Hv Ha|v y x Hw IH Hx Hax Hav]; [exact H1|].
    eapply gwalk_step; [apply IH; exact H1|exact Hx|exact Hax|exact Hav].
  Qed.
  Lemma same_pair_sym a b c d : same_pair a b c d -> same_pair b a c d.
  Proof. unfold same_pair. tauto. Qed.
  Lemma walk_one av v x :
    v < n -> act v = true -> In x (nb v) -> act x = true ->
    (forall a b, av = Some (a, b) -> ~ same_pair v x a b) -> walk av v x.
  Proof. intros Hv Ha Hx Hax Hav. eapply gwalk_step; [apply gwalk_refl; assumption|exact Hx|exact Hax|exact Hav]. Qed.
  Lemma walk_sym av u v : walk av u v -> walk av v u.
  Proof.
    induction 1 as [v Hv Ha|u v x Hw IH Hx Hax Hav]; [apply gwalk_refl; assumption|].
    destruct (walk_lt _ _ _ Hw) as [_ Hvn]. destruct (walk_act _ _ _ Hw) as [_ Hav'].
    apply walk_trans with v; [|exact IH].
    apply walk_one; [apply (nb_lt v x Hvn Hx)|exact Hax|apply nb_sym; assumption|exact Hav'|].
    intros a b E Hs. apply (Hav a b E). apply same_pair_sym. exact Hs.
  Qed.

  (* ====================================================================== *)
  (* soundness: a certificate with non-negative ranks implies the forest     *)

  Section Sound.
    Variable rank : nat -> Z.
    Hypothesis Hcert : g_cert rank.
    Hypothesis Hnonneg : forall v, v < n -> (0 <= rank v)%Z.

    Definition parent (v : nat) : option nat := hd_error (lowers rank v).

    Lemma parent_some v u : parent v = Some u -> In u (nb v) /\ (rank u < rank v)%Z /\ act u = true.
    Proof.
      unfold parent. intros H. assert (Hin : In u (lowers rank v)).
      { destruct (lowers rank v); simpl in H; [discriminate|]. inversion H; left; reflexivity. }
      apply filter_In in Hin. destruct Hin as [H1 H2]. apply andb_true_iff in H2. destruct H2 as [H2 H3].
      apply Z.ltb_lt in H2. tauto.
    Qed.

    Lemma parent_unique v u :
      v < n -> act v = true -> In u (nb v) -> act u = true -> (rank u < rank v)%Z -> parent v = Some u.
    Proof.
      intros Hv Ha Hu Hau Hlt. destruct Hcert as [_ Hc]. specialize (Hc v Hv Ha).
      assert (Hin : In u (lowers rank v)).
      { apply filter_In. split; [exact Hu|]. apply andb_true_iff. split; [apply Z.ltb_lt; exact Hlt|exact Hau]. }
      unfold parent. unfold cap in Hc. destruct (lowers rank v) as [|a [|b r]]; simpl in *.
      - destruct Hin.
      - destruct Hin as [->|[]]. reflexivity.
      - destruct (pin v); lia.
    Qed.

    Lemma pinned_no_parent v : v < n -> act v = true -> pin v = true -> parent v = None.
    Proof.
      intros Hv Ha Hp. destruct Hcert as [_ Hc]. specialize (Hc v Hv Ha). unfold cap in Hc. rewrite Hp in Hc.
      unfold parent. destruct (lowers rank v); [reflexivity|simpl in Hc; lia].
    Qed.

    (* follow parent pointers; [blk] is a vertex whose pointer is cut *)
    Fixpoint root (blk : option nat) (fuel : nat) (v : nat) : nat :=
      match fuel with
      | O => v
      | S f =>
          if (match blk with Some c => Nat.eqb c v | None => false end) then v
          else match parent v with None => v | Some u => root blk f u end
      end.
    Definition rt (blk : option nat) (v : nat) : nat := root blk (Z.to_nat (rank v)) v.

    Lemma root_fuel blk : forall f f' v, v < n ->
      Z.to_nat (rank v) <= f -> Z.to_nat (rank v) <= f' -> root blk f v = root blk f' v.
    Proof.
      induction f as [|f IH]; intros f' v Hv H1 H2.
      - assert (Hr : rank v = 0%Z) by (pose proof (Hnonneg v Hv); lia).
        destruct f'; simpl; [reflexivity|].
        destruct (match blk with Some c => Nat.eqb c v | None => false end); [reflexivity|].
        destruct (parent v) as [u|] eqn:E; [|reflexivity].
        apply parent_some in E. destruct E as [E1 [E2 _]]. pose proof (Hnonneg u (nb_lt v u Hv E1)). lia.
      - destruct f' as [|f'].
        + assert (Hr : rank v = 0%Z) by (pose proof (Hnonneg v Hv); lia). simpl.
          destruct (match blk with Some c => Nat.eqb c v | None => false end); [reflexivity|].
          destruct (parent v) as [u|] eqn:E; [|reflexivity].
          apply parent_some in E. destruct E as [E1 [E2 _]]. pose proof (Hnonneg u (nb_lt v u Hv E1)). lia.
        + simpl. destruct (match blk with Some c => Nat.eqb c v | None => false end); [reflexivity|].
          destruct (parent v) as [u|] eqn:E; [|reflexivity].
          apply parent_some in E. destruct E as [E1 [E2 _]].
          pose proof (Hnonneg u (nb_lt v u Hv E1)). pose proof (Hnonneg v Hv).
          apply IH; [apply (nb_lt v u Hv E1)|lia|lia].
    Qed.

    Lemma root_rank blk : forall f v, v < n -> (rank (root blk f v) <= rank v)%Z /\ root blk f v < n.
    Proof.
      induction f as [|f IH]; intros v Hv; simpl; [split; [lia|exact Hv]|].
      destruct (match blk with Some c => Nat.eqb c v | None => false end); [split; [lia|exact Hv]|].
      destruct (parent v) as [u|] eqn:E; [|split; [lia|exact Hv]].
      apply parent_some in E. destruct E as [E1 [E2 _]].
      destruct (IH u (nb_lt v u Hv E1)) as [H1 H2]. split; [lia|exact H2].
    Qed.

    Lemma rt_blocked c : rt (Some c) c = c.
    Proof. unfold rt. destruct (Z.to_nat (rank c)); simpl; [reflexivity|]. rewrite Nat.eqb_refl. reflexivity. Qed.

    Lemma rt_step blk v u :
      v < n -> (match blk with Some c => Nat.eqb c v | None => false end) = false ->
      parent v = Some u -> rt blk v = rt blk u.
    Proof.
      intros Hv Hb E. pose proof (parent_some v u E) as [E1 [E2 _]].
      pose proof (Hnonneg u (nb_lt v u Hv E1)) as Hu.
      unfold rt. destruct (Z.to_nat (rank v)) as [|f] eqn:Ef; [lia|].
      simpl. rewrite Hb, E. apply root_fuel; [apply (nb_lt v u Hv E1)|lia|lia].
    Qed.

    Lemma rt_no_parent blk v : parent v = None -> rt blk v = v.
    Proof.
      intros E. unfold rt. destruct (Z.to_nat (rank v)); simpl; [reflexivity|]. rewrite E.
      destruct (match blk with Some c => Nat.eqb c v | None => false end); reflexivity.
    Qed.

    (* one step between active vertices keeps the root, unless it is the cut step *)
    Lemma rt_edge blk v x :
      v < n -> act v = true -> In x (nb v) -> act x = true ->
      (forall c d, blk = Some c -> parent c = Some d -> ~ same_pair v x c d) ->
      rt blk v = rt blk x.
    Proof.
      intros Hv Ha Hx Hax Hcut. assert (Hxn : x < n) by apply (nb_lt v x Hv Hx).
      assert (Hvx : In v (nb x)) by (apply nb_sym; assumption).
      destruct Hcert as [Hprop _]. pose proof (Hprop v x Hv Hx) as Hne.
      destruct (Z.lt_total (rank x) (rank v)) as [Hlt|[Heq|Hgt]]; [|congruence|].
      - pose proof (parent_unique v x Hv Ha Hx Hax Hlt) as E.
        apply rt_step; [exact Hv| |exact E].
        destruct blk as [c|]; [|reflexivity]. destruct (Nat.eqb_spec c v) as [->|]; [|reflexivity].
        exfalso. apply (Hcut v x eq_refl E). left. auto.
      - pose proof (parent_unique x v Hxn Hax Hvx Ha Hgt) as E.
        symmetry. apply rt_step; [exact Hxn| |exact E].
        destruct blk as [c|]; [|reflexivity]. destruct (Nat.eqb_spec c x) as [->|]; [|reflexivity].
        exfalso. apply (Hcut x v eq_refl E). right. auto.
    Qed.

    Lemma walk_rt_none u v : walk None u v -> rt None u = rt None v.
    Proof.
      induction 1 as [v Hv Ha|u v x Hw IH Hx Hax Hav]; [reflexivity|].
      rewrite IH. destruct (walk_lt _ _ _ Hw) as [_ Hvn]. destruct (walk_act _ _ _ Hw) as [_ Hav'].
      apply rt_edge; try assumption. intros c d E. discriminate.
    Qed.

    Lemma walk_rt_cut p q c d u v :
      walk (Some (p, q)) u v -> parent c = Some d -> same_pair c d p q ->
      rt (Some c) u = rt (Some c) v.
    Proof.
      intros Hw Hpar Hsp. induction Hw as [v Hv Ha|u v x Hw IH Hx Hax Hav]; [reflexivity|].
      rewrite IH. destruct (walk_lt _ _ _ Hw) as [_ Hvn]. destruct (walk_act _ _ _ Hw) as [_ Hav'].
      apply rt_edge; try assumption. intros c' d' E Hpar' Hs. inversion E; subst c'.
      rewrite Hpar in Hpar'. inversion Hpar'; subst d'.
      apply (Hav p q eq_refl). unfold same_pair in *. lia.
    Qed.

    Theorem cert_sound_forest : g_forest n nb act.
    Proof.
      intros a b Ha Haa Hab Hb Hw. assert (Hbn : b < n) by apply (nb_lt a b Ha Hb).
      assert (Hba : In a (nb b)) by (apply nb_sym; assumption).
      destruct Hcert as [Hprop _]. pose proof (Hprop a b Ha Hb) as Hne.
      destruct (Z.lt_total (rank b) (rank a)) as [Hlt|[Heq|Hgt]]; [|congruence|].
      - (* b is the parent of a: cut at a *)
        pose proof (parent_unique a b Ha Haa Hb Hab Hlt) as E.
        pose proof (walk_rt_cut a b a b a b Hw E (or_introl (conj eq_refl eq_refl))) as H.
        rewrite rt_blocked in H. pose proof (root_rank (Some a) (Z.to_nat (rank b)) b Hbn) as [H1 _].
        unfold rt in H. rewrite <- H in H1. lia.
      - (* a is the parent of b: cut at b *)
        pose proof (parent_unique b a Hbn Hab Hba Haa Hgt) as E.
        pose proof (walk_rt_cut a b b a a b Hw E (or_intror (conj eq_refl eq_refl))) as H.
        rewrite rt_blocked in H. pose proof (root_rank (Some b) (Z.to_nat (rank a)) a Ha) as [H1 _].
        unfold rt in H. rewrite H in H1. lia.
    Qed.

    Theorem cert_sound_pins : g_one_pin n nb act pin.
    Proof.
      intros u v Hpu Hpv Hw. pose proof (walk_rt_none u v Hw) as H.
      destruct (walk_lt _ _ _ Hw) as [Hun Hvn]. destruct (walk_act _ _ _ Hw) as [Hau Hav].
      rewrite (rt_no_parent None u (pinned_no_parent u Hun Hau Hpu)) in H.
      rewrite (rt_no_parent None v (pinned_no_parent v Hvn Hav Hpv)) in H. exact H.
    Qed.
  End Sound.

  (* ====================================================================== *)
  (* completeness: from the forest, an order of all vertices in which an      *)
  (* active vertex has at most [cap] earlier active neighbours               *)

  Section Complete.
    Hypothesis Hforest : g_forest n nb act.
    Hypothesis Hpins : g_one_pin n nb act pin.

    Definition within (acc : list nat) : nat -> bool := fun v => act v && mem v acc.

    Record inv (acc : list nat) : Prop := {
      inv_nodup : NoDup acc;
      inv_act : forall v, In v acc -> v < n /\ act v = true;
      inv_pins : forall v, v < n -> act v = true -> pin v = true -> In v acc;
      inv_ok : forall pre v post, acc = pre ++ v :: post ->
                 length (filter (fun u => mem u pre) (nb v)) <= cap v;
      inv_cc : forall u v, In u acc -> In v acc -> walk None u v -> gwalk n nb (within acc) None u v
    }.

    Lemma within_mono acc acc' u v :
      (forall x, In x acc -> In x acc') ->
      gwalk n nb (within acc) None u v -> gwalk n nb (within acc') None u v.
    Proof.
      intros Hsub. assert (Hm : forall x, within acc x = true -> within acc' x = true).
      { intros x H. unfold within in *. apply andb_true_iff in H. destruct H as [H1 H2].
        apply andb_true_iff. split; [exact H1|]. apply mem_In. apply Hsub. apply mem_In. exact H2. }
      induction 1 as [v Hv Ha|u v x Hw IH Hx Hax Hav].
      - apply gwalk_refl; [exact Hv|apply Hm; exact Ha].
      - eapply gwalk_step; [exact IH|exact Hx|apply Hm; exact Hax|intros; discriminate].
    Qed.

    Lemma within_trans acc u v x :
      gwalk n nb (within acc) None u v -> gwalk n nb (within acc) None v x ->
      gwalk n nb (within acc) None u x.
    Proof.
      intros H1 H2. induction H2 as [v Hv Ha|v y x Hw IH Hx Hax Hav]; [exact H1|].
      eapply gwalk_step; [apply IH; exact H1|exact Hx|exact Hax|exact Hav].
    Qed.

    (* a walk inside [acc] never uses a step at a vertex outside [acc] *)
    Lemma within_avoids acc c d u v :
      ~ In c acc -> gwalk n nb (within acc) None u v -> walk (Some (c, d)) u v.
    Proof.
      intros Hc. induction 1 as [v Hv Ha|u v x Hw IH Hx Hax Hav].
      - apply gwalk_refl; [exact Hv|]. unfold within in Ha. apply andb_true_iff in Ha. tauto.
      - assert (Hvin : In v acc).
        { assert (Hv' : within acc v = true).
          { clear IH. induction Hw as [v Hv Ha|u v y Hw IH Hy Hay Hav']; assumption. }
          unfold within in Hv'. apply andb_true_iff in Hv'. apply mem_In. tauto. }
        unfold within in Hax. apply andb_true_iff in Hax. destruct Hax as [Hax Hxin]. apply mem_In in Hxin.
        eapply gwalk_step; [exact IH|exact Hx|exact Hax|].
        intros a b E Hs. inversion E; subst a b. unfold same_pair in Hs.
        destruct Hs as [[-> _]|[_ ->]]; contradiction.
    Qed.

    Definition acc0 : list nat := filter (fun v => act v && pin v) (seq 0 n).

    Lemma in_acc0 v : In v acc0 <-> v < n /\ act v = true /\ pin v = true.
    Proof.
      unfold acc0. rewrite filter_In, in_seq, andb_true_iff. split; [intros [H1 [H2 H3]]|intros [H1 [H2 H3]]];
        repeat split; try assumption; lia.
    Qed.

    Lemma inv_init : inv acc0.
    Proof.
      constructor.
      - apply NoDup_filter. apply seq_NoDup.
      - intros v H. apply in_acc0 in H. tauto.
      - intros v H1 H2 H3. apply in_acc0. tauto.
      - intros pre v post E.
        assert (Hv : In v acc0) by (rewrite E; apply in_or_app; right; left; reflexivity).
        apply in_acc0 in Hv. destruct Hv as [Hv [Ha Hp]].
        assert (Hnil : filter (fun u => mem u pre) (nb v) = []).
        { apply filter_nil_iff. intros u Hu. destruct (mem u pre) eqn:Em; [|reflexivity]. exfalso.
          apply mem_In in Em. assert (Hu0 : In u acc0) by (rewrite E; apply in_or_app; left; exact Em).
          apply in_acc0 in Hu0. destruct Hu0 as [Hun [Hau Hpu]].
          assert (v = u).
          { apply Hpins; [exact Hp|exact Hpu|]. apply walk_one; try assumption. intros; discriminate. }
          subst u. apply (nb_irrefl v Hu). }
        rewrite Hnil. simpl. lia.
      - intros u v Hu Hv Hw. apply in_acc0 in Hu. apply in_acc0 in Hv.
        assert (u = v) by (apply Hpins; tauto). subst v.
        apply gwalk_refl; [tauto|]. unfold within. apply andb_true_iff. split; [tauto|].
        apply mem_In. apply in_acc0. tauto.
    Qed.

    (* the vertex picked next *)
    Lemma pick_cases acc v :
      g_pick n nb act acc = Some v ->
      v < n /\ act v = true /\ ~ In v acc /\
      ((exists a, In a (nb v) /\ In a acc) \/
       (forall x, x < n -> act x = true -> ~ In x acc -> forall a, In a (nb x) -> ~ In a acc)).
    Proof.
      unfold g_pick. destruct (find _ (seq 0 n)) as [v'|] eqn:E1.
      - intros H; inversion H; subst v'. apply find_some_seq in E1. destruct E1 as [Hv Hf].
        apply andb_true_iff in Hf. destruct Hf as [Hf Ht]. apply andb_true_iff in Hf. destruct Hf as [Ha Hm].
        apply negb_true_iff in Hm. apply mem_not_In in Hm.
        split; [exact Hv|]. split; [exact Ha|]. split; [exact Hm|]. left.
        unfold g_touches in Ht. apply existsb_exists in Ht. destruct Ht as [a [H1 H2]].
        exists a. split; [exact H1|apply mem_In; exact H2].
      - intros E2. apply find_some_seq in E2. destruct E2 as [Hv Hf].
        apply andb_true_iff in Hf. destruct Hf as [Ha Hm]. apply negb_true_iff in Hm. apply mem_not_In in Hm.
        split; [exact Hv|]. split; [exact Ha|]. split; [exact Hm|]. right.
        intros x Hx Hax Hxm a Hxa Haa. pose proof (find_none_seq _ _ E1 x Hx) as Hf. simpl in Hf.
        rewrite Hax in Hf. apply mem_not_In in Hxm. rewrite Hxm in Hf. simpl in Hf.
        unfold g_touches in Hf. assert (existsb (fun u => mem u acc) (nb x) = true).
        { apply existsb_exists. exists a. split; [exact Hxa|apply mem_In; exact Haa]. }
        congruence.
    Qed.

    Lemma pick_none acc : g_pick n nb act acc = None -> forall v, v < n -> act v = true -> In v acc.
    Proof.
      unfold g_pick. destruct (find _ (seq 0 n)) eqn:E1; [discriminate|]. intros E2 v Hv Ha.
      pose proof (find_none_seq _ _ E2 v Hv) as Hf. simpl in Hf. rewrite Ha in Hf. simpl in Hf.
      apply negb_false_iff in Hf. apply mem_In. exact Hf.
    Qed.

    (* a set of active vertices with no active outside neighbour is closed under walks *)
    Lemma closed_walk acc u v :
      (forall x, x < n -> act x = true -> ~ In x acc -> forall a, In a (nb x) -> ~ In a acc) ->
      In u acc -> walk None u v -> In v acc.
    Proof.
      intros Hcl Hu. induction 1 as [v Hv Ha|u v x Hw IH Hx Hax Hav]; [exact Hu|].
      specialize (IH Hu). destruct (walk_lt _ _ _ Hw) as [_ Hvn].
      destruct (in_dec Nat.eq_dec x acc) as [Hin|Hnin]; [exact Hin|]. exfalso.
      apply (Hcl x (nb_lt v x Hvn Hx) Hax Hnin v); [apply nb_sym; assumption|exact IH].
    Qed.

    Lemma inv_step acc v : inv acc -> g_pick n nb act acc = Some v -> inv (acc ++ [v]).
    Proof.
      intros I Hp. destruct (pick_cases acc v Hp) as [Hv [Ha [Hnin Hcase]]].
      assert (Hsub : forall x, In x acc -> In x (acc ++ [v])) by (intros; apply in_or_app; left; assumption).
      assert (Hvin : In v (acc ++ [v])) by (apply in_or_app; right; left; reflexivity).
      assert (Hwv : within (acc ++ [v]) v = true).
      { unfold within. apply andb_true_iff. split; [exact Ha|apply mem_In; exact Hvin]. }
      assert (Hnp : pin v = false).
      { destruct (pin v) eqn:E; [|reflexivity]. exfalso. apply Hnin. apply (inv_pins acc I); assumption. }
      constructor.
      - apply NoDup_snoc; [apply (inv_nodup acc I)|exact Hnin].
      - intros x Hx. apply in_app_or in Hx. destruct Hx as [Hx|[<-|[]]]; [apply (inv_act acc I); exact Hx|tauto].
      - intros x H1 H2 H3. apply Hsub. apply (inv_pins acc I); assumption.
      - intros pre x post E. destruct (app_snoc_split _ _ _ _ _ E) as [[post' [E1 E2]]|[E1 [E2 E3]]].
        + apply (inv_ok acc I pre x post' E2).
        + subst x pre. unfold cap. rewrite Hnp.
          destruct (le_lt_dec (length (filter (fun u => mem u acc) (nb v))) 1) as [Hle|Hgt]; [exact Hle|].
          exfalso. destruct (filter_two _ _ (nb_nodup v) Hgt) as [a [b [Hab [Hia [Hib [Hma Hmb]]]]]].
          apply mem_In in Hma. apply mem_In in Hmb.
          destruct (inv_act acc I a Hma) as [Han Haa]. destruct (inv_act acc I b Hmb) as [Hbn Hab'].
          (* a and b are joined through v, hence inside acc; with v this closes a cycle *)
          assert (Hwab : walk None b a).
          { apply walk_trans with v.
            - apply walk_one; try assumption; [apply nb_sym; assumption|intros; discriminate].
            - apply walk_one; try assumption. intros; discriminate. }
          pose proof (inv_cc acc I b a Hmb Hma Hwab) as Hin.
          apply (Hforest v a Hv Ha Haa Hia).
          apply walk_trans with b.
          * apply walk_one; try assumption. intros p q E' Hs. inversion E'; subst p q.
            unfold same_pair in Hs. destruct Hs as [[_ Hs]|[_ Hs]]; [congruence|].
            subst b. apply (nb_irrefl v Hib).
          * apply within_avoids with acc; assumption.
      - intros u x Hu Hx Hw.
        apply in_app_or in Hu. apply in_app_or in Hx.
        destruct Hcase as [[a [Hav Haa]]|Hclosed].
        + (* v touches a in acc *)
          destruct (inv_act acc I a Haa) as [Han Hact_a].
          assert (Hva : walk None v a) by (apply walk_one; try assumption; intros; discriminate).
          assert (Hav' : walk None a v) by (apply walk_sym; exact Hva).
          assert (Hin_av : gwalk n nb (within (acc ++ [v])) None a v).
          { eapply gwalk_step; [apply gwalk_refl; [exact Han|]|apply nb_sym; assumption|exact Hwv|intros; discriminate].
            unfold within. apply andb_true_iff. split; [exact Hact_a|apply mem_In; apply Hsub; exact Haa]. }
          assert (Hin_va : gwalk n nb (within (acc ++ [v])) None v a).
          { eapply gwalk_step; [apply gwalk_refl; [exact Hv|exact Hwv]|exact Hav| |intros; discriminate].
            unfold within. apply andb_true_iff. split; [exact Hact_a|apply mem_In; apply Hsub; exact Haa]. }
          destruct Hu as [Hu|[<-|[]]]; destruct Hx as [Hx|[<-|[]]].
          * apply within_mono with acc; [exact Hsub|]. apply (inv_cc acc I); assumption.
          * apply within_trans with a; [|exact Hin_av].
            apply within_mono with acc; [exact Hsub|]. apply (inv_cc acc I); try assumption.
            apply walk_trans with v; assumption.
          * apply within_trans with a; [exact Hin_va|].
            apply within_mono with acc; [exact Hsub|]. apply (inv_cc acc I); try assumption.
            apply walk_trans with v; assumption.
          * apply gwalk_refl; assumption.
        + (* v starts a new tree: nothing in acc is joined to it *)
          destruct Hu as [Hu|[<-|[]]]; destruct Hx as [Hx|[<-|[]]].
          * apply within_mono with acc; [exact Hsub|]. apply (inv_cc acc I); assumption.
          * exfalso. apply Hnin. apply (closed_walk acc u v Hclosed Hu Hw).
          * exfalso. apply Hnin. apply (closed_walk acc x v Hclosed Hx). apply walk_sym. exact Hw.
          * apply gwalk_refl; assumption.
    Qed.

    Lemma grow_inv : forall fuel acc, inv acc -> inv (g_grow n nb act fuel acc).
    Proof.
      induction fuel as [|f IH]; intros acc I; simpl; [exact I|].
      destruct (g_pick n nb act acc) as [v|] eqn:E; [|exact I].
      apply IH. apply inv_step; assumption.
    Qed.

    Lemma grow_progress : forall fuel acc,
      g_pick n nb act (g_grow n nb act fuel acc) = None \/
      length (g_grow n nb act fuel acc) = length acc + fuel.
    Proof.
      induction fuel as [|f IH]; intros acc; simpl; [right; lia|].
      destruct (g_pick n nb act acc) as [v|] eqn:E; [|left; exact E].
      destruct (IH (acc ++ [v])) as [H|H]; [left; exact H|right].
      rewrite H, app_length. simpl. lia.
    Qed.

    Definition grown : list nat := g_grow n nb act n acc0.

    Lemma grown_inv : inv grown.
    Proof. apply grow_inv. apply inv_init. Qed.

    Lemma grown_all v : v < n -> act v = true -> In v grown.
    Proof.
      intros Hv Ha. destruct (grow_progress n acc0) as [H|H]; [apply (pick_none _ H); assumption|].
      fold grown in H. destruct (in_dec Nat.eq_dec v grown) as [Hin|Hnin]; [exact Hin|]. exfalso.
      assert (Hnd : NoDup (v :: grown)) by (constructor; [exact Hnin|apply (inv_nodup _ grown_inv)]).
      assert (Hb : forall x, In x (v :: grown) -> x < n).
      { intros x [<-|Hx]; [exact Hv|apply (inv_act _ grown_inv x Hx)]. }
      pose proof (NoDup_bounded_length _ _ Hnd Hb) as Hl. simpl in Hl. lia.
    Qed.

    Definition full_order : list nat := g_order n nb act pin.

    Lemma full_order_eq : full_order = grown ++ filter (fun v => negb (act v)) (seq 0 n).
    Proof. reflexivity. Qed.

    Lemma full_in v : In v full_order <-> v < n.
    Proof.
      rewrite full_order_eq, in_app_iff, filter_In, in_seq. split.
      - intros [H|[H _]]; [apply (inv_act _ grown_inv v H)|lia].
      - intros Hv. destruct (act v) eqn:Ha; [left; apply grown_all; assumption|right; split; [lia|reflexivity]].
    Qed.

    Lemma full_nodup : NoDup full_order.
    Proof.
      rewrite full_order_eq. apply NoDup_app_intro.
      - apply (inv_nodup _ grown_inv).
      - apply NoDup_filter. apply seq_NoDup.
      - intros x H1 H2. apply filter_In in H2. destruct H2 as [_ H2].
        destruct (inv_act _ grown_inv x H1) as [_ H3]. rewrite H3 in H2. discriminate.
    Qed.

    (* the property the ranks are read off from *)
    Lemma full_ok pre v post :
      full_order = pre ++ v :: post -> act v = true ->
      length (filter (fun u => act u && mem u pre) (nb v)) <= cap v.
    Proof.
      intros E Ha.
      assert (Hvn : v < n) by (apply full_in; rewrite E; apply in_or_app; right; left; reflexivity).
      pose proof (grown_all v Hvn Ha) as Hg. apply in_split in Hg. destruct Hg as [p1 [q1 Hg]].
      assert (E' : full_order = p1 ++ v :: (q1 ++ filter (fun v => negb (act v)) (seq 0 n))).
      { rewrite full_order_eq, Hg, <- app_assoc. reflexivity. }
      destruct (NoDup_split_unique _ _ _ _ _ _ full_nodup E E') as [-> _].
      pose proof (inv_ok _ grown_inv p1 v q1 Hg) as Hok.
      eapply Nat.le_trans; [|exact Hok].
      clear. induction (nb v) as [|u l IH]; simpl; [lia|].
      destruct (act u); simpl; [destruct (mem u p1); simpl; lia|destruct (mem u p1); simpl; lia].
    Qed.
  End Complete.
End ForestCert.
