(* line protocol of the C16 model (token syntax of terms / values: harness/c15gen.py)
   SERP cu <term> xNAME <pv>                 serialize_<p>(problem)                 -> S xHEX | E code
   SERS cu <term> xNAME h w <pv>             serialize_<p>(height, width, problem)  -> S xHEX | E code
   DES  cu <term> xURL (A | O xNAME | L n xNAME*n) af rs                          -> N | S pv | E code
   PARSEURL xURL                             -> N | S ( xNAME iW iH xBODY ) | E code
   MAKEURL xPRE xNAME h w xBODY              -> S xHEX
   EIS <pv> | EA (-|1|2) xMARKER <pv empty> <pv array> | SEG h w <pv grid> | B2B h w <pv blocks>
   CTO h w <pv clues> | CPARSE xURL | STAR n k <pv grid> | AQ h w <pv blocks> <pv rows> <pv cols> | RECT <pv>
   PZ <puzzle> h w xBODY | PZB h w xBODY | PZN n xTEXT | PZAQ h w xBODY | PZC h w xBODY    (independent pzpr decoders)
   cu: 0 = no Combinator subclass, 1 = yajilin.YajilinClue as Custom 0                          *)
open Model
open Zutil

let bit b i = if b then 1 lsl i else 0
let char_of_ascii (Ascii (b0, b1, b2, b3, b4, b5, b6, b7)) =
  Char.chr (bit b0 0 + bit b1 1 + bit b2 2 + bit b3 3 + bit b4 4 + bit b5 5 + bit b6 6 + bit b7 7)
let ascii_of_char ch =
  let n = Char.code ch in
  let b i = (n lsr i) land 1 = 1 in
  Ascii (b 0, b 1, b 2, b 3, b 4, b 5, b 6, b 7)

let str_of_string s = List.init (String.length s) (fun i -> ascii_of_char s.[i])
let string_of_str l =
  let b = Buffer.create 16 in List.iter (fun a -> Buffer.add_char b (char_of_ascii a)) l; Buffer.contents b

let unhex t =
  if String.length t < 1 || t.[0] <> 'x' then failwith ("hex token " ^ t);
  let n = (String.length t - 1) / 2 in
  String.init n (fun i -> Char.chr (int_of_string ("0x" ^ String.sub t (1 + 2 * i) 2)))
let hex s =
  let b = Buffer.create 16 in
  Buffer.add_char b 'x';
  String.iter (fun c -> Buffer.add_string b (Printf.sprintf "%02x" (Char.code c))) s;
  Buffer.contents b
let str_tok t = str_of_string (unhex t)
let tok_str l = hex (string_of_str l)

let z_of_tok t = match py_int (str_of_string t) (z_of_int 10) with Ok v -> v | Err _ -> failwith ("int token " ^ t)
let z_str z = string_of_str (py_str_int z)

let rec parse_pv toks = match toks with
  | "n" :: r -> (VNone, r)
  | "[" :: r -> let (l, r') = parse_pvs r "]" in (VList l, r')
  | "(" :: r -> let (l, r') = parse_pvs r ")" in (VTup l, r')
  | t :: r when String.length t > 0 && t.[0] = 'i' -> (VInt (z_of_tok (String.sub t 1 (String.length t - 1))), r)
  | t :: r when String.length t > 0 && t.[0] = 'x' -> (VStr (str_tok t), r)
  | _ -> failwith "pv"
and parse_pvs toks close = match toks with
  | t :: r when t = close -> ([], r)
  | _ -> let (v, r) = parse_pv toks in let (l, r') = parse_pvs r close in (v :: l, r')

let rec parse_n f n toks = if n = 0 then ([], toks) else
  let (x, r) = f toks in let (l, r') = parse_n f (n - 1) r in (x :: l, r')

let flag = function "1" -> true | _ -> false

let rec parse_term toks = match toks with
  | "F" :: s :: r -> (FixStr (str_tok s), r)
  | "D" :: n :: r ->
      let n = int_of_string n in
      let (b, r1) = parse_n parse_pv n r in
      let (a, r2) = parse_n (function t :: r -> (str_tok t, r) | [] -> failwith "dict") n r1 in
      (Dict (b, a), r2)
  | "S" :: r -> let (sp, r1) = parse_pv r in
      (match r1 with s :: r2 -> (Spaces (sp, List.hd (str_tok s)), r2) | [] -> failwith "spaces")
  | "I" :: r -> (DecInt, r)
  | "H" :: r -> (HexInt, r)
  | "P" :: r -> let (sp, r1) = parse_pv r in
      (match r1 with mi :: ms :: r2 -> (IntSpaces (sp, z_of_tok mi, z_of_tok ms), r2) | _ -> failwith "intspaces")
  | "M" :: b :: d :: r -> (MultiDigit (z_of_tok b, nat_of_int (int_of_string d)), r)
  | "O" :: n :: r -> let (l, r1) = parse_n parse_term (int_of_string n) r in (OneOf l, r1)
  | "T" :: n :: r -> let (l, r1) = parse_n parse_term (int_of_string n) r in (Tupl l, r1)
  | "Q" :: r -> let (c, r1) = parse_term r in
      (match r1 with n :: r2 -> (Seq (c, z_of_tok n), r2) | [] -> failwith "seq")
  | "G" :: r -> let (c, r1) = parse_term r in
      (match r1 with
       | "-" :: r2 -> (Grid (c, None), r2)
       | h :: w :: r2 -> (Grid (c, Some (z_of_tok h, z_of_tok w)), r2)
       | _ -> failwith "grid")
  | "R" :: s :: a :: r -> (Rooms (flag s, flag a), r)
  | "V" :: r -> let (c, r1) = parse_term r in
      (match r1 with s :: a :: r2 -> (ValuedRooms (c, flag s, flag a), r2) | _ -> failwith "vrooms")
  | "C" :: k :: r -> (Custom (nat_of_int (int_of_string k)), r)
  | _ -> failwith "term"

let rec show_pv b v = match v with
  | VNone -> Buffer.add_string b "n"
  | VInt z -> Buffer.add_string b ("i" ^ z_str z)
  | VStr s -> Buffer.add_string b (tok_str s)
  | VList l -> Buffer.add_string b "[ "; List.iter (fun x -> show_pv b x; Buffer.add_char b ' ') l; Buffer.add_string b "]"
  | VTup l -> Buffer.add_string b "( "; List.iter (fun x -> show_pv b x; Buffer.add_char b ' ') l; Buffer.add_string b ")"
let pv_str v = let b = Buffer.create 64 in show_pv b v; Buffer.contents b

let err e = "E " ^ string_of_int (int_of_nat (pyerr_code e))
let cu = function "1" -> yajilin_custom | _ -> no_custom
let sres = function Err e -> err e | Ok s -> "S " ^ tok_str s
let ores = function Err e -> err e | Ok None -> "N" | Ok (Some v) -> "S " ^ pv_str v
let nat_tok t = nat_of_int (int_of_string t)

(* typed views of values; anything else is a harness error *)
let z_of_pv = function VInt z -> z | _ -> failwith "int expected"
let list_of_pv = function VList l -> l | VTup l -> l | _ -> failwith "list expected"
let zlist v = List.map z_of_pv (list_of_pv v)
let zgrid v = List.map zlist (list_of_pv v)
let pair_of_pv v = match list_of_pv v with [a; b] -> (z_of_pv a, z_of_pv b) | _ -> failwith "pair expected"
let blocks_of_pv v = List.map (fun b -> List.map pair_of_pv (list_of_pv b)) (list_of_pv v)
let clue_of_pv v = match zlist v with
  | [y; x; u; l; d; r] -> ((y, x), (((u, l), d), r))
  | _ -> failwith "clue expected"
let pv_of_clue ((y, x), (((u, l), d), r)) = VTup (List.map (fun z -> VInt z) [y; x; u; l; d; r])
let zl l = VList (List.map (fun z -> VInt z) l)

let allowed toks = match toks with
  | "A" :: r -> (AllowAny, r)
  | "O" :: nm :: r -> (AllowOne (str_tok nm), r)
  | "L" :: n :: r -> let (l, r') = parse_n (function t :: r -> (str_tok t, r) | [] -> failwith "al") (int_of_string n) r in (AllowList l, r')
  | _ -> failwith "allowed"

let handle toks = match toks with
  | "SERP" :: c :: r ->
      let (t, r1) = parse_term r in
      (match r1 with
       | nm :: r2 -> let (v, _) = parse_pv r2 in
           sres (run_ser_problem (cu c) { sw_comb = t; sw_puzzle = str_tok nm; sw_size = SizeOfProblem } v)
       | _ -> failwith "SERP")
  | "SERS" :: c :: r ->
      let (t, r1) = parse_term r in
      (match r1 with
       | nm :: h :: w :: r2 -> let (v, _) = parse_pv r2 in
           sres (run_ser_sized (cu c) { sw_comb = t; sw_puzzle = str_tok nm; sw_size = SizeArgs } (z_of_tok h) (z_of_tok w) v)
       | _ -> failwith "SERS")
  | "DES" :: c :: r ->
      let (t, r1) = parse_term r in
      (match r1 with
       | url :: r2 ->
           let (al, r3) = allowed r2 in
           (match r3 with
            | [af; rs] -> ores (run_de (cu c) { dw_comb = t; dw_allowed = al; dw_allow_failure = flag af; dw_return_size = flag rs } (str_tok url))
            | _ -> failwith "DES flags")
       | _ -> failwith "DES")
  | ["PARSEURL"; url] ->
      (match parse_url (str_tok url) with
       | Err e -> err e | Ok None -> "N"
       | Ok (Some (((nm, w), h), body)) -> "S " ^ pv_str (VTup [VStr nm; VInt w; VInt h; VStr body]))
  | ["MAKEURL"; pre; nm; h; w; body] ->
      "S " ^ tok_str (make_url (str_tok pre) (str_tok nm) (z_of_tok h) (z_of_tok w) (str_tok body))
  | "EIS" :: r -> let (v, _) = parse_pv r in sres (encode_int_or_str v)
  | "EA" :: dim :: mk :: r ->
      let (empty, r1) = parse_pv r in let (arr, _) = parse_pv r1 in
      let d = (match dim with "-" -> None | t -> Some (z_of_tok t)) in
      sres (encode_array (list_of_pv arr) (str_tok mk) empty d)
  | "SEG" :: h :: w :: r -> let (g, _) = parse_pv r in sres (encode_grid_segmentation (z_of_tok h) (z_of_tok w) (zgrid g))
  | "B2B" :: h :: w :: r -> let (b, _) = parse_pv r in
      (match blocks_to_block_id (z_of_tok h) (z_of_tok w) (blocks_of_pv b) with
       | Err e -> err e | Ok g -> "S " ^ pv_str (VList (List.map zl g)))
  | "CTO" :: h :: w :: r -> let (p, _) = parse_pv r in
      sres (to_puzz_link_url (z_of_tok h) (z_of_tok w) (List.map clue_of_pv (list_of_pv p)))
  | ["CPARSE"; url] ->
      (match parse_puzz_link_url (str_tok url) with
       | Err e -> err e
       | Ok ((h, w), l) -> "S " ^ pv_str (VTup [VInt h; VInt w; VList (List.map pv_of_clue l)]))
  | "STAR" :: n :: k :: r -> let (g, _) = parse_pv r in sres (starbattle_url (z_of_tok n) (z_of_tok k) (zgrid g))
  | "AQ" :: h :: w :: r ->
      let (b, r1) = parse_pv r in let (rows, r2) = parse_pv r1 in let (cols, _) = parse_pv r2 in
      sres (aquarium_url (z_of_tok h) (z_of_tok w) (blocks_of_pv b) (zlist rows) (zlist cols))
  | "RECT" :: r -> let (p, _) = parse_pv r in
      let q = List.map (fun t -> match zlist t with
        | [y0; x0; y1; x1; n] -> ((((y0, x0), y1), x1), n) | _ -> failwith "rect") (list_of_pv p) in
      "S " ^ pv_str (convert_from_rectangular_repr q)
  | ["PZ"; pz; h; w; body] ->
      let h = nat_tok h and w = nat_tok w and b = str_tok body in
      let f = (match pz with
        | "nurikabe" -> pzpr_decode_nurikabe | "sudoku" -> pzpr_decode_sudoku
        | "nurimisaki" -> pzpr_decode_nurimisaki | "masyu" -> pzpr_decode_masyu
        | "slitherlink" -> pzpr_decode_slitherlink | "yajilin" -> pzpr_decode_yajilin
        | _ -> failwith "PZ puzzle") in
      (match f h w b with None -> "N" | Some v -> "S " ^ pv_str v)
  | ["PZB"; h; w; body] ->
      (match pzpr_decode_heyawake_borders (nat_tok h) (nat_tok w) (str_tok body) with
       | None -> "N"
       | Some ((v, hz), rest) -> "S " ^ pv_str (VTup [zl v; zl hz; VStr rest]))
  | ["PZN"; n; s] ->
      (match pzpr_decode_room_numbers (nat_tok n) (str_tok s) with None -> "N" | Some l -> "S " ^ pv_str (zl l))
  | ["PZAQ"; h; w; body] ->
      (match pzpr_decode_aquarium (nat_tok h) (nat_tok w) (str_tok body) with
       | None -> "N"
       | Some ((v, hz), nums) -> "S " ^ pv_str (VTup [zl v; zl hz; zl nums]))
  | ["PZC"; h; w; body] ->
      (match pzpr_decode_compass (nat_tok h) (nat_tok w) (str_tok body) with
       | None -> "N"
       | Some l -> "S " ^ pv_str (VList (List.map (fun ((y, x), (((u, d), lf), r)) ->
                      VTup (List.map (fun z -> VInt z) [y; x; u; d; lf; r])) l)))
  | _ -> "EXN bad request"

let () = main_loop handle
