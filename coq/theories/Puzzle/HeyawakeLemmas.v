(* C11 Tier 1 - heyawake: the line rule ("no straight run of white cells crosses two room borders") in the
   per-cell form of the rule specification and in the per-border form of the posted constraints; the composition
   with property C04 for a solver that posts constraints before and after the connectivity helper. *)
From Coq Require Import ZArith List Bool Arith Lia.
From Cspuz Require Import Lib.PyErr Core.Expr Core.Program Graph.GraphModel Graph.ReachProofs
     Graph.Avc Graph.AvcSem Graph.AvcProofs
     Puzzle.PuzzleBase Puzzle.SatAbs Puzzle.ModelBase Puzzle.ModelLemmas Puzzle.CreekProofs Puzzle.Rules_heyawake.
Import ListNotations.
Local Open Scope nat_scope.

Notation b2z := PuzzleBase.b2z.

(* ------------------------------------------------------------------ a predicate on every cell and what follows it *)
Fixpoint tails_forall {A} (P : A -> list A -> bool) (l : list A) : bool :=
  match l with [] => true | a :: r => P a r && tails_forall P r end.

Lemma tails_forall_map {A B} (f : A -> B) (P : B -> list B -> bool) l :
  tails_forall P (map f l) = tails_forall (fun a r => P (f a) (map f r)) l.
Proof. induction l as [|a r IH]; simpl; [reflexivity|]. rewrite IH. reflexivity. Qed.

Lemma tails_forall_seq (P : nat -> list nat -> bool) n : forall a,
  tails_forall P (seq a n) = forallb (fun y => P y (seq (S y) (a + n - S y))) (seq a n).
Proof.
  induction n as [|n IH]; intros a; [reflexivity|]. simpl. rewrite IH. f_equal.
  - replace (a + S n - S a) with n by lia. reflexivity.
  - apply forallb_ext_in. intros y Hy. apply in_seq in Hy. replace (S a + n - S y) with (a + S n - S y) by lia. reflexivity.
Qed.

Lemma tails_forall_ext {A} (P Q : A -> list A -> bool) l :
  (forall a r, P a r = Q a r) -> tails_forall P l = tails_forall Q l.
Proof. intros E. induction l as [|a r IH]; simpl; [reflexivity|]. rewrite E, IH. reflexivity. Qed.

(* ------------------------------------------------------------------ the line rule on a list of (room, black) pairs *)
Definition rule_cell (c : Z * bool) (rest : list (Z * bool)) : bool :=
  snd c || Nat.ltb (borders_in_run (fst c) rest) 2.

(* from the first cell behind a border (room r): true unless the run reaches a second border without a black cell;
   [any] = a black cell was seen in the window so far *)
Fixpoint win (r : Z) (l : list (Z * bool)) (any : bool) : bool :=
  match l with
  | [] => true
  | c :: rest => if (fst c =? r)%Z then win r rest (any || snd c) else any || snd c
  end.
Definition border_cell (c : Z * bool) (rest : list (Z * bool)) : bool :=
  match rest with
  | [] => true
  | c' :: rest' => if (fst c' =? fst c)%Z then true else win (fst c') rest' (snd c || snd c')
  end.

Lemma win_true r l : win r l true = true.
Proof. induction l as [|c rest IH]; simpl; [reflexivity|]. destruct (fst c =? r)%Z; [exact IH|reflexivity]. Qed.

Lemma win_false r l : win r l false = Nat.eqb (borders_in_run r l) 0.
Proof.
  induction l as [|[r' b'] rest IH]; simpl; [reflexivity|].
  destruct b'; simpl.
  - destruct (r' =? r)%Z; [apply win_true|reflexivity].
  - destruct (Z.eqb_spec r' r) as [->|N]; simpl; [exact IH|reflexivity].
Qed.

Theorem line_rule_forms l : tails_forall rule_cell l = tails_forall border_cell l.
Proof.
  induction l as [|[r b] rest IH]; [reflexivity|].
  cbn [tails_forall]. rewrite IH.
  destruct (tails_forall border_cell rest) eqn:T; [|rewrite !andb_false_r; reflexivity].
  rewrite !andb_true_r. unfold rule_cell, border_cell. cbn [fst snd].
  destruct b; simpl.
  - destruct rest as [|[r' b'] rest']; [reflexivity|]. cbn [fst snd]. destruct (r' =? r)%Z; [reflexivity|].
    simpl. symmetry. apply win_true.
  - destruct rest as [|[r' b'] rest']; [reflexivity|]. cbn [fst snd borders_in_run].
    destruct b'; simpl.
    + destruct (r' =? r)%Z; [reflexivity|]. symmetry. apply win_true.
    + destruct (Z.eqb_spec r' r) as [->|N]; simpl.
      * (* same room: the condition of the next cell *)
        pose proof IH as T'.
        cbn [tails_forall] in T'. apply andb_true_iff in T'. destruct T' as [T' _].
        unfold rule_cell in T'. simpl in T'. exact T'.
      * rewrite win_false. destruct (borders_in_run r' rest') as [|[|k]]; reflexivity.
Qed.

(* ------------------------------------------------------------------ connectivity only looks at the vertices of the graph *)
Lemma connected_ext_below g a a' :
  wf_graph g = true -> (forall x, x < nv g -> a x = a' x) -> connected g a -> connected g a'.
Proof.
  intros W E C u v Hu Hv Au Av.
  assert (R : reach g a all_edges_ok u v) by (apply C; try assumption; rewrite E; assumption).
  clear Av Hv. induction R as [v Hv|u v t Huv IH Hn Ht].
  - apply reach_refl. exact Au.
  - destruct (nbrs_lt g all_edges_ok v t W Hn) as [_ Htl].
    eapply reach_step; [apply IH; assumption|exact Hn|]. rewrite <- E; assumption.
Qed.
Lemma connected_b_ext_below g a a' :
  wf_graph g = true -> (forall x, x < nv g -> a x = a' x) -> connected_b g a = connected_b g a'.
Proof.
  intros W E. apply eq_true_iff_eq. rewrite !(connected_b_spec g _ W).
  split; apply connected_ext_below; try assumption. intros x Hx. symmetry. apply E. exact Hx.
Qed.

(* ------------------------------------------------------------------ composition with C04, general form *)
Theorem avc_grid_compose_gen h w (pre extra acts : list expr) (act : answer -> nat -> bool)
        (local_pre local : answer -> bool) st1 ans :
  post_avc (bool_grid_state (h * w) pre) acts (grid_graph h w) false false = Ok st1 ->
  fresh_below (h * w) acts -> fresh_below (h * w) pre -> (forall en, acts_defined en acts) ->
  (forall en v, v < h * w -> pattern en acts v = act (map (fun i => b2z (eb en i)) (seq 0 (h * w))) v) ->
  (forall en, local_pre (map (fun i => b2z (eb en i)) (seq 0 (h * w))) = forallb (holds gsem_avc en) pre) ->
  (forall en, local (map (fun i => b2z (eb en i)) (seq 0 (h * w))) = forallb (holds gsem_avc en) extra) ->
  ((exists en, model_of gsem_avc en (ensure st1 extra) /\ reads (ensure st1 extra) en (seq 0 (h * w)) = ans)
   <-> Nat.eqb (length ans) (h * w) && forallb is01 ans && local_pre ans &&
       connected_b (board h w) (act ans) && local ans = true).
Proof.
  set (n := h * w). set (st0 := bool_grid_state n pre).
  intros Hp Hfr Hfc Hdef Hact Hpre Hloc.
  destruct (AvcSem.avc_eval _ _ _ _ _ Hp) as [Hv [_ [cs [Hc _]]]].
  assert (Hn0 : next_id st0 = n) by (unfold next_id, st0; simpl; apply repeat_length).
  rewrite <- Hn0 in Hfr, Hfc.
  pose proof (avc_exact_models false st0 acts (grid_graph h w) st1) as EX.
  assert (Hnv : nv (grid_graph h w) = n) by reflexivity.
  assert (Hsplit : forall en, model_of gsem_avc en (ensure st1 extra) <->
                              (model_of gsem_avc en st1 /\ forallb (holds gsem_avc en) extra = true)).
  { intros en. unfold model_of, in_bounds, satisfies, ensure. simpl. rewrite forallb_app, andb_true_iff. tauto. }
  assert (Hreads : forall en, reads (ensure st1 extra) en (seq 0 n) = map (fun i => b2z (eb en i)) (seq 0 n)).
  { intros en. eapply reads_bool_prefix. simpl. rewrite Hv. reflexivity. }
  assert (Hmod0 : forall en, forallb (holds gsem_avc en) pre = true -> model_of gsem_avc en st0).
  { intros en H. split; [apply in_bounds_bool_grid|exact H]. }
  split.
  - intros [en [Hm Hr]]. rewrite Hreads in Hr. subst ans.
    apply Hsplit in Hm. destruct Hm as [Hm1 Hcl].
    replace (Nat.eqb (length (map (fun i => b2z (eb en i)) (seq 0 n))) n) with true
      by (rewrite map_length, seq_length; symmetry; apply Nat.eqb_refl).
    replace (forallb is01 (map (fun i => b2z (eb en i)) (seq 0 n))) with true
      by (rewrite forallb_map; symmetry; apply forallb_forall; intros; apply is01_b2z).
    simpl andb.
    assert (Hpre_en : forallb (holds gsem_avc en) pre = true).
    { destruct Hm1 as [_ Hs]. unfold satisfies in Hs. rewrite Hc in Hs. simpl in Hs. rewrite forallb_app in Hs.
      apply andb_true_iff in Hs. apply Hs. }
    rewrite Hpre, Hpre_en, Hloc, Hcl, andb_true_r. simpl andb.
    unfold board.
    rewrite <- (connected_b_ext_below _ (pattern en acts) _ (grid_wf h w)) by (intros x Hx; apply Hact; exact Hx).
    apply (connected_b_spec _ _ (grid_wf h w)).
    apply (EX en (grid_wf h w) Hfr Hfc (Hdef en) (Hmod0 en Hpre_en) Hp).
    exists en. split; [|exact Hm1]. intros i _. split; reflexivity.
  - intros Hr.
    apply andb_true_iff in Hr. destruct Hr as [Hr Hcl].
    apply andb_true_iff in Hr. destruct Hr as [Hr Hconn].
    apply andb_true_iff in Hr. destruct Hr as [Hr Hpr].
    apply andb_true_iff in Hr. destruct Hr as [Hlen H01]. apply Nat.eqb_eq in Hlen.
    set (en0 := env_of_answer ans).
    pose proof (answer_as_reading ans n Hlen H01) as Ha. fold en0 in Ha.
    assert (Hpre0 : forallb (holds gsem_avc en0) pre = true) by (rewrite <- Hpre, Ha; exact Hpr).
    assert (Hspec : spec_avc false (grid_graph h w) (pattern en0 acts)).
    { simpl. apply (connected_b_spec _ _ (grid_wf h w)).
      rewrite (connected_b_ext_below _ (pattern en0 acts) (act ans) (grid_wf h w))
        by (intros x Hx; rewrite <- Ha; apply Hact; exact Hx).
      exact Hconn. }
    apply (EX en0 (grid_wf h w) Hfr Hfc (Hdef en0) (Hmod0 en0 Hpre0) Hp) in Hspec.
    destruct Hspec as [en' [Hag Hm1]]. rewrite Hn0 in Hag.
    assert (Hsame : map (fun i => b2z (eb en' i)) (seq 0 n) = ans).
    { rewrite <- Ha. apply map_ext_in. intros i Hi. apply in_seq in Hi.
      destruct (Hag i ltac:(lia)) as [E _]. rewrite E. reflexivity. }
    exists en'. split; [|rewrite Hreads; exact Hsame].
    apply Hsplit. split; [exact Hm1|].
    rewrite <- Hloc, Hsame. exact Hcl.
Qed.
