(* The brute-force oracle satisfies both oracle hypotheses (so they are
   satisfiable together, and the extracted runner is a conformant solver on the
   queries Z3Backend.solve makes). *)
From Coq Require Import ZArith List Bool Lia.
From Cspuz Require Import Lib.PyErr Core.Expr Core.Program Backend.Z3Call Gen.Z3Table Backend.Z3
  Backend.Z3Oracle Backend.ExprFacts Backend.Z3Proofs Backend.Z3ConstsProofs Backend.Z3SolveProofs.
Import ListNotations.
Open Scope Z_scope.

(* ---- evaluation depends only on the constants that occur ------------------ *)
Lemma map_ext_occ (f g : zterm -> option value) (p q : nat -> zterm -> bool) (l : list zterm)
      (P1 P2 : nat -> Prop) :
  Forall (fun t => (forall i, p i t = true -> P1 i) -> (forall i, q i t = true -> P2 i) -> f t = g t) l ->
  (forall i, existsb (p i) l = true -> P1 i) -> (forall i, existsb (q i) l = true -> P2 i) ->
  map f l = map g l.
Proof.
  induction 1 as [|t l Ht _ IH]; intros H1 H2; simpl; [reflexivity|].
  rewrite Ht, IH; try reflexivity.
  - intros i Hi; apply H1; simpl; rewrite Hi, orb_true_r; reflexivity.
  - intros i Hi; apply H2; simpl; rewrite Hi, orb_true_r; reflexivity.
  - intros i Hi; apply H1; simpl; rewrite Hi; reflexivity.
  - intros i Hi; apply H2; simpl; rewrite Hi; reflexivity.
Qed.

Lemma zeval_occ e1 e2 : forall t,
  (forall i, bool_occurs i t = true -> eb e1 i = eb e2 i) ->
  (forall i, int_occurs i t = true -> ei e1 i = ei e2 i) ->
  zeval e1 t = zeval e2 t.
Proof.
  apply (zterm_nested_ind (fun t =>
    (forall i, bool_occurs i t = true -> eb e1 i = eb e2 i) ->
    (forall i, int_occurs i t = true -> ei e1 i = ei e2 i) -> zeval e1 t = zeval e2 t)); simpl.
  - reflexivity.
  - reflexivity.
  - intros i Hb _. rewrite (Hb i (Nat.eqb_refl i)); reflexivity.
  - intros i _ Hi. rewrite (Hi i (Nat.eqb_refl i)); reflexivity.
  - intros a IH; split; intros Hb Hi; rewrite (IH Hb Hi); reflexivity.
  - intros a b IHa IHb.
    assert (forall (Hb : forall i, bool_occurs i a || bool_occurs i b = true -> eb e1 i = eb e2 i)
                   (Hi : forall i, int_occurs i a || int_occurs i b = true -> ei e1 i = ei e2 i),
               zeval e1 a = zeval e2 a /\ zeval e1 b = zeval e2 b) as H.
    { intros Hb Hi; split; [apply IHa|apply IHb]; intros i O; try apply Hb; try apply Hi; rewrite O, ?orb_true_r; reflexivity. }
    repeat split; intros Hb Hi; destruct (H Hb Hi) as [-> ->]; reflexivity.
  - intros c t f IHc IHt IHf Hb Hi.
    rewrite IHc, IHt, IHf; try reflexivity; intros i O; try apply Hb; try apply Hi; rewrite O, ?orb_true_r; reflexivity.
  - intros l H.
    assert (forall (Hb : forall i, existsb (bool_occurs i) l = true -> eb e1 i = eb e2 i)
                   (Hi : forall i, existsb (int_occurs i) l = true -> ei e1 i = ei e2 i),
               map (zeval e1) l = map (zeval e2) l) as Hm.
    { intros Hb Hi. eapply map_ext_occ; [exact H|exact Hb|exact Hi]. }
    repeat split; intros Hb Hi; rewrite (Hm Hb Hi); reflexivity.
Qed.

Lemma ztrue_occ e1 e2 t :
  (forall i, bool_occurs i t = true -> eb e1 i = eb e2 i) ->
  (forall i, int_occurs i t = true -> ei e1 i = ei e2 i) ->
  ztrue e1 t = ztrue e2 t.
Proof. intros Hb Hi; unfold ztrue; rewrite (zeval_occ e1 e2 t Hb Hi); reflexivity. Qed.

Lemma forallb_ztrue_occ e1 e2 ts :
  (forall i, existsb (bool_occurs i) ts = true -> eb e1 i = eb e2 i) ->
  (forall i, existsb (int_occurs i) ts = true -> ei e1 i = ei e2 i) ->
  forallb (ztrue e1) ts = forallb (ztrue e2) ts.
Proof.
  induction ts as [|t ts IH]; intros Hb Hi; simpl; [reflexivity|].
  rewrite (ztrue_occ e1 e2 t), IH; try reflexivity.
  - intros i O; apply Hb; simpl; rewrite O, orb_true_r; reflexivity.
  - intros i O; apply Hi; simpl; rewrite O, orb_true_r; reflexivity.
  - intros i O; apply Hb; simpl; rewrite O; reflexivity.
  - intros i O; apply Hi; simpl; rewrite O; reflexivity.
Qed.

(* ---- occurring constants are below zmax_ids -------------------------------- *)
Lemma fold_max_le {A} (f : A -> nat) l x : In x l -> (f x <= fold_right (fun a m => Nat.max (f a) m) O l)%nat.
Proof. induction l as [|y l IH]; simpl; [intros []|intros [->|H]; [lia|specialize (IH H); lia]]. Qed.

Lemma occurs_lt_max i : forall t, (int_occurs i t = true \/ bool_occurs i t = true) -> (i < zmax_id t)%nat.
Proof.
  apply (zterm_nested_ind (fun t => (int_occurs i t = true \/ bool_occurs i t = true) -> (i < zmax_id t)%nat)); simpl.
  - intros b [H|H]; discriminate.
  - intros b [H|H]; discriminate.
  - intros j [H|H]; [discriminate|apply Nat.eqb_eq in H; lia].
  - intros j [H|H]; [apply Nat.eqb_eq in H; lia|discriminate].
  - intros a IH; split; exact IH.
  - intros a b IHa IHb.
    assert (H : (int_occurs i a || int_occurs i b = true \/ bool_occurs i a || bool_occurs i b = true) ->
                (i < Nat.max (zmax_id a) (zmax_id b))%nat).
    { intros [H|H]; apply orb_prop in H; destruct H as [H|H];
        [specialize (IHa (or_introl H))|specialize (IHb (or_introl H))
        |specialize (IHa (or_intror H))|specialize (IHb (or_intror H))]; lia. }
    repeat split; exact H.
  - intros c t f IHc IHt IHf [H|H]; apply orb_prop in H; destruct H as [H|H];
      try (apply orb_prop in H; destruct H as [H|H]);
      [specialize (IHc (or_introl H))|specialize (IHt (or_introl H))|specialize (IHf (or_introl H))
      |specialize (IHc (or_intror H))|specialize (IHt (or_intror H))|specialize (IHf (or_intror H))]; lia.
  - intros l H.
    assert (Hl : (existsb (int_occurs i) l = true \/ existsb (bool_occurs i) l = true) ->
                 (i < fold_right (fun a m => Nat.max (zmax_id a) m) O l)%nat).
    { rewrite Forall_forall in H. intros [E|E]; apply existsb_exists in E; destruct E as [x [Ix Ox]];
        [specialize (H x Ix (or_introl Ox))|specialize (H x Ix (or_intror Ox))];
        pose proof (fold_max_le zmax_id l x Ix); lia. }
    repeat split; exact Hl.
Qed.

Lemma occurs_lt_max_ids i ts :
  (existsb (int_occurs i) ts = true \/ existsb (bool_occurs i) ts = true) -> (i < zmax_ids ts)%nat.
Proof.
  intros [E|E]; apply existsb_exists in E; destruct E as [x [Ix Ox]];
    [pose proof (occurs_lt_max i x (or_introl Ox))|pose proof (occurs_lt_max i x (or_intror Ox))];
    pose proof (fold_max_le zmax_id ts x Ix); unfold zmax_ids; lia.
Qed.

(* ---- the enumeration ------------------------------------------------------- *)
Lemma enum_from_length ts : forall k i a, In a (enum_from ts i k) -> length a = k.
Proof.
  induction k as [|k IH]; intros i a H; simpl in H.
  - destruct H as [<-|[]]; reflexivity.
  - apply in_flat_map in H; destruct H as [b [_ H]]. apply in_flat_map in H; destruct H as [z [_ H]].
    apply in_map_iff in H; destruct H as [r [<- Hr]]. simpl; rewrite (IH (S i) r Hr); reflexivity.
Qed.

Lemma enum_from_complete ts : forall k i a, length a = k ->
  (forall j b z, nth_error a j = Some (b, z) -> In b (dom_b ts (i + j)) /\ In z (dom_i ts (i + j))) ->
  In a (enum_from ts i k).
Proof.
  induction k as [|k IH]; intros i a L H; simpl.
  - destruct a; [left; reflexivity|discriminate].
  - destruct a as [|[b z] r]; [discriminate|]. injection L as L.
    destruct (H O b z eq_refl) as [Hb Hz]. rewrite Nat.add_0_r in Hb, Hz.
    apply in_flat_map; exists b; split; [exact Hb|]. apply in_flat_map; exists z; split; [exact Hz|].
    apply in_map. apply IH; [exact L|].
    intros j b' z' Hj. replace (S i + j)%nat with (i + S j)%nat by lia. apply H; exact Hj.
Qed.

Lemma zrange_in lo hi x : lo <= x <= hi -> In x (zrange lo hi).
Proof.
  intros H. unfold zrange. apply in_map_iff. exists (Z.to_nat (x - lo)); split; [lia|].
  apply in_seq; lia.
Qed.

(* find_lo / find_hi return bounds that are really asserted *)
Lemma find_lo_in i : forall ts lo, find_lo i ts = Some lo -> In (ZGe (ZIntConst i) (ZIntVal lo)) ts.
Proof.
  induction ts as [|t ts IH]; intros lo H; simpl in H; [discriminate|].
  destruct t; try (right; apply IH; exact H).
  destruct t1; try (right; apply IH; exact H). destruct t2; try (right; apply IH; exact H).
  destruct (Nat.eqb i id) eqn:E; [|right; apply IH; exact H].
  apply Nat.eqb_eq in E; subst; injection H as ->; left; reflexivity.
Qed.
Lemma find_hi_in i : forall ts hi, find_hi i ts = Some hi -> In (ZLe (ZIntConst i) (ZIntVal hi)) ts.
Proof.
  induction ts as [|t ts IH]; intros lo H; simpl in H; [discriminate|].
  destruct t; try (right; apply IH; exact H).
  destruct t1; try (right; apply IH; exact H). destruct t2; try (right; apply IH; exact H).
  destruct (Nat.eqb i id) eqn:E; [|right; apply IH; exact H].
  apply Nat.eqb_eq in E; subst; injection H as ->; left; reflexivity.
Qed.

Lemma seq_nth_error : forall n s j, (j < n)%nat -> nth_error (seq s n) j = Some (s + j)%nat.
Proof.
  induction n as [|n IH]; intros s j H; [lia|]. destruct j as [|j]; simpl.
  - rewrite Nat.add_0_r; reflexivity.
  - rewrite IH by lia. f_equal; lia.
Qed.

(* ---- soundness -------------------------------------------------------------- *)
Lemma complete_asg_eb a i : eb (complete (asg_model a)) i = eb (asg_env a) i.
Proof. simpl. destruct (nth_error a i) as [[b z]|]; simpl; [destruct b|]; reflexivity. Qed.
Lemma complete_asg_ei a i : ei (complete (asg_model a)) i = ei (asg_env a) i.
Proof. simpl. destruct (nth_error a i) as [[b z]|]; simpl; reflexivity. Qed.

Theorem bf_oracle_sound : oracle_sound_on bf_oracle.
Proof.
  intros ts m H. unfold bf_oracle in H.
  destruct (find (fun a => forallb (ztrue (asg_env a)) ts) (enum_from ts 0 (zmax_ids ts))) as [a|] eqn:F;
    simpl in H; [|discriminate]. injection H as <-.
  apply find_some in F; destruct F as [Ia Ha]. split.
  - rewrite <- Ha. apply forallb_ztrue_occ; intros i _; [apply complete_asg_eb|apply complete_asg_ei].
  - intros i O. pose proof (occurs_lt_max_ids i ts (or_introl O)) as Lt.
    pose proof (enum_from_length ts _ _ a Ia) as L. simpl.
    destruct (nth_error a i) eqn:N; [discriminate|]. apply nth_error_None in N; lia.
Qed.

(* ---- completeness on bounded queries --------------------------------------- *)
Theorem bf_oracle_complete : oracle_complete_on bf_oracle.
Proof.
  intros ts B H en. destruct (forallb (ztrue en) ts) eqn:S; [exfalso|reflexivity].
  unfold bf_oracle in H.
  destruct (find (fun a => forallb (ztrue (asg_env a)) ts) (enum_from ts 0 (zmax_ids ts))) as [a|] eqn:F;
    simpl in H; [discriminate|]. clear H.
  set (n := zmax_ids ts) in *.
  set (a := map (fun i => (if existsb (bool_occurs i) ts then eb en i else false,
                           if existsb (int_occurs i) ts then ei en i else 0)) (seq 0 n)).
  assert (Hnth : forall j, (j < n)%nat -> nth_error a j =
            Some (if existsb (bool_occurs j) ts then eb en j else false,
                  if existsb (int_occurs j) ts then ei en j else 0)).
  { intros j Hj. unfold a. erewrite map_nth_error; [reflexivity|]. rewrite seq_nth_error by exact Hj. reflexivity. }
  assert (Ia : In a (enum_from ts 0 n)).
  { apply enum_from_complete; [unfold a; rewrite map_length, seq_length; reflexivity|].
    intros j b z Hj. simpl.
    assert (Hlt : (j < n)%nat).
    { assert (Hl : (j < length a)%nat) by (apply nth_error_Some; rewrite Hj; discriminate).
      unfold a in Hl; rewrite map_length, seq_length in Hl; exact Hl. }
    rewrite (Hnth j Hlt) in Hj. injection Hj as <- <-. split.
    - unfold dom_b. destruct (existsb (bool_occurs j) ts); [destruct (eb en j); simpl; auto|left; reflexivity].
    - unfold dom_i. destruct (existsb (int_occurs j) ts) eqn:O; [|left; reflexivity].
      unfold boundedb in B. rewrite forallb_forall in B.
      specialize (B j (proj2 (in_seq _ _ _) (conj (Nat.le_0_l j) Hlt))). rewrite O in B; simpl in B.
      destruct (find_lo j ts) as [lo|] eqn:Lo; [|discriminate]. destruct (find_hi j ts) as [hi|] eqn:Hi; [|discriminate].
      apply zrange_in. rewrite forallb_forall in S.
      pose proof (S _ (find_lo_in j ts lo Lo)) as S1. pose proof (S _ (find_hi_in j ts hi Hi)) as S2.
      unfold ztrue in S1, S2; simpl in S1, S2.
      destruct (lo <=? ei en j) eqn:E1; [|discriminate]. destruct (ei en j <=? hi) eqn:E2; [|discriminate].
      apply Z.leb_le in E1, E2; lia. }
  pose proof (find_none _ _ F a Ia) as Hf. simpl in Hf.
  rewrite (forallb_ztrue_occ (asg_env a) en ts) in Hf; [congruence| |].
  - intros i O. pose proof (occurs_lt_max_ids i ts (or_intror O)) as Lt. simpl.
    rewrite (Hnth i Lt), O; reflexivity.
  - intros i O. pose proof (occurs_lt_max_ids i ts (or_introl O)) as Lt. simpl.
    rewrite (Hnth i Lt), O; reflexivity.
Qed.
