(* The independent pzpr decoder of the compass body (Codec/Pzpr.v: compass_cells, four
   number16 tokens per clue in the order up, down, left, right) reads the text written by
   cspuz's legacy encoder compass.to_puzz_link_url back as the same clues. *)
From Coq Require Import ZArith List Ascii Bool NArith Lia.
From Cspuz Require Import Lib.PyErr Codec.Comb Codec.CombWf Codec.CombBasics Codec.CombLeaf
  Codec.Legacy Codec.LegacyProofs Codec.LegacyEq Codec.Pzpr Codec.PzprProofs.
Import ListNotations.
Local Open Scope Z_scope.

(* ------------------------------------------------------------------ one number token *)
Lemma enc_num_hexenc v : 0 <= v -> enc_num v = hexenc v.
Proof.
  intros Hv. unfold enc_num, hexenc, hex_prefix. rewrite to_base16_nonneg by lia.
  destruct (Z.eqb_spec v (-1)); [lia|].
  destruct (Z.leb_spec v 15).
  - destruct (Z.leb_spec 16 v); [lia|]. cbn [andb]. destruct (Z.leb_spec 256 v); [lia|]. reflexivity.
  - destruct (Z.leb_spec 16 v); [|lia]. destruct (Z.leb_spec v 255).
    + destruct (Z.ltb_spec v 256); [|lia]. reflexivity.
    + destruct (Z.ltb_spec v 256); [lia|]. cbn [andb]. destruct (Z.leb_spec 256 v); [|lia]. reflexivity.
Qed.

Lemma hex_digit_not_skip ch v : digit_in 16 ch = Some v -> between "g" "z" ch = false.
Proof.
  revert ch v.
  assert (H : forall ch, (match digit_in 16 ch with Some _ => negb (between "g" "z" ch) | None => true end) = true).
  { apply forall_chars. vm_compute. reflexivity. }
  intros ch v E. specialize (H ch). rewrite E in H. apply negb_true_iff in H. exact H.
Qed.

(* tok16 reads one encoded number and leaves the rest; the token does not start with a run character *)
Lemma tok16_enc v rest : vnum v ->
  tok16 (enc_num v ++ rest) = Some (v, rest) /\
  exists c t, enc_num v = c :: t /\ between "g" "z" c = false.
Proof.
  intros [->|Hv].
  - split; [reflexivity|]. exists "."%char, []. split; reflexivity.
  - destruct (Z.eq_dec v 0) as [->|Hn0].
    { split; [reflexivity|]. exists "0"%char, []. split; reflexivity. }
    rewrite enc_num_hexenc by lia.
    destruct (hexenc_shape v ltac:(lia)) as [(Hle & c & Ec & Ed)|[(Hr & Ec & El)|(Hr & Ec & El)]].
    + rewrite Ec. split.
      * cbn [app tok16]. rewrite Ed. reflexivity.
      * exists c, []. split; [reflexivity|]. apply (hex_digit_not_skip c v Ed).
    + rewrite Ec. split.
      * change (("-"%char :: to_base 16 v) ++ rest) with ("-"%char :: (to_base 16 v ++ rest)).
        cbn [tok16]. destruct special_not_digit as (S1 & _). rewrite S1.
        change (is_ch "-" "-"%char) with true. cbv iota.
        rewrite <- El. apply take_hex_to_base. lia.
      * exists "-"%char, (to_base 16 v). split; reflexivity.
    + rewrite Ec. split.
      * change (("+"%char :: to_base 16 v) ++ rest) with ("+"%char :: (to_base 16 v ++ rest)).
        cbn [tok16]. destruct special_not_digit as (_ & S2 & _). rewrite S2.
        change (is_ch "-" "+"%char) with false. change (is_ch "+" "+"%char) with true. cbv iota.
        rewrite <- El. apply take_hex_to_base. lia.
      * exists "+"%char, (to_base 16 v). split; reflexivity.
Qed.

(* ------------------------------------------------------------------ the decoder loop *)
Lemma compass_flush fuel n c cnt s : 1 <= cnt <= 20 -> (c < n)%nat ->
  compass_cells (S fuel) n c (base36_char (cnt + 15) :: s) = compass_cells fuel n (c + Z.to_nat cnt)%nat s.
Proof.
  intros Hc Hn. cbn [compass_cells]. destruct (Nat.leb_spec n c); [lia|].
  destruct (skip_char cnt Hc) as (_ & _ & _ & _ & E5 & E6). rewrite E5, E6.
  f_equal. lia.
Qed.

Lemma compass_clue fuel n c q s : cell_ok (Some q) -> (c < n)%nat ->
  compass_cells (S fuel) n c (enc_clue q ++ s) =
  match compass_cells fuel n (S c) s with
  | Some rest => Some ((c, q) :: rest)
  | None => None
  end.
Proof.
  destruct q as [[[u d] lf] r]. intros (Hu & Hd & Hlf & Hr) Hn. unfold enc_clue.
  repeat rewrite <- app_assoc.
  destruct (tok16_enc u (enc_num d ++ enc_num lf ++ enc_num r ++ s) Hu) as (E0 & c0 & t & Ec & Hb).
  destruct (tok16_enc d (enc_num lf ++ enc_num r ++ s) Hd) as (E1 & _).
  destruct (tok16_enc lf (enc_num r ++ s) Hlf) as (E2 & _).
  destruct (tok16_enc r s Hr) as (E3 & _).
  remember (enc_num u ++ enc_num d ++ enc_num lf ++ enc_num r ++ s) as full eqn:Ef.
  assert (Hhd : exists t', full = c0 :: t') by (subst full; rewrite Ec; eexists; reflexivity).
  destruct Hhd as (t' & Efull). rewrite Efull.
  cbn [compass_cells]. destruct (Nat.leb_spec n c); [lia|]. rewrite Hb.
  rewrite <- Efull. rewrite E0, E1, E2, E3. reflexivity.
Qed.

(* the clues of a cell stream starting at cell number c, as pzpr lists them *)
Fixpoint pz_cells (l : list cellv) (c : nat) : list (nat * (Z * Z * Z * Z)) :=
  match l with
  | [] => []
  | None :: t => pz_cells t (S c)
  | Some q :: t => (c, q) :: pz_cells t (S c)
  end.

Lemma enc_clue_nonempty q : cell_ok (Some q) -> (1 <= length (enc_clue q))%nat.
Proof.
  destruct q as [[[u d] lf] r]. intros (Hu & _).
  destruct (tok16_enc u [] Hu) as (_ & c & t & Ec & _).
  unfold enc_clue. rewrite Ec. simpl. lia.
Qed.

Lemma compass_cells_enc l : Forall cell_ok l ->
  forall cnt c fuel n, 0 <= cnt <= 20 -> n = (c + Z.to_nat cnt + length l)%nat ->
  (length (enc_cells l cnt) < fuel)%nat ->
  compass_cells fuel n c (enc_cells l cnt) = Some (pz_cells l (c + Z.to_nat cnt)).
Proof.
  induction 1 as [|x l Hx Hl IH]; intros cnt c fuel n Hcnt Hn Hfuel.
  - cbn [enc_cells pz_cells] in *. unfold enc_flush in *. destruct (Z.ltb_spec 0 cnt).
    + destruct fuel as [|fuel]; [lia|]. simpl length in *.
      rewrite compass_flush by (simpl in Hn; lia).
      destruct fuel as [|fuel]; [lia|]. reflexivity.
    + destruct fuel as [|fuel]; [lia|]. reflexivity.
  - destruct x as [q|].
    + cbn [enc_cells pz_cells] in *. simpl length in Hn.
      pose proof (enc_clue_nonempty q Hx) as Hq.
      rewrite !app_length in Hfuel.
      unfold enc_flush in *. destruct (Z.ltb_spec 0 cnt).
      * simpl length in Hfuel. destruct fuel as [|fuel]; [lia|]. cbn [app].
        rewrite compass_flush by lia.
        destruct fuel as [|fuel]; [lia|].
        rewrite compass_clue by (try assumption; lia).
        rewrite (IH 0 (S (c + Z.to_nat cnt)) fuel n) by (simpl; lia).
        change (Z.to_nat 0) with 0%nat. rewrite Nat.add_0_r. reflexivity.
      * assert (cnt = 0) by lia. subst cnt. simpl length in Hfuel. cbn [app].
        destruct fuel as [|fuel]; [lia|].
        change (Z.to_nat 0) with 0%nat in *. rewrite Nat.add_0_r in *.
        rewrite compass_clue by (try assumption; lia).
        rewrite (IH 0 (S c) fuel n) by (simpl; lia).
        change (Z.to_nat 0) with 0%nat. rewrite Nat.add_0_r. reflexivity.
    + cbn [enc_cells pz_cells] in *. simpl length in Hn. destruct (Z.leb_spec 20 cnt).
      * assert (cnt = 20) by lia. subst cnt.
        destruct fuel as [|fuel]; [simpl in Hfuel; lia|]. simpl length in Hfuel.
        change "z"%char with (base36_char (20 + 15)).
        rewrite compass_flush by lia.
        rewrite (IH 1 (c + Z.to_nat 20)%nat fuel n) by lia.
        f_equal. f_equal. lia.
      * rewrite (IH (cnt + 1) c fuel n) by lia. f_equal. f_equal. lia.
Qed.

(* ------------------------------------------------------------------ cell numbers back to (y, x) *)
(* cspuz lists a clue as (y, x, (up, left, down, right)); pzpr as (y, x, (up, down, left, right)) *)
Definition pzpr_clue (c : clue) : Z * Z * (Z * Z * Z * Z) := match c with (y, x, (u, l, d, r)) => (y, x, (u, d, l, r)) end.

Lemma pz_read W l : forall c,
  map (fun cv : nat * (Z * Z * Z * Z) => (Z.of_nat (fst cv / W), Z.of_nat (fst cv mod W), snd cv)) (pz_cells l c)
  = map pzpr_clue (read_cells (Z.of_nat W) l (Z.of_nat c)).
Proof.
  induction l as [|x l IH]; intros c; [reflexivity|].
  destruct x as [[[[u d] lf] r]|]; cbn [pz_cells read_cells map fst snd pzpr_clue].
  - rewrite IH. rewrite Nat2Z.inj_div, Nat2Z.inj_mod.
    replace (Z.of_nat (S c)) with (Z.of_nat c + 1) by lia. reflexivity.
  - rewrite IH. replace (Z.of_nat (S c)) with (Z.of_nat c + 1) by lia. reflexivity.
Qed.

(* the text of the board: compass_body writes the specification stream of the placed cells *)
Lemma compass_body_text h w pos :
  Forall (in_board (Z.to_nat h) (Z.to_nat w)) pos -> Forall clue_ok pos ->
  let cells := place_cells (Z.to_nat w) pos (repeat None (Z.to_nat h * Z.to_nat w)) in
  Forall cell_ok cells /\ compass_body h w pos = Ok (enc_cells cells 0).
Proof.
  intros Hin Hok.
  set (H := Z.to_nat h) in *. set (W := Z.to_nat w) in *.
  destruct (compass_place_flat H W pos Hin (none_grid h w) (rect_none_grid h w)) as (g & Eg & Hg & Hc).
  unfold none_grid in Hc. fold H W in Hc. rewrite concat_repeat in Hc.
  change (repeat VNone (H * W)) with (repeat (cpv None) (H * W)) in Hc. rewrite <- map_repeat' in Hc.
  rewrite place_cells_map in Hc.
  intros cells. fold cells in Hc.
  assert (Hcells : Forall cell_ok cells).
  { apply place_cells_ok; auto. apply Forall_forall. intros c Hc'. apply repeat_spec in Hc'. subst. exact I. }
  split; [exact Hcells|].
  unfold compass_body. rewrite Eg. simpl. unfold encode_array.
  change (str_find marker_g BASE36 0) with (@Ok Z 16). simpl.
  assert (Hl : forallb is_list (map VList g) = true).
  { apply forallb_forall. intros v Hv. apply in_map_iff in Hv as (r & <- & _). reflexivity. }
  rewrite Hl. simpl.
  assert (Hsum : forall rows, py_sum_lists (map VList rows) = Ok (concat rows)).
  { induction rows as [|r rows IH]; simpl; [reflexivity|]. rewrite IH. reflexivity. }
  rewrite Hsum. simpl. rewrite Hc. apply ea_loop_enc; [exact Hcells|lia].
Qed.

(* compass: the body written by to_puzz_link_url is read by pzpr's decoder as the same clues *)
Theorem compass_pzpr_reads : forall h w pos, 0 <= h -> 0 <= w -> compass_clues_ok h w pos ->
  exists body, compass_body h w pos = Ok body /\
    to_puzz_link_url h w pos = Ok (compass_prefix ++ py_str_int w ++ slash ++ py_str_int h ++ slash ++ body) /\
    pzpr_decode_compass (Z.to_nat h) (Z.to_nat w) body = Some (map pzpr_clue pos).
Proof.
  intros h w pos Hh Hw (Hin & Hok & Hs).
  destruct (compass_body_text h w pos Hin Hok) as (Hcells & Hbody).
  set (H := Z.to_nat h) in *. set (W := Z.to_nat w) in *.
  set (cells := place_cells W pos (repeat None (H * W))) in *.
  exists (enc_cells cells 0). split; [exact Hbody|]. split.
  - unfold to_puzz_link_url. rewrite Hbody. reflexivity.
  - assert (Hlen : length cells = (H * W)%nat).
    { unfold cells. rewrite place_cells_length. apply repeat_length. }
    unfold pzpr_decode_compass.
    rewrite (compass_cells_enc cells Hcells 0 0%nat (S (length (enc_cells cells 0))) (H * W)%nat)
      by (try lia; rewrite Hlen; reflexivity).
    change (0 + Z.to_nat 0)%nat with 0%nat. f_equal.
    rewrite (pz_read W cells 0). change (Z.of_nat 0) with 0. f_equal.
    destruct pos as [|c0 pos'].
    + unfold cells. simpl. apply read_all_none. intros i. apply nth_repeat.
    + assert (HW : (0 < W)%nat).
      { inversion Hin as [|? ? Hc0 _]; subst. destruct c0 as [[y x] ?]. destruct Hc0 as [_ Hx]. lia. }
      unfold cells. rewrite (read_place H W (c0 :: pos') Hin HW _ 0%nat); auto.
      * rewrite (read_all_none (Z.of_nat W)) by (intros i; apply nth_repeat). reflexivity.
      * apply repeat_length.
      * intros j _. apply nth_repeat.
Qed.
