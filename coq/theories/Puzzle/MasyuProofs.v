(* C11 Tier 1 - masyu: for every board shape (height, width >= 1; the Python and the model reject the others) and
   every circle layout, the program posted by solve_masyu (model Masyu.v: the single-cycle helper of property C06
   on the frame whose points are the cells, one constraint per circle built through get_edge) has a model reading
   as [ans] on the frame exactly when [ans] obeys Rules_masyu.  The graph side is CycleCompose.cycle_frame_compose
   (instantiated with the frame of height - 1 x width - 1 cells); the local side shows that the trees built by
   get_edge / & / | (with Python bools for the segments outside the board) say, circle by circle, exactly what the
   rule file says with PuzzleBase.seg. *)
From Coq Require Import ZArith List Bool Arith Lia.
From Cspuz Require Import Lib.PyErr Core.Expr Core.Program Graph.GraphModel Graph.Cycle
     Puzzle.PuzzleBase Puzzle.SatAbs Puzzle.ModelBase Puzzle.ModelLemmas
     Puzzle.CycleFrameBase Puzzle.CycleCompose Puzzle.Rules_masyu Puzzle.Masyu.
Import ListNotations.
Local Open Scope nat_scope.

Notation b2z := PuzzleBase.b2z.

(* the circle rules of Rules_masyu.v as a function of the answer (the same text) *)
Definition masyu_local (h w : nat) (circ : list Z) (ans : answer) : bool :=
  let on := fun k => isb (getz ans k) in
  let sg := seg h w on in
  let straight := fun y x d => sg y x d && sg y x (opposite d) in
  let turns_next := fun y x d => let '(y', x') := step_dir y x d in negb (sg y' x' d) in
  let goes_on_next := fun y x d => let '(y', x') := step_dir y x d in sg y' x' d in
  forallb (fun '(y, x) =>
     let c := at2 circ w y x in
     if (c =? 1)%Z then
       existsb (fun d => straight y x d && (turns_next y x d || turns_next y x (opposite d))) [0; 2]
     else if (c =? 2)%Z then
       existsb (fun dv => existsb (fun dh =>
          sg y x dv && sg y x dh && goes_on_next y x dv && goes_on_next y x dh) [2; 3]) [0; 1]
     else true) (cells h w).

Lemma masyu_hseg_hid h w y x : hseg (S h) (S w) y x = frame_hid h w y x.
Proof. unfold hseg, frame_hid. replace (S w - 1) with w by lia. reflexivity. Qed.
Lemma masyu_vseg_vid h w y x : vseg (S h) (S w) y x = frame_vid h w y x.
Proof. unfold vseg, frame_vid. replace (S w - 1) with w by lia. reflexivity. Qed.
Lemma masyu_n_lattice_frame h w : n_lattice_edges (S h) (S w) = frame_n h w.
Proof. unfold n_lattice_edges, frame_n. replace (S w - 1) with w by lia. replace (S h - 1) with h by lia. reflexivity. Qed.

Lemma masyu_dims h w (rest : list (list Z)) :
  dim ([Z.of_nat h; Z.of_nat w] :: rest) 0 = h /\ dim ([Z.of_nat h; Z.of_nat w] :: rest) 1 = w.
Proof. unfold dim, zn, getz, sec; simpl. rewrite !Nat2Z.id. split; reflexivity. Qed.

(* ------------------------------------------------------------------------------------------------------ *)
(* 1. value of the trees built by get_edge, & and |                                                        *)

(* the truth value get_edge(y, x, neg) denotes under an assignment of the frame variables *)
Definition edge_sem (h w : nat) (en : env) (y x : Z) (neg : bool) : bool :=
  if ((0 <=? y) && (y <=? 2 * (Z.of_nat h - 1)) && (0 <=? x) && (x <=? 2 * (Z.of_nat w - 1)))%Z then
    xorb neg (eb en (if Z.even y
                     then frame_hid (h - 1) (w - 1) (Z.to_nat (y / 2)) (Z.to_nat (x / 2))
                     else frame_vid (h - 1) (w - 1) (Z.to_nat (y / 2)) (Z.to_nat (x / 2))))
  else neg.

Definition white_sem (h w : nat) (en : env) (y x : Z) : bool :=
  let e := edge_sem h w en in
  (e (y * 2) (x * 2 - 1) false && e (y * 2) (x * 2 + 1) false && (e (y * 2) (x * 2 - 3) true || e (y * 2) (x * 2 + 3) true) ||
   e (y * 2 - 1) (x * 2) false && e (y * 2 + 1) (x * 2) false && (e (y * 2 - 3) (x * 2) true || e (y * 2 + 3) (x * 2) true))%Z.

Definition black_sem (h w : nat) (en : env) (y x : Z) : bool :=
  let e := fun y x => edge_sem h w en y x false in
  ((e (y * 2) (x * 2 - 1) && e (y * 2) (x * 2 - 3) || e (y * 2) (x * 2 + 1) && e (y * 2) (x * 2 + 3)) &&
   (e (y * 2 - 1) (x * 2) && e (y * 2 - 3) (x * 2) || e (y * 2 + 1) (x * 2) && e (y * 2 + 3) (x * 2)))%Z.

Section Eval.
  Variable en : env.
  Notation ev := (eval no_graph en).

  Lemma eval_and2 a b p q : ev a = Some (VB p) -> ev b = Some (VB q) -> ev (BNode AND [a; b]) = Some (VB (p && q)).
  Proof. intros Ha Hb. cbn [eval map]. rewrite Ha, Hb. simpl. rewrite andb_true_r. reflexivity. Qed.
  Lemma eval_or2 a b p q : ev a = Some (VB p) -> ev b = Some (VB q) -> ev (BNode OR [a; b]) = Some (VB (p || q)).
  Proof. intros Ha Hb. cbn [eval map]. rewrite Ha, Hb. simpl. rewrite orb_false_r. reflexivity. Qed.

  Lemma eval_py_and a b p q : ev a = Some (VB p) -> ev b = Some (VB q) -> ev (py_and a b) = Some (VB (p && q)).
  Proof.
    intros Ha Hb. destruct a, b; try (apply eval_and2; assumption).
    simpl in *. inversion Ha. inversion Hb. reflexivity.
  Qed.
  Lemma eval_py_or a b p q : ev a = Some (VB p) -> ev b = Some (VB q) -> ev (py_or a b) = Some (VB (p || q)).
  Proof.
    intros Ha Hb. destruct a, b; try (apply eval_or2; assumption).
    simpl in *. inversion Ha. inversion Hb. reflexivity.
  Qed.

  Lemma eval_edge h w y x neg : ev (masyu_get_edge h w y x neg) = Some (VB (edge_sem h w en y x neg)).
  Proof.
    unfold masyu_get_edge, edge_sem.
    destruct ((0 <=? y) && (y <=? 2 * (Z.of_nat h - 1)) && (0 <=? x) && (x <=? 2 * (Z.of_nat w - 1)))%Z; [|reflexivity].
    destruct (Z.even y), neg; simpl;
      match goal with |- context[eb en ?i] => destruct (eb en i) end; reflexivity.
  Qed.

  Lemma eval_white h w y x : ev (masyu_white h w y x) = Some (VB (white_sem h w en y x)).
  Proof.
    unfold masyu_white, white_sem. cbv zeta.
    repeat first [apply eval_py_and | apply eval_py_or]; apply eval_edge.
  Qed.
  Lemma eval_black h w y x : ev (masyu_black h w y x) = Some (VB (black_sem h w en y x)).
  Proof.
    unfold masyu_black, black_sem. cbv zeta.
    repeat first [apply eval_py_and | apply eval_py_or]; apply eval_edge.
  Qed.

  Lemma holds_white h w y x : holds no_graph en (masyu_white h w y x) = white_sem h w en y x.
  Proof. unfold holds. rewrite eval_white. destruct (white_sem h w en y x); reflexivity. Qed.
  Lemma holds_black h w y x : holds no_graph en (masyu_black h w y x) = black_sem h w en y x.
  Proof. unfold holds. rewrite eval_black. destruct (black_sem h w en y x); reflexivity. Qed.
End Eval.

(* ------------------------------------------------------------------------------------------------------ *)
(* 2. get_edge in the vocabulary of the rule file: the segments around a cell of the (h+1) x (w+1) board   *)

Ltac guards :=
  repeat match goal with
         | |- context[Z.leb ?a ?b] => destruct (Z.leb_spec a b)
         | |- context[Z.ltb ?a ?b] => destruct (Z.ltb_spec a b)
         | |- context[Nat.ltb ?a ?b] => destruct (Nat.ltb_spec a b)
         end.

Section Segments.
  Variables (h w : nat) (en : env) (on : nat -> bool).
  Hypothesis Hon : forall k, k < frame_n h w -> on k = eb en k.
  Notation e := (edge_sem (S h) (S w) en).
  Notation sg := (seg (S h) (S w) on).

  (* a horizontal segment: row y, between columns k and k + 1 *)
  Lemma edge_hor (y : nat) (k : Z) neg : y <= h ->
    e (Z.of_nat y * 2)%Z (k * 2 + 1)%Z neg =
    xorb neg ((0 <=? k)%Z && (k <? Z.of_nat w)%Z && on (hseg (S h) (S w) y (Z.to_nat k))).
  Proof.
    intros Hy. unfold edge_sem.
    replace (S h - 1) with h by lia. replace (S w - 1) with w by lia.
    rewrite Z.even_mul, Z.div_mul, Z.div_add_l by lia. simpl Z.even. rewrite orb_true_r.
    change (1 / 2)%Z with 0%Z. rewrite Z.add_0_r, Nat2Z.id, masyu_hseg_hid.
    guards; cbn [andb]; try lia; try (destruct neg; reflexivity).
    rewrite Hon; [reflexivity|]. unfold frame_hid, frame_n.
    assert (Z.to_nat k < w) by lia. nia.
  Qed.

  (* a vertical segment: column x, between rows k and k + 1 *)
  Lemma edge_ver (x : nat) (k : Z) neg : x <= w ->
    e (k * 2 + 1)%Z (Z.of_nat x * 2)%Z neg =
    xorb neg ((0 <=? k)%Z && (k <? Z.of_nat h)%Z && on (vseg (S h) (S w) (Z.to_nat k) x)).
  Proof.
    intros Hx. unfold edge_sem.
    replace (S h - 1) with h by lia. replace (S w - 1) with w by lia.
    rewrite Z.even_add, Z.even_mul, Z.div_mul, Z.div_add_l by lia. simpl Z.even. rewrite orb_true_r.
    change (1 / 2)%Z with 0%Z. rewrite Z.add_0_r, Nat2Z.id, masyu_vseg_vid. cbn [Bool.eqb].
    guards; cbn [andb]; try lia; try (destruct neg; reflexivity).
    rewrite Hon; [reflexivity|]. unfold frame_vid, frame_n.
    assert (Z.to_nat k < h) by lia. nia.
  Qed.

  Variables y x : nat.
  Hypothesis Hy : y <= h.
  Hypothesis Hx : x <= w.
  Notation Y := (Z.of_nat y).
  Notation X := (Z.of_nat x).

  Ltac seg_case :=
    unfold seg; rewrite ?xorb_false_l; guards; cbn [andb]; try lia; try reflexivity;
    repeat f_equal; lia.

  (* the four segments at the cell *)
  Lemma edge_up : e (Y * 2 - 1)%Z (X * 2)%Z false = sg y x 0.
  Proof. replace (Y * 2 - 1)%Z with ((Y - 1) * 2 + 1)%Z by lia. rewrite edge_ver by exact Hx. seg_case. Qed.
  Lemma edge_down : e (Y * 2 + 1)%Z (X * 2)%Z false = sg y x 1.
  Proof. rewrite edge_ver by exact Hx. seg_case. Qed.
  Lemma edge_left : e (Y * 2)%Z (X * 2 - 1)%Z false = sg y x 2.
  Proof. replace (X * 2 - 1)%Z with ((X - 1) * 2 + 1)%Z by lia. rewrite edge_hor by exact Hy. seg_case. Qed.
  Lemma edge_right : e (Y * 2)%Z (X * 2 + 1)%Z false = sg y x 3.
  Proof. rewrite edge_hor by exact Hy. seg_case. Qed.
  (* the segments one cell further in each direction *)
  Lemma edge_up2 neg : e (Y * 2 - 3)%Z (X * 2)%Z neg = xorb neg (sg (y - 1) x 0).
  Proof. replace (Y * 2 - 3)%Z with ((Y - 2) * 2 + 1)%Z by lia. rewrite edge_ver by exact Hx. seg_case. Qed.
  Lemma edge_down2 neg : e (Y * 2 + 3)%Z (X * 2)%Z neg = xorb neg (sg (S y) x 1).
  Proof. replace (Y * 2 + 3)%Z with ((Y + 1) * 2 + 1)%Z by lia. rewrite edge_ver by exact Hx. seg_case. Qed.
  Lemma edge_left2 neg : e (Y * 2)%Z (X * 2 - 3)%Z neg = xorb neg (sg y (x - 1) 2).
  Proof. replace (X * 2 - 3)%Z with ((X - 2) * 2 + 1)%Z by lia. rewrite edge_hor by exact Hy. seg_case. Qed.
  Lemma edge_right2 neg : e (Y * 2)%Z (X * 2 + 3)%Z neg = xorb neg (sg y (S x) 3).
  Proof. replace (X * 2 + 3)%Z with ((X + 1) * 2 + 1)%Z by lia. rewrite edge_hor by exact Hy. seg_case. Qed.

  (* rule 3 (white circle) and rule 4 (black circle) of Rules_masyu.v at the cell (y, x) *)
  Lemma white_rule :
    existsb (fun d => sg y x d && sg y x (opposite d) &&
                      ((let '(y', x') := step_dir y x d in negb (sg y' x' d)) ||
                       (let '(y', x') := step_dir y x (opposite d) in negb (sg y' x' (opposite d))))) [0; 2] =
    white_sem (S h) (S w) en Y X.
  Proof.
    unfold white_sem. cbv zeta.
    rewrite edge_up, edge_down, edge_left, edge_right, edge_up2, edge_down2, edge_left2, edge_right2.
    cbn [existsb opposite step_dir xorb].
    destruct (sg y x 0), (sg y x 1), (sg y x 2), (sg y x 3), (sg (y - 1) x 0), (sg (S y) x 1), (sg y (x - 1) 2),
      (sg y (S x) 3); reflexivity.
  Qed.

  Lemma black_rule :
    existsb (fun dv => existsb (fun dh =>
       sg y x dv && sg y x dh && (let '(y', x') := step_dir y x dv in sg y' x' dv) &&
       (let '(y', x') := step_dir y x dh in sg y' x' dh)) [2; 3]) [0; 1] =
    black_sem (S h) (S w) en Y X.
  Proof.
    unfold black_sem. cbv zeta.
    rewrite edge_up, edge_down, edge_left, edge_right, edge_up2, edge_down2, edge_left2, edge_right2.
    cbn [existsb opposite step_dir xorb].
    destruct (sg y x 0), (sg y x 1), (sg y x 2), (sg y x 3), (sg (y - 1) x 0), (sg (S y) x 1), (sg y (x - 1) 2),
      (sg y (S x) 3); reflexivity.
  Qed.
End Segments.

(* the circle constraints say exactly masyu_local on the reading of the frame variables *)
Lemma masyu_clues_core h w circ en :
  masyu_local (S h) (S w) circ (map (fun i => b2z (eb en i)) (seq 0 (frame_n h w))) =
  forallb (holds no_graph en) (masyu_constraints (S h) (S w) circ).
Proof.
  unfold masyu_local, masyu_constraints. rewrite forallb_flat_map.
  apply forallb_ext_in. intros [y x] Hc. apply cells_in in Hc. destruct Hc as [Hy Hx].
  assert (Hon : forall k, k < frame_n h w ->
                  isb (getz (map (fun i => b2z (eb en i)) (seq 0 (frame_n h w))) k) = eb en k).
  { intros k Hk. rewrite getz_map_seq by exact Hk. apply b2z_isb. }
  unfold masyu_clue. destruct (at2 circ (S w) y x =? 1)%Z.
  - cbn [forallb]. rewrite andb_true_r, holds_white.
    apply (white_rule h w en _ Hon y x); lia.
  - destruct (at2 circ (S w) y x =? 2)%Z; [|reflexivity].
    cbn [forallb]. rewrite andb_true_r, holds_black.
    apply (black_rule h w en _ Hon y x); lia.
Qed.

Theorem masyu_exact h w circ st ans :
  solve_masyu_model [[Z.of_nat h; Z.of_nat w]; circ] = Ok st ->
  ((exists en, model_of no_graph en st /\ reads st en (seq 0 (n_lattice_edges h w)) = ans)
   <-> rules_masyu [[Z.of_nat h; Z.of_nat w]; circ] ans = true).
Proof.
  unfold solve_masyu_model, rules_masyu.
  change (sec [[Z.of_nat h; Z.of_nat w]; circ] 1) with circ.
  change (sec [[Z.of_nat h; Z.of_nat w]; circ] 0) with [Z.of_nat h; Z.of_nat w].
  change (getz [Z.of_nat h; Z.of_nat w] 0) with (Z.of_nat h).
  change (getz [Z.of_nat h; Z.of_nat w] 1) with (Z.of_nat w).
  destruct (masyu_dims h w [circ]) as [-> ->].
  destruct h as [|h]; [intros H; discriminate H|].
  destruct w as [|w]; [rewrite orb_true_r; intros H; discriminate H|].
  replace ((Z.of_nat (S h) <? 1) || (Z.of_nat (S w) <? 1))%Z with false
    by (symmetry; apply orb_false_iff; split; apply Z.ltb_ge; lia).
  replace (S h - 1) with h by lia. replace (S w - 1) with w by lia.
  destruct (frame_cycle h w) as [[st1 res]|e] eqn:Hcall; [|discriminate].
  destruct (Nat.ltb (length circ) (S h * S w)); [discriminate|].
  intros Hst. inversion Hst; subst st. clear Hst.
  destruct (cycle_frame_compose no_graph h w (masyu_constraints (S h) (S w) circ) (masyu_local (S h) (S w) circ)
              st1 res ans Hcall (fun en _ => masyu_clues_core h w circ en)) as [_ EX].
  rewrite masyu_n_lattice_frame, EX. reflexivity.
Qed.

(* the model accepts every board with at least one row and one column and enough circle entries (the premise of
   masyu_exact is satisfiable) *)
Lemma masyu_model_total h w circ :
  S h * S w <= length circ -> exists st, solve_masyu_model [[Z.of_nat (S h); Z.of_nat (S w)]; circ] = Ok st.
Proof.
  intros Hl. unfold solve_masyu_model.
  change (sec [[Z.of_nat (S h); Z.of_nat (S w)]; circ] 1) with circ.
  change (sec [[Z.of_nat (S h); Z.of_nat (S w)]; circ] 0) with [Z.of_nat (S h); Z.of_nat (S w)].
  change (getz [Z.of_nat (S h); Z.of_nat (S w)] 0) with (Z.of_nat (S h)).
  change (getz [Z.of_nat (S h); Z.of_nat (S w)] 1) with (Z.of_nat (S w)).
  destruct (masyu_dims (S h) (S w) [circ]) as [-> ->].
  replace ((Z.of_nat (S h) <? 1) || (Z.of_nat (S w) <? 1))%Z with false
    by (symmetry; apply orb_false_iff; split; apply Z.ltb_ge; lia).
  replace (S h - 1) with h by lia. replace (S w - 1) with w by lia.
  destruct (frame_cycle_ok h w) as [st1 [rest [Hc _]]]. rewrite Hc.
  replace (Nat.ltb (length circ) (S h * S w)) with false by (symmetry; apply Nat.ltb_ge; exact Hl).
  eexists. reflexivity.
Qed.

Example masyu_model_ok : exists st, solve_masyu_model [[2; 2]; [2; 0; 0; 0]]%Z = Ok st.
Proof. apply (masyu_model_total 1 1 [2; 0; 0; 0]%Z). simpl. lia. Qed.

(* the 3 x 3 board: the loop around the border passes the rule check with black circles in the corners and white
   circles on the sides, not with a white circle in a corner; a circle off the loop is refused *)
Example masyu_rules_ring :
  rules_masyu [[3; 3]; [2; 1; 2; 1; 0; 1; 2; 1; 2]]%Z [1; 1; 0; 0; 1; 1; 1; 0; 1; 1; 0; 1]%Z = true /\
  rules_masyu [[3; 3]; [1; 0; 0; 0; 0; 0; 0; 0; 0]]%Z [1; 1; 0; 0; 1; 1; 1; 0; 1; 1; 0; 1]%Z = false /\
  rules_masyu [[3; 3]; [0; 0; 0; 0; 1; 0; 0; 0; 0]]%Z [1; 1; 0; 0; 1; 1; 1; 0; 1; 1; 0; 1]%Z = false /\
  rules_masyu [[3; 3]; [0; 0; 0; 0; 0; 0; 0; 0; 0]]%Z [0; 0; 0; 0; 0; 0; 0; 0; 0; 0; 0; 0]%Z = true.
Proof. vm_compute. repeat split. Qed.
