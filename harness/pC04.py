"""C04 — active_vertices_connected holds exactly for connected (or tree) active sets."""
import exprio
import graphcap
import vlib

PROPS = "Props/C04.v"
RULE = ("tie P (program capture): for every (graph | grid shape) x argument-form x option case the program really "
        "posted by cspuz.graph.active_vertices_connected on a Solver that already holds caller variables / "
        "constraints / answer keys is compared verbatim (declarations, answer keys, constraints in posting order) "
        "with the program of the extracted Coq model Graph/Avc.v::active_vertices_connected; error cases compare the "
        "exception class.  A case is non-trivial when it is a distinct (graph, call form, options, is_active trees) "
        "tuple.  Graphs: all loop-free multigraphs with <= 4 vertices and <= 5 edges (incl. parallel edges, isolated "
        "vertices, the 1-vertex graph) in canonical and shuffled/flipped edge order, small graphs with self-loops, "
        "random multigraphs up to 9 vertices, all grid shapes with h*w <= 12 (incl. 1xN, Nx1, 0-sized) through the "
        "BoolArray2D form, the 0-vertex graph; is_active forms: BoolArray1D, list / tuple of variables, ~v, v&w, v|w, "
        "Python True/False, shared variables, mixed; options: acyclic on/off x use_graph_primitive None/False/True x "
        "config.use_graph_primitive on/off; malformed stream: short / long list, int / IntExpr / None entries, "
        "BoolArray2D with a graph, list without a graph.  search: satisfiability (z3) of the really posted program "
        "with the activity pattern fixed vs the independent oracles graphcap.is_connected / is_tree for every pattern "
        "of every small multigraph (variables, negated variables and Python constants as is_active), for "
        "tree/connected-biased patterns of random larger graphs and for grids through the array form (oracle on an "
        "independently written orthogonal adjacency); the native-operator node really posted is decoded and "
        "evaluated by the Coq meaning gsem_avc and compared with the same oracle; the Coq specification "
        "(connected_b / tree_b) is validated against the oracle; z3 models are re-checked by the Coq certificate "
        "checker and the Coq certificate construction of the completeness proof is replayed on the real program.")
TRUSTED = [
    "reading of the property: 'induce a connected subgraph' = Graph/GraphModel.v::connected (walks through active "
    "vertices), 'induce a tree' = connected and #(edges with two distinct active endpoints, parallel edges counted "
    "twice) + 1 = #active (Graph/Avc.v::tree); validated on every run against graphcap.is_connected / is_tree "
    "written independently in Python",
    "Core/Expr.v::eval as the meaning of the posted trees (n-ary ADD, IF, LT/NE/LE/GE/EQ, binary AND, IMP); z3 "
    "(search only) as the decision procedure for the really posted program",
    "the native operator GRAPH_ACTIVE_VERTICES_CONNECTED means connectivity of the decoded (graph, pattern) "
    "(Graph/Avc.v::gsem_avc); the external solvers implementing it are not available offline",
    "exprio.py / exprio.ml serialisation of trees and solver states used by the capture comparison",
]
ASSUMPTIONS = [
    "graph is a cspuz.graph.Graph built with add_edge on vertices 0..n-1 (endpoints in range); for acyclic=True the "
    "tree reading ignores self-loops (the encoding never looks at them; the search uses loop-free graphs there)",
    "n >= 1 (n = 0 raises ValueError from int_array in the auxiliary-variable encoding; model and check agree)",
    "every is_active entry is a BoolExpr / Python bool over the caller's variables and there is one per vertex",
]

ERR = {1: "IndexError", 2: "KeyError", 3: "AssertionError", 4: "TypeError", 5: "ValueError",
       6: "RecursionError", 7: "NotImplementedError", 8: "Other"}

FORMS = ["array1", "vars", "neg", "and", "or", "const", "shared", "mixed", "tuple"]
BAD_FORMS = ["short", "long", "int", "intexpr", "none"]


def bits(p):
    return " ".join("1" if b else "0" for b in p)


# ---------------------------------------------------------------- argument forms

def make_acts(s, n, form, rng):
    """returns (is_active argument as passed, list of trees, call form S|A1)"""
    from cspuz.array import BoolArray1D
    if form == "array1":
        arr = s.bool_array(n)
        return arr, list(arr.data), "A1"
    if form == "vars":
        fl = [s.bool_var() for _ in range(n)]
        return fl, fl, "S"
    if form == "tuple":
        fl = [s.bool_var() for _ in range(n)]
        return tuple(fl), fl, "S"
    if form == "neg":
        fl = [~s.bool_var() for _ in range(n)]
        return (BoolArray1D(fl), fl, "A1") if rng.random() < 0.3 else (fl, fl, "S")
    if form == "and":
        fl = [s.bool_var() & s.bool_var() for _ in range(n)]
        return fl, fl, "S"
    if form == "or":
        fl = [s.bool_var() | ~s.bool_var() for _ in range(n)]
        return fl, fl, "S"
    if form == "const":
        fl = [rng.random() < 0.6 for _ in range(n)]
        return fl, fl, "S"
    if form == "shared":
        pool = [s.bool_var() for _ in range(max(1, (n + 1) // 2))]
        fl = [pool[rng.randrange(len(pool))] for _ in range(n)]
        return fl, fl, "S"
    if form == "mixed":
        pool = [s.bool_var() for _ in range(n + 1)]
        x = s.int_var(0, 3)
        fl = []
        for _ in range(n):
            c = rng.randrange(8)
            v, w = pool[rng.randrange(len(pool))], pool[rng.randrange(len(pool))]
            fl.append([v, ~v, v & w, v | w, True, False, (v == w) & ~(v ^ w), (x >= 2) | v][c])
        return fl, fl, "S"
    # malformed stream
    base = [s.bool_var() for _ in range(n)]
    if form == "short":
        fl = base[:rng.randrange(n)] if n else base
        return fl, fl, "S"
    if form == "long":
        fl = base + [s.bool_var(), True]
        return fl, fl, "S"
    k = rng.randrange(n) if n else 0
    if form == "int":
        bad = rng.choice([0, 1, 7])
    elif form == "intexpr":
        bad = s.int_var(0, 3) if rng.random() < 0.5 else (s.int_var(0, 3) + 1)
    else:
        bad = None
    fl = list(base)
    if n:
        fl[k] = bad
    return fl, fl, "S"


def make_grid_arg(s, h, w, form, rng):
    """a BoolArray2D of shape (h, w) and its row-major trees"""
    from cspuz.array import BoolArray2D
    arr = s.bool_array((h, w))
    if form == "vars":
        return arr, list(arr.data)
    if form == "neg":
        a2 = ~arr
        return a2, list(a2.data)
    if form == "and":
        other = s.bool_array((h, w))
        a2 = arr & other
        return a2, list(a2.data)
    data = []
    for v in arr.data:
        c = rng.randrange(5)
        data.append([v, ~v, True, False, v | arr.data[0]][c])
    return BoolArray2D(data, (h, w)), data


def pre_state(s, style):
    """caller-side variables / constraints / answer keys that are there before the call"""
    if style == 0:
        return
    a = s.bool_var()
    if style >= 2:
        x = s.int_var(-2, 5)
        s.ensure(a | (x > 0))
        s.add_answer_key(a)


class cfg_prim:
    def __init__(self, value):
        self.value = value

    def __enter__(self):
        from cspuz.configuration import config
        self.config = config
        self.old = config.use_graph_primitive
        config.use_graph_primitive = self.value

    def __exit__(self, *a):
        self.config.use_graph_primitive = self.old


def opt_tok(cfg, acyclic, ugp):
    return "%d %d %s" % (int(cfg), int(acyclic), "N" if ugp is None else str(int(ugp)))


def call_impl(s, arg, g, cfg, acyclic, ugp, how):
    """how: kw | default (leave out options that have their default value)"""
    from cspuz.graph import active_vertices_connected
    kw = {}
    if how == "kw" or acyclic:
        kw["acyclic"] = acyclic
    if how == "kw" or ugp is not None:
        kw["use_graph_primitive"] = ugp
    with cfg_prim(cfg):
        if g is None:
            return vlib.guarded(active_vertices_connected, s, arg, **kw)
        return vlib.guarded(active_vertices_connected, s, arg, g, **kw)


def snap(s):
    """the posted program as a string; a state that cannot be serialised (non-expression objects posted)
    is reported as such instead of crashing the harness"""
    r = vlib.guarded(exprio.show_state, s)
    return ("ok", r[1]) if r[0] == "ok" else ("unserialisable-state", r[1])


def parse_post(o):
    if o.startswith("E "):
        return ("err", ERR[int(o.split()[1])])
    return ("ok", o)


def shuffled(rng, edges):
    es = [(b, a) if rng.random() < 0.5 else (a, b) for (a, b) in edges]
    rng.shuffle(es)
    return es


OPTIONS = [(cfg, acy, ugp) for cfg in (False, True) for acy in (False, True) for ugp in (None, False, True)]


def corr_graphs(ctx):
    rng = ctx.rng
    for n, es in graphcap.all_multigraphs(4, 5):
        yield "small", n, es
        if len(es) >= 1:
            yield "small-shuffled", n, shuffled(rng, es)
    for n, es in graphcap.all_multigraphs(3, 3, loops=True):
        if any(a == b for a, b in es):
            yield "loops", n, shuffled(rng, es)
    for _ in range(400 if ctx.thorough else 80):
        n, es = graphcap.random_multigraph(rng, 9)
        yield "random", n, es
    for _ in range(60 if ctx.thorough else 15):
        n, es = graphcap.random_multigraph(rng, 6, loops=True)
        yield "random-loops", n, es
    for _ in range(3):
        yield "zero-vertices", 0, []


def correspond(ctx):
    m = ctx.model("C04")
    rng = ctx.rng
    reqs, metas = [], []

    def graph_case(n, es, form, opts, style):
        from cspuz import Solver
        cfg, acy, ugp = opts
        s = Solver()
        pre_state(s, style)
        arg, trees, cf = make_acts(s, n, form, rng)
        g = graphcap.mk_graph(n, es)
        pre = exprio.show_state(s)
        ltok = exprio.show_list(trees)
        r = call_impl(s, arg, g, cfg, acy, ugp, rng.choice(["kw", "default"]))
        impl = snap(s) if r[0] == "ok" else r
        reqs.append("P %s G %s %s ST %s L %s" % (opt_tok(cfg, acy, ugp), graphcap.graph_tok(n, es), cf, pre, ltok))
        metas.append((("graph", n, tuple(es), form, opts, style, ltok), impl))
        ctx.count("form:" + form)
        ctx.count("options:cfg=%d,acyclic=%d,ugp=%s" % (cfg, acy, ugp))

    for kind, n, es in corr_graphs(ctx):
        if kind in ("small", "small-shuffled"):
            forms = [FORMS[(len(es) + n) % 2], rng.choice(FORMS[2:]), "mixed"]
            if rng.random() < 0.35:
                forms.append(rng.choice(BAD_FORMS))
            optl = [(False, False, None), (False, True, None), rng.choice(OPTIONS)]
        elif kind == "zero-vertices":
            forms = ["vars", "const"]
            optl = OPTIONS
        else:
            forms = FORMS + [rng.choice(BAD_FORMS)]
            optl = [(False, False, None), (False, True, None), rng.choice(OPTIONS), rng.choice(OPTIONS)]
        for form in forms:
            for opts in optl:
                ctx.count("graphs:" + kind)
                graph_case(n, es, form, opts, rng.randrange(3))
    # every option combination on a few fixed graphs, every form
    for n, es in [(1, []), (2, [(0, 1)]), (3, [(0, 1), (1, 2), (1, 2)]), (4, [(2, 3), (0, 1)]), (5, [(0, 1), (1, 2), (2, 0), (3, 4)])]:
        for form in FORMS + BAD_FORMS:
            for opts in OPTIONS:
                ctx.count("graphs:all-options")
                graph_case(n, es, form, opts, rng.randrange(3))

    # the array (grid) form: graph inferred from a BoolArray2D
    def grid_case(h, w, form, opts, style, with_graph=False):
        from cspuz import Solver
        cfg, acy, ugp = opts
        s = Solver()
        pre_state(s, style)
        arg, trees = make_grid_arg(s, h, w, form, rng)
        pre = exprio.show_state(s)
        ltok = exprio.show_list(trees)
        g = graphcap.mk_graph(h * w, graphcap.grid_edges(h, w)) if with_graph else None
        r = call_impl(s, arg, g, cfg, acy, ugp, rng.choice(["kw", "default"]))
        impl = snap(s) if r[0] == "ok" else r
        gt = "G " + graphcap.graph_tok(h * w, graphcap.grid_edges(h, w)) if with_graph else "NOG"
        reqs.append("P %s %s A2 %d %d ST %s L %s" % (opt_tok(cfg, acy, ugp), gt, h, w, pre, ltok))
        metas.append((("grid", h, w, form, opts, style, with_graph, ltok), impl))
        ctx.count("form:grid-" + form)

    shapes = list(graphcap.grid_shapes(20 if ctx.thorough else 12)) + [(0, 0), (0, 3), (2, 0)]
    for h, w in shapes:
        for form in ["vars", "neg", "and", "mixed"]:
            for opts in [(False, False, None), (False, True, None), (True, False, None), rng.choice(OPTIONS)]:
                ctx.count("graphs:grid")
                grid_case(h, w, form, opts, rng.randrange(3))
        ctx.count("graphs:grid-with-graph(TypeError)")
        grid_case(h, w, "vars", rng.choice(OPTIONS), 0, with_graph=True)

    # a sequence without a graph: TypeError
    def nograph_case(n, form, opts):
        from cspuz import Solver
        cfg, acy, ugp = opts
        s = Solver()
        arg, trees, cf = make_acts(s, n, form, rng)
        pre = exprio.show_state(s)
        ltok = exprio.show_list(trees)
        r = call_impl(s, arg, None, cfg, acy, ugp, "kw")
        impl = snap(s) if r[0] == "ok" else r
        reqs.append("P %s NOG %s ST %s L %s" % (opt_tok(cfg, acy, ugp), cf, pre, ltok))
        metas.append((("nograph", n, form, opts, ltok), impl))
        ctx.count("graphs:sequence-without-graph(TypeError)")

    for n in (0, 1, 4):
        for form in ("vars", "array1", "const", "tuple"):
            nograph_case(n, form, rng.choice(OPTIONS))

    outs = m.batch(reqs)
    for (inp, impl), o in zip(metas, outs):
        mo = parse_post(o)
        if mo[0] == "err" or impl[0] == "err":
            ctx.count("outcome:" + (impl[1] if impl[0] == "err" else "ok-vs-model-err"))
        ctx.corr("posted-program", inp, mo, impl)


# ---------------------------------------------------------------- search

def key_of(n, edges, acyclic, pat, how="vars"):
    return "avc:%s:acyclic=%d:n=%d:e=%s:p=%s" % (how, int(acyclic), n, ",".join("%d-%d" % e for e in edges),
                                                  "".join("1" if b else "0" for b in pat))


def posted(n, edges, acyclic, how="vars", pat=None, grid=None):
    """the program really posted.  how: vars (fresh variables), neg (~v), const (Python bools of `pat`),
    grid=(h, w): BoolArray2D form without a graph"""
    from cspuz.graph import active_vertices_connected
    from cspuz import Solver
    s = Solver()
    with cfg_prim(False):
        if grid is not None:
            arr = s.bool_array(grid)
            active_vertices_connected(s, arr, acyclic=acyclic)
            return s, list(arr.data)
        g = graphcap.mk_graph(n, edges)
        if how == "const":
            active_vertices_connected(s, [bool(b) for b in pat], g, acyclic=acyclic)
            return s, []
        vs = [s.bool_var() for _ in range(n)]
        acts = [~v for v in vs] if how == "neg" else vs
        active_vertices_connected(s, acts, g, acyclic=acyclic)
    return s, vs


def oracle(n, edges, acyclic, pat):
    return graphcap.is_tree(n, edges, pat) if acyclic else graphcap.is_connected(n, edges, pat)


def biased_patterns(rng, n, edges, count):
    """patterns that are connected / trees or one flip away from that"""
    adj = graphcap.adj_list(n, edges)
    out = set()
    for _ in range(count):
        pat = [False] * n
        start = rng.randrange(n)
        pat[start] = True
        frontier = [start]
        size = rng.randint(1, n)
        tree_like = rng.random() < 0.5
        k = 1
        while frontier and k < size:
            v = frontier[rng.randrange(len(frontier))]
            cand = [u for (u, _) in adj[v] if not pat[u]]
            if tree_like:
                cand = [u for u in cand if sum(1 for (x, _) in adj[u] if pat[x]) == 1]
            if not cand:
                frontier.remove(v)
                continue
            u = rng.choice(cand)
            pat[u] = True
            frontier.append(u)
            k += 1
        c = rng.random()
        if c < 0.45:
            j = rng.randrange(n)
            pat[j] = not pat[j]
        out.add(tuple(pat))
    out.add(tuple([False] * n))
    out.add(tuple([True] * n))
    return sorted(out)


def search_graphs(ctx):
    rng = ctx.rng
    for n, es in graphcap.all_multigraphs(4, 5):
        yield "small", n, es, None
    for n, es in graphcap.all_multigraphs(3, 3, loops=True):
        if any(a == b for a, b in es):
            yield "loops", n, es, None
    lim5 = 6 if ctx.thorough else (5 if ctx.deep else 4)
    for n, es in graphcap.all_multigraphs(5, lim5):
        if n == 5 and len(es) >= 3:
            if not ctx.thorough and rng.random() < (0.8 if len(es) >= 5 else (0.3 if ctx.deep else 0.65)):
                continue
            yield "five", n, es, None
    if ctx.thorough:
        for n, es in graphcap.all_multigraphs(6, 5):
            if n == 6 and len(es) >= 4 and (len(es) == 4 or rng.random() < 0.15):
                yield "six", n, es, None
    for _ in range(300 if ctx.thorough else (120 if ctx.deep else 60)):
        n, es = graphcap.random_multigraph(rng, 9)
        es = shuffled(rng, es)
        if n <= 6:
            yield "random", n, es, None
        else:
            yield "random", n, es, biased_patterns(rng, n, es, 30)


def search(ctx):
    try:
        m = ctx.model("C04")
    except Exception as ex:  # model build broken: the oracle comparison still runs
        ctx.note("model runner unavailable in search: %r" % (ex,))
        m = None
    rng = ctx.rng
    spec_reqs, spec_meta = [], []
    cert_reqs, cert_meta = [], []
    wit_jobs = []

    def report(key, got, want, acyclic, detail):
        ctx.violation(key, "posted constraints are %s although the active vertices %s" % (
            "satisfiable" if got else "unsatisfiable",
            ("induce a tree / are empty" if acyclic else "are connected") if want else
            ("do not induce a tree" if acyclic else "are not connected")), detail)

    def run_patterns(kind, n, es, acyclic, pats, grid=None):
        how = "vars" if grid is not None or rng.random() < 0.7 else "neg"
        r = vlib.guarded(posted, n, es, acyclic, how, None, grid)
        tag = ("grid%dx%d" % grid) if grid else how
        if r[0] == "err":
            ctx.violation("avc:%s:acyclic=%d:n=%d:e=%s:raises" % (tag, acyclic, n, ",".join("%d-%d" % e for e in es)),
                          "active_vertices_connected raises on a well-formed call",
                          {"n": n, "edges": es, "acyclic": acyclic, "error": r[1], "grid": grid})
            return
        s, vs = r[1]
        check = graphcap.z3_session(s)
        aux = s.variables[n:]
        if pats is None:
            pats = list(graphcap.patterns(n))
        for pat in pats:
            want = oracle(n, es, acyclic, pat)
            fixed = [(v, (not b) if how == "neg" else b) for v, b in zip(vs, pat)]
            sample = m is not None and rng.random() < 0.06
            if sample and want:
                got, model = check(fixed, want_model=True)
            else:
                got, model = check(fixed), None
            ctx.prop_case("sat-vs-oracle", (tag, n, tuple(es), acyclic, pat))
            ctx.count("pattern:" + ("acyclic-" if acyclic else "") + ("accepted" if want else "rejected"))
            if got != want:
                report(key_of(n, es, acyclic, pat, tag), got, want, acyclic,
                       {"n": n, "edges": es, "acyclic": acyclic, "how": how, "grid": grid,
                        "pattern": [int(b) for b in pat], "expected_satisfiable": want, "observed_satisfiable": got})
            if m is not None and (len(pats) <= 64 or rng.random() < 0.3):
                spec_reqs.append("SPEC %d %s B %s" % (acyclic, graphcap.graph_tok(n, es), bits(pat)))
                spec_meta.append((n, es, acyclic, pat, want))
            if m is not None and model is not None and len(aux) == 2 * n:
                ranks = [model[v.id] for v in aux[:n]]
                roots = [model[v.id] for v in aux[n:]]
                cert_reqs.append("C %d %s B %s R %s T %s" % (acyclic, graphcap.graph_tok(n, es), bits(pat),
                                                               " ".join(str(x) for x in ranks), bits(roots)))
                cert_meta.append((n, es, acyclic, pat, ranks, roots))
            if sample and want and len(aux) == 2 * n and not (acyclic and any(a == b for a, b in es)):
                wit_jobs.append((n, es, acyclic, pat, check, fixed, aux))

    for kind, n, es, pats in search_graphs(ctx):
        loops = any(a == b for a, b in es)
        for acyclic in (False, True):
            if acyclic and loops:
                continue  # 'tree' is read on loop-free graphs (see ASSUMPTIONS)
            ctx.count("search-graphs:" + kind)
            run_patterns(kind, n, es, acyclic, pats)
    # the array form on grids, oracle on an independently written adjacency
    grids = [(1, 1), (1, 2), (2, 1), (1, 4), (3, 1), (2, 2), (2, 3), (3, 2), (3, 3), (2, 4)]
    if ctx.thorough or ctx.deep:
        grids += [(3, 4), (4, 3), (2, 6), (1, 9)]
    for (h, w) in grids:
        es = graphcap.grid_edges(h, w)
        for acyclic in (False, True):
            ctx.count("search-graphs:grid")
            run_patterns("grid", h * w, es, acyclic, None if h * w <= 9 else biased_patterns(rng, h * w, es, 150), grid=(h, w))
    for (h, w) in [(4, 4), (3, 5), (5, 4)]:
        es = graphcap.grid_edges(h, w)
        for acyclic in (False, True):
            ctx.count("search-graphs:grid")
            run_patterns("grid", h * w, es, acyclic, biased_patterns(rng, h * w, es, 60 if not ctx.thorough else 300), grid=(h, w))

    # Python constants as is_active: the program itself must be (un)satisfiable
    const_graphs = [(n, es) for n, es in graphcap.all_multigraphs(4, 4 if not ctx.thorough else 5)
                    if rng.random() < (1.0 if ctx.thorough else 0.25)]
    for n, es in const_graphs:
        for pat in graphcap.patterns(n):
            if not ctx.thorough and rng.random() < 0.5:
                continue
            for acyclic in (False, True):
                r = vlib.guarded(posted, n, es, acyclic, "const", pat)
                want = oracle(n, es, acyclic, pat)
                ctx.prop_case("const-sat-vs-oracle", (n, tuple(es), acyclic, pat))
                if r[0] == "err":
                    ctx.violation(key_of(n, es, acyclic, pat, "const") + ":raises",
                                  "active_vertices_connected raises on Python constants",
                                  {"n": n, "edges": es, "acyclic": acyclic, "pattern": [int(b) for b in pat], "error": r[1]})
                    continue
                got = graphcap.z3_session(r[1][0])([])
                if got != want:
                    report(key_of(n, es, acyclic, pat, "const"), got, want, acyclic,
                           {"n": n, "edges": es, "acyclic": acyclic, "how": "const", "grid": None,
                            "pattern": [int(b) for b in pat], "expected_satisfiable": want, "observed_satisfiable": got})

    # the native operator: the node really posted, decoded and evaluated by the Coq meaning, vs the oracle
    if m is not None:
        from cspuz import Solver
        from cspuz.graph import active_vertices_connected
        reqs, meta = [], []
        prim_graphs = [(n, es) for n, es in graphcap.all_multigraphs(4, 4)] + \
                      [graphcap.random_multigraph(rng, 8, loops=(i % 4 == 0)) for i in range(40)]
        for n, es in prim_graphs:
            s = Solver()
            vs = [s.bool_var() for _ in range(n)]
            r = vlib.guarded(active_vertices_connected, s, vs, graphcap.mk_graph(n, shuffled(rng, es) if False else es),
                             use_graph_primitive=True)
            if r[0] == "err" or len(s.constraints) != 1:
                ctx.violation("avc:primitive:n=%d:e=%s:raises" % (n, ",".join("%d-%d" % e for e in es)),
                              "primitive route does not post exactly one node", {"n": n, "edges": es, "result": repr(r)})
                continue
            node = exprio.show(s.constraints[0])
            pats = list(graphcap.patterns(n)) if n <= 5 else biased_patterns(rng, n, es, 24)
            for pat in pats:
                reqs.append("H E %s B %s" % (node, bits(pat)))
                meta.append((n, es, pat))
        for (n, es, pat), o in zip(meta, m.batch(reqs)):
            want = graphcap.is_connected(n, es, pat)
            ctx.prop_case("primitive-node-meaning-vs-oracle", (n, tuple(es), pat))
            if (o == "1") != want:
                ctx.violation(key_of(n, es, False, pat, "primitive"),
                              "the posted GRAPH_ACTIVE_VERTICES_CONNECTED node decodes to a (graph, pattern) whose "
                              "connectivity differs from that of the caller's graph and pattern",
                              {"n": n, "edges": es, "pattern": [int(b) for b in pat], "expected": want, "decoded": o})

    if m is None:
        return
    # the Coq specification agrees with the independent oracle
    for (n, es, acyclic, pat, want), o in zip(spec_meta, m.batch(spec_reqs)):
        ctx.count("spec-validation")
        if (o == "1") != want:
            ctx.mismatches.append({"kind": "spec-vs-oracle", "input": [n, es, acyclic, [int(b) for b in pat]],
                                   "model": o, "impl": want})
    # a z3 model of the real program passes the Coq certificate checker
    for (n, es, acyclic, pat, ranks, roots), o in zip(cert_meta, m.batch(cert_reqs)):
        ctx.corr("cert-of-z3-model", (n, tuple(es), acyclic, pat, tuple(ranks), tuple(roots)), o, "1 1")
    # the certificate constructed in the completeness proof satisfies the real program
    reqs = ["W %s B %s" % (graphcap.graph_tok(n, es), bits(pat)) for (n, es, _, pat, _, _, _) in wit_jobs]
    for (n, es, acyclic, pat, check, fixed, aux), o in zip(wit_jobs, m.batch(reqs)):
        rs, bs = o.split("|")
        ranks = [int(t) for t in rs.split()]
        roots = [t == "1" for t in bs.split()]
        ok = len(ranks) == n and len(roots) == n and check(fixed + list(zip(aux[:n], ranks)) + list(zip(aux[n:], roots)))
        ctx.corr("coq-certificate-on-real-program", (n, tuple(es), acyclic, pat),
                 ("sat" if ok else "unsat", tuple(ranks)), ("sat", tuple(ranks)))


def replay(ctx, rp):
    print(rp)
    v = rp.get("violation", {}).get("detail", {})
    if not v or "pattern" not in v or "acyclic" not in v:
        return 0
    n, es, pat = v["n"], [tuple(e) for e in v["edges"]], [bool(b) for b in v["pattern"]]
    acyclic, how = bool(v["acyclic"]), v.get("how", "vars")
    grid = tuple(v["grid"]) if v.get("grid") else None
    s, vs = posted(n, es, acyclic, how, pat, grid)
    fixed = [(x, (not b) if how == "neg" else b) for x, b in zip(vs, pat)]
    got = graphcap.sat_with(s, fixed)
    want = oracle(n, es, acyclic, pat)
    print("satisfiable:", got, " oracle:", want)
    return 1 if got != want else 0
