"""Validate a seeded change and record it under /verif/seeded/<id>/.

usage: seedtest.py <property> <src dir with patch.diff demo.py notes.md> <seed id> [--check Cxx ...]

Steps (all in a scratch worktree outside /repo and /verif, removed afterwards):
 1. patch applies to /repo HEAD; 2. existing test-suite: same passed count as the clean tree;
 3. demo passes on the clean tree and fails on the changed tree;
 4. ./check <property> (VERIF_REPO pointing at the changed tree) -> did it print VIOLATION?
Writes seeded/<id>/{patch.diff,demo.py,notes.md,meta.json}.
"""
import json
import os
import re
import shutil
import subprocess
import sys
import time

ROOT = os.path.dirname(os.path.dirname(os.path.abspath(__file__)))


def sh(cmd, cwd=None, env=None, timeout=3600):
    e = dict(os.environ)
    e.update(env or {})
    p = subprocess.run(cmd, shell=True, cwd=cwd, env=e, stdout=subprocess.PIPE, stderr=subprocess.STDOUT, text=True, timeout=timeout)
    return p.returncode, p.stdout


def main():
    pid, src, sid = sys.argv[1], sys.argv[2], sys.argv[3]
    checks = [pid]
    if "--check" in sys.argv:
        checks = sys.argv[sys.argv.index("--check") + 1:]
    wt = "/tmp/wt_seed_%s" % sid
    sh("git -C /repo worktree remove --force %s" % wt)
    rc, out = sh("git -C /repo worktree add --detach %s HEAD" % wt)
    assert rc == 0, out
    meta = {"id": sid, "property": pid, "source": src, "repo_head": sh("git -C /repo rev-parse --short HEAD")[1].strip(),
            "date": time.strftime("%Y-%m-%d %H:%M")}
    try:
        env = {"PYTHONPATH": wt, "PYTHONHASHSEED": "0", "PYTHONDONTWRITEBYTECODE": "1"}
        rc, out = sh("/venv/bin/python demo.py", cwd=src, env=env, timeout=900)
        meta["demo_clean_rc"] = rc
        rc, out = sh("git apply %s/patch.diff" % os.path.abspath(src), cwd=wt)
        meta["patch_applies"] = (rc == 0)
        if rc != 0:
            meta["apply_error"] = out[-500:]
        else:
            rc, out = sh("/venv/bin/python -m pytest -q -p no:cacheprovider tests 2>&1 | tail -1", cwd=wt, env=env, timeout=1800)
            meta["tests_with_change"] = out.strip()
            m = re.search(r"(\d+) passed", out)
            meta["tests_passed"] = int(m.group(1)) if m else None
            rc, out = sh("/venv/bin/python demo.py", cwd=src, env=env, timeout=900)
            meta["demo_changed_rc"] = rc
            meta["demo_changed_tail"] = out[-400:]
            meta["checks"] = {}
            for c in checks:
                t0 = time.time()
                rc, out = sh("./check %s --tier quick" % c, cwd=ROOT, env={"VERIF_REPO": wt}, timeout=3000)
                lines = [l for l in out.split("\n") if l.startswith("VIOLATION")]
                meta["checks"][c] = {"rc": rc, "violation_lines": lines[:3], "caught": bool(lines) and rc == 1,
                                     "concrete_input": any("no-failing-input-found" not in l for l in lines),
                                     "wall_s": round(time.time() - t0, 1),
                                     "summary": [l for l in out.split("\n") if l.startswith(c + " ")][:1]}
        meta["valid_seed"] = bool(meta.get("patch_applies") and meta.get("tests_passed") == 558
                                  and meta.get("demo_clean_rc") == 0 and meta.get("demo_changed_rc") not in (0, None))
    finally:
        sh("git -C /repo worktree remove --force %s" % wt)
    dst = os.path.join(ROOT, "seeded", sid)
    os.makedirs(dst, exist_ok=True)
    old = os.path.join(dst, "meta.json")
    if os.path.exists(old):
        try:
            om = json.load(open(old))
            meta["history"] = om.get("history", []) + [{"date": om.get("date"), "verif_commit": om.get("verif_commit"), "checks": {
                c: {k: r.get(k) for k in ("caught", "concrete_input")} for c, r in om.get("checks", {}).items()}}]
        except Exception:
            pass
    meta["verif_commit"] = sh("git -C %s rev-parse --short HEAD" % ROOT)[1].strip()
    for f in ("patch.diff", "demo.py", "notes.md"):
        if os.path.exists(os.path.join(src, f)) and os.path.abspath(src) != os.path.abspath(dst):
            shutil.copy(os.path.join(src, f), os.path.join(dst, f))
    meta["needs_to_manifest"] = "see notes.md"
    meta["ran"] = ["git apply patch.diff (scratch worktree of /repo HEAD)", "pytest tests (558 passed required)",
                   "demo.py on clean and changed tree", "VERIF_REPO=<worktree> ./check <property> --tier quick"]
    json.dump(meta, open(os.path.join(dst, "meta.json"), "w"), indent=1)
    print(json.dumps(meta, indent=1))
    # restore the evidence of the checks from the unchanged tree? (caller re-runs ./check afterwards)


if __name__ == "__main__":
    main()
