(* C11 Tier 2 - correctness of the decision procedure of SatAbs.v. *)
From Coq Require Import ZArith List Bool Arith Lia.
From Cspuz Require Import Core.Expr Core.Program Graph.GraphModel Puzzle.PuzzleBase Puzzle.SatAbs.
Import ListNotations.
Open Scope Z_scope.

Lemma zlist_eqb_eq a b : zlist_eqb a b = true -> a = b.
Proof.
  revert b; induction a as [|x r IH]; destruct b as [|y s]; simpl; try discriminate; auto.
  intros H. apply andb_true_iff in H. destruct H as [H1 H2].
  apply Z.eqb_eq in H1. subst. f_equal. auto.
Qed.

Lemma zlist_eqb_refl a : zlist_eqb a a = true.
Proof. induction a; simpl; auto. rewrite Z.eqb_refl. auto. Qed.

Lemma exists_lazy_eq {A} (f : A -> bool) l : exists_lazy f l = existsb f l.
Proof. induction l; simpl; auto. destruct (f a); auto. Qed.
Lemma forall_lazy_eq {A} (f : A -> bool) l : forall_lazy f l = forallb f l.
Proof. induction l; simpl; auto. destruct (f a); auto. Qed.
Lemma andl_eq (a b : bool) : (a &&& b) = a && b.
Proof. destruct a; reflexivity. Qed.

Lemma search_leaf leaf plan pe :
  search leaf plan pe = true -> exists pe', leaf pe' = true.
Proof.
  revert pe; induction plan as [|[[v dom] cs] r IH]; simpl; intros pe H.
  - eauto.
  - rewrite exists_lazy_eq in H. apply existsb_exists in H. destruct H as [z [_ H]].
    rewrite andl_eq in H. apply andb_true_iff in H. destruct H as [_ H]. eauto.
Qed.

(* soundness: an accepted answer is the reading of a genuine model *)
Theorem sat_abs_sound st kids order ans :
  sat_abs st kids order ans = true ->
  exists en, model_of no_graph en st /\ reads st en kids = ans.
Proof.
  unfold sat_abs, sat_abs_plan. intros H. rewrite !andl_eq in H.
  apply andb_true_iff in H. destruct H as [_ H].
  apply search_leaf in H. destruct H as [pe H].
  unfold leaf_ok in H. rewrite !andl_eq in H.
  apply andb_true_iff in H. destruct H as [H H3].
  apply andb_true_iff in H. destruct H as [H1 H2].
  rewrite forall_lazy_eq in H2.
  exists (env_of pe). split; [split; assumption|]. apply zlist_eqb_eq; assumption.
Qed.

(* ------------------------------------------------------------------------ *)
(* completeness *)

Section ExprInd.
  Variable P : expr -> Prop.
  Hypothesis Hb : forall b, P (PyBool b).
  Hypothesis Hi : forall z, P (PyInt z).
  Hypothesis Hn : P PyNone.
  Hypothesis Hbv : forall i, P (BVar i).
  Hypothesis Hiv : forall i lo hi, P (IVar i lo hi).
  Hypothesis Hbn : forall o args, Forall P args -> P (BNode o args).
  Hypothesis Hin : forall o args, Forall P args -> P (INode o args).
  Fixpoint expr_ind_nested (e : expr) : P e :=
    match e with
    | PyBool b => Hb b
    | PyInt z => Hi z
    | PyNone => Hn
    | BVar i => Hbv i
    | IVar i lo hi => Hiv i lo hi
    | BNode o args =>
        Hbn o args ((fix go (l : list expr) : Forall P l :=
                       match l with
                       | [] => Forall_nil P
                       | a :: r => Forall_cons a (expr_ind_nested a) (go r)
                       end) args)
    | INode o args =>
        Hin o args ((fix go (l : list expr) : Forall P l :=
                       match l with
                       | [] => Forall_nil P
                       | a :: r => Forall_cons a (expr_ind_nested a) (go r)
                       end) args)
    end.
End ExprInd.

(* ---- lists of optional values *)
Definition below (p w : option value) : Prop := forall v, p = Some v -> w = Some v \/ w = None.

Lemma all_some_in {A} (ws : list (option A)) l x :
  all_some ws = Some l -> In (Some x) ws -> In x l.
Proof.
  revert l; induction ws as [|a r IH]; simpl; intros l H Hin; [contradiction|].
  destruct a as [a|]; [|discriminate].
  destruct (all_some r) as [r'|] eqn:E; [|discriminate]. inversion H; subst.
  destruct Hin as [Hin|Hin]; [inversion Hin; left; reflexivity| right; eauto].
Qed.

Lemma all_some_none_in {A} (ws : list (option A)) : In None ws -> all_some ws = None.
Proof.
  induction ws as [|a r IH]; simpl; intros H; [contradiction|].
  destruct a; [|reflexivity]. destruct H as [H|H]; [discriminate|]. rewrite IH; auto.
Qed.

Lemma below_all_some vs ws l :
  Forall2 below vs ws -> all_some vs = Some l -> ws = vs \/ all_some ws = None.
Proof.
  intros HF; revert l; induction HF as [|p w vs ws Hpw HF IH]; simpl; intros l H; [left; reflexivity|].
  destruct p as [p|]; [|discriminate].
  destruct (all_some vs) as [l'|] eqn:E; [|discriminate].
  destruct (Hpw p eq_refl) as [Hw|Hw]; subst w.
  - destruct (IH l' eq_refl) as [H1|H1].
    + left; subst; reflexivity.
    + right. simpl. rewrite H1. reflexivity.
  - right; reflexivity.
Qed.

Lemma as_bools_in l bs b : as_bools l = Some bs -> In (VB b) l -> In b bs.
Proof.
  revert bs; induction l as [|a r IH]; simpl; intros bs H Hin; [contradiction|].
  destruct a as [x|x]; [|discriminate].
  destruct (as_bools r) as [r'|] eqn:E; [|discriminate]. inversion H; subst.
  destruct Hin as [Hin|Hin]; [inversion Hin; left; reflexivity| right; eauto].
Qed.

Lemma forallb_id_false bs : In false bs -> forallb (fun b : bool => b) bs = false.
Proof.
  induction bs as [|a r IH]; simpl; intros H; [contradiction|].
  destruct H as [H|H]; [subst; reflexivity|]. rewrite IH by assumption. apply andb_false_r.
Qed.
Lemma existsb_id_true bs : In true bs -> existsb (fun b : bool => b) bs = true.
Proof.
  induction bs as [|a r IH]; simpl; intros H; [contradiction|].
  destruct H as [H|H]; [subst; reflexivity|]. rewrite IH by assumption. apply orb_true_r.
Qed.

(* the operators evaluated strictly: knowing less can only lose the result *)
Lemma strict_bop o vs ws v :
  Forall2 below vs ws -> eval_bop no_graph o vs = Some v ->
  eval_bop no_graph o ws = Some v \/ eval_bop no_graph o ws = None.
Proof.
  intros HF H.
  destruct (all_some vs) as [l|] eqn:E.
  - destruct (below_all_some _ _ _ HF E) as [H1|H1].
    + subst. left; assumption.
    + right. unfold eval_bop. rewrite H1. destruct o; reflexivity.
  - exfalso. unfold eval_bop in H. rewrite E in H. destruct o; discriminate.
Qed.

Lemma strict_iop o vs ws v :
  Forall2 below vs ws -> eval_iop o vs = Some v ->
  eval_iop o ws = Some v \/ eval_iop o ws = None.
Proof.
  intros HF H.
  destruct (all_some vs) as [l|] eqn:E.
  - destruct (below_all_some _ _ _ HF E) as [H1|H1].
    + subst. left; assumption.
    + right. unfold eval_iop. rewrite H1. reflexivity.
  - exfalso. unfold eval_iop in H. rewrite E in H. discriminate.
Qed.

Lemma Forall2_below_in vs ws p :
  Forall2 below vs ws -> In p vs -> exists w, In w ws /\ below p w.
Proof.
  intros HF; induction HF as [|a b vs ws Hab HF IH]; simpl; intros Hin; [contradiction|].
  destruct Hin as [Hin|Hin]; [subst; eauto|]. destruct (IH Hin) as [w [H1 H2]]; eauto.
Qed.

Lemma and_short vs ws :
  Forall2 below vs ws -> existsb is_vfalse vs = true ->
  eval_bop no_graph AND ws = Some (VB false) \/ eval_bop no_graph AND ws = None.
Proof.
  intros HF H. apply existsb_exists in H. destruct H as [p [Hin Hp]].
  destruct p as [[[|]|]|]; try discriminate.
  destruct (Forall2_below_in _ _ _ HF Hin) as [w [Hw Hb]].
  unfold eval_bop. destruct (all_some ws) as [l|] eqn:E; [|right; reflexivity].
  destruct (Hb _ eq_refl) as [H1|H1]; subst w.
  - pose proof (all_some_in _ _ _ E Hw) as Hl.
    destruct (as_bools l) as [bs|] eqn:Eb; [|right; reflexivity].
    left. simpl. rewrite (forallb_id_false bs (as_bools_in _ _ _ Eb Hl)). reflexivity.
  - rewrite (all_some_none_in _ Hw) in E. discriminate.
Qed.

Lemma or_short vs ws :
  Forall2 below vs ws -> existsb is_vtrue vs = true ->
  eval_bop no_graph OR ws = Some (VB true) \/ eval_bop no_graph OR ws = None.
Proof.
  intros HF H. apply existsb_exists in H. destruct H as [p [Hin Hp]].
  destruct p as [[[|]|]|]; try discriminate.
  destruct (Forall2_below_in _ _ _ HF Hin) as [w [Hw Hb]].
  unfold eval_bop. destruct (all_some ws) as [l|] eqn:E; [|right; reflexivity].
  destruct (Hb _ eq_refl) as [H1|H1]; subst w.
  - pose proof (all_some_in _ _ _ E Hw) as Hl.
    destruct (as_bools l) as [bs|] eqn:Eb; [|right; reflexivity].
    left. simpl. rewrite (existsb_id_true bs (as_bools_in _ _ _ Eb Hl)). reflexivity.
  - rewrite (all_some_none_in _ Hw) in E. discriminate.
Qed.

Lemma imp_short a b a' b' :
  below a a' -> below b b' -> is_vfalse a || is_vtrue b = true ->
  eval_bop no_graph IMP [a'; b'] = Some (VB true) \/ eval_bop no_graph IMP [a'; b'] = None.
Proof.
  intros Ha Hb H. apply orb_true_iff in H. destruct H as [H|H].
  - destruct a as [[[|]|]|]; try discriminate.
    destruct (Ha _ eq_refl) as [H1|H1]; subst a'.
    + destruct b' as [[x|x]|]; simpl; auto.
    + right; reflexivity.
  - destruct b as [[[|]|]|]; try discriminate.
    destruct (Hb _ eq_refl) as [H1|H1]; subst b'.
    + destruct a' as [[[|]|x]|]; simpl; auto.
    + right. destruct a' as [[x|x]|]; reflexivity.
Qed.

(* ---- partial assignments that agree with a fixed total assignment *)
Section Against.
  Variable st : state.
  Variable en : env.

  Definition compat (pe : penv) : Prop :=
    forall i z, plook pe i = Some z -> z = read_var st en i.

  Lemma plook_set_nth pe i z j :
    plook (pset pe i z) j = if Nat.eqb j i && Nat.ltb i (length pe) then Some z else plook pe j.
  Proof.
    unfold plook, pset. revert i j; induction pe as [|a r IH]; intros i j; simpl.
    - rewrite andb_false_r. reflexivity.
    - destruct i as [|i]; destruct j as [|j]; simpl; auto.
      rewrite IH. reflexivity.
  Qed.

  Lemma pset_length pe i z : length (pset pe i z) = length pe.
  Proof.
    unfold pset. revert i; induction pe as [|a r IH]; intros i; simpl; [reflexivity|].
    destruct i; simpl; auto.
  Qed.

  Lemma compat_set pe i : compat pe -> compat (pset pe i (read_var st en i)).
  Proof.
    intros H j z Hj. rewrite plook_set_nth in Hj.
    destruct (Nat.eqb j i && Nat.ltb i (length pe)) eqn:E.
    - apply andb_true_iff in E. destruct E as [E _]. apply Nat.eqb_eq in E. subst.
      inversion Hj; reflexivity.
    - auto.
  Qed.

  Lemma compat_empty n : compat (repeat None n).
  Proof.
    intros i z H. unfold plook in H.
    assert (Hn : nth i (repeat (@None Z) n) None = None).
    { clear. revert i; induction n; intros [|i]; simpl; auto. }
    rewrite Hn in H. discriminate.
  Qed.

  Lemma b2z_eqb1 b : (b2z b =? 1) = b.
  Proof. destruct b; reflexivity. Qed.

  (* three-valued evaluation never contradicts the total assignment *)
  Lemma peval_below pe : compat pe ->
    forall e, refs_ok (vars st) e = true -> below (peval pe e) (eval no_graph en e).
  Proof.
    intros Hc e. induction e as [b|z| |i|i lo hi|o args IH|o args IH] using expr_ind_nested;
      intros Hr v Hv.
    - left; assumption.
    - left; assumption.
    - discriminate.
    - simpl in *. destruct (plook pe i) as [z|] eqn:E; [|discriminate]. simpl in Hv. inversion Hv; subst.
      left. rewrite (Hc _ _ E). unfold read_var.
      destruct (nth_error (vars st) i) as [[|]|]; try discriminate.
      rewrite b2z_eqb1. reflexivity.
    - simpl in *. destruct (plook pe i) as [z|] eqn:E; [|discriminate]. simpl in Hv. inversion Hv; subst.
      left. rewrite (Hc _ _ E). unfold read_var.
      destruct (nth_error (vars st) i) as [[|]|]; try discriminate. reflexivity.
    - cbn [refs_ok] in Hr.
      assert (HF : Forall2 below (map (peval pe) args) (map (eval no_graph en) args)).
      { clear Hv. induction args as [|a r IHr]; simpl; [constructor|].
        simpl in Hr. apply andb_true_iff in Hr. destruct Hr as [Hr1 Hr2].
        inversion IH; subst. constructor; [apply H1; assumption|apply IHr; assumption]. }
      cbn [peval] in Hv. cbn [eval].
      destruct o; cbv beta iota zeta in Hv; try (apply (strict_bop _ _ _ _ HF Hv)).
      + (* AND *)
        destruct (existsb is_vfalse (map (peval pe) args)) eqn:E.
        * inversion Hv; subst. apply and_short with (vs := map (peval pe) args); assumption.
        * apply (strict_bop _ _ _ _ HF Hv).
      + (* OR *)
        destruct (existsb is_vtrue (map (peval pe) args)) eqn:E.
        * inversion Hv; subst. apply or_short with (vs := map (peval pe) args); assumption.
        * apply (strict_bop _ _ _ _ HF Hv).
      + (* IMP *)
        destruct args as [|a [|b [|c r]]]; cbn [map] in *; try discriminate.
        inversion HF as [|? ? ? ? Ha HF']; subst. inversion HF' as [|? ? ? ? Hb HF'']; subst.
        destruct (is_vfalse (peval pe a) || is_vtrue (peval pe b)) eqn:E.
        * inversion Hv; subst. apply imp_short with (a := peval pe a) (b := peval pe b); assumption.
        * apply (strict_bop IMP [peval pe a; peval pe b] _ _ HF Hv).
    - cbn [refs_ok] in Hr.
      assert (HF : Forall2 below (map (peval pe) args) (map (eval no_graph en) args)).
      { clear Hv. induction args as [|a r IHr]; simpl; [constructor|].
        simpl in Hr. apply andb_true_iff in Hr. destruct Hr as [Hr1 Hr2].
        inversion IH; subst. constructor; [apply H1; assumption|apply IHr; assumption]. }
      cbn [peval] in Hv. cbn [eval].
      apply (strict_iop _ _ _ _ HF Hv).
  Qed.

  Lemma prune_ok_complete pe cs :
    compat pe -> incl cs (cons st) ->
    forallb (refs_ok (vars st)) (cons st) = true ->
    satisfies no_graph en st = true -> prune_ok cs pe = true.
  Proof.
    intros Hc Hi Hr Hs. unfold prune_ok. rewrite forall_lazy_eq. apply forallb_forall.
    intros c Hin. apply Hi in Hin.
    unfold satisfies in Hs. rewrite forallb_forall in Hs, Hr.
    specialize (Hs _ Hin). specialize (Hr _ Hin).
    destruct (peval pe c) as [[[|]|]|] eqn:E; try reflexivity.
    exfalso. destruct (peval_below pe Hc c Hr _ E) as [H|H];
      unfold holds in Hs; rewrite H in Hs; discriminate.
  Qed.

  (* the path through the plan that copies the total assignment *)
  Fixpoint follow (plan : list step) (pe : penv) : penv :=
    match plan with
    | [] => pe
    | (v, _, _) :: r => follow r (pset pe v (read_var st en v))
    end.

  Definition step_wf (s : step) : Prop :=
    let '(v, dom, cs) := s in In (read_var st en v) dom /\ incl cs (cons st).

  Lemma search_complete leaf plan pe :
    compat pe -> Forall step_wf plan ->
    forallb (refs_ok (vars st)) (cons st) = true -> satisfies no_graph en st = true ->
    leaf (follow plan pe) = true -> search leaf plan pe = true.
  Proof.
    intros Hc Hw Hr Hs. revert pe Hc. induction Hw as [|[[v dom] cs] r [Hd Hi] Hw IH]; simpl; intros pe Hc Hl.
    - assumption.
    - rewrite exists_lazy_eq. apply existsb_exists. exists (read_var st en v). split; [assumption|].
      rewrite andl_eq. apply andb_true_iff. split.
      + apply prune_ok_complete; auto. apply compat_set; assumption.
      + apply IH; [apply compat_set; assumption|assumption].
  Qed.

  Lemma compat_follow plan pe : compat pe -> compat (follow plan pe).
  Proof.
    revert pe; induction plan as [|[[v d] c] r IH]; simpl; intros pe H; [assumption|].
    apply IH. apply compat_set. assumption.
  Qed.

  Lemma follow_length plan pe : length (follow plan pe) = length pe.
  Proof.
    revert pe; induction plan as [|[[v d] c] r IH]; simpl; intros pe; [reflexivity|].
    rewrite IH. apply pset_length.
  Qed.

  Definition assigned (pe : penv) (i : nat) : Prop := plook pe i <> None.

  Lemma assigned_set_same pe i z : (i < length pe)%nat -> assigned (pset pe i z) i.
  Proof.
    intros H. unfold assigned. rewrite plook_set_nth. rewrite Nat.eqb_refl.
    apply Nat.ltb_lt in H. rewrite H. simpl. discriminate.
  Qed.
  Lemma assigned_set_other pe i z j : assigned pe j -> assigned (pset pe i z) j.
  Proof.
    unfold assigned. rewrite plook_set_nth. destruct (Nat.eqb j i && Nat.ltb i (length pe)); [discriminate|auto].
  Qed.

  Lemma assigned_follow_keep plan pe j : assigned pe j -> assigned (follow plan pe) j.
  Proof.
    revert pe; induction plan as [|[[v d] c] r IH]; simpl; intros pe H; [assumption|].
    apply IH. apply assigned_set_other. assumption.
  Qed.

  Lemma assigned_follow plan pe v :
    In v (map (fun s : step => fst (fst s)) plan) -> (v < length pe)%nat -> assigned (follow plan pe) v.
  Proof.
    revert pe; induction plan as [|[[u d] c] r IH]; simpl; intros pe Hin Hlt; [contradiction|].
    destruct Hin as [Hin|Hin].
    - subst. apply assigned_follow_keep. apply assigned_set_same. assumption.
    - apply IH; [assumption|]. rewrite pset_length. assumption.
  Qed.
End Against.

Lemma zrange_from_in lo n z : In z (zrange_from lo n) <-> lo <= z < lo + Z.of_nat n.
Proof.
  revert lo; induction n as [|n IH]; intros lo; simpl zrange_from.
  - simpl. lia.
  - simpl In. rewrite IH. lia.
Qed.
Lemma zrange_in lo hi z : In z (zrange lo hi) <-> lo <= z <= hi.
Proof.
  unfold zrange. rewrite zrange_from_in.
  destruct (Z_le_gt_dec lo hi).
  - rewrite Z2Nat.id by lia. lia.
  - replace (Z.to_nat (hi - lo + 1)) with 0%nat by lia. simpl. lia.
Qed.

Lemma in_bounds_from_nth en vs k :
  in_bounds_from en k vs = true ->
  forall i lo hi, nth_error vs i = Some (DInt lo hi) -> lo <= ei en (k + i) <= hi.
Proof.
  revert k; induction vs as [|d r IH]; intros k H i lo hi Hn.
  - destruct i; discriminate.
  - destruct i as [|i]; simpl in Hn.
    + inversion Hn; subst. simpl in H.
      apply andb_true_iff in H. destruct H as [H _]. apply andb_true_iff in H. destruct H as [H1 H2].
      rewrite Nat.add_0_r. lia.
    + replace (k + S i)%nat with (S k + i)%nat by lia. apply (IH (S k)); [|assumption].
      destruct d; simpl in H; [assumption|].
      apply andb_true_iff in H. destruct H as [_ H]. assumption.
Qed.

Lemma in_bounds_from_ext e1 e2 vs k :
  (forall i lo hi, nth_error vs i = Some (DInt lo hi) -> ei e1 (k + i) = ei e2 (k + i)) ->
  in_bounds_from e1 k vs = in_bounds_from e2 k vs.
Proof.
  revert k; induction vs as [|d r IH]; intros k H; simpl; [reflexivity|].
  assert (Hr : in_bounds_from e1 (S k) r = in_bounds_from e2 (S k) r).
  { apply IH. intros i lo hi Hn. replace (S k + i)%nat with (k + S i)%nat by lia. apply (H (S i) lo hi). exact Hn. }
  destruct d as [|lo hi]; [assumption|].
  rewrite Hr. specialize (H 0%nat lo hi eq_refl). rewrite Nat.add_0_r in H. rewrite H. reflexivity.
Qed.

(* two assignments that agree, type by type, on every declared variable *)
Definition agree_typed (vs : list vdecl) (e1 e2 : env) : Prop :=
  forall i, match nth_error vs i with
            | Some DBool => eb e1 i = eb e2 i
            | Some (DInt _ _) => ei e1 i = ei e2 i
            | None => True
            end.

Lemma eval_agree_typed vs e1 e2 : agree_typed vs e1 e2 ->
  forall e, refs_ok vs e = true -> eval no_graph e1 e = eval no_graph e2 e.
Proof.
  intros Ha e. induction e as [b|z| |i|i lo hi|o args IH|o args IH] using expr_ind_nested;
    intros Hr; simpl in *; try reflexivity.
  - specialize (Ha i). destruct (nth_error vs i) as [[|]|]; try discriminate. rewrite Ha. reflexivity.
  - specialize (Ha i). destruct (nth_error vs i) as [[|]|]; try discriminate. rewrite Ha. reflexivity.
  - f_equal. apply map_ext_in. intros a Hin.
    rewrite Forall_forall in IH. apply IH; [assumption|].
    rewrite forallb_forall in Hr. auto.
  - f_equal. apply map_ext_in. intros a Hin.
    rewrite Forall_forall in IH. apply IH; [assumption|].
    rewrite forallb_forall in Hr. auto.
Qed.

Lemma init_penv_spec st en kids n :
  forall pe, compat st en pe -> length pe = n ->
  let pe' := fold_left (fun pe '(i, z) => pset pe i z) (combine kids (reads st en kids)) pe in
  compat st en pe' /\ length pe' = n /\
  (forall i, assigned pe i -> assigned pe' i) /\
  (forall i, In i kids -> (i < n)%nat -> assigned pe' i).
Proof.
  induction kids as [|k r IH]; intros pe Hc Hl; simpl.
  - repeat split; auto. intros i [].
  - specialize (IH (pset pe k (read_var st en k)) (compat_set st en pe k Hc)).
    rewrite pset_length in IH. specialize (IH Hl). simpl in IH.
    destruct IH as [H1 [H2 [H3 H4]]]. repeat split; auto.
    + intros i Hi. apply H3. apply assigned_set_other. assumption.
    + intros i [Hi|Hi] Hlt.
      * subst. apply H3. apply assigned_set_same. rewrite Hl. assumption.
      * apply H4; assumption.
Qed.

Lemma mem_In x l : mem x l = true <-> In x l.
Proof.
  unfold mem. rewrite existsb_exists. split.
  - intros [y [H1 H2]]. apply Nat.eqb_eq in H2. subst. assumption.
  - intros H. exists x. split; [assumption|apply Nat.eqb_refl].
Qed.

Theorem sat_abs_complete st kids order ans :
  wf_prog st kids = true ->
  (exists en, model_of no_graph en st /\ reads st en kids = ans) ->
  sat_abs st kids order ans = true.
Proof.
  intros Hwf [en [[Hb Hs] Hrd]].
  unfold wf_prog in Hwf. apply andb_true_iff in Hwf. destruct Hwf as [Hrefs Hkids].
  unfold sat_abs, sat_abs_plan. set (n := length (vars st)).
  set (plan := plan_of st (full_order st kids order)).
  subst ans.
  assert (Hlen : length kids = length (reads st en kids)) by (unfold reads; rewrite map_length; reflexivity).
  rewrite <- Hlen, Nat.eqb_refl.
  destruct (init_penv_spec st en kids n (repeat None n) (compat_empty st en n) (repeat_length _ _))
    as [Hc0 [Hl0 [_ Hk0]]].
  fold (init_penv n kids (reads st en kids)) in Hc0, Hl0, Hk0.
  set (pe0 := init_penv n kids (reads st en kids)) in *.
  rewrite (prune_ok_complete st en pe0 (cons st) Hc0 (incl_refl _) Hrefs Hs).
  (* the plan is well-formed w.r.t. en *)
  assert (Hpw : Forall (step_wf st en) plan).
  { unfold plan, plan_of. apply Forall_forall. intros s Hin. apply in_flat_map in Hin.
    destruct Hin as [v [_ Hin]].
    destruct (nth_error (vars st) v) as [d|] eqn:E; [|contradiction].
    destruct Hin as [Hin|[]]. subst s. simpl. split.
    - unfold read_var. rewrite E. destruct d as [|lo hi].
      + destruct (eb en v); simpl; auto.
      + simpl. apply zrange_in. unfold in_bounds in Hb.
        apply (in_bounds_from_nth en (vars st) 0 Hb v lo hi E).
    - intros c Hc. apply filter_In in Hc. tauto. }
  apply (search_complete st en); auto.
  (* the leaf reached by following en *)
  set (pf := follow st en plan pe0).
  assert (Hcf : compat st en pf) by (apply compat_follow; assumption).
  assert (Htot : forall i, (i < n)%nat -> assigned pf i).
  { intros i Hi. destruct (mem i kids) eqn:Ek.
    - apply assigned_follow_keep. apply Hk0; [apply mem_In; assumption|assumption].
    - apply assigned_follow; [|rewrite Hl0; assumption].
      assert (Hio : In i (full_order st kids order)).
      { unfold full_order. apply in_or_app. destruct (mem i order) eqn:Eo.
        - left. apply mem_In. assumption.
        - right. apply filter_In. split; [apply in_seq; fold n; lia|]. rewrite Ek, Eo. reflexivity. }
      destruct (nth_error (vars st) i) as [d|] eqn:E.
      + apply in_map_iff. exists (i, dom_of d, filter (mentions i) (cons st)). split; [reflexivity|].
        unfold plan, plan_of. apply in_flat_map. exists i. split; [assumption|]. rewrite E. left; reflexivity.
      + apply nth_error_None in E. fold n in E. lia. }
  assert (Hag : agree_typed (vars st) (env_of pf) en).
  { intros i. destruct (nth_error (vars st) i) as [d|] eqn:E; [|exact I].
    assert (Hi : (i < n)%nat) by (apply nth_error_Some; rewrite E; discriminate).
    specialize (Htot i Hi). unfold assigned in Htot.
    destruct (plook pf i) as [z|] eqn:Ez; [|contradiction].
    pose proof (Hcf i z Ez) as Hz. unfold read_var in Hz. rewrite E in Hz.
    destruct d; simpl; rewrite Ez; subst z; [apply b2z_eqb1|reflexivity]. }
  unfold leaf_ok. rewrite !andl_eq. fold pf.
  apply andb_true_iff; split; [apply andb_true_iff; split|].
  - unfold in_bounds. rewrite (in_bounds_from_ext (env_of pf) en (vars st) 0); [exact Hb|].
    intros i lo hi Hn. specialize (Hag i). rewrite Hn in Hag. exact Hag.
  - rewrite forall_lazy_eq. apply forallb_forall. intros c Hc.
    unfold satisfies in Hs. rewrite forallb_forall in Hs, Hrefs.
    unfold holds. rewrite (eval_agree_typed (vars st) (env_of pf) en Hag c (Hrefs c Hc)).
    apply (Hs c Hc).
  - replace (reads st (env_of pf) kids) with (reads st en kids); [apply zlist_eqb_refl|].
    unfold reads. apply map_ext_in. intros i _. unfold read_var.
    specialize (Hag i). destruct (nth_error (vars st) i) as [[|]|]; auto. rewrite Hag. reflexivity.
Qed.

(* sat_abs decides: "some model of the captured program reads as ans on the answer variables" *)
Theorem sat_abs_correct st kids order ans :
  wf_prog st kids = true ->
  (sat_abs st kids order ans = true <->
   exists en, model_of no_graph en st /\ reads st en kids = ans).
Proof.
  intros Hwf. split; [apply sat_abs_sound|apply sat_abs_complete; assumption].
Qed.

(* what a discharged Tier-2 goal means *)
Theorem tier2_ok_meaning st kids order rules answers :
  tier2_ok st kids order rules answers = true ->
  forall ans, In ans answers ->
    ((exists en, model_of no_graph en st /\ reads st en kids = ans) <-> rules ans = true).
Proof.
  unfold tier2_ok. intros H ans Hin.
  apply andb_true_iff in H. destruct H as [Hwf H].
  rewrite forallb_forall in H. specialize (H ans Hin). apply eqb_prop in H.
  change (sat_abs_plan st kids (plan_of st (full_order st kids order)) ans) with (sat_abs st kids order ans) in H.
  rewrite <- H. symmetry. apply sat_abs_correct. assumption.
Qed.
