(* C07: the program posted when group_size is a per-vertex sequence (the route the
   with_borders variant always takes), and its evaluation as cert_sizes. *)
From Coq Require Import ZArith List Bool Arith Lia.
From Cspuz Require Import Lib.PyErr Core.Expr Core.Program Core.Build
  Graph.GraphModel Graph.ReachProofs Graph.VarGroups Graph.VarGroupsSound
  Graph.VarGroupsEval Graph.VarGroupsMain Graph.VarGroupsExact.
Import ListNotations.
Open Scope nat_scope.

(* an item of group_size that the helper accepts and that is not the degenerate
   Python bool: None, an int, an IntVar or an IntExpr tree *)
Definition valid_size (e : expr) : bool :=
  match e with PyNone | PyInt _ | IVar _ _ _ | INode _ _ => true | _ => false end.

Definition size_opt (e : expr) : option expr := match e with PyNone => None | _ => Some e end.

Lemma size_at_seq sizes i :
  i < length sizes -> forallb valid_size sizes = true ->
  size_at (G1Seq sizes) i = Ok (size_opt (nth i sizes PyNone)).
Proof.
  intros Hi Hv. unfold size_at.
  destruct (nth_error sizes i) as [e|] eqn:He; [|apply nth_error_None in He; lia].
  rewrite (nth_error_nth _ _ PyNone He).
  rewrite forallb_forall in Hv. specialize (Hv e (nth_error_In _ _ He)).
  destruct e; simpl in *; try reflexivity; discriminate.
Qed.

Definition sized_decls (g : graph) : list vdecl :=
  repeat (DInt 1%Z (zn (nv g))) (nv g) ++ repeat (DInt 1%Z (zn (nv g))) (nv g).

(* k = next_id of the state before the call *)
Definition sized_cons (g : graph) (k : nat) (sizes : list expr) : list expr :=
  let n := nv g in let m := length (edges g) in
  let rank := ivars (k + n) n 0%Z (zn n - 1)%Z in
  let root := bvars (k + 2 * n) n in
  let act := bvars (k + 3 * n) m in
  let ds := ivars (k + 3 * n + m) n 1%Z (zn n) in
  let ts := ivars (k + 4 * n + m) n 1%Z (zn n) in
  c_sized_head root ds ts
  ++ concat (map (fun i => c_down g rank act ds i :: c_size (at_ ts i) (size_opt (nth i sizes PyNone)))
                 (seq 0 n))
  ++ c_edges_eq g act ts.

Definition sized_state (st : state) (g : graph) (sizes : list expr) : state :=
  ensure (add_decls (main_state st g) (sized_decls g)) (sized_cons g (next_id st) sizes).

Lemma next_id_main_state st g :
  next_id (main_state st g) = next_id st + 3 * nv g + length (edges g).
Proof.
  unfold main_state, next_id. rewrite ensure_add_decls_vars, app_length. unfold main_decls.
  rewrite !app_length, !repeat_length. lia.
Qed.

Lemma post_vargroups_seq st g sizes :
  1 <= nv g -> length sizes = nv g -> forallb valid_size sizes = true ->
  post_vargroups st g (G1Seq sizes) = Ok (sized_state st g sizes, main_gid st g).
Proof.
  intros Hn Hl Hv. unfold post_vargroups.
  rewrite int_array_ok by (unfold zn; lia). cbn [bind].
  rewrite int_array_ok by (unfold zn; lia). cbn [bind].
  unfold bool_array. rewrite !bool_vars_spec.
  rewrite !add_decls_app, !next_id_add_decls, !app_length, !repeat_length, !ensure_ensure.
  replace (next_id st + (nv g + nv g)) with (next_id st + 2 * nv g) by lia.
  replace (next_id st + (nv g + nv g + nv g)) with (next_id st + 3 * nv g) by lia.
  cbn [gs_absent gs_scalar].
  set (st7 := ensure _ _).
  assert (H7 : st7 = main_state st g).
  { unfold st7, main_state, main_cons, main_decls. rewrite <- ?app_assoc. reflexivity. }
  rewrite int_array_ok by (unfold zn; lia). cbn [bind].
  rewrite int_array_ok by (unfold zn; lia). cbn [bind].
  rewrite next_id_add_decls, repeat_length.
  rewrite (mapM_all_ok _ (fun i => c_down g (ivars (next_id st + nv g) (nv g) 0%Z (zn (nv g) - 1)%Z)
                                          (bvars (next_id st + 3 * nv g) (length (edges g)))
                                          (ivars (next_id st7) (nv g) 1%Z (zn (nv g))) i
                                   :: c_size (at_ (ivars (next_id st7 + nv g) (nv g) 1%Z (zn (nv g))) i)
                                             (size_opt (nth i sizes PyNone)))).
  2:{ intros i Hi. apply in_seq in Hi. unfold c_sized_vertex.
      rewrite size_at_seq by (assumption || lia). reflexivity. }
  cbn [bind]. rewrite !ensure_ensure, add_decls_app.
  rewrite H7, next_id_main_state.
  replace (next_id st + 3 * nv g + length (edges g) + nv g) with (next_id st + 4 * nv g + length (edges g)) by lia.
  unfold sized_state, sized_cons, sized_decls, main_gid. rewrite <- ?app_assoc. reflexivity.
Qed.

(* ------------------------------------------------------------------------ *)
(* evaluation                                                                *)

Definition down_of_env (k : nat) (g : graph) (en : env) : nat -> Z :=
  fun i => ei en (k + 3 * nv g + length (edges g) + i).
Definition total_of_env (k : nat) (g : graph) (en : env) : nat -> Z :=
  fun i => ei en (k + 4 * nv g + length (edges g) + i).

Lemma forallb_concat_map {A B} (p : B -> bool) (h : A -> list B) (l : list A) :
  forallb p (concat (map h l)) = forallb (fun x => forallb p (h x)) l.
Proof. induction l as [|a l IH]; simpl; [reflexivity|]. rewrite forallb_app, IH. reflexivity. Qed.

Section EvalSized.
  Variable gsem : op -> list (option value) -> option bool.
  Variable g : graph.
  Hypothesis Hwf : wf_graph g = true.
  Variable k : nat.
  Variable en : env.
  Variable sizes : list expr.
  Variable sval : nat -> option Z.
  Let n := nv g.
  Let m := length (edges g).
  Let c := cert_of_env k n en.
  Let rank := ivars (k + n) n 0%Z (zn n - 1)%Z.
  Let root := bvars (k + 2 * n) n.
  Let act := bvars (k + 3 * n) m.
  Let ds := ivars (k + 3 * n + m) n 1%Z (zn n).
  Let ts := ivars (k + 4 * n + m) n 1%Z (zn n).
  Let down := down_of_env k g en.
  Let total := total_of_env k g en.
  Notation ev := (eval gsem en).
  Notation hd_ := (holds gsem en).

  (* the given sizes evaluate to integers (None stays a hole) *)
  Hypothesis Hsizes : forall i, i < n ->
    match nth i sizes PyNone with
    | PyNone => sval i = None
    | e => valid_size e = true /\ exists z, ev e = Some (VI z) /\ sval i = Some z
    end.

  Lemma ev_ds i : i < n -> ev (at_ ds i) = Some (VI (down i)).
  Proof. intros H. unfold ds. rewrite at_ivars by exact H. reflexivity. Qed.
  Lemma ev_ts i : i < n -> ev (at_ ts i) = Some (VI (total i)).
  Proof. intros H. unfold ts. rewrite at_ivars by exact H. reflexivity. Qed.

  Lemma ev_py_sum {A} (mk : A -> expr) (h : A -> Z) (l : list A) :
    (forall x, In x l -> ev (mk x) = Some (VI (h x))) ->
    forall acc a, ev acc = Some (VI a) ->
      ev (fold_left (fun acc x => i_add acc x) (map mk l) acc)
      = Some (VI (a + fold_right Z.add 0%Z (map h l))).
  Proof.
    induction l as [|x r IH]; intros H acc a Ha; simpl.
    - rewrite Ha. f_equal. f_equal. lia.
    - rewrite (IH (fun y Hy => H y (or_intror Hy)) (i_add acc (mk x)) (a + h x)%Z).
      + f_equal. f_equal. lia.
      + apply ev_i_add; [exact Ha|apply H; left; reflexivity].
  Qed.

  Lemma ev_sum_plus1 {A} (mk : A -> expr) (h : A -> Z) (l : list A) :
    (forall x, In x l -> ev (mk x) = Some (VI (h x))) ->
    ev (sum_plus1 (map mk l)) = Some (VI (fold_right Z.add 0%Z (map h l) + 1)).
  Proof.
    intros H. destruct l as [|x r]; [reflexivity|].
    assert (Hs : sum_plus1 (map mk (x :: r)) = i_add (py_sum (map mk (x :: r))) (PyInt 1)) by reflexivity.
    rewrite Hs. apply ev_i_add; [|reflexivity].
    unfold py_sum. rewrite (ev_py_sum mk h (x :: r) H (PyInt 0) 0%Z) by reflexivity. reflexivity.
  Qed.

  Lemma eval_down i : i < n ->
    hd_ (c_down g rank act ds i) = (down i =? down_sum g c down i + 1)%Z.
  Proof.
    intros Hi. apply holds_of_eval. unfold c_down. apply ev_i_eq; [apply ev_ds; exact Hi|].
    unfold down_sum.
    apply (ev_sum_plus1
             (fun '(j, e) => i_cond (b_and (at_ act e) (i_gt (at_ rank j) (at_ rank i))) (at_ ds j) (PyInt 0))
             (fun '(j, e) => if c_act c e && (c_rank c i <? c_rank c j)%Z then down j else 0%Z)).
    intros [j e] Hin. destruct (incident_bounds g Hwf i j e Hin) as [_ [Hj He]].
    apply ev_i_cond; [|apply ev_ds; exact Hj|reflexivity].
    apply ev_b_and; [apply (ev_act gsem g k en); exact He|].
    apply ev_i_gt; apply (ev_rank gsem g k en); assumption.
  Qed.

  Lemma eval_size i : i < n ->
    forallb hd_ (c_size (at_ ts i) (size_opt (nth i sizes PyNone))) =
    match sval i with None => true | Some s => (total i =? s)%Z end.
  Proof.
    intros Hi. pose proof (Hsizes i Hi) as H.
    destruct (nth i sizes PyNone) as [b0|z0| |id0|id0 lo0 hi0|o0 args0|o0 args0] eqn:He; simpl in H.
    - destruct H as [H _]; discriminate.
    - destruct H as [_ [z [Hz ->]]]. simpl. rewrite andb_true_r.
      apply holds_of_eval. apply ev_i_eq; [apply ev_ts; exact Hi|exact Hz].
    - rewrite H. reflexivity.
    - destruct H as [H _]; discriminate.
    - destruct H as [_ [z [Hz ->]]]. simpl. rewrite andb_true_r.
      apply holds_of_eval. apply ev_i_eq; [apply ev_ts; exact Hi|exact Hz].
    - destruct H as [H _]; discriminate.
    - destruct H as [_ [z [Hz ->]]]. simpl. rewrite andb_true_r.
      apply holds_of_eval. apply ev_i_eq; [apply ev_ts; exact Hi|exact Hz].
  Qed.

  Lemma eval_sized_head :
    forallb hd_ (c_sized_head root ds ts) =
    forallb (fun i => (down i <=? total i)%Z) (seq 0 n)
    && forallb (fun i => implb (c_root c i) (down i =? total i)%Z) (seq 0 n).
  Proof.
    unfold c_sized_head, map2, root, ds, ts, bvars, ivars.
    rewrite forallb_app, !combine_map_same, !forallb_map'.
    f_equal.
    - apply forallb_ext_in. intros i Hi. apply holds_of_eval. apply ev_i_le; reflexivity.
    - apply forallb_ext_in. intros i Hi. apply holds_of_eval.
      apply ev_b_imp; [reflexivity|]. apply ev_i_eq; reflexivity.
  Qed.

  Lemma eval_sized :
    forallb hd_ (sized_cons g k sizes) = cert_sizes g c down total sval true.
  Proof.
    unfold sized_cons, cert_sizes. fold n m rank root act ds ts.
    rewrite !forallb_app, eval_sized_head, forallb_concat_map. rewrite <- !andb_assoc.
    f_equal. f_equal. f_equal.
    - apply forallb_ext_in. intros i Hi. apply in_seq in Hi.
      cbn [forallb]. rewrite eval_down by lia. rewrite eval_size by lia. reflexivity.
    - simpl negb. rewrite orb_false_l.
      apply (eval_edges_eq gsem g Hwf k en ts total). intros i Hi. apply ev_ts; exact Hi.
  Qed.
End EvalSized.

(* domains of the size variables *)
Lemma sized_state_new_cons st g sizes :
  new_cons st (sized_state st g sizes) = main_cons g (next_id st) ++ sized_cons g (next_id st) sizes.
Proof.
  unfold new_cons, sized_state, main_state. cbn [cons ensure add_decls].
  rewrite <- app_assoc. apply skipn_app_len.
Qed.

Lemma sized_state_bounds st g sizes en :
  new_in_bounds st (sized_state st g sizes) en =
  cert_ranges g (cert_of_env (next_id st) (nv g) en)
  && cert_size_ranges g (down_of_env (next_id st) g en) (total_of_env (next_id st) g en).
Proof.
  unfold new_in_bounds, sized_state, main_state. cbn [vars ensure add_decls]. unfold next_id at 2.
  rewrite <- app_assoc, skipn_app_len. unfold main_decls, sized_decls.
  rewrite !in_bounds_from_app, !in_bounds_from_repeat_bool, !in_bounds_from_repeat_int, !repeat_length.
  rewrite ?andb_true_r, ?andb_true_l. rewrite !app_length, !repeat_length.
  unfold cert_ranges, cert_size_ranges, cert_of_env, down_of_env, total_of_env.
  cbn [c_gid c_rank]. f_equal. f_equal.
  - unfold in_range. apply forallb_ext_in. intros j _.
    replace (next_id st + (nv g + (nv g + (nv g + length (edges g)))) + j)
      with (next_id st + 3 * nv g + length (edges g) + j) by lia. reflexivity.
  - unfold in_range. apply forallb_ext_in. intros j _.
    replace (next_id st + (nv g + (nv g + (nv g + length (edges g)))) + nv g + j)
      with (next_id st + 4 * nv g + length (edges g) + j) by lia. reflexivity.
Qed.

(* ------------------------------------------------------------------------ *)
(* group_size one int-like object (a Python int, an IntVar, an IntExpr tree):
   every vertex gets `total_size[i] == group_size`, and the total size is not
   propagated along the tree edges *)

Definition valid_scalar (e : expr) : bool :=
  match e with PyInt _ | IVar _ _ _ | INode _ _ => true | _ => false end.

Definition scalar_cons (g : graph) (k : nat) (e : expr) : list expr :=
  let n := nv g in let m := length (edges g) in
  let rank := ivars (k + n) n 0%Z (zn n - 1)%Z in
  let root := bvars (k + 2 * n) n in
  let act := bvars (k + 3 * n) m in
  let ds := ivars (k + 3 * n + m) n 1%Z (zn n) in
  let ts := ivars (k + 4 * n + m) n 1%Z (zn n) in
  c_sized_head root ds ts
  ++ concat (map (fun i => c_down g rank act ds i :: c_size (at_ ts i) (Some e)) (seq 0 n)).

Definition scalar_state (st : state) (g : graph) (e : expr) : state :=
  ensure (add_decls (main_state st g) (sized_decls g)) (scalar_cons g (next_id st) e).

Lemma post_vargroups_scalar st g e :
  1 <= nv g -> valid_scalar e = true ->
  post_vargroups st g (G1Scalar e) = Ok (scalar_state st g e, main_gid st g).
Proof.
  intros Hn Hv. unfold post_vargroups.
  rewrite int_array_ok by (unfold zn; lia). cbn [bind].
  rewrite int_array_ok by (unfold zn; lia). cbn [bind].
  unfold bool_array. rewrite !bool_vars_spec.
  rewrite !add_decls_app, !next_id_add_decls, !app_length, !repeat_length, !ensure_ensure.
  replace (next_id st + (nv g + nv g)) with (next_id st + 2 * nv g) by lia.
  replace (next_id st + (nv g + nv g + nv g)) with (next_id st + 3 * nv g) by lia.
  assert (Hab : gs_absent (G1Scalar e) = false) by (destruct e; try discriminate; reflexivity).
  assert (Hsc : gs_scalar (G1Scalar e) = true) by (destruct e; try discriminate; reflexivity).
  rewrite Hab, Hsc.
  set (st7 := ensure _ _).
  assert (H7 : st7 = main_state st g).
  { unfold st7, main_state, main_cons, main_decls. rewrite <- ?app_assoc. reflexivity. }
  rewrite int_array_ok by (unfold zn; lia). cbn [bind].
  rewrite int_array_ok by (unfold zn; lia). cbn [bind].
  rewrite next_id_add_decls, repeat_length.
  rewrite (mapM_all_ok _ (fun i => c_down g (ivars (next_id st + nv g) (nv g) 0%Z (zn (nv g) - 1)%Z)
                                          (bvars (next_id st + 3 * nv g) (length (edges g)))
                                          (ivars (next_id st7) (nv g) 1%Z (zn (nv g))) i
                                   :: c_size (at_ (ivars (next_id st7 + nv g) (nv g) 1%Z (zn (nv g))) i)
                                             (Some e))).
  2:{ intros i Hi. unfold c_sized_vertex, size_at.
      assert (Hsl : is_size_like e = true) by (destruct e; try discriminate; reflexivity).
      rewrite Hsl. reflexivity. }
  cbn [bind]. rewrite !ensure_ensure, add_decls_app.
  rewrite H7, next_id_main_state.
  replace (next_id st + 3 * nv g + length (edges g) + nv g) with (next_id st + 4 * nv g + length (edges g)) by lia.
  unfold scalar_state, scalar_cons, sized_decls, main_gid. rewrite <- ?app_assoc. reflexivity.
Qed.

Lemma eval_scalar gsem g k en e z :
  wf_graph g = true -> valid_scalar e = true -> eval gsem en e = Some (VI z) ->
  forallb (holds gsem en) (scalar_cons g k e) =
  cert_sizes g (cert_of_env k (nv g) en) (down_of_env k g en) (total_of_env k g en) (fun _ => Some z) false.
Proof.
  intros Hwf Hv He. unfold scalar_cons, cert_sizes.
  rewrite !forallb_app, (eval_sized_head gsem g k en), forallb_concat_map.
  simpl negb. rewrite orb_true_l, andb_true_r. f_equal.
  apply forallb_ext_in. intros i Hi. apply in_seq in Hi.
  cbn [forallb]. rewrite (eval_down gsem g Hwf k en) by lia. f_equal.
  assert (Hc : c_size (at_ (ivars (k + 4 * nv g + length (edges g)) (nv g) 1%Z (zn (nv g))) i) (Some e)
               = [i_eq (at_ (ivars (k + 4 * nv g + length (edges g)) (nv g) 1%Z (zn (nv g))) i) e])
    by (destruct e; try discriminate; reflexivity).
  rewrite Hc. cbn [forallb]. rewrite andb_true_r. apply holds_of_eval.
  apply ev_i_eq; [|exact He]. rewrite at_ivars by lia. reflexivity.
Qed.

Lemma scalar_state_new_cons st g e :
  new_cons st (scalar_state st g e) = main_cons g (next_id st) ++ scalar_cons g (next_id st) e.
Proof.
  unfold new_cons, scalar_state, main_state. cbn [cons ensure add_decls].
  rewrite <- app_assoc. apply skipn_app_len.
Qed.

Lemma scalar_state_bounds st g e en :
  new_in_bounds st (scalar_state st g e) en = new_in_bounds st (sized_state st g []) en.
Proof. reflexivity. Qed.
