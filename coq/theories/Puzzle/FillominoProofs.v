(* C11 Tier 1 - fillomino: for every board shape and every layout of given numbers, the program posted by
   solve_fillomino (model Fillomino.v: the size grid 1..h*w, the border frame, the connectivity helper of
   property C07 division_connected_variable_groups_with_borders with group_size = size, "a border lies exactly
   between cells of different size", the given numbers) has a model whose answer-key variables (the size grid,
   ids 0 .. h*w-1) read as [ans] exactly when [ans] obeys Rules_fillomino.  The border variables and the
   variables of the connectivity encoding are existential: for a rule-obeying grid the borders are the cell
   borders between different numbers, and C07's theorem provides the rest. *)
From Coq Require Import ZArith List Bool Arith Lia.
From Cspuz Require Import Lib.PyErr Core.Expr Core.Program Graph.GraphModel Graph.ReachProofs Graph.AvcProofs
     Graph.VarGroups Graph.VarGroupsEval Graph.VarGroupsBorders Graph.VarGroupsFrame
     Puzzle.PuzzleBase Puzzle.SatAbs Puzzle.ModelBase Puzzle.ModelLemmas Puzzle.CreekProofs
     Puzzle.BordersCompose Puzzle.Rules_fillomino Puzzle.Fillomino.
Import ListNotations.
Local Open Scope nat_scope.

(* ------------------------------------------------------------------------ *)
(* A. meaning of the constraints posted after the graph call                   *)

Definition fl_local (h w : nat) (given : list Z) (d : nat -> Z) (b : nat -> bool) : bool :=
  forallb (fun '(y, x) => Bool.eqb (b ((h - 1) * w + y * (w - 1) + x))
                                   (negb (d (y * w + x)%nat =? d (y * w + S x)%nat)%Z)) (cells h (w - 1)) &&
  forallb (fun '(y, x) => Bool.eqb (b (y * w + x))
                                   (negb (d (y * w + x)%nat =? d (S y * w + x)%nat)%Z)) (cells (h - 1) w) &&
  forallb (fun '(y, x) => let c := at2 given w y x in
                          if (1 <=? c)%Z then (d (y * w + x)%nat =? c)%Z else true) (cells h w).

Lemma fl_constraints_sem gsem h w given en :
  forallb (holds gsem en) (fl_constraints h w given) =
  fl_local h w given (ei en) (fun j => eb en (h * w + j)).
Proof.
  unfold fl_constraints, fl_local. rewrite !forallb_app, !forallb_map, forallb_flat_map, andb_assoc.
  f_equal; [f_equal|].
  - apply forallb_ext_in. intros [y x] _. unfold fl_size. apply (holds_of_eval gsem en).
    apply (ev_b_iff gsem en (BVar _) (BNode NE [_; _])); [reflexivity|].
    apply (ev_i_ne gsem en (IVar _ _ _) (IVar _ _ _)); reflexivity.
  - apply forallb_ext_in. intros [y x] _. unfold fl_size. apply (holds_of_eval gsem en).
    apply (ev_b_iff gsem en (BVar _) (BNode NE [_; _])); [reflexivity|].
    apply (ev_i_ne gsem en (IVar _ _ _) (IVar _ _ _)); reflexivity.
  - apply forallb_ext_in. intros [y x] _. cbv zeta.
    destruct (1 <=? at2 given w y x)%Z; [|reflexivity]. cbn [forallb]. rewrite andb_true_r.
    unfold fl_size. apply (holds_of_eval gsem en).
    apply (ev_i_eq gsem en (IVar _ _ _) (PyInt _)); reflexivity.
Qed.

Lemma fl_local_ext h w given d d' b b' :
  (forall v, v < h * w -> d v = d' v) -> (forall j, j < n_borders h w -> b j = b' j) ->
  fl_local h w given d b = fl_local h w given d' b'.
Proof.
  intros Ed Eb. unfold fl_local. f_equal; [f_equal|].
  - apply forallb_ext_in. intros [y x] Hc. apply cells_in in Hc. destruct Hc as [Hy Hx].
    rewrite !Ed by (apply grid_cell_lt; lia).
    rewrite Eb; [reflexivity|]. unfold n_borders.
    pose proof (ver_off_lt h w y x Hy ltac:(lia) ltac:(lia)). lia.
  - apply forallb_ext_in. intros [y x] Hc. apply cells_in in Hc. destruct Hc as [Hy Hx].
    rewrite !Ed by (apply grid_cell_lt; lia).
    rewrite Eb; [reflexivity|]. unfold n_borders.
    pose proof (grid_cell_lt (h - 1) w y x Hy Hx). lia.
  - apply forallb_ext_in. intros [y x] Hc. apply cells_in in Hc. destruct Hc as [Hy Hx].
    rewrite Ed by (apply grid_cell_lt; lia). reflexivity.
Qed.

(* ------------------------------------------------------------------------ *)
(* B. the rules vs. "some border pattern satisfies C07's specification and the posted constraints"           *)

Section Core.
  Variables (h w : nat) (given : list Z) (ans : answer).

  Definition fl_val (v : nat) : Z := getz ans v.
  Definition fl_g : graph := frame_graph (mk_frame h w).
  Notation val := fl_val.
  Notation g := fl_g.

  (* the three groups of posted constraints as propositions *)
  Definition fl_V (d : nat -> Z) (b : nat -> bool) : Prop :=
    forall y x, y < h -> S x < w -> b ((h - 1) * w + y * (w - 1) + x) = negb (d (y * w + x)%nat =? d (y * w + S x)%nat)%Z.
  Definition fl_H (d : nat -> Z) (b : nat -> bool) : Prop :=
    forall y x, S y < h -> x < w -> b (y * w + x) = negb (d (y * w + x)%nat =? d (S y * w + x)%nat)%Z.
  Definition fl_G (d : nat -> Z) : Prop :=
    forall v, v < h * w -> (1 <= getz given v)%Z -> d v = getz given v.

  Lemma fl_local_props d b : fl_local h w given d b = true <-> (fl_V d b /\ fl_H d b /\ fl_G d).
  Proof.
    unfold fl_local. rewrite !andb_true_iff, !forallb_forall.
    split.
    - intros [[HV HH] HG]. split; [|split].
      + intros y x Hy Hx. specialize (HV (y, x) ltac:(apply cells_in; lia)). cbv beta iota in HV.
        apply eqb_prop. exact HV.
      + intros y x Hy Hx. specialize (HH (y, x) ltac:(apply cells_in; lia)). cbv beta iota in HH.
        apply eqb_prop. exact HH.
      + intros v Hv Hc.
        assert (Hw : w <> 0) by (intros ->; lia).
        specialize (HG (v / w, v mod w)).
        assert (Hvm : v = v / w * w + v mod w) by (rewrite Nat.mul_comm; apply Nat.div_mod; exact Hw).
        assert (Hin : In (v / w, v mod w) (cells h w)).
        { apply cells_in. split; [apply Nat.div_lt_upper_bound; [exact Hw|lia]|apply Nat.mod_upper_bound; exact Hw]. }
        specialize (HG Hin). cbv beta iota zeta in HG. unfold at2 in HG. rewrite <- Hvm in HG.
        apply Z.leb_le in Hc. rewrite Hc in HG. apply Z.eqb_eq. exact HG.
    - intros [HV [HH HG]]. split; [split|].
      + intros [y x] Hc. apply cells_in in Hc. rewrite (HV y x) by lia. apply eqb_reflx.
      + intros [y x] Hc. apply cells_in in Hc. rewrite (HH y x) by lia. apply eqb_reflx.
      + intros [y x] Hc. apply cells_in in Hc. cbv zeta. unfold at2.
        destruct (Z.leb_spec 1 (getz given (y * w + x))) as [Hle|_]; [|reflexivity].
        apply Z.eqb_eq. apply HG; [apply grid_cell_lt; lia|exact Hle].
  Qed.

  (* under the posted constraints a border lies exactly between cells of different value *)
  Lemma fl_pat d b : fl_V d b -> fl_H d b ->
    forall k u v, nth_error (edges g) k = Some (u, v) ->
                  b (nth k (frame_offsets h w) 0) = negb (d u =? d v)%Z.
  Proof.
    intros HV HH k u v Hk. destruct (frame_edge_offset h w k u v Hk) as [y [x [Hy [Hx [Eu [[H1 [Ev Eo]]|[H1 [Ev Eo]]]]]]]];
      subst u v; rewrite Eo.
    - apply HH; assumption.
    - apply HV; assumption.
  Qed.

  (* the border pattern of a grid: the cell borders between different numbers *)
  Definition fl_b (j : nat) : bool :=
    if j <? (h - 1) * w then negb (val j =? val (j + w))%Z
    else let j' := j - (h - 1) * w in
         negb (val (j' / (w - 1) * w + j' mod (w - 1)) =? val (j' / (w - 1) * w + S (j' mod (w - 1))))%Z.

  Lemma fl_b_V : fl_V val fl_b.
  Proof.
    intros y x Hy Hx. unfold fl_b.
    destruct (Nat.ltb_spec ((h - 1) * w + y * (w - 1) + x) ((h - 1) * w)) as [Hlt|_]; [lia|]. cbv zeta.
    replace ((h - 1) * w + y * (w - 1) + x - (h - 1) * w) with (x + y * (w - 1))
      by (generalize ((h - 1) * w) (y * (w - 1)); intros; lia).
    assert (Hw : w - 1 <> 0) by lia.
    rewrite Nat.div_add by exact Hw. rewrite Nat.mod_add by exact Hw.
    rewrite Nat.div_small, Nat.mod_small by lia. reflexivity.
  Qed.

  Lemma fl_b_H : fl_H val fl_b.
  Proof.
    intros y x Hy Hx. unfold fl_b.
    destruct (Nat.ltb_spec (y * w + x) ((h - 1) * w)) as [_|Hge].
    - replace (y * w + x + w) with (S y * w + x) by (simpl; lia). reflexivity.
    - exfalso. pose proof (hor_off_lt h w y x ltac:(lia) Hx ltac:(lia)). lia.
  Qed.

  (* ---- the rule specification, conjunct by conjunct *)
  Definition fl_R1 : bool := forallb (fun v => ((1 <=? v) && (v <=? Z.of_nat (h * w)))%Z) ans.
  Definition fl_R2 : bool :=
    forallb (fun v => (Z.of_nat (length (same_group h w val v)) =? val v)%Z) (seq 0 (h * w)).
  Definition fl_R3 : bool :=
    forallb (fun v => let c := getz given v in (c <? 1)%Z || (val v =? c)%Z) (seq 0 (h * w)).

  Lemma rules_fillomino_split :
    rules_fillomino [[Z.of_nat h; Z.of_nat w]; given] ans =
    Nat.eqb (length ans) (h * w) && fl_R1 && fl_R2 && fl_R3.
  Proof.
    unfold rules_fillomino. destruct (dims2c h w [given]) as [-> ->].
    change (sec [[Z.of_nat h; Z.of_nat w]; given] 1) with given. reflexivity.
  Qed.

  Lemma fl_R1_spec : length ans = h * w ->
    (fl_R1 = true <-> forall v, v < h * w -> (1 <= val v <= Z.of_nat (h * w))%Z).
  Proof.
    intros Hl. unfold fl_R1. rewrite forallb_forall. split.
    - intros H v Hv. specialize (H (val v)). unfold fl_val, getz in *.
      assert (Hin : In (nth v ans 0%Z) ans) by (apply nth_In; lia). specialize (H Hin).
      apply andb_true_iff in H. destruct H as [H1 H2]. apply Z.leb_le in H1. apply Z.leb_le in H2. lia.
    - intros H z Hz. destruct (In_nth ans z 0%Z Hz) as [i [Hi Ei]]. subst z.
      specialize (H i ltac:(lia)). unfold fl_val, getz in H.
      apply andb_true_iff. split; apply Z.leb_le; lia.
  Qed.

  Lemma fl_R2_spec :
    fl_R2 = true <-> forall v, v < h * w -> Z.of_nat (length (same_group h w val v)) = val v.
  Proof.
    unfold fl_R2. rewrite forallb_forall. split.
    - intros H v Hv. apply Z.eqb_eq. apply H. apply in_seq. lia.
    - intros H v Hv. apply in_seq in Hv. apply Z.eqb_eq. apply H. lia.
  Qed.

  Lemma fl_R3_spec : fl_R3 = true <-> fl_G val.
  Proof.
    unfold fl_R3, fl_G. rewrite forallb_forall. split.
    - intros H v Hv Hc. specialize (H v ltac:(apply in_seq; lia)). cbv zeta in H.
      apply orb_true_iff in H. destruct H as [H|H]; [apply Z.ltb_lt in H; lia|apply Z.eqb_eq in H; exact H].
    - intros H v Hv. apply in_seq in Hv. cbv zeta. apply orb_true_iff.
      destruct (Z.ltb_spec (getz given v) 1) as [Hlt|Hge]; [left; reflexivity|right].
      apply Z.eqb_eq. apply H; lia.
  Qed.

  Theorem fl_rules_iff_borders :
    rules_fillomino [[Z.of_nat h; Z.of_nat w]; given] ans = true <->
    (length ans = h * w /\ (forall v, v < h * w -> (1 <= val v <= Z.of_nat (h * w))%Z) /\
     exists b : nat -> bool,
       border_exact g (fun k => b (nth k (frame_offsets h w) 0)) (fun v => Some (val v)) /\
       fl_local h w given val b = true).
  Proof.
    rewrite rules_fillomino_split, !andb_true_iff, Nat.eqb_eq. split.
    - intros [[[Hl H1] H2] H3]. split; [exact Hl|]. split; [apply (fl_R1_spec Hl); exact H1|].
      exists fl_b. split.
      + apply (border_exact_groups h w val _ (fl_pat val fl_b fl_b_V fl_b_H)). apply fl_R2_spec. exact H2.
      + apply fl_local_props. split; [exact fl_b_V|]. split; [exact fl_b_H|]. apply fl_R3_spec. exact H3.
    - intros [Hl [Hr [b [Hbe Hlc]]]]. apply fl_local_props in Hlc. destruct Hlc as [HV [HH HG]].
      split; [split; [split|]|].
      + exact Hl.
      + apply (fl_R1_spec Hl). exact Hr.
      + apply fl_R2_spec. apply (border_exact_groups h w val _ (fl_pat val b HV HH)). exact Hbe.
      + apply fl_R3_spec. exact HG.
  Qed.
End Core.

(* ------------------------------------------------------------------------ *)
(* C. the theorem                                                            *)

Theorem fillomino_exact h w given st ans :
  solve_fillomino_model [[Z.of_nat h; Z.of_nat w]; given] = Ok st ->
  ((exists en, model_of no_graph en st /\ reads st en (seq 0 (h * w)) = ans)
   <-> rules_fillomino [[Z.of_nat h; Z.of_nat w]; given] ans = true).
Proof.
  unfold solve_fillomino_model. destruct (dims2c h w [given]) as [-> ->].
  change (sec [[Z.of_nat h; Z.of_nat w]; given] 1) with given.
  destruct (int_array empty_state (h * w) 1 (Z.of_nat (h * w))) as [[st0 size]|e] eqn:Hdecl; [|discriminate].
  assert (Hn : 1 <= h * w).
  { unfold int_array in Hdecl. destruct (Z.ltb_spec (Z.of_nat (h * w)) 1) as [Hlt|Hge]; [discriminate|lia]. }
  destruct (bool_array _ ((h - 1) * w)) as [st1 hor] eqn:Hhor.
  destruct (bool_array st1 (h * (w - 1))) as [st2 ver] eqn:Hver.
  destruct (division_connected_variable_groups_with_borders _ _ _ _ _ _) as [st3|e] eqn:Hcall; [|discriminate].
  destruct (Nat.ltb (length given) (h * w)); [discriminate|].
  intros H. inversion H; subst st; clear H.
  pose proof (borders_grid_compose no_graph h w 1 (Z.of_nat (h * w)) st0 size st1 hor st2 ver st3 Hn Hdecl Hhor Hver Hcall
                (fl_constraints h w given) (fl_local h w given)
                (fl_constraints_sem no_graph h w given) (fl_local_ext h w given) ans) as HC.
  unfold borders_final_state in HC. rewrite HC. clear HC.
  symmetry. apply fl_rules_iff_borders.
Qed.

(* the model is defined (returns a state) exactly on the boards with at least one cell and a full clue list
   (otherwise the Python raises: ValueError in int_array for a board without cells, IndexError for a
   missing / short row) *)
Theorem fillomino_model_defined h w given :
  (exists st, solve_fillomino_model [[Z.of_nat h; Z.of_nat w]; given] = Ok st) <-> (0 < h * w <= length given).
Proof.
  unfold solve_fillomino_model. destruct (dims2c h w [given]) as [-> ->].
  change (sec [[Z.of_nat h; Z.of_nat w]; given] 1) with given.
  destruct (int_array empty_state (h * w) 1 (Z.of_nat (h * w))) as [[st0 size]|e] eqn:Hdecl.
  2:{ unfold int_array in Hdecl. destruct (Z.ltb_spec (Z.of_nat (h * w)) 1) as [Hlt|Hge]; [|discriminate].
      split; [intros [st Hst]; discriminate|lia]. }
  assert (Hn : 1 <= h * w).
  { unfold int_array in Hdecl. destruct (Z.ltb_spec (Z.of_nat (h * w)) 1) as [Hlt|Hge]; [discriminate|lia]. }
  destruct (bool_array _ ((h - 1) * w)) as [st1 hor] eqn:Hhor.
  destruct (bool_array st1 (h * (w - 1))) as [st2 ver] eqn:Hver.
  rewrite (bc_frame h w 1 (Z.of_nat (h * w)) st0 size st1 hor st2 ver Hdecl Hhor Hver).
  rewrite with_borders_frame_form.
  rewrite post_with_borders_nonprim.
  - destruct (Nat.ltb_spec (length given) (h * w)) as [Hl|Hl].
    + split; [intros [st Hst]; discriminate|lia].
    + split; [lia|]. intros _. eexists; reflexivity.
  - exact Hn.
  - exact (bc_size_len h w 1 (Z.of_nat (h * w)) st0 size Hdecl).
  - exact (bc_bd_len h w).
  - exact (bc_size_valid h w 1 (Z.of_nat (h * w)) st0 size Hdecl).
Qed.

Example fillomino_model_ok :
  exists st, solve_fillomino_model [[2; 3]; [0; 3; 0; 0; 0; 1]]%Z = Ok st.
Proof. apply (fillomino_model_defined 2 3). simpl. lia. Qed.
