(* C11 Tier 1 - lemmas shared by the proofs <p>_exact. *)
From Coq Require Import ZArith List Bool Arith Lia.
From Cspuz Require Import Core.Expr Core.Program Puzzle.PuzzleBase Puzzle.SatAbs Puzzle.ModelBase.
Import ListNotations.
Local Open Scope nat_scope.

Lemma forallb_ext_in {A} (f g : A -> bool) l :
  (forall x, In x l -> f x = g x) -> forallb f l = forallb g l.
Proof.
  induction l as [|a r IH]; simpl; intros H; [reflexivity|].
  rewrite (H a (or_introl eq_refl)), IH; auto.
Qed.
Lemma forallb_flat_map {A B} (f : B -> bool) (g : A -> list B) l :
  forallb f (flat_map g l) = forallb (fun x => forallb f (g x)) l.
Proof. induction l; simpl; [reflexivity|]. rewrite forallb_app, IHl. reflexivity. Qed.
Lemma forallb_map {A B} (f : B -> bool) (g : A -> B) l :
  forallb f (map g l) = forallb (fun x => f (g x)) l.
Proof. induction l; simpl; congruence. Qed.
Lemma forallb_and {A} (f g : A -> bool) l :
  forallb (fun x => f x && g x) l = forallb f l && forallb g l.
Proof.
  induction l as [|a r IH]; simpl; [reflexivity|]. rewrite IH.
  destruct (f a), (g a), (forallb f r), (forallb g r); reflexivity.
Qed.
Lemma forallb_true {A} (l : list A) : forallb (fun _ => true) l = true.
Proof. induction l; simpl; auto. Qed.

Lemma count_map {A B} (f : B -> bool) (g : A -> B) l : count f (map g l) = count (fun x => f (g x)) l.
Proof. unfold count. induction l; simpl; [reflexivity|]. destruct (f (g a)); simpl; congruence. Qed.
Lemma count_ext_in {A} (f g : A -> bool) l : (forall x, In x l -> f x = g x) -> count f l = count g l.
Proof.
  unfold count. induction l as [|a r IH]; simpl; intros H; [reflexivity|].
  rewrite (H a (or_introl eq_refl)). destruct (g a); simpl; rewrite IH; auto.
Qed.
Lemma count_filter {A} (f g : A -> bool) l : count f (filter g l) = count (fun x => g x && f x) l.
Proof. unfold count. induction l; simpl; [reflexivity|]. destruct (g a); simpl; [destruct (f a); simpl; congruence|assumption]. Qed.

Lemma getz_map_seq (f : nat -> Z) N i : i < N -> getz (map f (seq 0 N)) i = f i.
Proof.
  intros H. unfold getz. rewrite nth_indep with (d' := f 0) by (rewrite map_length, seq_length; assumption).
  rewrite map_nth. rewrite seq_nth by assumption. reflexivity.
Qed.
Lemma map_getz_seq (l : list Z) : map (getz l) (seq 0 (length l)) = l.
Proof.
  induction l as [|a r IH]; simpl; [reflexivity|]. f_equal.
  rewrite <- seq_shift, map_map. exact IH.
Qed.

Lemma cells_in h w y x : In (y, x) (cells h w) <-> y < h /\ x < w.
Proof.
  unfold cells. rewrite in_flat_map. split.
  - intros [y' [Hy Hx]]. apply in_map_iff in Hx.
    destruct Hx as [x' [E Hx]]. inversion E; subst. apply in_seq in Hy. apply in_seq in Hx. lia.
  - intros [Hy Hx]. exists y. split; [apply in_seq; lia|]. apply in_map. apply in_seq. lia.
Qed.
Lemma cidx_lt h w y x : y < h -> x < w -> cidx w (y, x) < h * w.
Proof. unfold cidx; simpl. nia. Qed.
Lemma nbr4_in h w y x y' x' : y < h -> x < w -> In (y', x') (nbr4 h w y x) -> y' < h /\ x' < w.
Proof.
  intros Hy Hx. unfold nbr4. rewrite !in_app_iff. intros [H|[H|[H|H]]].
  - destruct (Nat.ltb 0 y) eqn:E; simpl in H; [|contradiction].
    destruct H as [H|[]]. inversion H; subst. apply Nat.ltb_lt in E. lia.
  - destruct (Nat.ltb (S y) h) eqn:E; simpl in H; [|contradiction].
    destruct H as [H|[]]. inversion H; subst. apply Nat.ltb_lt in E. lia.
  - destruct (Nat.ltb 0 x) eqn:E; simpl in H; [|contradiction].
    destruct H as [H|[]]. inversion H; subst. apply Nat.ltb_lt in E. lia.
  - destruct (Nat.ltb (S x) w) eqn:E; simpl in H; [|contradiction].
    destruct H as [H|[]]. inversion H; subst. apply Nat.ltb_lt in E. lia.
Qed.

Lemma b2z_isb b : isb (b2z b) = b.
Proof. destruct b; reflexivity. Qed.
Lemma is01_b2z b : is01 (b2z b) = true.
Proof. destruct b; reflexivity. Qed.
Lemma isb_is01 z : is01 z = true -> b2z (isb z) = z.
Proof.
  unfold is01, isb. intros H. apply orb_true_iff in H. destruct H as [H|H]; apply Z.eqb_eq in H; subst; reflexivity.
Qed.
Lemma znat_eqb a b : (Z.of_nat a =? Z.of_nat b)%Z = Nat.eqb a b.
Proof.
  destruct (Nat.eqb a b) eqn:E.
  - apply Nat.eqb_eq in E. subst. apply Z.eqb_refl.
  - apply Nat.eqb_neq in E. apply Z.eqb_neq. lia.
Qed.

Lemma eval_iop_add_ints (zs : list Z) :
  zs <> [] -> eval_iop ADD (map (fun z => Some (VI z)) zs) = Some (VI (zsum zs)).
Proof.
  intros Hne. unfold eval_iop.
  assert (Ha : all_some (map (fun z => Some (VI z)) zs) = Some (map VI zs)).
  { clear. induction zs; simpl; [reflexivity|]. rewrite IHzs. reflexivity. }
  rewrite Ha.
  assert (Hi : as_ints (map VI zs) = Some zs).
  { clear. induction zs; simpl; [reflexivity|]. rewrite IHzs. reflexivity. }
  destruct zs as [|a r]; [contradiction|].
  change (map VI (a :: r)) with (VI a :: map VI r) in *. rewrite Hi. reflexivity.
Qed.

Section Sem.
  Variable en : env.

  Lemma eval_ct_vars ids :
    eval no_graph en (ct_vars ids) = Some (VI (Z.of_nat (count (eb en) ids))).
  Proof.
    destruct ids as [|i r]; [reflexivity|].
    unfold ct_vars. set (l := i :: r).
    assert (Hne : l <> []) by discriminate. clearbody l.
    cbn [eval]. rewrite map_map.
    rewrite (map_ext _ (fun x => Some (VI (if eb en x then 1 else 0)%Z)))
      by (intros x; simpl; destruct (eb en x); reflexivity).
    rewrite <- (map_map (fun x => (if eb en x then 1 else 0)%Z) (fun z => Some (VI z))).
    rewrite eval_iop_add_ints by (destruct l; [contradiction|discriminate]).
    f_equal. f_equal. clear. unfold count, zsum.
    induction l as [|b r IH]; simpl; [reflexivity|].
    destruct (eb en b); simpl length; rewrite IH; lia.
  Qed.

  (* count_true(vars) == c *)
  Lemma holds_ct_eq ids c :
    holds no_graph en (BNode EQ [ct_vars ids; PyInt c]) = (Z.of_nat (count (eb en) ids) =? c)%Z.
  Proof.
    unfold holds. cbn [eval map]. rewrite eval_ct_vars. simpl.
    destruct (Z.of_nat (count (eb en) ids) =? c)%Z; reflexivity.
  Qed.

  (* v.then(count_true(vars) == c) *)
  Lemma holds_imp_ct_eq i ids c :
    holds no_graph en (BNode IMP [BVar i; BNode EQ [ct_vars ids; PyInt c]]) =
    (negb (eb en i) || (Z.of_nat (count (eb en) ids) =? c)%Z).
  Proof.
    unfold holds. cbn [eval map]. rewrite eval_ct_vars. simpl.
    destruct (eb en i), (Z.of_nat (count (eb en) ids) =? c)%Z; reflexivity.
  Qed.

  Lemma in_bounds_bool_grid n cs : in_bounds en (bool_grid_state n cs) = true.
  Proof.
    unfold in_bounds, bool_grid_state. simpl. generalize 0. induction n; intros k; simpl; auto.
  Qed.

  Lemma reads_bool_grid n cs :
    reads (bool_grid_state n cs) en (seq 0 n) = map (fun i => b2z (eb en i)) (seq 0 n).
  Proof.
    unfold reads. apply map_ext_in. intros i Hi. apply in_seq in Hi.
    unfold read_var, bool_grid_state. simpl.
    rewrite (nth_error_nth' _ DBool) by (rewrite repeat_length; lia).
    rewrite nth_repeat. reflexivity.
  Qed.
End Sem.

(* a 0/1 answer of the right length is the reading of the assignment it defines *)
Definition env_of_answer (ans : answer) : env :=
  {| eb := fun i => isb (getz ans i); ei := fun _ => 0%Z |}.
Lemma answer_as_reading ans n :
  length ans = n -> forallb is01 ans = true ->
  map (fun i => b2z (eb (env_of_answer ans) i)) (seq 0 n) = ans.
Proof.
  intros Hl H01. subst n. simpl.
  rewrite <- (map_getz_seq ans) at 2. apply map_ext_in. intros i Hi. apply in_seq in Hi.
  apply isb_is01. rewrite forallb_forall in H01. apply H01. unfold getz. apply nth_In. lia.
Qed.

(* generic wrap-up: once "rules on the reading of en = every constraint holds under en"
   is known for all en, the exactness statement follows for boolean answer grids *)
Lemma bool_grid_exact (rules : answer -> bool) n cs ans :
  (forall en, rules (map (fun i => b2z (eb en i)) (seq 0 n)) =
              satisfies no_graph en (bool_grid_state n cs)) ->
  (forall a, rules a = true -> length a = n /\ forallb is01 a = true) ->
  ((exists en, model_of no_graph en (bool_grid_state n cs) /\
               reads (bool_grid_state n cs) en (seq 0 n) = ans) <-> rules ans = true).
Proof.
  intros Hcore Hshape. split.
  - intros [en [[_ Hs] Hr]]. rewrite reads_bool_grid in Hr. subst ans. rewrite Hcore. exact Hs.
  - intros Hr. destruct (Hshape _ Hr) as [Hl H01].
    exists (env_of_answer ans). rewrite reads_bool_grid.
    pose proof (answer_as_reading ans n Hl H01) as Ha. split; [|exact Ha].
    split; [apply in_bounds_bool_grid|]. rewrite <- Hcore. rewrite Ha. exact Hr.
Qed.
