(* C11 rule specification - Masyu.
   Published rules (Nikoli, "Masyu"):
     1. Make a single loop with lines passing through the centers of cells,
        horizontally or vertically. The loop never crosses itself, branches off,
        or goes through the same cell twice.
     2. Lines must pass through all cells with black and white circles.
     3. Lines passing through white circles must pass straight through its cell,
        and make a right-angle turn in at least one of the cells next to the
        white circle.
     4. Lines passing through black circles must make a right-angle turn in its
        cell, then it must go straight through the next cell (till the middle of
        the second cell) on both sides.

   problem = [[h; w]; circles]   circles: h*w cells row-major, 1 white, 2 black, anything else none
   answer  = the segments between the centres of the h x w cells (PuzzleBase.lattice h w) *)
From Coq Require Import ZArith List Bool Arith.
From Cspuz Require Import Graph.GraphModel Puzzle.PuzzleBase.
Import ListNotations.

Definition rules_masyu (pb : problem) (ans : answer) : bool :=
  let h := dim pb 0 in let w := dim pb 1 in
  let circ := sec pb 1 in
  let on := fun k => isb (getz ans k) in
  let sg := seg h w on in
  (* the line goes straight through (y, x) along axis d/opposite d *)
  let straight := fun y x d => sg y x d && sg y x (opposite d) in
  (* the line enters the neighbour of (y,x) in direction d and turns there *)
  let turns_next := fun y x d => let '(y', x') := step_dir y x d in negb (sg y' x' d) in
  let goes_on_next := fun y x d => let '(y', x') := step_dir y x d in sg y' x' d in
  Nat.eqb (length ans) (n_lattice_edges h w) && forallb is01 ans &&
  single_loop_b (lattice h w) on &&
  forallb (fun '(y, x) =>
     let c := at2 circ w y x in
     if (c =? 1)%Z then
       existsb (fun d => straight y x d && (turns_next y x d || turns_next y x (opposite d))) [0; 2]
     else if (c =? 2)%Z then
       (* a turn: one vertical and one horizontal leg, each continued straight *)
       existsb (fun dv => existsb (fun dh =>
          sg y x dv && sg y x dh && goes_on_next y x dv && goes_on_next y x dh) [2; 3]) [0; 1]
     else true) (cells h w).

Definition answers_masyu (pb : problem) : list answer :=
  all_answers (bool_doms (n_lattice_edges (dim pb 0) (dim pb 1))).
