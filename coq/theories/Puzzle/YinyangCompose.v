(* C11 Tier 1 - composition with property C04 for a solver that declares a boolean answer grid, calls
   graph.active_vertices_connected TWICE - on the grid and on its negation (the activity flags of the second call are
   the nodes NOT(v)) - and then posts further constraints over the grid variables only (cspuz/puzzle/yinyang.py).
   Variable ids, n = h*w: grid 0 .. n-1; first call ranks n .. 2n-1, root flags 2n .. 3n-1; second call ranks
   3n .. 4n-1, root flags 4n .. 5n-1.
     yy_model   : an assignment is a model of the final state exactly when both rank blocks are in range, the
                  certificate checker of C04 accepts both blocks, and the later constraints hold
     yy_two_avc_compose : a 0/1 grid is the reading of a model exactly when the cells holding 1 are connected, the
                  cells holding 0 are connected, and the later constraints hold on it
   Uses C04's closed theorems avc_eval / avc_cert (cert_sound, cert_complete). *)
From Coq Require Import ZArith List Bool Arith Lia.
From Cspuz Require Import Lib.PyErr Core.Expr Core.Program Graph.GraphModel Graph.ReachProofs
     Graph.Avc Graph.AvcCert Graph.AvcSem Graph.AvcProofs
     Puzzle.PuzzleBase Puzzle.SatAbs Puzzle.ModelBase Puzzle.ModelLemmas Puzzle.CreekProofs
     Puzzle.HeyawakeLemmas Puzzle.ViewCompose.
Import ListNotations.
Local Open Scope nat_scope.

Notation b2z := PuzzleBase.b2z.

(* overwrite the variables b .. b+n-1 (ranks) and b+n .. b+2n-1 (root flags) of an assignment *)
Definition yy_splice (b n : nat) (en : env) (rank : nat -> Z) (root : nat -> bool) : env :=
  {| eb := fun i => if Nat.leb (b + n) i && Nat.ltb i (b + n + n) then root (i - (b + n)) else eb en i;
     ei := fun i => if Nat.leb b i && Nat.ltb i (b + n) then rank (i - b) else ei en i |}.

Lemma yy_splice_eb_out b n en rank root i :
  i < b + n \/ b + n + n <= i -> eb (yy_splice b n en rank root) i = eb en i.
Proof.
  intros H. cbn [eb yy_splice]. destruct (Nat.leb_spec (b + n) i); destruct (Nat.ltb_spec i (b + n + n)); cbn [andb];
    try reflexivity. lia.
Qed.
Lemma yy_splice_ei_out b n en rank root i :
  i < b \/ b + n <= i -> ei (yy_splice b n en rank root) i = ei en i.
Proof.
  intros H. cbn [ei yy_splice]. destruct (Nat.leb_spec b i); destruct (Nat.ltb_spec i (b + n)); cbn [andb];
    try reflexivity. lia.
Qed.
Lemma yy_splice_rank b n en rank root j : j < n -> ei (yy_splice b n en rank root) (b + j) = rank j.
Proof.
  intros H. cbn [ei yy_splice]. destruct (Nat.leb_spec b (b + j)); [|lia].
  destruct (Nat.ltb_spec (b + j) (b + n)); [|lia]. cbn [andb]. f_equal. lia.
Qed.
Lemma yy_splice_root b n en rank root j : j < n -> eb (yy_splice b n en rank root) (b + n + j) = root j.
Proof.
  intros H. cbn [eb yy_splice]. destruct (Nat.leb_spec (b + n) (b + n + j)); [|lia].
  destruct (Nat.ltb_spec (b + n + j) (b + n + n)); [|lia]. cbn [andb]. f_equal. lia.
Qed.

Section NegActs.
  Variable n : nat.
  Let nacts := map (fun i => BNode NOT [BVar i]) (seq 0 n).

  Lemma pattern_nacts en v : pattern en nacts v = Nat.ltb v n && negb (eb en v).
  Proof.
    unfold pattern, nacts. destruct (Nat.ltb_spec v n) as [L|L].
    - rewrite nth_indep with (d' := BNode NOT [BVar 0]) by (rewrite map_length, seq_length; exact L).
      rewrite (map_nth (fun i => BNode NOT [BVar i])), seq_nth by exact L. simpl. unfold holds. simpl.
      destruct (eb en v); reflexivity.
    - rewrite nth_overflow by (rewrite map_length, seq_length; exact L). reflexivity.
  Qed.
  Lemma nacts_def en : acts_defined en nacts.
  Proof.
    intros a Ha. unfold nacts in Ha. apply in_map_iff in Ha. destruct Ha as [i [<- Hi]].
    eexists. reflexivity.
  Qed.
End NegActs.

Section Compose2.
  Variables h w : nat.
  Notation n := (h * w).
  Notation acts := (map BVar (seq 0 (h * w))).
  Notation nacts := (map (fun i => BNode NOT [BVar i]) (seq 0 (h * w))).
  Notation g := (grid_graph h w).
  Variables (st1 st2 : state) (extra : list expr).
  Hypothesis Hp1 : post_avc (bool_grid_state n []) acts g false false = Ok st1.
  Hypothesis Hp2 : post_avc st1 nacts g false false = Ok st2.

  Definition yy_ranks_ok (b : nat) (en : env) : Prop :=
    forall j, j < n -> (0 <= ei en (b + j) <= Z.of_nat n - 1)%Z.
  Definition yy_cert1 (en : env) : bool :=
    cert_avc g false (pattern en acts) (fun j => ei en (n + j)) (fun j => eb en (n + n + j)).
  Definition yy_cert2 (en : env) : bool :=
    cert_avc g false (pattern en nacts) (fun j => ei en (3 * n + j)) (fun j => eb en (3 * n + n + j)).

  Lemma yy_nonempty : 1 <= n.
  Proof. exact (post_avc_nonempty _ _ _ _ _ Hp1). Qed.

  Lemma yy_vars2 :
    vars st2 = repeat DBool n ++ (repeat (DInt 0 (Z.of_nat n - 1)) n ++ repeat DBool n) ++
               (repeat (DInt 0 (Z.of_nat n - 1)) n ++ repeat DBool n).
  Proof.
    destruct (AvcSem.avc_eval _ _ _ _ _ Hp1) as [Hv1 _]. destruct (AvcSem.avc_eval _ _ _ _ _ Hp2) as [Hv2 _].
    rewrite Hv2, Hv1. change (nv g) with n. cbn [vars bool_grid_state]. rewrite <- !app_assoc. reflexivity.
  Qed.

  Lemma yy_model en :
    model_of gsem_avc en (ensure st2 extra) <->
    (yy_ranks_ok n en /\ yy_cert1 en = true /\ yy_ranks_ok (3 * n) en /\ yy_cert2 en = true /\
     forallb (holds gsem_avc en) extra = true).
  Proof.
    pose proof yy_vars2 as Hv.
    destruct (AvcSem.avc_eval _ _ _ _ _ Hp1) as [Hv1 [_ [cs1 [Hc1 Hev1]]]].
    destruct (AvcSem.avc_eval _ _ _ _ _ Hp2) as [_ [_ [cs2 [Hc2 Hev2]]]].
    assert (Hn0 : next_id (bool_grid_state n []) = n) by (unfold next_id; simpl; apply repeat_length).
    assert (Hn1 : next_id st1 = 3 * n).
    { unfold next_id. rewrite Hv1. cbn [vars bool_grid_state]. change (nv g) with n.
      rewrite !app_length, !repeat_length. lia. }
    change (nv g) with n in *. rewrite Hn0 in Hev1. rewrite Hn1 in Hev2.
    unfold model_of, in_bounds, satisfies. cbn [vars Program.cons ensure]. rewrite Hv, Hc2, Hc1.
    cbn [Program.cons bool_grid_state app].
    rewrite !in_bounds_from_app, !forallb_app, !in_bounds_from_bools. cbn [andb].
    rewrite !app_length, !repeat_length. cbn [Nat.add].
    replace (n + (n + n)) with (3 * n) by lia.
    rewrite (Hev1 en (acts_def n en)), (Hev2 en (nacts_def n en)).
    rewrite !andb_true_r, !andb_true_iff, !in_bounds_from_ints.
    unfold yy_ranks_ok, yy_cert1, yy_cert2. tauto.
  Qed.

  Lemma yy_pattern_low en v : v < n -> pattern en acts v = eb en v.
  Proof. intros H. rewrite pattern_acts. destruct (Nat.ltb_spec v n); [reflexivity|lia]. Qed.
  Lemma yy_npattern_low en v : v < n -> pattern en nacts v = negb (eb en v).
  Proof. intros H. rewrite pattern_nacts. destruct (Nat.ltb_spec v n); [reflexivity|lia]. Qed.

  Lemma yy_reads en :
    reads (ensure st2 extra) en (seq 0 n) = map (fun i => b2z (eb en i)) (seq 0 n).
  Proof. eapply reads_bool_prefix. cbn [vars ensure]. rewrite yy_vars2. reflexivity. Qed.

  Variable local : answer -> bool.
  Hypothesis Hloc : forall en, local (map (fun i => b2z (eb en i)) (seq 0 n)) = forallb (holds gsem_avc en) extra.

  Theorem yy_two_avc_compose ans :
    (exists en, model_of gsem_avc en (ensure st2 extra) /\ reads (ensure st2 extra) en (seq 0 n) = ans)
    <-> Nat.eqb (length ans) n && forallb is01 ans &&
        cells_connected h w (fun v => isb (getz ans v)) &&
        cells_connected h w (fun v => negb (isb (getz ans v))) && local ans = true.
  Proof.
    split.
    - intros [en [Hm Hr]]. rewrite yy_reads in Hr. subst ans.
      apply yy_model in Hm. destruct Hm as [Hr1 [Hc1 [Hr2 [Hc2 Hex]]]].
      replace (Nat.eqb (length (map (fun i => b2z (eb en i)) (seq 0 n))) n) with true
        by (rewrite map_length, seq_length; symmetry; apply Nat.eqb_refl).
      replace (forallb is01 (map (fun i => b2z (eb en i)) (seq 0 n))) with true
        by (rewrite forallb_map; symmetry; apply forallb_forall; intros; apply is01_b2z).
      rewrite Hloc, Hex, andb_true_r. cbn [andb]. apply andb_true_iff. split.
      + unfold cells_connected, board.
        rewrite (connected_b_ext_below _ _ (pattern en acts) (grid_wf h w)).
        * apply (connected_b_spec _ _ (grid_wf h w)).
          apply (cert_sound g false (pattern en acts) (fun j => ei en (n + j)) (fun j => eb en (n + n + j))
                            (grid_wf h w)); [exact Hr1|exact Hc1].
        * intros v Hv. change (nv g) with n in Hv. rewrite getz_map_seq by exact Hv.
          rewrite b2z_isb, yy_pattern_low by exact Hv. reflexivity.
      + unfold cells_connected, board.
        rewrite (connected_b_ext_below _ _ (pattern en nacts) (grid_wf h w)).
        * apply (connected_b_spec _ _ (grid_wf h w)).
          apply (cert_sound g false (pattern en nacts) (fun j => ei en (3 * n + j)) (fun j => eb en (3 * n + n + j))
                            (grid_wf h w)); [exact Hr2|exact Hc2].
        * intros v Hv. change (nv g) with n in Hv. rewrite getz_map_seq by exact Hv.
          rewrite b2z_isb, yy_npattern_low by exact Hv. reflexivity.
    - intros Hr.
      apply andb_true_iff in Hr. destruct Hr as [Hr Hcl].
      apply andb_true_iff in Hr. destruct Hr as [Hr Hconn2].
      apply andb_true_iff in Hr. destruct Hr as [Hr Hconn1].
      apply andb_true_iff in Hr. destruct Hr as [Hlen H01]. apply Nat.eqb_eq in Hlen.
      set (en0 := env_of_answer ans).
      pose proof (answer_as_reading ans n Hlen H01) as Ha. fold en0 in Ha.
      assert (Hblack : forall v, v < n -> isb (getz ans v) = eb en0 v) by (intros; reflexivity).
      assert (Hs1 : connected g (pattern en0 acts)).
      { apply (connected_b_spec _ _ (grid_wf h w)).
        rewrite <- (connected_b_ext_below _ (fun v => isb (getz ans v)) _ (grid_wf h w)); [exact Hconn1|].
        intros v Hv. change (nv g) with n in Hv. rewrite yy_pattern_low by exact Hv. reflexivity. }
      assert (Hs2 : connected g (pattern en0 nacts)).
      { apply (connected_b_spec _ _ (grid_wf h w)).
        rewrite <- (connected_b_ext_below _ (fun v => negb (isb (getz ans v))) _ (grid_wf h w)); [exact Hconn2|].
        intros v Hv. change (nv g) with n in Hv. rewrite yy_npattern_low by exact Hv. reflexivity. }
      destruct (cert_complete g false (pattern en0 acts) (grid_wf h w) yy_nonempty Hs1) as [Hrk1 Hce1].
      destruct (cert_complete g false (pattern en0 nacts) (grid_wf h w) yy_nonempty Hs2) as [Hrk2 Hce2].
      set (en1 := yy_splice n n en0 (avc_rank g (pattern en0 acts)) (avc_root g (pattern en0 acts))).
      set (en2 := yy_splice (3 * n) n en1 (avc_rank g (pattern en0 nacts)) (avc_root g (pattern en0 nacts))).
      assert (Hlow : forall v, v < n -> eb en2 v = eb en0 v).
      { intros v Hv. unfold en2. rewrite yy_splice_eb_out by lia. unfold en1. rewrite yy_splice_eb_out by lia.
        reflexivity. }
      assert (Hsame : map (fun i => b2z (eb en2 i)) (seq 0 n) = ans).
      { rewrite <- Ha. apply map_ext_in. intros i Hi. apply in_seq in Hi. rewrite Hlow by lia. reflexivity. }
      exists en2. split; [|rewrite yy_reads; exact Hsame].
      apply yy_model. split; [|split; [|split; [|split]]].
      + intros j Hj. unfold en2. rewrite yy_splice_ei_out by lia. unfold en1. rewrite yy_splice_rank by exact Hj.
        apply Hrk1. exact Hj.
      + unfold yy_cert1. rewrite <- Hce1.
        apply cert_avc_ext_below; [apply grid_wf| | |]; change (nv g) with n; intros v Hv.
        * rewrite !yy_pattern_low by exact Hv. apply Hlow. exact Hv.
        * unfold en2. rewrite yy_splice_ei_out by lia. unfold en1. apply yy_splice_rank. exact Hv.
        * unfold en2. rewrite yy_splice_eb_out by lia. unfold en1. apply yy_splice_root. exact Hv.
      + intros j Hj. unfold en2. rewrite yy_splice_rank by exact Hj. apply Hrk2. exact Hj.
      + unfold yy_cert2. rewrite <- Hce2.
        apply cert_avc_ext_below; [apply grid_wf| | |]; change (nv g) with n; intros v Hv.
        * rewrite !yy_npattern_low by exact Hv. f_equal. apply Hlow. exact Hv.
        * unfold en2. apply yy_splice_rank. exact Hv.
        * unfold en2. apply yy_splice_root. exact Hv.
      + rewrite <- Hloc, Hsame. exact Hcl.
  Qed.
End Compose2.
