From Coq Require Import ZArith List Arith.
From Cspuz Require Import Lib.PyErr Core.Expr Core.Program Graph.GraphModel Graph.Cycle
  Graph.CycleMain Graph.LineGraph Graph.CyclePrim Graph.CycleFrame Graph.CycleSpec Graph.CycleExamples
  Graph.CycleList Graph.CycleListProofs Graph.CycleListIndex Graph.CycleListExact.

(* ---- non-primitive _active_edges_single_cycle (any multigraph, self-loops included) *)

Theorem cycle_total : forall st acts g,
  wf_graph g = true -> 1 <= nv g -> length (edges g) <= length acts ->
  (forall e, In e acts -> is_constraint_like e = true) ->
  exists st' passed, post_cycle st acts g false = Ok (st', passed) /\ length passed = nv g.
Proof. exact cycle_total. Qed.
Print Assumptions cycle_total.

Theorem cycle_exact : forall gsem st acts g en st' passed,
  wf_graph g = true -> 1 <= nv g -> length (edges g) <= length acts ->
  flags_ok gsem st en acts -> in_bounds en st = true ->
  post_cycle st acts g false = Ok (st', passed) ->
  ((exists en', extends_sat gsem st st' en en') <-> single_cycle g (pattern gsem en acts)).
Proof. exact cycle_exact. Qed.
Print Assumptions cycle_exact.

Theorem cycle_passed : forall gsem st acts g en st' passed en',
  wf_graph g = true -> 1 <= nv g -> length (edges g) <= length acts ->
  flags_ok gsem st en acts ->
  post_cycle st acts g false = Ok (st', passed) ->
  extends_sat gsem st st' en en' ->
  length passed = nv g /\
  forall i, i < nv g ->
    exists p, nth_error passed i = Some p /\ holds gsem en' p = visited g (pattern gsem en acts) i.
Proof. exact cycle_passed. Qed.
Print Assumptions cycle_passed.

(* ---- Graph.line_graph (as a set of pairs) *)

Theorem line_graph_connected : forall g A,
  wf_graph g = true -> (connected (line_graph g) A <-> edge_connected g A).
Proof. exact line_graph_connected. Qed.
Print Assumptions line_graph_connected.

(* ---- primitive forms; the native operator means gsem_c06 (connectivity of the decoded graph) *)

Theorem avc_operand_layout : forall en acts g A,
  wf_graph g = true -> length acts = nv g ->
  (forall k, k < length acts -> eval gsem_c06 en (nth k acts PyNone) = Some (VB (A k))) ->
  (forall k, length acts <= k -> A k = false) ->
  holds gsem_c06 en (avc_node acts g) = connected_b g A.
Proof. exact holds_avc. Qed.
Print Assumptions avc_operand_layout.

Theorem cycle_primitive_total : forall st acts g,
  wf_graph g = true -> length acts = length (edges g) ->
  (forall e, In e acts -> is_constraint_like e = true) ->
  exists st' passed, post_cycle st acts g true = Ok (st', passed) /\ length passed = nv g.
Proof. exact cycle_primitive_total. Qed.
Print Assumptions cycle_primitive_total.

Theorem cycle_primitive : forall st acts g en st' passed,
  wf_graph g = true -> length acts = length (edges g) ->
  flags_ok gsem_c06 st en acts -> in_bounds en st = true ->
  post_cycle st acts g true = Ok (st', passed) ->
  ((exists en', extends_sat gsem_c06 st st' en en') <-> single_cycle g (pattern gsem_c06 en acts)).
Proof. exact cycle_primitive. Qed.
Print Assumptions cycle_primitive.

Theorem cycle_primitive_passed : forall st acts g en st' passed,
  wf_graph g = true -> length acts = length (edges g) ->
  flags_ok gsem_c06 st en acts ->
  forall en', post_cycle st acts g true = Ok (st', passed) ->
  extends_sat gsem_c06 st st' en en' ->
  length passed = nv g /\
  forall i, i < nv g ->
    exists p, nth_error passed i = Some p /\
              holds gsem_c06 en' p = visited g (pattern gsem_c06 en acts) i.
Proof. exact cycle_primitive_passed. Qed.
Print Assumptions cycle_primitive_passed.

Theorem path_total : forall st acts g,
  wf_graph g = true -> length acts = length (edges g) ->
  (forall e, In e acts -> is_constraint_like e = true) ->
  exists st' passed, post_path st acts g true = Ok (st', passed) /\ length passed = nv g.
Proof. exact path_total. Qed.
Print Assumptions path_total.

Theorem path_primitive : forall st acts g en st' passed,
  wf_graph g = true -> length acts = length (edges g) ->
  flags_ok gsem_c06 st en acts -> in_bounds en st = true ->
  post_path st acts g true = Ok (st', passed) ->
  ((exists en', extends_sat gsem_c06 st st' en en') <-> single_path g (pattern gsem_c06 en acts)).
Proof. exact path_primitive. Qed.
Print Assumptions path_primitive.

Theorem path_primitive_passed : forall st acts g en st' passed,
  wf_graph g = true -> length acts = length (edges g) ->
  flags_ok gsem_c06 st en acts ->
  forall en', post_path st acts g true = Ok (st', passed) ->
  extends_sat gsem_c06 st st' en en' ->
  length passed = nv g /\
  forall i, i < nv g ->
    exists p, nth_error passed i = Some p /\
              holds gsem_c06 en' p = visited g (pattern gsem_c06 en acts) i.
Proof. exact path_primitive_passed. Qed.
Print Assumptions path_primitive_passed.

(* ---- BoolGridFrame forms *)

Theorem cycle_frame : forall h w hor ver,
  length hor = S h * w -> length ver = h * S w ->
  from_grid_frame h w hor ver = Ok (frame_edges h w hor ver, frame_graph h w hor ver) /\
  nv (frame_graph h w hor ver) = S h * S w /\
  wf_graph (frame_graph h w hor ver) = true /\
  length (frame_edges h w hor ver) = length (edges (frame_graph h w hor ver)) /\
  (forall e a b, In (e, (a, b)) (combine (frame_edges h w hor ver) (edges (frame_graph h w hor ver)))
                 <-> segment h w hor ver e a b) /\
  (forall st prim,
     active_edges_single_cycle st (AFrame h w hor ver) None prim =
     match post_cycle st (frame_edges h w hor ver) (frame_graph h w hor ver) prim with
     | Ok (st', p) => Ok (st', P2 (S h) (S w) p) | Err e => Err e end) /\
  (forall st prim,
     active_edges_single_path st (AFrame h w hor ver) None prim =
     match post_path st (frame_edges h w hor ver) (frame_graph h w hor ver) prim with
     | Ok (st', p) => Ok (st', P2 (S h) (S w) p) | Err e => Err e end).
Proof. exact cycle_frame. Qed.
Print Assumptions cycle_frame.

Theorem cycle_frame_exact : forall h w hor ver,
  length hor = S h * w -> length ver = h * S w ->
  forall gsem st en st' res,
  flags_ok gsem st en (hor ++ ver) -> in_bounds en st = true ->
  active_edges_single_cycle st (AFrame h w hor ver) None false = Ok (st', res) ->
  exists p, res = P2 (S h) (S w) p /\ length p = S h * S w /\
    ((exists en', extends_sat gsem st st' en en') <->
     single_cycle (frame_graph h w hor ver) (pattern gsem en (frame_edges h w hor ver))) /\
    (forall en', extends_sat gsem st st' en en' ->
       forall y x, y <= h -> x <= w ->
         exists q, nth_error p (y * S w + x) = Some q /\
                   holds gsem en' q =
                   visited (frame_graph h w hor ver) (pattern gsem en (frame_edges h w hor ver)) (y * S w + x)).
Proof. exact cycle_frame_exact. Qed.
Print Assumptions cycle_frame_exact.

(* ---- the executable specification run by the harness is the relational one *)

Theorem single_cycle_b_spec : forall g A,
  wf_graph g = true -> (single_cycle_b g A = true <-> single_cycle g A).
Proof. exact single_cycle_b_spec. Qed.
Print Assumptions single_cycle_b_spec.

Theorem single_path_b_spec : forall g A,
  wf_graph g = true -> (single_path_b g A = true <-> single_path g A).
Proof. exact single_path_b_spec. Qed.
Print Assumptions single_path_b_spec.

(* ---- the specification restated with explicit lists.
   joins g e a b : edge number e has the endpoints a and b (either orientation);
   covers g A es : the active edges of g are exactly the members of es *)

(* A non-empty: "every vertex has active degree 0 or 2, and the active edges are
   connected" holds exactly when there is a cyclic list v0,e0,v1,e1,...,v(k-1),e(k-1)
   (k >= 1) of pairwise distinct vertices and pairwise distinct edges, e_i joining
   v_i and v_((i+1) mod k), made of exactly the active edges (k = 1: a self-loop,
   k = 2: two parallel edges) *)
Theorem cycle_list_iff : forall g A,
  wf_graph g = true -> (exists k, k < length (edges g) /\ A k = true) ->
  (((forall v, v < nv g -> degree g A v = 0 \/ degree g A v = 2) /\ edge_connected g A)
   <->
   (exists vs es, length es = length vs /\ 1 <= length vs /\ NoDup vs /\ NoDup es /\
      (forall i, i < length vs ->
         joins g (nth i es 0) (nth i vs 0) (nth (S i mod length vs) vs 0)) /\
      (forall e, e < length (edges g) -> (A e = true <-> In e es)))).
Proof. exact cycle_seq_iff. Qed.
Print Assumptions cycle_list_iff.

(* "active degrees at most 2, connected, exactly two vertices of degree 1" holds
   exactly when there is an open list v0,e0,v1,...,e(k-1),vk (k >= 1) of pairwise
   distinct vertices and pairwise distinct edges, e_i joining v_i and v_(i+1),
   made of exactly the active edges *)
Theorem path_list_iff : forall g A,
  wf_graph g = true ->
  (((forall v, v < nv g -> degree g A v <= 2) /\ edge_connected g A /\ num_deg1 g A = 2)
   <->
   (exists vs es, length vs = S (length es) /\ 1 <= length es /\ NoDup vs /\ NoDup es /\
      (forall i, i < length es -> joins g (nth i es 0) (nth i vs 0) (nth (S i) vs 0)) /\
      (forall e, e < length (edges g) -> (A e = true <-> In e es)))).
Proof. exact path_seq_iff. Qed.
Print Assumptions path_list_iff.

(* the same with the lists given as steps (e_i, v_(i+1)) (CycleList.chain) *)
Theorem cycle_list_steps : forall g A,
  wf_graph g = true -> (exists k, k < length (edges g) /\ A k = true) ->
  (((forall v, v < nv g -> degree g A v = 0 \/ degree g A v = 2) /\ edge_connected g A)
   <-> cycle_list g A).
Proof. exact CycleListProofs.cycle_list_iff. Qed.
Print Assumptions cycle_list_steps.

Theorem path_list_steps : forall g A,
  wf_graph g = true -> (simple_path g A <-> path_list g A).
Proof. exact CycleListProofs.path_list_iff. Qed.
Print Assumptions path_list_steps.

(* the specifications used by the theorems above, in list form *)
Theorem single_cycle_seq : forall g A,
  wf_graph g = true -> (single_cycle g A <-> (no_active g A \/ cycle_seq g A)).
Proof. exact single_cycle_seq. Qed.
Print Assumptions single_cycle_seq.

Theorem single_path_seq : forall g A,
  wf_graph g = true -> (single_path g A <-> (no_active g A \/ path_seq g A)).
Proof. exact single_path_seq. Qed.
Print Assumptions single_path_seq.

(* cycle_exact / cycle_primitive / path_primitive with the list formulation *)
Theorem cycle_exact_list : forall gsem st acts g en st' passed,
  wf_graph g = true -> 1 <= nv g -> length (edges g) <= length acts ->
  flags_ok gsem st en acts -> in_bounds en st = true ->
  post_cycle st acts g false = Ok (st', passed) ->
  ((exists en', extends_sat gsem st st' en en') <->
   (no_active g (pattern gsem en acts) \/ cycle_seq g (pattern gsem en acts))).
Proof. exact cycle_exact_list. Qed.
Print Assumptions cycle_exact_list.

Theorem cycle_primitive_list : forall st acts g en st' passed,
  wf_graph g = true -> length acts = length (edges g) ->
  flags_ok gsem_c06 st en acts -> in_bounds en st = true ->
  post_cycle st acts g true = Ok (st', passed) ->
  ((exists en', extends_sat gsem_c06 st st' en en') <->
   (no_active g (pattern gsem_c06 en acts) \/ cycle_seq g (pattern gsem_c06 en acts))).
Proof. exact cycle_primitive_list. Qed.
Print Assumptions cycle_primitive_list.

Theorem path_primitive_list : forall st acts g en st' passed,
  wf_graph g = true -> length acts = length (edges g) ->
  flags_ok gsem_c06 st en acts -> in_bounds en st = true ->
  post_path st acts g true = Ok (st', passed) ->
  ((exists en', extends_sat gsem_c06 st st' en en') <->
   (no_active g (pattern gsem_c06 en acts) \/ path_seq g (pattern gsem_c06 en acts))).
Proof. exact path_primitive_list. Qed.
Print Assumptions path_primitive_list.
