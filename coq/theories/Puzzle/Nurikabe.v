(* C11 Tier 1 - model of cspuz/puzzle/nurikabe.py::solve_nurikabe(height, width, problem) with
   unknown_low=None (after fix 51000d9: allow_empty_group=True), all board shapes:
       clues = [(y, x, problem[y][x]) for y, x in row-major order if problem[y][x] >= 1 or problem[y][x] == -1]
       division = solver.int_array((height, width), 0, len(clues))
       roots = [None] + [(y, x) for (y, x, _) in clues]
       graph.division_connected(solver, division, len(clues) + 1, roots=roots, allow_empty_group=True)
       is_white = solver.bool_array((height, width))
       solver.ensure(is_white == (division != 0)); solver.add_answer_key(is_white)
       solver.ensure(is_white.conv2d(2, 1, "and").then(division[:-1, :] == division[1:, :]))
       solver.ensure(is_white.conv2d(1, 2, "and").then(division[:, :-1] == division[:, 1:]))
       solver.ensure(is_white.conv2d(2, 2, "or"))
       for i, (y, x, n) in enumerate(clues):
           if n > 0: solver.ensure(count_true(division == (i + 1)) == n)
   The call into cspuz.graph is the model of property C05 (Graph/Division.v::division_connected, grid form,
   auxiliary-variable encoding: config.use_graph_primitive is False for the z3 backend the capture harness
   runs with); on a board without cells it raises ValueError (rank = int_array(0, 0, -1)).
   The answer keys are the is_white variables, declared after the division grid and the variables of the
   connectivity encoding (rank, is_root, spanning_forest): ids 3*h*w + #edges .. 4*h*w + #edges - 1.
   The problem uses the encoding of Rules_nurikabe.v ([[h; w]; clues row-major]); every integer is a legal
   cell value (n >= 1 number, -1 '?', anything else empty).  A clue list with fewer than h*w entries stands
   for a nested list with a missing / short row: the Python raises IndexError in the first loop.
   No proofs here. *)
From Coq Require Import ZArith List Bool Arith.
From Cspuz Require Import Lib.PyErr Core.Expr Core.Program Graph.GraphModel Graph.Division
     Puzzle.PuzzleBase Puzzle.ModelBase.
Import ListNotations.
Local Open Scope nat_scope.

Definition nk_is_clue (c : Z) : bool := ((1 <=? c) || (c =? -1))%Z.

(* the cells holding a number or '?', in the order of the double loop *)
Definition nk_clue_cells (h w : nat) (grid : list Z) : list (nat * nat) :=
  filter (fun '(y, x) => nk_is_clue (at2 grid w y x)) (cells h w).

(* division[y, x] / is_white[y, x] *)
Definition nk_div (K w : nat) (c : nat * nat) : expr := IVar (cidx w c) 0 (Z.of_nat K).
Definition nk_white (base w : nat) (c : nat * nat) : expr := BVar (base + cidx w c).

Definition nk_root (c : nat * nat) : root_arg := RTup [Z.of_nat (fst c); Z.of_nat (snd c)].

(* count_true(division == k) *)
Definition nk_class_size (K n : nat) (k : nat) : expr :=
  INode ADD (map (fun v => INode IF [BNode EQ [IVar v 0 (Z.of_nat K); PyInt (Z.of_nat k)]; PyInt 1; PyInt 0]) (seq 0 n)).

Definition nk_constraints (h w : nat) (grid : list Z) (cl : list (nat * nat)) (base : nat) : list expr :=
  let K := length cl in
  let d := nk_div K w in
  let b := nk_white base w in
  map (fun c => BNode IFF [b c; BNode NE [d c; PyInt 0]]) (cells h w) ++
  map (fun '(y, x) => BNode IMP [BNode AND [b (y, x); b (S y, x)]; BNode EQ [d (y, x); d (S y, x)]]) (cells (h - 1) w) ++
  map (fun '(y, x) => BNode IMP [BNode AND [b (y, x); b (y, S x)]; BNode EQ [d (y, x); d (y, S x)]]) (cells h (w - 1)) ++
  map (fun '(y, x) => BNode OR [b (y, x); b (y, S x); b (S y, x); b (S y, S x)]) (cells (h - 1) (w - 1)) ++
  flat_map (fun '(i, (y, x)) =>
              let c := at2 grid w y x in
              if (0 <? c)%Z then [BNode EQ [nk_class_size K (h * w) (S i); PyInt c]] else [])
           (combine (seq 0 K) cl).

Definition solve_nurikabe_model (pb : problem) : res state :=
  let h := dim pb 0 in let w := dim pb 1 in let grid := sec pb 1 in
  if Nat.ltb (length grid) (h * w) then Err IndexError
  else
    let cl := nk_clue_cells h w grid in
    let K := length cl in
    match int_array empty_state (h * w) 0 (Z.of_nat K) with
    | Err e => Err e
    | Ok (st0, division) =>
        match division_connected st0 (D2 h w division) (S K) None (Some (RNone :: map nk_root cl)) true false with
        | Err e => Err e
        | Ok st1 =>
            Ok {| vars := vars st1 ++ repeat DBool (h * w);
                  keys := keys st1 ++ repeat true (h * w);
                  cons := cons st1 ++ nk_constraints h w grid cl (next_id st1) |}
        end
    end.
