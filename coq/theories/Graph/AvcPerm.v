(* C04: the exactness theorem of active_vertices_connected holds for every
   program that has the model's declarations and answer keys and the model's
   added constraints in any order (the program-capture tie compares the added
   constraints as a multiset). *)
From Coq Require Import ZArith List Bool Arith Permutation.
From Cspuz Require Import Lib.PyErr Core.Expr Core.Program Core.ProgramFacts Core.Build
  Graph.GraphModel Graph.Avc Graph.AvcProofs.
Import ListNotations.
Local Open Scope nat_scope.

Theorem avc_exact_modulo_order acyclic st acts g st' st2 en :
  wf_graph g = true -> fresh_below (next_id st) acts -> acts_defined en acts ->
  post_avc st acts g acyclic false = Ok st' ->
  reordered_extension st st' st2 ->
  ((exists en', agree_below (next_id st) en en' /\
                in_bounds_from en' (next_id st) (new_vars st st2) = true /\
                forallb (holds gsem_avc en') (new_cons st st2) = true)
   <-> spec_avc acyclic g (pattern en acts)).
Proof.
  intros Hwf Hfr Hdef Hpost Hre.
  rewrite <- (avc_exact acyclic st acts g st' en Hwf Hfr Hdef Hpost).
  exact (completable_perm gsem_avc st st' st2 en Hre).
Qed.
