(* C07: counting in a rooted forest given by parent pointers along graph edges.
   cnt i = number of vertices whose chain of parents passes through i (the size
   of the subtree of i) satisfies the recurrence the encoding posts for
   downstream_size:  cnt i = 1 + sum over the active edges to higher-ranked
   neighbours j of cnt j. *)
From Coq Require Import ZArith List Bool Arith Lia.
From Cspuz Require Import Core.Expr Graph.GraphModel Graph.ReachProofs Graph.VarGroups
  Graph.VarGroupsSound Graph.VarGroupsComplete.
Import ListNotations.
Open Scope nat_scope.

(* ------------------------------------------------------------------------ *)
(* finite sums                                                               *)

Definition ind (b : bool) : Z := if b then 1%Z else 0%Z.

Lemma zsum_app l1 l2 : zsum (l1 ++ l2) = (zsum l1 + zsum l2)%Z.
Proof. unfold zsum. induction l1 as [|a l IH]; simpl; [reflexivity|]. rewrite IH. lia. Qed.

Lemma zsum_map_ext_in {A} (f h : A -> Z) l :
  (forall x, In x l -> f x = h x) -> zsum (map f l) = zsum (map h l).
Proof. intros H. f_equal. apply map_ext_in. exact H. Qed.

Lemma zsum_map_plus {A} (f h : A -> Z) l :
  zsum (map (fun x => (f x + h x)%Z) l) = (zsum (map f l) + zsum (map h l))%Z.
Proof. unfold zsum. induction l as [|a l IH]; simpl; [reflexivity|]. rewrite IH. lia. Qed.

Lemma zsum_map_zero {A} (l : list A) : zsum (map (fun _ => 0%Z) l) = 0%Z.
Proof. unfold zsum. induction l as [|a l IH]; simpl; [reflexivity|]. rewrite IH. reflexivity. Qed.

Lemma zsum_swap {A B} (f : A -> B -> Z) (l1 : list A) (l2 : list B) :
  zsum (map (fun x => zsum (map (fun y => f x y) l2)) l1) =
  zsum (map (fun y => zsum (map (fun x => f x y) l1)) l2).
Proof.
  induction l1 as [|a l1 IH]; simpl.
  - rewrite zsum_map_zero. reflexivity.
  - unfold zsum at 1. simpl. fold (zsum (map (fun x => zsum (map (fun y => f x y) l2)) l1)).
    rewrite IH. rewrite <- zsum_map_plus. apply zsum_map_ext_in. intros y _.
    unfold zsum. simpl. reflexivity.
Qed.

Lemma bcount_zsum {A} (p : A -> bool) (l : list A) : bcount p l = zsum (map (fun x => ind (p x)) l).
Proof.
  unfold bcount, zn, zsum, ind. induction l as [|a l IH]; simpl; [reflexivity|].
  rewrite <- IH. destruct (p a); simpl length; lia.
Qed.

Lemma filter_false {A} (l : list A) : filter (fun _ : A => false) l = [].
Proof. induction l; simpl; auto. Qed.

Lemma bcount_false {A} (p : A -> bool) (l : list A) :
  (forall x, In x l -> p x = false) -> bcount p l = 0%Z.
Proof.
  intros H. unfold bcount. rewrite (filter_ext_in' p (fun _ => false) l H).
  rewrite filter_false. reflexivity.
Qed.

Lemma bcount_ext_in {A} (p q : A -> bool) (l : list A) :
  (forall x, In x l -> p x = q x) -> bcount p l = bcount q l.
Proof. intros H. unfold bcount. rewrite (filter_ext_in' p q l H). reflexivity. Qed.

Lemma bcount_nonneg {A} (p : A -> bool) (l : list A) : (0 <= bcount p l)%Z.
Proof. unfold bcount, zn. lia. Qed.

Lemma bcount_or_disjoint {A} (p q : A -> bool) (l : list A) :
  (forall x, In x l -> p x = true -> q x = true -> False) ->
  bcount (fun x => p x || q x) l = (bcount p l + bcount q l)%Z.
Proof.
  intros H. rewrite !bcount_zsum, <- zsum_map_plus. apply zsum_map_ext_in. intros x Hx.
  specialize (H x Hx). destruct (p x), (q x); simpl; try reflexivity. exfalso; auto.
Qed.

Lemma bcount_le {A} (p q : A -> bool) (l : list A) :
  (forall x, In x l -> p x = true -> q x = true) -> (bcount p l <= bcount q l)%Z.
Proof.
  intros H. unfold bcount, zn. apply inj_le.
  induction l as [|a l IH]; simpl; [lia|].
  assert (IH' : length (filter p l) <= length (filter q l)) by (apply IH; intros x Hx; apply H; right; exact Hx).
  destruct (p a) eqn:Hp.
  - rewrite (H a (or_introl eq_refl) Hp). simpl. lia.
  - destruct (q a); simpl; lia.
Qed.

Lemma zsum_single n i : i < n -> zsum (map (fun v => ind (Nat.eqb i v)) (seq 0 n)) = 1%Z.
Proof.
  assert (H : forall m, zsum (map (fun v => ind (Nat.eqb i v)) (seq 0 m)) = if i <? m then 1%Z else 0%Z).
  { induction m as [|m IH]; [reflexivity|].
    rewrite seq_S, map_app, zsum_app, IH. simpl. unfold zsum. simpl.
    destruct (Nat.eqb_spec i m) as [->|Hne].
    - destruct (Nat.ltb_spec m m); [lia|]. destruct (Nat.ltb_spec m (S m)); [reflexivity|lia].
    - destruct (Nat.ltb_spec i m), (Nat.ltb_spec i (S m)); simpl; try reflexivity; lia. }
  intros Hi. rewrite H. destruct (Nat.ltb_spec i n); [reflexivity|lia].
Qed.

(* ------------------------------------------------------------------------ *)

Section Forest.
  Variable g : graph.
  Hypothesis Hwf : wf_graph g = true.
  Variable rank : nat -> Z.
  Variable act : nat -> bool.
  Variable par : nat -> option (nat * nat).

  Hypothesis Hpar : forall v p e, par v = Some (p, e) ->
    In (p, e) (incident g v) /\ (0 <= rank p < rank v)%Z.
  Hypothesis Hact : forall i j e, In (j, e) (incident g i) -> act e = true ->
    par i = Some (j, e) \/ par j = Some (i, e).
  Hypothesis Hpact : forall v p e, par v = Some (p, e) -> act e = true.

  Let n := nv g.

  Definition rkn (v : nat) : nat := Z.to_nat (rank v).

  Fixpoint chain (f : nat) (v : nat) : list nat :=
    match f with
    | 0 => [v]
    | S f' => match par v with Some (p, _) => v :: chain f' p | None => [v] end
    end.

  Definition anc (i v : nat) : bool := mem i (chain (rkn v) v).
  Definition child (i : nat) (x : nat * nat) : bool := act (snd x) && (rank i <? rank (fst x))%Z.
  Definition cnt (i : nat) : Z := bcount (anc i) (seq 0 (nv g)).

  Lemma chain_fuel f : forall v, rkn v <= f -> chain f v = chain (S f) v.
  Proof.
    induction f as [|f IH]; intros v Hv.
    - simpl. destruct (par v) as [[p e]|] eqn:Hp; [|reflexivity].
      destruct (Hpar v p e Hp) as [_ H]. unfold rkn in Hv. lia.
    - change (chain (S f) v) with (match par v with Some (p, _) => v :: chain f p | None => [v] end).
      change (chain (S (S f)) v) with (match par v with Some (p, _) => v :: chain (S f) p | None => [v] end).
      destruct (par v) as [[p e]|] eqn:Hp; [|reflexivity].
      destruct (Hpar v p e Hp) as [_ H]. rewrite IH; [reflexivity|]. unfold rkn in *. lia.
  Qed.

  Lemma chain_fuel_plus v d : chain (rkn v + d) v = chain (rkn v) v.
  Proof.
    induction d as [|d IH]; [rewrite Nat.add_0_r; reflexivity|].
    rewrite Nat.add_succ_r, <- chain_fuel by lia. exact IH.
  Qed.

  Lemma chain_fuel_ge f v : rkn v <= f -> chain f v = chain (rkn v) v.
  Proof. intros H. replace f with (rkn v + (f - rkn v)) by lia. apply chain_fuel_plus. Qed.

  Lemma anc_none i v : par v = None -> anc i v = Nat.eqb i v.
  Proof.
    intros Hp. unfold anc. destruct (rkn v); simpl; rewrite ?Hp; simpl; rewrite orb_false_r; reflexivity.
  Qed.

  Lemma anc_some i v p e : par v = Some (p, e) -> anc i v = Nat.eqb i v || anc i p.
  Proof.
    intros Hp. destruct (Hpar v p e Hp) as [_ H]. unfold anc.
    destruct (rkn v) as [|f] eqn:Hr; [unfold rkn in Hr; lia|].
    simpl. rewrite Hp. simpl. f_equal. rewrite chain_fuel_ge; [reflexivity|]. unfold rkn in *. lia.
  Qed.

  Lemma anc_refl v : anc v v = true.
  Proof.
    destruct (par v) as [[p e]|] eqn:Hp.
    - rewrite (anc_some v v p e Hp), Nat.eqb_refl. reflexivity.
    - rewrite (anc_none v v Hp). apply Nat.eqb_refl.
  Qed.

  Lemma anc_rank i : forall f v, rkn v <= f -> anc i v = true -> i = v \/ (rank i < rank v)%Z.
  Proof.
    induction f as [|f IH]; intros v Hv Ha.
    - destruct (par v) as [[p e]|] eqn:Hp.
      + destruct (Hpar v p e Hp) as [_ H]. unfold rkn in Hv. lia.
      + rewrite (anc_none i v Hp) in Ha. apply Nat.eqb_eq in Ha. left; exact Ha.
    - destruct (par v) as [[p e]|] eqn:Hp.
      + destruct (Hpar v p e Hp) as [_ H]. rewrite (anc_some i v p e Hp) in Ha.
        apply orb_true_iff in Ha. destruct Ha as [Ha|Ha]; [apply Nat.eqb_eq in Ha; left; exact Ha|].
        right. destruct (IH p) as [->|Hlt]; [unfold rkn in *; lia|exact Ha|lia|lia].
      + rewrite (anc_none i v Hp) in Ha. apply Nat.eqb_eq in Ha. left; exact Ha.
  Qed.

  Lemma anc_rank' i v : anc i v = true -> i = v \/ (rank i < rank v)%Z.
  Proof. apply (anc_rank i (rkn v) v). lia. Qed.

  (* the chain of a vertex stays in whatever class the parent pointers preserve *)
  Lemma anc_preserved (P : nat -> nat -> Prop) :
    (forall v, P v v) -> (forall v p e w, par v = Some (p, e) -> P w p -> P w v) ->
    forall f i v, rkn v <= f -> anc i v = true -> P i v.
  Proof.
    intros Hrefl Hstep. induction f as [|f IH]; intros i v Hv Ha.
    - destruct (par v) as [[p e]|] eqn:Hp.
      + destruct (Hpar v p e Hp) as [_ H]. unfold rkn in Hv. lia.
      + rewrite (anc_none i v Hp) in Ha. apply Nat.eqb_eq in Ha. subst. apply Hrefl.
    - destruct (par v) as [[p e]|] eqn:Hp.
      + destruct (Hpar v p e Hp) as [_ H]. rewrite (anc_some i v p e Hp) in Ha.
        apply orb_true_iff in Ha. destruct Ha as [Ha|Ha]; [apply Nat.eqb_eq in Ha; subst; apply Hrefl|].
        apply (Hstep v p e i Hp). apply IH; [unfold rkn in *; lia|exact Ha].
      + rewrite (anc_none i v Hp) in Ha. apply Nat.eqb_eq in Ha. subst. apply Hrefl.
  Qed.

  (* a qualifying entry of incident g i is the parent edge of its other endpoint *)
  Lemma child_par i j e : In (j, e) (incident g i) -> child i (j, e) = true -> par j = Some (i, e).
  Proof.
    intros Hin Hc. unfold child in Hc. simpl in Hc. apply andb_true_iff in Hc. destruct Hc as [Ha Hr].
    apply Z.ltb_lt in Hr. destruct (Hact i j e Hin Ha) as [Hp|Hp]; [|exact Hp].
    destruct (Hpar i j e Hp) as [_ H]. lia.
  Qed.

  (* the pointwise identity behind the recurrence *)
  Lemma anc_unfold_top i : forall f v, rkn v <= f ->
    ind (anc i v) = (ind (Nat.eqb i v) + bcount (fun x => child i x && anc (fst x) v) (incident g i))%Z.
  Proof.
    induction f as [|f IH]; intros v Hv.
    - destruct (par v) as [[p e]|] eqn:Hp; [destruct (Hpar v p e Hp) as [_ H]; unfold rkn in Hv; lia|].
      rewrite (anc_none i v Hp). rewrite bcount_false; [lia|].
      intros [j e] Hin. destruct (child i (j, e)) eqn:Hc; [|reflexivity]. simpl.
      rewrite (anc_none j v Hp). apply Nat.eqb_neq. intros ->.
      rewrite (child_par i v e Hin Hc) in Hp. discriminate.
    - destruct (par v) as [[p e0]|] eqn:Hp.
      2:{ rewrite (anc_none i v Hp). rewrite bcount_false; [lia|].
          intros [j e] Hin. destruct (child i (j, e)) eqn:Hc; [|reflexivity]. simpl.
          rewrite (anc_none j v Hp). apply Nat.eqb_neq. intros ->.
          rewrite (child_par i v e Hin Hc) in Hp. discriminate. }
      destruct (Hpar v p e0 Hp) as [Hin0 Hr0].
      assert (Hpf : rkn p <= f) by (unfold rkn in *; lia).
      specialize (IH p Hpf).
      rewrite (anc_some i v p e0 Hp).
      destruct (Nat.eqb_spec i v) as [->|Hiv].
      + (* i = v *)
        simpl orb. rewrite bcount_false; [reflexivity|].
        intros [j e] Hin. destruct (child v (j, e)) eqn:Hc; [|reflexivity]. simpl.
        destruct (anc j v) eqn:Ha; [|reflexivity]. exfalso.
        unfold child in Hc. simpl in Hc. apply andb_true_iff in Hc. destruct Hc as [_ Hc]. apply Z.ltb_lt in Hc.
        destruct (anc_rank' j v Ha) as [->|H]; lia.
      + simpl orb. rewrite Z.add_0_l.
        rewrite (bcount_ext_in _ (fun x => (child i x && Nat.eqb (fst x) v) || (child i x && anc (fst x) p))).
        2:{ intros [j e] _. simpl. rewrite (anc_some j v p e0 Hp). destruct (child i (j, e)); reflexivity. }
        rewrite bcount_or_disjoint.
        2:{ intros [j e] _ H1 H2. simpl in *. apply andb_true_iff in H1. destruct H1 as [_ H1].
            apply Nat.eqb_eq in H1. subst j. apply andb_true_iff in H2. destruct H2 as [_ H2].
            destruct (anc_rank' v p H2) as [->|H]; lia. }
        rewrite IH.
        assert (Hfirst : bcount (fun x => child i x && Nat.eqb (fst x) v) (incident g i) = ind (Nat.eqb i p)).
        { destruct (Nat.eqb_spec i p) as [->|Hip].
          - (* the entries of incident g p that carry the parent edge of v *)
            rewrite (bcount_ext_in _ (fun x => Nat.eqb (snd x) e0)).
            + unfold bcount. rewrite incident_filter_id.
              apply incident_spec in Hin0. destruct Hin0 as [He|He]; rewrite He.
              * rewrite Nat.eqb_refl. destruct (Nat.eqb_spec v p) as [->|_]; [lia|]. reflexivity.
              * rewrite Nat.eqb_refl. destruct (Nat.eqb_spec v p) as [->|_]; [lia|]. reflexivity.
            + intros [j e] Hin. simpl. destruct (Nat.eqb_spec e e0) as [->|Hne].
              * destruct (incident_same_edge g p j v p e0 Hin Hin0) as [[-> _]|[_ ->]]; [lia|].
                unfold child. simpl. rewrite (Hpact v p e0 Hp), Nat.eqb_refl. simpl.
                rewrite andb_true_r. apply Z.ltb_lt. lia.
              * destruct (child p (j, e)) eqn:Hc; [|reflexivity]. simpl.
                apply Nat.eqb_neq. intros ->. rewrite (child_par p v e Hin Hc) in Hp. congruence.
          - apply bcount_false. intros [j e] Hin. destruct (child i (j, e)) eqn:Hc; [|reflexivity]. simpl.
            apply Nat.eqb_neq. intros ->. rewrite (child_par i v e Hin Hc) in Hp. congruence. }
        rewrite Hfirst. lia.
  Qed.

  (* the recurrence posted for downstream_size, satisfied by the subtree sizes *)
  Theorem cnt_recurrence i : i < nv g ->
    cnt i = (zsum (map (fun x => if child i x then cnt (fst x) else 0%Z) (incident g i)) + 1)%Z.
  Proof.
    intros Hi. unfold cnt at 1. rewrite bcount_zsum.
    rewrite (zsum_map_ext_in _ (fun v => (ind (Nat.eqb i v)
               + zsum (map (fun x => ind (child i x && anc (fst x) v)) (incident g i)))%Z)).
    2:{ intros v _. rewrite (anc_unfold_top i (rkn v) v (Nat.le_refl _)), bcount_zsum. reflexivity. }
    rewrite zsum_map_plus, zsum_single by exact Hi.
    rewrite (zsum_swap (fun v x => ind (child i x && anc (fst x) v))).
    rewrite Z.add_comm. f_equal. apply zsum_map_ext_in. intros x _.
    destruct (child i x); simpl andb.
    - unfold cnt. rewrite bcount_zsum. reflexivity.
    - apply zsum_map_zero.
  Qed.

  Lemma cnt_pos i : i < nv g -> (1 <= cnt i)%Z.
  Proof.
    intros Hi. unfold cnt, bcount, zn.
    assert (Hin : In i (filter (anc i) (seq 0 (nv g)))).
    { apply filter_In. split; [apply in_seq; lia|apply anc_refl]. }
    destruct (filter (anc i) (seq 0 (nv g))); [destruct Hin|simpl length; lia].
  Qed.
End Forest.
