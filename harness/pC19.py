"""C19 — problem generation is sound and reproducible under the deterministic PRNG.

Model: coq/theories/Generator/{XorShift,Builder,Anneal}.v, theorems Props/C19.v,
runner coq/extract/C19.  This file: correspondence (PRNG call sequences, builder
candidates, neighbour lists, whole generate_problem runs incl. a second run in a
subprocess under another PYTHONHASHSEED / random.seed) and the property-level
search (independent Python oracles on real runs).

Run as a script (`python pC19.py --subrun`) it is the subprocess side of the
whole-run reproducibility check: JSON run configurations on stdin, JSON results
on stdout.
"""
import copy
import json
import os
import subprocess
import sys
from fractions import Fraction

if __name__ != "__main__":
    import vlib

PROPS = "Props/C19.v"
RULE = ("correspondence: (prng) seeds x sequences of next/randint/choice/shuffle/random through cspuz.generator.srandom "
        "with the deterministic PRNG enabled vs the extracted XorShift model, result by result plus the final 4-word state; "
        "(cand) Builder.candidates + copy_with_update of Choice/ArrayBuilder2D (all symmetry x disallow_adjacent x use_move "
        "combinations, valid and malformed initial grids) vs the model, in order, plus PRNG state; (nb) "
        "build_neighbor_generator over nested list/tuple patterns vs the model's neighbour list; (run) whole "
        "generate_problem runs with synthetic table-driven solver/uniqueness/score/pretest/clue_penalty callbacks that exist "
        "in Python and in the OCaml driver: the sequence of problems handed to the solver, the result, the callback call "
        "count and the final PRNG state vs the model's run; every srandom draw of those runs is replayed on the model from "
        "the recorded state; each run is repeated in a subprocess under a different PYTHONHASHSEED and random.seed. "
        "search: independent Python oracles on the real code: randint/choice/shuffle/random ranges and coverage, neighbour "
        "locality / symmetry / adjacency, soundness of the returned problem, earlier problems unmutated (deep copies), "
        "same-seed reproducibility incl. SegmentationBuilder2D patterns.  A case is non-trivial when it is a distinct "
        "(kind, input) pair.")
TRUSTED = [
    "IEEE-754: an integer < 2^53 divided by 2^32 is exact in binary64, so srandom.random() == numerator / 2^32 exactly (checked with fractions.Fraction on every draw)",
    "the acceptance test random() < exp((next - current) / temperature) is a Section variable of the model; the OCaml driver instantiates it with the same binary64 operations and the same libm exp as CPython",
    "synthetic callbacks (hash of the printed problem) are written twice: harness/pC19.py::Callbacks and coq/extract/C19/driver.ml",
]
ASSUMPTIONS = [
    "callbacks do not raise, do not draw from srandom and do not modify the problem they are given (they may be stateful: the model threads an abstract world state)",
    "Choice values and grid cells are integers; patterns are Builders, ints, lists and tuples",
    "randint's rejection loop is given fuel 256 in the model (each draw is accepted with probability > 1/2)",
    "SegmentationBuilder2D is not part of the Coq model (C18 models it): reproducibility of runs over such patterns is observed by the search, not proved",
    "'regardless of the backend': the backend only enters through the solver callback; the runs use synthetic callbacks, backend independence of real solvers is C02's subject",
    "bench/generator.py needs the cspuz_core backend (a z3 run of its first sudoku did not finish in 10 min) and is not executed; it only calls randint with a = 0, where the fixed randint is unchanged",
    "CPython set iteration order and object aliasing are outside the model; 'earlier problems are never mutated' is tested with deep copies",
    "temperature stays a positive finite float (a temperature that underflows to 0.0 raises ZeroDivisionError in Python; not modelled)",
]

ERRC = {"IndexError": 1, "KeyError": 2, "AssertionError": 3, "TypeError": 4, "ValueError": 5,
        "RecursionError": 6, "NotImplementedError": 7}
ERRN = {v: k for k, v in ERRC.items()}
M32 = 1 << 32
HMOD = 2147483647
FOUR = [(-1, 0), (1, 0), (0, -1), (0, 1)]


# ------------------------------------------------------------------ watchdog

class Hang(Exception):
    pass


class time_limit:
    """raise Hang inside the block after `seconds` (a mutated rejection / retry loop in the
    implementation must not make the check itself hang)."""

    def __init__(self, seconds):
        self.seconds = seconds

    def _fire(self, *a):
        raise Hang("no result after %ss" % self.seconds)

    def __enter__(self):
        import signal
        self.old = signal.signal(signal.SIGALRM, self._fire)
        signal.setitimer(signal.ITIMER_REAL, self.seconds)

    def __exit__(self, *a):
        import signal
        signal.setitimer(signal.ITIMER_REAL, 0)
        signal.signal(signal.SIGALRM, self.old)
        return False


# ------------------------------------------------------------------ printing

def show_prob(p):
    if isinstance(p, list):
        return "[ " + "".join(show_prob(x) + " " for x in p) + "]"
    if isinstance(p, tuple):
        return "( " + "".join(show_prob(x) + " " for x in p) + ")"
    if isinstance(p, bool) or not isinstance(p, int):
        return "?" + type(p).__name__            # not a value of the modelled domain: shows up as a mismatch
    return str(p)


def dis_list(d):
    if d is True:
        return list(FOUR)
    if d is False:
        return []
    return [tuple(x) for x in d]


def pat_tokens(spec):
    k = spec[0]
    if k == "C":
        return "C %d %s %d" % (len(spec[1]), " ".join(map(str, spec[1])), spec[2])
    if k == "A":
        _, h, w, ch, d, dis, sym, mv, init = spec
        ds = dis_list(dis)
        s = "A %d %d %d %s %d %d %d %d %s" % (h, w, len(ch), " ".join(map(str, ch)), d, int(sym), int(mv), len(ds),
                                           " ".join("%d %d" % t for t in ds))
        if init is None:
            return s + " -"
        return s + " I %d %s" % (len(init), " ".join("%d %s" % (len(r), " ".join(map(str, r))) for r in init))
    if k == "K":
        return "K %d" % spec[1]
    if k in ("L", "T"):
        return "%s %d %s" % (k, len(spec[1]), " ".join(pat_tokens(s) for s in spec[1]))
    raise ValueError(k)


def build_pattern(spec):
    from cspuz.generator import ArrayBuilder2D, Choice, SegmentationBuilder2D
    k = spec[0]
    if k == "C":
        return Choice(list(spec[1]), spec[2])
    if k == "A":
        _, h, w, ch, d, dis, sym, mv, init = spec
        dd = dis if isinstance(dis, bool) else [tuple(x) for x in dis]
        return ArrayBuilder2D(h, w, list(ch), d, disallow_adjacent=dd, symmetry=sym,
                              initial=copy.deepcopy(init), use_move=mv)
    if k == "K":
        return spec[1]
    if k == "L":
        return [build_pattern(s) for s in spec[1]]
    if k == "T":
        return tuple(build_pattern(s) for s in spec[1])
    if k == "S":
        return SegmentationBuilder2D(spec[1], spec[2], **spec[3])
    raise ValueError(k)


def has_model(spec):
    if spec[0] == "S":
        return False
    if spec[0] in ("L", "T"):
        return all(has_model(s) for s in spec[1])
    return True


# ------------------------------------------------------------------ PRNG access

def prng_state():
    import cspuz.generator.deterministic_random as dr
    r = dr._rng
    return (r._x, r._y, r._z, r._w)


def seed_prng(seed):
    import cspuz.generator.srandom as sr
    sr.use_deterministic_prng(True, seed)


def err_tok(name):
    return "E%d" % ERRC.get(name, 8)


# ------------------------------------------------------------------ synthetic callbacks (twin of driver.ml)

def phash(salt, p):
    h = salt % HMOD
    for ch in show_prob(p):
        h = (h * 1000003 + ord(ch) + 12345) % HMOD
    return h


class Callbacks:
    """pure functions of the printed problem (and, when stateful, of the number of
    solver calls so far); the same arithmetic is in coq/extract/C19/driver.ml."""

    def __init__(self, cfg, watch=True):
        self.cfg = cfg
        self.calls = 0
        self.trace = []          # (sat, printed problem)
        self.kept = []           # (object, deep copy at the time of the call)
        self.last = None         # (problem object, sat, uniqueness verdict or None)
        self.watch = watch
        self.events = []         # ("solve", snapshot) / ("update",): order of solver calls and accepted moves

    # file-like: generate_problem(verbose=True) prints "score: a -> b ..." to sys.stderr exactly when it
    # replaces the current problem by the neighbour it just evaluated
    def write(self, text):
        if text.startswith("score:"):
            self.events.append(("update",))

    def flush(self):
        pass

    def solver(self, problem):
        c = self.cfg
        self.calls += 1
        h = phash(c["salt"] + (self.calls if c["stateful"] else 0), problem)
        sat = c["ksat"] == 0 or h % c["ksat"] != 0
        self.trace.append((1 if sat else 0, show_prob(problem)))
        if self.watch:
            snap = copy.deepcopy(problem)
            self.kept.append((problem, snap))
            self.events.append(("solve", snap))
        self.last = [problem, sat, None]
        return (True, h) if sat else (False, None)

    def uniqueness(self, ans):
        r = (ans // 7) % self.cfg["kuniq"] == 0
        self.last[2] = r
        return r

    def score(self, ans):
        return (ans // 13) % 23

    def pretest(self, problem):
        return phash(self.cfg["salt"] + 1, problem) % self.cfg["kpre"] != 0

    def clue_penalty(self, problem):
        from cspuz.generator import count_non_default_values
        return count_non_default_values(problem, 0, 2)


def run_tokens(cfg):
    return "RUN %d %s %d %d %d %d %d %d %d %s %s | %s" % (
        cfg["seed"], "-" if cfg["max_steps"] is None else cfg["max_steps"], int(cfg["solve_initial"]), cfg["salt"],
        cfg["ksat"], cfg["kuniq"], cfg["kpre"], int(cfg["pen"]), int(cfg["stateful"]),
        float(cfg["t0"]).hex(), float(cfg["decay"]).hex(), pat_tokens(cfg["pattern"]))


def python_run(cfg, hook=None, watch=True):
    """one real generate_problem run; returns (outcome, callbacks, pattern object)."""
    from cspuz.generator import generate_problem
    pattern = build_pattern(cfg["pattern"])
    cb = Callbacks(cfg, watch=watch)
    seed_prng(cfg["seed"])
    if hook:
        hook(True)
    old_stderr = sys.stderr
    sys.stderr = cb
    try:
        try:
          with time_limit(60):
            r = generate_problem(
                cb.solver, builder_pattern=pattern, score=cb.score,
                clue_penalty=cb.clue_penalty if cfg["pen"] else None, uniqueness=cb.uniqueness,
                pretest=cb.pretest if cfg["kpre"] else None, initial_temperature=cfg["t0"],
                temperature_decay=cfg["decay"], max_steps=cfg["max_steps"],
                solve_initial_problem=cfg["solve_initial"], verbose=True)
          out = ("ok", ("None" if r is None else show_prob(r), prng_state(), cb.calls, tuple(cb.trace)))
          cb.result = r
        except BaseException as ex:  # noqa
            if isinstance(ex, (KeyboardInterrupt, SystemExit)):
                raise
            out = ("err", err_name(ex))
            cb.result = None
    finally:
        sys.stderr = old_stderr
        if hook:
            hook(False)
    return out, cb, pattern


def err_name(ex):
    if isinstance(ex, Hang):
        return "Hang"
    for cls, nm in ((RecursionError, "RecursionError"), (IndexError, "IndexError"), (KeyError, "KeyError"),
                    (AssertionError, "AssertionError"), (TypeError, "TypeError"), (ValueError, "ValueError"),
                    (NotImplementedError, "NotImplementedError"), (ZeroDivisionError, "ZeroDivisionError"),
                    (AttributeError, "AttributeError"), (OverflowError, "OverflowError")):
        if isinstance(ex, cls):
            return nm
    return "Other:" + type(ex).__name__


def parse_run_reply(r):
    if r.startswith("E") and not r.startswith("EXN"):
        return ("err", ERRN.get(int(r[1:]), "Other"))
    if not r.startswith("OK "):
        return ("model", r)
    parts = r[3:].split(" | ")
    res, st, world = parts[0].strip(), tuple(int(x) for x in parts[1].split()), int(parts[2])
    tr = []
    rest = parts[3] if len(parts) > 3 else ""
    for item in rest.split(" ; "):
        item = item.strip()
        if item:
            tr.append((int(item[0]), item[2:].strip()))
    return ("ok", (res, st, world, tuple(tr)))


# ------------------------------------------------------------------ subprocess side

def subrun_main():
    import random as pyrandom
    req = json.load(sys.stdin)
    pyrandom.seed(req["pyseed"])
    outs = []
    for cfg in req["runs"]:
        for _ in range(pyrandom.randint(0, 3)):
            pyrandom.random()                      # perturb the global generator between runs
        out, cb, _ = python_run(cfg, watch=False)
        outs.append(out)
    json.dump(outs, sys.stdout)


def tuplify(x):
    if isinstance(x, list):
        return tuple(tuplify(y) for y in x)
    return x


# ------------------------------------------------------------------ generators of inputs

SEEDS_EDGE = [0, 1, 2, 88675123, M32 - 1, M32, M32 + 5, -1, -2, -M32, (1 << 40) + 17, 123456789, 2 ** 31, 2 ** 31 - 1]


def gen_ab(rng):
    k = rng.random()
    if k < 0.25:
        a = 0
        b = rng.choice([0, 1, 2, 3, 5, 9, 10, 99, 255, 256, 1000, rng.randint(0, 10 ** 6)])
    elif k < 0.5:
        a = rng.choice([1, 2, 5, 7, 100, -1, -3, -100, 10 ** 9, -10 ** 9, rng.randint(-10 ** 6, 10 ** 6)])
        b = a + rng.choice([0, 1, 2, 3, 4, 6, 9, 15, 16, 100, rng.randint(0, 10 ** 5)])
    elif k < 0.7:
        # wide domains: rejection is frequent just above 2^31
        w = rng.choice([M32, M32 - 1, (1 << 31) + 1, (1 << 31), (1 << 31) - 1, 3 * (1 << 30), (M32 // 3) + 1,
                        rng.randint(1 << 30, M32)])
        a = rng.choice([0, 1, -5, -(1 << 31), 12345, -(1 << 33)])
        b = a + w - 1
    elif k < 0.8:
        a = rng.randint(-50, 50)
        b = a + rng.choice([M32, M32 + 1, 1 << 40])            # too wide: ValueError
    elif k < 0.9:
        a = rng.randint(-50, 50)
        b = a - rng.choice([1, 2, 100])                        # a > b: ValueError
    else:
        a = rng.randint(-(1 << 34), 1 << 34)
        b = a + rng.randint(0, 1 << 20)
    return a, b


def gen_ops(rng, n):
    ops = []
    for _ in range(n):
        k = rng.random()
        if k < 0.15:
            ops.append(("n",))
        elif k < 0.55:
            ops.append(("r",) + gen_ab(rng))
        elif k < 0.7:
            ops.append(("c", rng.choice([0, 1, 1, 2, 3, 5, 8, 17, 100])))
        elif k < 0.85:
            ops.append(("s", rng.choice([0, 1, 2, 3, 4, 6, 9, 20])))
        else:
            ops.append(("f",))
    return ops


def py_ops(seed, ops):
    import cspuz.generator.srandom as sr
    import cspuz.generator.deterministic_random as dr
    seed_prng(seed)
    out = []
    for op in ops:
        try:
          with time_limit(20):
            if op[0] == "n":
                out.append(str(dr._rng.next()))
            elif op[0] == "r":
                out.append(str(sr.randint(op[1], op[2])))
            elif op[0] == "c":
                out.append(str(sr.choice(list(range(op[1])))))
            elif op[0] == "s":
                l = list(range(op[1]))
                sr.shuffle(l)
                out.append("P" + "".join(" %d" % v for v in l))
            else:
                r = sr.random()
                fr = Fraction(r) * M32
                out.append(str(fr.numerator) if fr.denominator == 1 else "frac:%r" % r)
        except BaseException as ex:  # noqa
            if isinstance(ex, (KeyboardInterrupt, SystemExit)):
                raise
            out.append(err_tok(err_name(ex)))
    return out, prng_state()


def gen_choice_set(rng):
    k = rng.random()
    if k < 0.3:
        return [0, 1], 0
    if k < 0.5:
        return [0, 1, 2], 0
    if k < 0.65:
        return [-1, 0, 1, 2, 3], -1
    if k < 0.75:
        return [1, 2, 3], 0                                    # default not in the choice set
    if k < 0.8:
        return [], 0
    if k < 0.85:
        return [4], 4
    if k < 0.9:
        return [0, 1, 1, 2], 1                                 # duplicates
    ch = sorted(rng.sample(range(-3, 6), rng.randint(1, 5)))
    return ch, rng.choice(ch + [7])


def gen_array_spec(rng, small=False, allow_bad=True):
    h = rng.choice([0, 1, 1, 2, 2, 3, 3, 4] if not small else [1, 2, 2, 3])
    w = rng.choice([0, 1, 2, 2, 3, 3, 4, 5] if not small else [1, 2, 3, 3])
    ch, d = gen_choice_set(rng)
    k = rng.random()
    if k < 0.4:
        dis = False
    elif k < 0.8:
        dis = True
    else:
        dis = rng.choice([[(0, 1), (0, -1)], [(1, 0)], [(1, 1), (-1, -1), (1, -1), (-1, 1)],
                          [(-1, 0), (1, 0), (0, -1), (0, 1), (1, 1), (-1, -1)], [(0, 2), (0, -2)], [(0, 0)]])
        dis = [list(t) for t in dis]
    sym = rng.random() < 0.5
    mv = rng.random() < 0.35
    init = None
    k = rng.random()
    vals = list(ch) + [d]
    if k < 0.12:
        init = [[rng.choice(vals) for _ in range(w)] for _ in range(h)]
    elif k < 0.2 and allow_bad:
        kind = rng.choice(["short", "ragged", "big", "empty"])
        if kind == "short":
            init = [[rng.choice(vals) for _ in range(w)] for _ in range(max(0, h - 1))]
        elif kind == "ragged":
            init = [[rng.choice(vals) for _ in range(max(0, w - (1 if y == h - 1 else 0)))] for y in range(h)]
        elif kind == "big":
            init = [[rng.choice(vals) for _ in range(w + 1)] for _ in range(h + 1)]
        else:
            init = []
    return ["A", h, w, ch, d, dis, sym, mv, init]


def gen_choice_spec(rng):
    ch, d = gen_choice_set(rng)
    return ["C", ch, d]


def gen_pattern(rng, depth=0, allow_bad=True):
    k = rng.random()
    if depth == 0:
        if k < 0.35:
            return gen_array_spec(rng, allow_bad=allow_bad)
        if k < 0.42:
            return gen_choice_spec(rng)
    if depth >= 2 or k < 0.5 and depth > 0:
        k2 = rng.random()
        if k2 < 0.4:
            return gen_choice_spec(rng)
        if k2 < 0.8:
            return gen_array_spec(rng, small=True, allow_bad=allow_bad)
        return ["K", rng.randint(-3, 9)]
    n = rng.choice([0, 1, 2, 2, 3])
    return [rng.choice(["L", "T"]), [gen_pattern(rng, depth + 1, allow_bad) for _ in range(n)]]


def gen_run_cfg(rng, pattern=None, thorough=False):
    pat = pattern if pattern is not None else gen_pattern(rng)
    t0, decay = rng.choice([(5.0, 0.995), (5.0, 0.995), (0.5, 0.9), (100.0, 1.0), (0.001, 0.8), (2.0, 0.5), (1.0, 0.99)])
    return {
        "pattern": pat,
        "seed": rng.choice(SEEDS_EDGE + [rng.randint(0, 10 ** 6) for _ in range(10)]),
        "max_steps": rng.choice([0, 1, 3, 8, 15, 25, 40] + ([60, 80] if thorough else [])),
        "solve_initial": rng.random() < 0.35,
        "salt": rng.randint(0, 10 ** 6),
        "ksat": rng.choice([0, 0, 0, 2, 3, 5, 5, 1]),
        "kuniq": rng.choice([1, 3, 10, 50, 50, 400, 400, 10 ** 9]),
        "kpre": rng.choice([0, 0, 2, 5]),
        "pen": rng.random() < 0.4,
        "stateful": rng.random() < 0.3,
        "t0": t0, "decay": decay,
    }


def walk_problem(rng, spec, steps, errs=None):
    """a problem reachable from the initial one by a few real neighbour steps (or None
    when the pattern raises)."""
    from cspuz.generator import build_neighbor_generator
    try:
        with time_limit(30):
            pattern = build_pattern(spec)
            seed_prng(rng.randint(0, 1000))
            p, gen = build_neighbor_generator(pattern)
            for _ in range(steps):
                ns = list(gen(p))
                if not ns:
                    break
                p = rng.choice(ns)
        return p
    except Exception as ex:
        if errs is not None:
            errs.append("%s: %s" % (type(ex).__name__, ex))
        return None


# ------------------------------------------------------------------ srandom hook (records every draw)

class DrawLog:
    def __init__(self):
        self.items = []
        self.orig = None

    def __call__(self, on):
        import cspuz.generator.srandom as sr
        if on:
            self.orig = (sr.randint, sr.choice, sr.shuffle, sr.random)
            o_randint, o_choice, o_shuffle, o_random = self.orig
            log = self.items

            def randint(a, b):
                s0 = prng_state()
                r = o_randint(a, b)
                log.append(("r %d %d" % (a, b), s0, str(r), prng_state()))
                return r

            def choice(c):
                s0 = prng_state()
                r = o_choice(c)
                idx = [i for i, e in enumerate(c) if e is r or e == r]
                log.append(("c %d" % len(c), s0, idx, prng_state()))
                return r

            def shuffle(l):
                s0 = prng_state()
                ids = {id(e): i for i, e in enumerate(l)}
                o_shuffle(l)
                log.append(("s %d" % len(l), s0, "P" + "".join(" %d" % ids[id(e)] for e in l), prng_state()))

            def random():
                s0 = prng_state()
                r = o_random()
                fr = Fraction(r) * M32
                log.append(("f", s0, str(fr.numerator) if fr.denominator == 1 else "frac:%r" % r, prng_state()))
                return r

            sr.randint, sr.choice, sr.shuffle, sr.random = randint, choice, shuffle, random
        else:
            sr.randint, sr.choice, sr.shuffle, sr.random = self.orig


# ------------------------------------------------------------------ correspondence

def corr_prng(ctx, m):
    rng = ctx.rng
    nseq = 400 if ctx.thorough else 120
    seeds = list(SEEDS_EDGE) + [rng.randint(-(1 << 33), 1 << 34) for _ in range(nseq - len(SEEDS_EDGE))]
    reqs, cases = [], []
    for seed in seeds:
        ops = gen_ops(rng, rng.choice([1, 5, 20, 40]))
        reqs.append("X %d | %s" % (seed, " ".join(" ".join(map(str, op)) for op in ops)))
        cases.append((seed, ops))
    # the raw stream and the seeding
    for seed in seeds[:40]:
        reqs.append("W %d 64" % seed)
    outs = m.batch(reqs)
    for (seed, ops), o in zip(cases, outs[:len(cases)]):
        body, st = o.rsplit("|", 1)
        mo = ([x.strip() for x in body.split(" ; ") if x.strip()], tuple(int(x) for x in st.split()))
        po = py_ops(seed, ops)
        for op in ops:
            ctx.count("prng-op:" + op[0])
        ctx.corr("prng", (seed, tuple(ops)), mo, (po[0], po[1]))
    import cspuz.generator.deterministic_random as dr
    for seed, o in zip(seeds[:40], outs[len(cases):]):
        g = dr.XorShift(seed)
        s0 = (g._x, g._y, g._z, g._w)
        ws = [g.next() for _ in range(64)]
        ctx.corr("words", seed, tuple(int(x) for x in o.split()), tuple(ws))
        ctx.corr("seed", seed, tuple(int(x) for x in m.call("S %d" % seed).split()), s0)


def py_candidates(spec, cur, seed):
    with time_limit(30):
        b = build_pattern(spec)
        seed_prng(seed)
        cands = b.candidates(cur)
        ups = []
        for u in cands:
            if spec[0] == "C":
                ups.append("V %d" % u)
            else:
                ups.append("U" + "".join(" %d %d %d" % t for t in u))
        applied = [show_prob(b.copy_with_update(cur, u)) for u in cands]
        return (tuple(ups), tuple(applied), prng_state())


def parse_cand_reply(r):
    if r.startswith("E") and not r.startswith("EXN"):
        return ("err", ERRN.get(int(r[1:]), "Other"))
    if not r.startswith("OK"):
        return ("model", r)
    a, b, c = r[2:].split("|")
    ups = tuple(x.strip() for x in a.split(" ; ") if x.strip())
    app = tuple(x.strip() for x in b.split(" ; ") if x.strip())
    return ("ok", (ups, app, tuple(int(x) for x in c.split())))


def corr_candidates(ctx, m):
    rng = ctx.rng
    n = 1500 if ctx.thorough else 350
    reqs, cases = [], []
    for i in range(n):
        if rng.random() < 0.15:
            spec = gen_choice_spec(rng)
            cur = rng.choice(spec[1] + [spec[2], 9])
        else:
            spec = gen_array_spec(rng)
            if rng.random() < 0.6:
                cur = walk_problem(rng, spec, rng.randint(0, 6))
                if cur is None:
                    cur = copy.deepcopy(spec[8]) if spec[8] is not None else []
            else:
                vals = list(spec[3]) + [spec[4], 8]
                cur = [[rng.choice(vals) for _ in range(spec[2])] for _ in range(spec[1])]
        seed = rng.randint(0, 10 ** 6)
        reqs.append("CAND %d | %s | %s" % (seed, pat_tokens(spec), show_prob(cur)))
        cases.append((spec, cur, seed))
    outs = m.batch(reqs)
    for (spec, cur, seed), o in zip(cases, outs):
        cur0 = copy.deepcopy(cur)
        po = vlib.guarded(py_candidates, spec, cur, seed)
        if spec[0] == "A":
            ctx.count("cand:sym=%d,adj=%s,move=%d" % (spec[6], "custom" if isinstance(spec[5], list) else spec[5], spec[7]))
        else:
            ctx.count("cand:choice")
        ctx.corr("cand", (json.dumps(spec), show_prob(cur0), seed), parse_cand_reply(o), po)
        ctx.count("cand-outcome:" + (po[1] if po[0] == "err" else ("empty" if not po[1][0] else "some")))
        if cur != cur0:
            ctx.violation("candidates-mutate-current", "candidates()/copy_with_update() modified the current problem",
                          {"builder": spec, "current": cur0, "after": cur, "seed": seed})


def py_neighbours(spec, p, seed):
    with time_limit(30):
        from cspuz.generator import build_neighbor_generator
        pattern = build_pattern(spec)
        _, gen = build_neighbor_generator(pattern)
        seed_prng(seed)
        ns = list(gen(p))
        return (tuple(show_prob(q) for q in ns), prng_state())


def parse_nb_reply(r):
    if r.startswith("E") and not r.startswith("EXN"):
        return ("err", ERRN.get(int(r[1:]), "Other"))
    if not r.startswith("OK"):
        return ("model", r)
    a, c = r[2:].split("|")
    return ("ok", (tuple(x.strip() for x in a.split(" ; ") if x.strip()), tuple(int(x) for x in c.split())))


def corr_neighbours(ctx, m):
    from cspuz.generator import build_neighbor_generator
    rng = ctx.rng
    n = 1200 if ctx.thorough else 300
    reqs, cases = [], []
    ctx._c19_nb = []
    for i in range(n):
        spec = gen_pattern(rng, allow_bad=False)
        p = walk_problem(rng, spec, rng.randint(0, 5))
        if p is None:
            continue
        # the initial problem itself
        ini = vlib.guarded(lambda: show_prob(build_neighbor_generator(build_pattern(spec))[0]))
        ctx.corr("initial", json.dumps(spec), ("ok", m.call("INIT " + pat_tokens(spec))), ini)
        seed = rng.randint(0, 10 ** 6)
        reqs.append("NB %d | %s | %s" % (seed, pat_tokens(spec), show_prob(p)))
        cases.append((spec, p, seed))
    outs = m.batch(reqs)
    for (spec, p, seed), o in zip(cases, outs):
        p0 = copy.deepcopy(p)
        po = vlib.guarded(py_neighbours, spec, p, seed)
        ctx.corr("neighbours", (json.dumps(spec), show_prob(p0), seed), parse_nb_reply(o), po)
        ctx._c19_nb.append((spec, p0, seed))
        if p != p0:
            ctx.violation("generator-mutates-current", "the neighbour generator modified the current problem",
                          {"pattern": spec, "current": p0, "after": p, "seed": seed})


def corr_runs(ctx, m):
    rng = ctx.rng
    n = 2500 if ctx.thorough else 400
    cfgs = [gen_run_cfg(rng, thorough=ctx.thorough) for _ in range(n)]
    # a few fixed shapes: default max_steps (None -> 1000) on a tiny pattern, the bench-like patterns
    cfgs.append(dict(gen_run_cfg(rng, ["C", [0, 1, 2], 0]), max_steps=None, kuniq=10 ** 9, ksat=2))
    cfgs.append(dict(gen_run_cfg(rng, ["A", 3, 3, [0, 1, 2], 0, True, True, False, None]), max_steps=30, kuniq=400))
    cfgs.append(dict(gen_run_cfg(rng, ["A", 3, 3, [0, 1], 0, True, False, True, None]), max_steps=20, kuniq=10 ** 9))
    cfgs.append(dict(gen_run_cfg(rng, ["A", 3, 4, [-1, 0, 1, 2, 3], -1, False, True, True, None]), max_steps=10, kuniq=10 ** 9))
    cfgs.append(dict(gen_run_cfg(rng, ["L", [["A", 2, 2, [0, 1], 0, False, False, False, None], ["C", [1, 2, 3], 1],
                                             ["T", [["C", [0, 5], 0], ["K", 4]]]]]), max_steps=25, kuniq=50))
    outs = m.batch([run_tokens(c) for c in cfgs])
    ctx._c19_runs = []
    replays = []
    import random as pyrandom
    for cfg, o in zip(cfgs, outs):
        pyrandom.seed(rng.randint(0, 10 ** 9))
        log = DrawLog()
        po, cb, pattern = python_run(cfg, hook=log)
        mo = parse_run_reply(o)
        ctx.count("run:" + ("err" if po[0] == "err" else ("found" if po[1][0] != "None" else "none")))
        ctx.corr("run", json.dumps(cfg), mo, po)
        ctx._c19_runs.append((cfg, po, cb, pattern))
        # every srandom draw of the run, replayed on the model from the recorded state
        prev = None
        for (call, s0, res, s1) in log.items:
            if prev is not None and prev != s0:
                ctx.mismatches.append({"kind": "draw-chain", "input": json.dumps(cfg), "model": list(prev), "impl": list(s0)})
            prev = s1
            replays.append((cfg, call, s0, res, s1))
            ctx.count("run-draw:" + call[0])
        ctx.count("run-solver-calls", len(cb.trace))
    if ctx.thorough or len(replays) <= 60000:
        sel = replays
    else:
        sel = [replays[i] for i in sorted(ctx.rng.sample(range(len(replays)), 60000))]
    outs = m.batch(["X %d %d %d %d | %s" % (s0 + (call,)) for (_, call, s0, _, _) in sel])
    for (cfg, call, s0, res, s1), o in zip(sel, outs):
        body, st = o.rsplit("|", 1)
        mres = body.replace(" ; ", "").strip()
        mst = tuple(int(x) for x in st.split())
        if call.startswith("c "):
            ok = (not res and mres.startswith("E")) or (mres.isdigit() and int(mres) in res)
            ctx.corr("draw", (call, s0), (True, mst), (ok, s1), nontrivial=True)
        else:
            ctx.corr("draw", (call, s0), (mres, mst), (res, s1))
    ctx.count("draws-recorded", len(replays))
    # second run of every configuration in another process: other hash seed, other global random state
    env = dict(os.environ)
    env["PYTHONHASHSEED"] = str(rng.randint(1, 10 ** 6))
    env["PYTHONPATH"] = vlib.REPO
    p = subprocess.run([sys.executable, os.path.abspath(__file__), "--subrun"],
                       input=json.dumps({"pyseed": rng.randint(0, 10 ** 9), "runs": cfgs}),
                       stdout=subprocess.PIPE, stderr=subprocess.PIPE, text=True, env=env, timeout=3000)
    if p.returncode != 0:
        raise RuntimeError("subrun failed: " + p.stderr[-2000:])
    second = [tuplify(x) for x in json.loads(p.stdout)]
    ctx._c19_second = []
    for (cfg, po, cb, _), so in zip(ctx._c19_runs, second):
        ctx.corr("rerun-other-process", json.dumps(cfg), po, so)
        ctx._c19_second.append(so)


def correspond(ctx):
    m = ctx.model("C19")
    corr_prng(ctx, m)
    corr_candidates(ctx, m)
    corr_neighbours(ctx, m)
    corr_runs(ctx, m)


# ------------------------------------------------------------------ search: independent oracles

def nd_symmetric(g, h, w, d):
    return all((g[y][x] != d) == (g[h - 1 - y][w - 1 - x] != d) for y in range(h) for x in range(w))


def adj_ok(g, h, w, d, D):
    for y in range(h):
        for x in range(w):
            if g[y][x] == d:
                continue
            for dy, dx in D:
                y2, x2 = y + dy, x + dx
                if 0 <= y2 < h and 0 <= x2 < w and g[y2][x2] != d:
                    return False
    return True


def check_grid_step(spec, g, g2):
    """independent reading of the property for one ArrayBuilder2D neighbour: returns a
    list of complaints."""
    _, h, w, ch, d, dis, sym, mv, _ = spec
    D = dis_list(dis)
    bad = []
    if not isinstance(g2, list) or not all(isinstance(r, list) and all(type(v) is int for v in r) for r in g2):
        return ["grid replaced by %s" % type(g2).__name__]
    if len(g2) != len(g) or any(len(r2) != len(r) for r, r2 in zip(g, g2)):
        return ["shape changed"]
    if len(g) != h or any(len(r) != w for r in g):
        return []          # an initial grid of another shape: the invariants are not defined
    changed = [(y, x) for y in range(h) for x in range(w) if g[y][x] != g2[y][x]]
    allowed = set(ch) | {d}
    old_vals = {v for r in g for v in r}
    for (y, x) in changed:
        if g2[y][x] not in allowed and not (mv and g2[y][x] in old_vals):
            bad.append("cell (%d,%d) set to %r: not a choice value" % (y, x, g2[y][x]))
    if len(changed) > (4 if (mv and sym) else 2):
        bad.append("%d cells changed" % len(changed))
    if sym and nd_symmetric(g, h, w, d) and not nd_symmetric(g2, h, w, d):
        bad.append("point symmetry of the non-default cells lost")
    return bad


def check_local(spec, p, q):
    """q must differ from p inside exactly one builder position."""
    k = spec[0]
    if k == "C":
        if type(q) is int and q == p:
            return 0, []
        if type(q) is not int or q not in spec[1]:
            return 1, ["Choice value %r not in the choice set" % (q,)]
        return 1, []
    if k == "A":
        if q == p:
            return 0, []
        return 1, check_grid_step(spec, p, q)
    if k == "K":
        return (0, []) if q == p else (1, ["constant leaf changed"])
    if k in ("L", "T"):
        if type(q) is not (list if k == "L" else tuple) or len(q) != len(spec[1]):
            return 1, ["container type/length changed"]
        n, bad = 0, []
        for s, a, b in zip(spec[1], p, q):
            c, bb = check_local(s, a, b)
            n += c
            bad += bb
        return n, bad
    return 0, []


def call_valid(ctx, key, detail, f, *args):
    """call an srandom function on arguments inside its documented domain: an exception there
    is itself a failure of the property (the value is not in the promised range)."""
    try:
        with time_limit(20):
            return True, f(*args)
    except Exception as ex:  # noqa
        d = dict(detail)
        d["exception"] = "%s: %s" % (type(ex).__name__, ex)
        ctx.violation(key, "an srandom function raised on arguments inside its domain", d)
        return False, None


def search_prng(ctx):
    import itertools
    import cspuz.generator.srandom as sr
    rng = ctx.rng
    n = 3000 if (ctx.thorough or ctx.deep) else 800
    for i in range(n):
        a, b = gen_ab(rng)
        if a > b or b - a + 1 > M32:
            continue
        seed = rng.randint(0, 10 ** 6)
        seed_prng(seed)
        for j in range(5):
            ok, v = call_valid(ctx, "randint-raises", {"seed": seed, "a": a, "b": b, "draw_index": j}, sr.randint, a, b)
            ctx.prop_case("randint-range", (seed, a, b, j))
            if not ok:
                break
            if not (a <= v <= b):
                ctx.violation("randint-out-of-range", "srandom.randint(a, b) with the deterministic PRNG returned a value outside [a, b]",
                              {"seed": seed, "a": a, "b": b, "draw_index": j, "value": v})
    # exact support and rough uniformity on small domains (deterministic: fixed seeds)
    for (a, b, draws) in [(0, 2, 6000), (5, 9, 10000), (-3, 3, 14000), (1, 6, 12000), (-10, -7, 8000), (7, 7, 100)]:
        seed_prng(4242 + a)
        cnt = {}
        for j in range(draws):
            ok, v = call_valid(ctx, "randint-raises", {"seed": 4242 + a, "a": a, "b": b, "draw_index": j}, sr.randint, a, b)
            if not ok:
                break
            cnt[v] = cnt.get(v, 0) + 1
        ctx.prop_case("randint-support", (a, b))
        w = b - a + 1
        exp = draws / w
        if set(cnt) != set(range(a, b + 1)):
            ctx.violation("randint-out-of-range" if any(not (a <= v <= b) for v in cnt) else "randint-support",
                          "the values drawn by randint(a, b) are not exactly the integers of [a, b]",
                          {"seed": 4242 + a, "a": a, "b": b, "draws": draws, "values_seen": sorted(cnt)})
        elif w > 1 and max(abs(c - exp) for c in cnt.values()) > 6 * (exp ** 0.5):
            ctx.violation("randint-not-uniform", "frequencies of randint(a, b) deviate by more than 6 sigma",
                          {"seed": 4242 + a, "a": a, "b": b, "draws": draws, "counts": cnt})
    # a wide domain (w = 3 * 2^30): without the rejection step the lower third would be hit twice as often
    seed_prng(31337)
    w3 = 3 * (1 << 30)
    low = 0
    for j in range(6000):
        ok, v = call_valid(ctx, "randint-raises", {"seed": 31337, "a": -5, "b": w3 - 6, "draw_index": j}, sr.randint, -5, w3 - 6)
        if not ok:
            break
        low += v < (1 << 30) - 5
    ctx.prop_case("randint-wide-uniform", w3)
    if abs(low - 2000) > 6 * (6000 * (1 / 3) * (2 / 3)) ** 0.5:
        ctx.violation("randint-not-uniform", "randint over a domain of 3*2^30 values hits the lowest third with frequency far from 1/3",
                      {"seed": 31337, "a": -5, "b": w3 - 6, "draws": 6000, "in_lowest_third": low})
    # choice: every candidate, nothing else; shuffle: every permutation of 3 and 4 elements; random in [0, 1)
    seed_prng(99)
    cand = ["a", "b", "c", "d", "e"]
    cnt = {}
    for j in range(5000):
        ok, v = call_valid(ctx, "choice-raises", {"seed": 99, "candidates": cand, "draw_index": j}, sr.choice, cand)
        if not ok:
            break
        cnt[v] = cnt.get(v, 0) + 1
    ctx.prop_case("choice-support", 5)
    if set(cnt) != set(cand) or max(abs(c - 1000) for c in cnt.values()) > 6 * 1000 ** 0.5:
        ctx.violation("choice-not-uniform", "choice does not cover the candidates uniformly", {"seed": 99, "counts": cnt})
    for k in (3, 4):
        cnt = {}
        N = 2000 * (6 if k == 3 else 24)
        for j in range(N):
            l = list(range(k))
            ok, _ = call_valid(ctx, "shuffle-raises", {"seed": 99, "n": k, "draw_index": j}, sr.shuffle, l)
            if not ok:
                break
            cnt[tuple(l)] = cnt.get(tuple(l), 0) + 1
        ctx.prop_case("shuffle-support", k)
        perms = set(itertools.permutations(range(k)))
        if set(cnt) != perms or max(abs(c - 2000) for c in cnt.values()) > 6 * 2000 ** 0.5:
            ctx.violation("shuffle-not-uniform", "shuffle does not produce every permutation uniformly",
                          {"seed": 99, "n": k, "counts": {repr(p): c for p, c in cnt.items()}})
    lo, hi = 1.0, 0.0
    for j in range(20000):
        ok, r = call_valid(ctx, "random-raises", {"seed": 99, "draw_index": j}, sr.random)
        if not ok:
            break
        lo, hi = min(lo, r), max(hi, r)
        if not (0.0 <= r < 1.0):
            ctx.violation("random-out-of-range", "random() outside [0, 1)", {"value": r})
    ctx.prop_case("random-range", 20000)
    if lo > 0.01 or hi < 0.99:
        ctx.violation("random-not-uniform", "random() does not spread over [0, 1)", {"min": lo, "max": hi})


def search_neighbours(ctx):
    from cspuz.generator import build_neighbor_generator
    rng = ctx.rng
    cases = list(getattr(ctx, "_c19_nb", []))
    extra = 600 if (ctx.thorough or ctx.deep) else 150
    for _ in range(extra):
        spec = gen_pattern(rng, allow_bad=False)
        errs = []
        p = walk_problem(rng, spec, rng.randint(0, 8), errs)
        if p is not None:
            cases.append((spec, p, rng.randint(0, 10 ** 6)))
        else:
            ctx.violation("generator-raises", "the neighbour generator raised on a well-formed pattern and a problem it produced itself",
                          {"pattern": spec, "exception": errs[:1]})
    for (spec, p, seed) in cases:
        p0 = copy.deepcopy(p)
        try:
            with time_limit(30):
                _, gen = build_neighbor_generator(build_pattern(spec))
                seed_prng(seed)
                ns = list(gen(p))
        except Exception as ex:
            ctx.violation("generator-raises", "the neighbour generator raised on a well-formed pattern and a problem it produced itself",
                          {"pattern": spec, "current": p0, "seed": seed, "exception": "%s: %s" % (type(ex).__name__, ex)})
            continue
        ctx.prop_case("neighbour-locality", (json.dumps(spec), show_prob(p0), seed))
        for q in ns:
            try:
                n, bad = check_local(spec, p0, q)
            except Exception as ex:      # a neighbour so malformed that the oracle cannot read it
                n, bad = 1, ["malformed neighbour %s" % type(ex).__name__]
            if n > 1:
                bad = bad + ["%d builder positions changed" % n]
            if bad:
                ctx.violation("neighbour:" + bad[0].split(":")[0].split(" (")[0][:60].replace(" ", "-"),
                              "a neighbour differs from the current problem by more than one builder update with choice-set values",
                              {"pattern": spec, "current": p0, "neighbour": q, "seed": seed, "complaints": bad})
        if p != p0:
            ctx.violation("generator-mutates-current", "the neighbour generator modified the current problem",
                          {"pattern": spec, "current": p0, "after": p, "seed": seed})


def search_candidates(ctx):
    """symmetry / adjacency of ArrayBuilder2D updates, read off the real candidates():
    an update is a move iff use_move and it names 4 (symmetry) / 2 (no symmetry) cells."""
    rng = ctx.rng
    n = 1500 if (ctx.thorough or ctx.deep) else 400
    for _ in range(n):
        spec = gen_array_spec(rng, allow_bad=False)
        if spec[8] is not None:
            spec[8] = None
        _, h, w, ch, d, dis, sym, mv, _ = spec
        D = dis_list(dis)
        errs = []
        cur = walk_problem(rng, spec, rng.randint(0, 10), errs)
        if cur is None:
            ctx.violation("generator-raises", "the neighbour generator raised on a well-formed pattern and a problem it produced itself",
                          {"pattern": spec, "exception": errs[:1]})
            continue
        b = build_pattern(spec)
        seed = rng.randint(0, 10 ** 6)
        seed_prng(seed)
        cur0 = copy.deepcopy(cur)
        try:
            with time_limit(30):
                cands = b.candidates(cur)
                [b.copy_with_update(cur, u) for u in cands]
        except Exception as ex:
            ctx.violation("generator-raises", "candidates()/copy_with_update() raised on a grid the builder produced itself",
                          {"builder": spec, "current": cur0, "seed": seed, "exception": "%s: %s" % (type(ex).__name__, ex)})
            continue
        ctx.prop_case("array-candidates", (json.dumps(spec), show_prob(cur0), seed))
        D_ok = (0, 0) not in D and all((-dy, -dx) in D for dy, dx in D)
        pre_sym = nd_symmetric(cur0, h, w, d)
        pre_adj = adj_ok(cur0, h, w, d, D)
        for u in cands:
            q = b.copy_with_update(cur, u)
            is_move = mv and len(u) == (4 if sym else 2)
            bad = check_grid_step(spec, cur0, q)
            if any(not (0 <= y < h and 0 <= x < w) for (y, x, _) in u):
                bad.append("update names a cell outside the grid")
            touched = {(y, x) for (y, x, _) in u}
            if any(cur0[y][x] != q[y][x] and (y, x) not in touched for y in range(h) for x in range(w)):
                bad.append("a cell outside the update changed")
            if not is_move:
                for (y, x, v) in u:
                    if v not in set(ch) | {d}:
                        bad.append("value %r not in the choice set" % (v,))
                if D and D_ok and pre_adj and (pre_sym or not sym) and not adj_ok(q, h, w, d, D):
                    bad.append("two non-default cells became adjacent")
            if bad:
                ctx.violation("array-update:" + bad[0].split(":")[0].split(" (")[0][:60].replace(" ", "-"),
                              "an ArrayBuilder2D update breaks locality / symmetry / adjacency",
                              {"builder": spec, "current": cur0, "update": [list(t) for t in u], "result": q,
                               "seed": seed, "complaints": bad})
        if cur != cur0:
            ctx.violation("candidates-mutate-current", "candidates()/copy_with_update() modified the current problem",
                          {"builder": spec, "current": cur0, "after": cur, "seed": seed})


def search_runs(ctx):
    """soundness of the returned problem and purity, read off the callback logs of the
    real runs; when the correspondence did not run, make runs here."""
    runs = getattr(ctx, "_c19_runs", None)
    if not runs:
        runs = []
        for _ in range(150):
            cfg = gen_run_cfg(ctx.rng)
            po, cb, pattern = python_run(cfg)
            runs.append((cfg, po, cb, pattern))
    for (cfg, po, cb, pattern) in runs:
        ctx.prop_case("run-sound", json.dumps(cfg))
        if po[0] != "ok":
            continue
        r = cb.result
        if r is not None:
            last = cb.last
            if last is None or last[0] is not r or last[1] is not True or last[2] is not True:
                ctx.violation("returned-problem-not-accepted",
                              "generate_problem returned a problem that was not the one the solver reported satisfiable and the uniqueness test accepted",
                              {"cfg": cfg, "returned": show_prob(r), "last_solver_call": None if last is None else [show_prob(last[0]), last[1], last[2]]})
        # every problem handed to the solver is a one-update neighbour of the problem that is current at
        # that moment (initial problem, then whatever the last accepted move installed)
        if has_model(cfg["pattern"]):
            from cspuz.generator import build_neighbor_generator
            try:
                current = build_neighbor_generator(build_pattern(cfg["pattern"]))[0]
            except Exception:
                current = None
            last = None
            first = cfg["solve_initial"]
            for ev in cb.events:
                if current is None:
                    break
                if ev[0] == "update":
                    if last is not None:
                        current = last
                    continue
                last = ev[1]
                if first:
                    first = False
                    if last != current:
                        ctx.violation("initial-problem-not-solved-first", "solve_initial_problem=True did not hand the initial problem to the solver first",
                                      {"cfg": cfg, "initial": current, "solved": last})
                    continue
                try:
                    n, bad = check_local(cfg["pattern"], current, last)
                except Exception as ex:
                    n, bad = 1, ["malformed neighbour %s" % type(ex).__name__]
                if n > 1:
                    bad = bad + ["%d builder positions differ from the current problem" % n]
                if bad:
                    ctx.violation("tried-neighbour-not-local", "a problem handed to the solver is not a one-update neighbour of the current problem",
                                  {"cfg": cfg, "current": current, "tried": last, "complaints": bad})
                    break
        for i, (obj, snap) in enumerate(cb.kept):
            if obj != snap:
                ctx.violation("earlier-problem-mutated", "a problem handed to the solver earlier was modified later in the run",
                              {"cfg": cfg, "index": i, "at_call": snap, "now": obj})
                break
    second = getattr(ctx, "_c19_second", None)
    if second:
        for (cfg, po, _, _), so in zip(runs, second):
            ctx.prop_case("same-seed-same-run", json.dumps(cfg))
            if po != so:
                ctx.violation("run-not-reproducible", "same seed, different run in another process (other hash seed / global random state)",
                              {"cfg": cfg, "first": po, "second": so})


def seg_run(spec, seed, pyseed, max_steps):
    with time_limit(30):
        import random as pyrandom
        from cspuz.generator import generate_problem
        pyrandom.seed(pyseed)
        cfg = {"salt": 7, "ksat": 0, "kuniq": 10 ** 9, "kpre": 0, "stateful": False}
        cb = Callbacks(cfg)
        seed_prng(seed)
        pattern = build_pattern(spec)
        r = generate_problem(cb.solver, builder_pattern=pattern, score=cb.score, uniqueness=cb.uniqueness, max_steps=max_steps)
        bad = [i for i, (o, s) in enumerate(cb.kept) if o != s]
        return (None if r is None else show_prob(r), tuple(cb.trace)), bad


def search_segmentation(ctx):
    """reproducibility of runs over SegmentationBuilder2D patterns (observed, not modelled)."""
    rng = ctx.rng
    n = 40 if (ctx.thorough or ctx.deep) else 12
    for i in range(n):
        h, w = rng.choice([(2, 2), (2, 3), (3, 3), (3, 4)])
        kw = rng.choice([{}, {"min_block_size": 2}, {"max_block_size": 3, "min_num_blocks": 2}, {"min_num_blocks": 2, "max_num_blocks": 4}])
        seg = ["S", h, w, kw]
        spec = seg if rng.random() < 0.5 else ["L", [seg, ["C", [0, 1, 2], 0]]]
        seed = rng.randint(0, 10 ** 6)
        try:
            a, bad_a = seg_run(spec, seed, 1, 6)
            b, bad_b = seg_run(spec, seed, 2, 6)
        except Exception as ex:
            ctx.violation("segmentation-run-raises", "generate_problem over a SegmentationBuilder2D pattern raised / did not terminate",
                          {"pattern": spec, "seed": seed, "exception": "%s: %s" % (type(ex).__name__, ex)})
            if isinstance(ex, Hang):
                break
            continue
        ctx.prop_case("segmentation-same-seed", (json.dumps(spec), seed))
        if a != b:
            k = 0
            while k < min(len(a[1]), len(b[1])) and a[1][k] == b[1][k]:
                k += 1
            ctx.violation("segmentation-not-reproducible",
                          "same deterministic seed, different candidate sequence for a SegmentationBuilder2D pattern when Python's global random state differs",
                          {"pattern": spec, "seed": seed, "first_difference_at_solver_call": k,
                           "run_random_seed_1": list(a[1][k:k + 1]), "run_random_seed_2": list(b[1][k:k + 1])})
        if bad_a or bad_b:
            ctx.violation("earlier-problem-mutated", "a problem handed to the solver earlier was modified later in the run",
                          {"pattern": spec, "seed": seed})


def search(ctx):
    errors = []
    for part in (search_prng, search_neighbours, search_candidates, search_runs, search_segmentation):
        try:
            part(ctx)
        except Exception:                      # keep searching with the other oracles, report at the end
            import traceback
            errors.append(traceback.format_exc()[-1500:])
    if errors:
        raise RuntimeError("search parts failed:\n" + "\n".join(errors))


def replay(ctx, rp):
    v = rp.get("violation", {})
    print(json.dumps(rp, indent=1)[:4000])
    d = v.get("detail", {})
    key = v.get("key", "")
    if key == "randint-out-of-range" and "seed" in d:
        import cspuz.generator.srandom as sr
        seed_prng(d["seed"])
        vals = [sr.randint(d["a"], d["b"]) for _ in range(d.get("draw_index", 0) + 1)]
        print("randint(%d, %d) draws: %r" % (d["a"], d["b"], vals))
        return 1 if not (d["a"] <= vals[-1] <= d["b"]) else 0
    if key == "segmentation-not-reproducible":
        a, _ = seg_run(d["pattern"], d["seed"], 1, 6)
        b, _ = seg_run(d["pattern"], d["seed"], 2, 6)
        print("equal runs:", a == b)
        return 0 if a == b else 1
    if key.startswith("neighbour:") or key == "generator-mutates-current":
        from cspuz.generator import build_neighbor_generator
        spec = d["pattern"]
        p = tuplify_like(spec, d["current"])
        _, gen = build_neighbor_generator(build_pattern(spec))
        seed_prng(d["seed"])
        bad = []
        for q in gen(p):
            n, b = check_local(spec, p, q)
            if n > 1 or b:
                bad.append((show_prob(q), n, b))
        print("offending neighbours:", bad[:5])
        return 1 if bad else 0
    return 2


def tuplify_like(spec, v):
    """JSON turned tuples into lists: restore them along the pattern."""
    if spec[0] == "T":
        return tuple(tuplify_like(s, x) for s, x in zip(spec[1], v))
    if spec[0] == "L":
        return [tuplify_like(s, x) for s, x in zip(spec[1], v)]
    return v


if __name__ == "__main__":
    if "--subrun" in sys.argv:
        subrun_main()
