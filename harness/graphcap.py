"""Shared harness pieces for the graph-encoding properties C04-C10 (DESIGN.md
"Common shape of C04-C10"):

  * graph generators (exhaustive small multigraphs, random multigraphs, grids),
  * program capture: run a cspuz.graph helper against a real Solver and return
    the posted program as the one-line state syntax of exprio,
  * satisfiability of the really posted program for a fixed pattern of the
    caller's variables (z3 backend),
  * independent graph-theoretic oracles in plain Python.
"""
import itertools

import exprio
from cspuz import Solver
from cspuz.expr import BoolVar, IntVar
from cspuz.graph import Graph


# ---------------------------------------------------------------- graphs

def mk_graph(n, edges):
    g = Graph(n)
    for (a, b) in edges:
        g.add_edge(a, b)
    return g


def all_multigraphs(max_n, max_m, loops=False):
    """every multigraph with 1..max_n vertices and 0..max_m edges (edge list as a
    non-decreasing sequence of unordered pairs, so parallel edges are included
    and each multiset of edges appears once)."""
    for n in range(1, max_n + 1):
        pairs = [(a, b) for a in range(n) for b in range(a if loops else a + 1, n)]
        for m in range(0, max_m + 1):
            for es in itertools.combinations_with_replacement(pairs, m):
                yield n, list(es)


def random_multigraph(rng, max_n=9, loops=False):
    n = rng.randint(1, max_n)
    m = rng.randint(0, min(2 * n + 2, 14))
    es = []
    for _ in range(m):
        a = rng.randrange(n)
        b = rng.randrange(n)
        if a == b and not loops:
            if n == 1:
                continue
            b = (a + 1 + rng.randrange(n - 1)) % n
        if rng.random() < 0.5:
            a, b = b, a
        es.append((a, b))
    return n, es


def grid_shapes(max_cells, min_side=1):
    for h in range(min_side, max_cells + 1):
        for w in range(min_side, max_cells + 1):
            if h * w <= max_cells:
                yield h, w


def grid_edges(h, w):
    """the orthogonal adjacency of an h x w grid, written independently of
    cspuz.graph._grid_graph (vertex = y*w+x)."""
    es = []
    for y in range(h):
        for x in range(w):
            if x + 1 < w:
                es.append((y * w + x, y * w + x + 1))
            if y + 1 < h:
                es.append((y * w + x, (y + 1) * w + x))
    return es


# ---------------------------------------------------------------- capture

def graph_tok(n, edges):
    return "%d %d %s" % (n, len(edges), " ".join("%d %d" % e for e in edges))


def capture(post):
    """post(solver) calls the helper; returns ('ok', state_string, solver, result) or ('err', name)."""
    import vlib
    s = Solver()
    r = vlib.guarded(post, s)
    if r[0] == "err":
        return ("err", r[1], s, None)
    return ("ok", exprio.show_state(s), s, r[1])


def norm_state(st):
    """the posted program modulo the order of constraints (sat_perm): declarations
    and keys exactly, constraints as a sorted multiset."""
    i = st.index(" C [")
    head, cons = st[:i], st[i + 4:].rstrip(" ]")
    toks = cons.split()
    out, depth, cur = [], 0, []
    for t in toks:
        cur.append(t)
        if t == "(":
            depth += 1
        elif t == ")":
            depth -= 1
        if depth == 0:
            out.append(" ".join(cur))
            cur = []
    return head, sorted(out)


# ---------------------------------------------------------------- sat of the posted program

def sat_with(solver, fixed):
    """is the posted program satisfiable when the given (var, value) pairs are
    fixed?  Uses the real z3 backend on a copy of the constraint list."""
    s2 = Solver()
    s2.variables = solver.variables
    s2.is_answer_key = list(solver.is_answer_key)
    s2.constraints = list(solver.constraints)
    for v, val in fixed:
        if isinstance(v, BoolVar):
            s2.constraints.append(v if val else ~v)
        else:
            s2.constraints.append(v == val)
    return s2.find_answer(backend="z3")


def z3_session(solver):
    """build the z3 problem of the posted program once; returns check(fixed) ->
    (sat?, {var id: value}) so that many patterns can be decided quickly."""
    import z3
    from cspuz.backend.z3 import Z3Backend
    b = Z3Backend(solver.variables)
    b.add_constraint(list(solver.constraints))
    zs = z3.Solver()
    for var in solver.variables:
        if isinstance(var, IntVar):
            zv = b.variables_dict[var.id]
            zs.add(var.lo <= zv, zv <= var.hi)
    zs.add(b.converted_constraints)

    def check(fixed, want_model=False):
        zs.push()
        for v, val in fixed:
            zv = b.variables_dict[v.id]
            if isinstance(v, BoolVar):
                zs.add(zv if val else z3.Not(zv))
            else:
                zs.add(zv == val)
        r = zs.check() == z3.sat
        model = None
        if r and want_model:
            m = zs.model()
            model = {}
            for var in solver.variables:
                zv = b.variables_dict[var.id]
                val = m.eval(zv, model_completion=True)
                model[var.id] = z3.is_true(val) if isinstance(var, BoolVar) else val.as_long()
        zs.pop()
        return (r, model) if want_model else r

    def forced(fixed, var):
        """the set of values `var` (a BoolVar) can take under `fixed`."""
        vals = set()
        for val in (False, True):
            if check(list(fixed) + [(var, val)]):
                vals.add(val)
        return vals
    check.forced = forced
    return check


# ---------------------------------------------------------------- oracles (independent, plain Python)

def adj_list(n, edges, edge_ok=None):
    adj = [[] for _ in range(n)]
    for k, (a, b) in enumerate(edges):
        if edge_ok is None or edge_ok[k]:
            adj[a].append((b, k))
            adj[b].append((a, k))
    return adj


def component(n, edges, act, start, edge_ok=None):
    adj = adj_list(n, edges, edge_ok)
    seen = {start}
    todo = [start]
    while todo:
        v = todo.pop()
        for (u, _) in adj[v]:
            if act[u] and u not in seen:
                seen.add(u)
                todo.append(u)
    return seen


def is_connected(n, edges, act):
    vs = [v for v in range(n) if act[v]]
    if not vs:
        return True
    return component(n, edges, act, vs[0]) == set(vs)


def induced_edge_count(edges, act):
    return sum(1 for (a, b) in edges if act[a] and act[b])


def is_tree(n, edges, act):
    """connected and acyclic (parallel edges between active vertices form a cycle;
    a self-loop on an active vertex is a cycle too); the empty set counts."""
    vs = [v for v in range(n) if act[v]]
    if not vs:
        return True
    return is_connected(n, edges, act) and induced_edge_count(edges, act) == len(vs) - 1


def edges_form_forest(n, edges, eact):
    """no cycle among the active edges (union-find)."""
    parent = list(range(n))

    def find(x):
        while parent[x] != x:
            parent[x] = parent[parent[x]]
            x = parent[x]
        return x
    for k, (a, b) in enumerate(edges):
        if eact[k]:
            ra, rb = find(a), find(b)
            if ra == rb:
                return False
            parent[ra] = rb
    return True


def edge_degrees(n, edges, eact):
    deg = [0] * n
    for k, (a, b) in enumerate(edges):
        if eact[k]:
            deg[a] += 1
            deg[b] += 1
    return deg


def edges_connected(n, edges, eact):
    """all active edges lie in one connected component of the active-edge subgraph"""
    deg = edge_degrees(n, edges, eact)
    vs = [v for v in range(n) if deg[v] > 0]
    if not vs:
        return True
    act = [True] * n
    return set(vs) <= component(n, edges, act, vs[0], edge_ok=eact)


def is_single_cycle(n, edges, eact):
    """empty, or exactly one simple cycle (2-regular and connected; two parallel
    active edges form a 2-cycle). loop-free graphs."""
    if not any(eact):
        return True
    deg = edge_degrees(n, edges, eact)
    return all(d in (0, 2) for d in deg) and edges_connected(n, edges, eact)


def is_single_path(n, edges, eact):
    """empty (documented convention), or one simple path with >= 1 edge."""
    if not any(eact):
        return True
    deg = edge_degrees(n, edges, eact)
    return (all(d <= 2 for d in deg) and sum(1 for d in deg if d == 1) == 2
            and edges_connected(n, edges, eact))


def patterns(k):
    return itertools.product([False, True], repeat=k)
