(* C11 Tier 1 - the degree of a lattice point in PuzzleBase.lattice (h+1) (w+1), in closed form: the number of
   drawn segments among the (up to) four segments ending at the point, in the vocabulary of the rule files
   (PuzzleBase.seg, directions 0 up, 1 down, 2 left, 3 right).  Companion of CycleCompose.v for the loop puzzles
   whose rules or encodings speak about the segments around a point (on_line = "some segment", straight lines,
   turns). *)
From Coq Require Import ZArith List Bool Arith Lia.
From Cspuz Require Import Graph.GraphModel Puzzle.PuzzleBase Puzzle.CycleFrameBase Puzzle.CycleCompose.
Import ListNotations.
Local Open Scope nat_scope.

Definition b2n (b : bool) : nat := if b then 1 else 0.

Lemma tdeg_app v T1 T2 : tdeg v (T1 ++ T2) = tdeg v T1 + tdeg v T2.
Proof. induction T1; simpl; lia. Qed.

Lemma rowcol_inj n a b c d : c < n -> d < n -> a * n + c = b * n + d -> a = b /\ c = d.
Proof.
  intros Hc Hd E. destruct (lt_eq_lt_dec a b) as [[L|E0]|L]; [| subst b |].
  - exfalso. assert (S a * n <= b * n) by (apply Nat.mul_le_mono_r; lia). simpl in *. lia.
  - split; [reflexivity|lia].
  - exfalso. assert (S b * n <= a * n) by (apply Nat.mul_le_mono_r; lia). simpl in *. lia.
Qed.

Section Degree.
  Variables (h w : nat) (on : nat -> bool).
  Variables (y x : nat).
  Hypothesis Hy : y <= h.
  Hypothesis Hx : x <= w.
  Let v := y * S w + x.
  Let tagf := fun q : nat * (nat * nat) => (on (fst q), snd q).

  (* one row of horizontal segments, up to column m *)
  Lemma hrow_deg y' m : m <= w ->
    tdeg v (map tagf (map (fun x' => (frame_hid h w y' x', (y' * S w + x', y' * S w + S x'))) (seq 0 m))) =
    if y' =? y then b2n ((x <? m) && on (frame_hid h w y x)) + b2n ((0 <? x) && (x <=? m) && on (frame_hid h w y (x - 1)))
    else 0.
  Proof.
    induction m as [|m IH]; intros Hm.
    - simpl. destruct (y' =? y); [|reflexivity].
      replace (x <=? 0) with (x =? 0) by (destruct x; reflexivity).
      destruct x; simpl; reflexivity.
    - rewrite seq_S, !map_app, tdeg_app, IH by lia. cbn [map tdeg]. unfold tdeg1, tagf. cbn [fst snd]. unfold v.
      destruct (Nat.eqb_spec y' y) as [->|Ny].
      + destruct (Nat.eqb_spec (y * S w + (0 + m)) (y * S w + x)) as [E1|E1];
          destruct (Nat.eqb_spec (y * S w + S (0 + m)) (y * S w + x)) as [E2|E2]; try lia.
        * assert (x = m) by lia. subst x.
          replace (m <? m) with false by (symmetry; apply Nat.ltb_ge; lia).
          replace (m <? S m) with true by (symmetry; apply Nat.ltb_lt; lia).
          replace (m <=? m) with true by (symmetry; apply Nat.leb_le; lia).
          replace (m <=? S m) with true by (symmetry; apply Nat.leb_le; lia).
          simpl Nat.add. destruct (on (frame_hid h w y m)), (0 <? m), (on (frame_hid h w y (m - 1))); simpl; lia.
        * assert (x = S m) by lia. subst x.
          replace (S m <? m) with false by (symmetry; apply Nat.ltb_ge; lia).
          replace (S m <? S m) with false by (symmetry; apply Nat.ltb_ge; lia).
          replace (S m <=? m) with false by (symmetry; apply Nat.leb_gt; lia).
          replace (S m <=? S m) with true by (symmetry; apply Nat.leb_le; lia).
          replace (S m - 1) with m by lia. simpl Nat.add.
          destruct (on (frame_hid h w y m)); simpl; lia.
        * replace (x <? S m) with (x <? m).
          2:{ destruct (Nat.ltb_spec x m), (Nat.ltb_spec x (S m)); try reflexivity; lia. }
          replace (x <=? S m) with (x <=? m).
          2:{ destruct (Nat.leb_spec x m), (Nat.leb_spec x (S m)); try reflexivity; lia. }
          destruct (on (frame_hid h w y (0 + m))); simpl; lia.
      + destruct (Nat.eqb_spec (y' * S w + (0 + m)) (y * S w + x)) as [E1|E1];
          [exfalso; apply rowcol_inj in E1; lia|].
        destruct (Nat.eqb_spec (y' * S w + S (0 + m)) (y * S w + x)) as [E2|E2];
          [exfalso; apply rowcol_inj in E2; lia|].
        destruct (on (frame_hid h w y' (0 + m))); reflexivity.
  Qed.

  Lemma hrows_deg n : n <= S h ->
    tdeg v (map tagf (flat_map (fun y' => map (fun x' => (frame_hid h w y' x', (y' * S w + x', y' * S w + S x')))
                                              (seq 0 w)) (seq 0 n))) =
    if y <? n then b2n ((x <? w) && on (frame_hid h w y x)) + b2n ((0 <? x) && on (frame_hid h w y (x - 1))) else 0.
  Proof.
    induction n as [|n IH]; intros Hn; [reflexivity|].
    rewrite seq_S, flat_map_app, map_app, tdeg_app, IH by lia. cbn [flat_map]. rewrite app_nil_r.
    rewrite hrow_deg by lia. simpl Nat.add.
    replace (x <=? w) with true by (symmetry; apply Nat.leb_le; exact Hx). rewrite andb_true_r.
    destruct (Nat.eqb_spec n y) as [->|Ny].
    - replace (y <? y) with false by (symmetry; apply Nat.ltb_ge; lia).
      replace (y <? S y) with true by (symmetry; apply Nat.ltb_lt; lia). reflexivity.
    - replace (y <? S n) with (y <? n); [lia|].
      destruct (Nat.ltb_spec y n), (Nat.ltb_spec y (S n)); try reflexivity; lia.
  Qed.

  (* one row of vertical segments, up to column m *)
  Lemma vrow_deg y' m : m <= S w ->
    tdeg v (map tagf (map (fun x' => (frame_vid h w y' x', (y' * S w + x', S y' * S w + x'))) (seq 0 m))) =
    if x <? m then b2n ((y' =? y) && on (frame_vid h w y' x)) + b2n ((S y' =? y) && on (frame_vid h w y' x)) else 0.
  Proof.
    induction m as [|m IH]; intros Hm; [reflexivity|].
    rewrite seq_S, !map_app, tdeg_app, IH by lia. cbn [map tdeg]. unfold tdeg1, tagf. cbn [fst snd]. unfold v.
    change (0 + m) with m. rewrite Nat.add_0_r.
    destruct (Nat.eqb_spec m x) as [->|Nx].
    - replace (x <? x) with false by (symmetry; apply Nat.ltb_ge; lia).
      replace (x <? S x) with true by (symmetry; apply Nat.ltb_lt; lia).
      destruct (Nat.eqb_spec y' y) as [E1|E1]; destruct (Nat.eqb_spec (S y') y) as [E2|E2]; try lia.
      + subst y'. rewrite Nat.eqb_refl.
        destruct (Nat.eqb_spec (S y * S w + x) (y * S w + x)) as [e|_];
          [exfalso; apply rowcol_inj in e; lia|].
        destruct (on (frame_vid h w y x)); reflexivity.
      + subst y. rewrite Nat.eqb_refl.
        destruct (Nat.eqb_spec (y' * S w + x) (S y' * S w + x)) as [e|_];
          [exfalso; apply rowcol_inj in e; lia|].
        destruct (on (frame_vid h w y' x)); reflexivity.
      + destruct (Nat.eqb_spec (y' * S w + x) (y * S w + x)) as [e|_]; [exfalso; apply rowcol_inj in e; lia|].
        destruct (Nat.eqb_spec (S y' * S w + x) (y * S w + x)) as [e|_]; [exfalso; apply rowcol_inj in e; lia|].
        destruct (on (frame_vid h w y' x)); reflexivity.
    - destruct (Nat.eqb_spec (y' * S w + m) (y * S w + x)) as [e|_]; [exfalso; apply rowcol_inj in e; lia|].
      destruct (Nat.eqb_spec (S y' * S w + m) (y * S w + x)) as [e|_]; [exfalso; apply rowcol_inj in e; lia|].
      replace (x <? S m) with (x <? m).
      2:{ destruct (Nat.ltb_spec x m), (Nat.ltb_spec x (S m)); try reflexivity; lia. }
      destruct (on (frame_vid h w y' m)); simpl; lia.
  Qed.

  Lemma vrows_deg n : n <= h ->
    tdeg v (map tagf (flat_map (fun y' => map (fun x' => (frame_vid h w y' x', (y' * S w + x', S y' * S w + x')))
                                              (seq 0 (S w))) (seq 0 n))) =
    b2n ((y <? n) && on (frame_vid h w y x)) + b2n ((0 <? y) && (y <=? n) && on (frame_vid h w (y - 1) x)).
  Proof.
    induction n as [|n IH]; intros Hn.
    - simpl. replace (y <=? 0) with (y =? 0) by (destruct y; reflexivity). destruct y; reflexivity.
    - rewrite (seq_S n 0), flat_map_app, map_app, tdeg_app, IH by lia. cbn [flat_map]. rewrite app_nil_r.
      rewrite vrow_deg by lia. change (0 + n) with n.
      replace (x <? S w) with true by (symmetry; apply Nat.ltb_lt; lia).
      destruct (Nat.eqb_spec n y) as [E1|N1]; destruct (Nat.eqb_spec (S n) y) as [E2|N2]; try lia.
      + subst n. replace (y <? y) with false by (symmetry; apply Nat.ltb_ge; lia).
        replace (y <? S y) with true by (symmetry; apply Nat.ltb_lt; lia).
        replace (y <=? y) with true by (symmetry; apply Nat.leb_le; lia).
        replace (y <=? S y) with true by (symmetry; apply Nat.leb_le; lia).
        destruct (on (frame_vid h w y x)), (0 <? y), (on (frame_vid h w (y - 1) x)); simpl; lia.
      + subst y. replace (S n - 1) with n by lia.
        replace (S n <? n) with false by (symmetry; apply Nat.ltb_ge; lia).
        replace (S n <? S n) with false by (symmetry; apply Nat.ltb_ge; lia).
        replace (S n <=? n) with false by (symmetry; apply Nat.leb_gt; lia).
        replace (S n <=? S n) with true by (symmetry; apply Nat.leb_le; lia).
        destruct (on (frame_vid h w n x)); simpl; lia.
      + replace (y <? S n) with (y <? n).
        2:{ destruct (Nat.ltb_spec y n), (Nat.ltb_spec y (S n)); try reflexivity; lia. }
        replace (y <=? S n) with (y <=? n).
        2:{ destruct (Nat.leb_spec y n), (Nat.leb_spec y (S n)); try reflexivity; lia. }
        simpl. lia.
  Qed.

  Theorem lattice_degree :
    degree (lattice (S h) (S w)) on v =
    b2n (seg (S h) (S w) on y x 0) + b2n (seg (S h) (S w) on y x 1) +
    b2n (seg (S h) (S w) on y x 2) + b2n (seg (S h) (S w) on y x 3).
  Proof.
    rewrite degree_as_tdeg, tagged_as_map. cbn [edges lattice]. rewrite lattice_ids.
    unfold hrows, vrows. fold tagf. rewrite map_app, tdeg_app, hrows_deg, vrows_deg by lia.
    replace (y <? S h) with true by (symmetry; apply Nat.ltb_lt; lia).
    replace (y <=? h) with true by (symmetry; apply Nat.leb_le; lia). rewrite andb_true_r.
    unfold seg, hseg, vseg. replace (S w - 1) with w by lia.
    fold (frame_hid h w y x) (frame_hid h w y (x - 1)).
    change (S h * w + (y - 1) * S w + x) with (frame_vid h w (y - 1) x).
    change (S h * w + y * S w + x) with (frame_vid h w y x).
    change (S y <? S h) with (y <? h). change (S x <? S w) with (x <? w). lia.
  Qed.

  Corollary lattice_on_line :
    on_line (lattice (S h) (S w)) on v =
    seg (S h) (S w) on y x 0 || seg (S h) (S w) on y x 1 || seg (S h) (S w) on y x 2 || seg (S h) (S w) on y x 3.
  Proof.
    unfold on_line. rewrite lattice_degree.
    destruct (seg (S h) (S w) on y x 0), (seg (S h) (S w) on y x 1), (seg (S h) (S w) on y x 2),
      (seg (S h) (S w) on y x 3); reflexivity.
  Qed.
End Degree.
