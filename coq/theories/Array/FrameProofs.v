(* C14 — proofs about the model in Array/Frame.v *)
From Coq Require Import ZArith List Bool Lia.
From Cspuz Require Import Lib.PyErr Array.Slice Graph.GraphModel Array.Frame.
Import ListNotations.
Open Scope Z_scope.

(* ------------------------------------------------------------ list helpers *)

Lemma map_flat_map {A B C} (f : B -> C) (g : A -> list B) l :
  map f (flat_map g l) = flat_map (fun a => map f (g a)) l.
Proof. induction l; simpl; [reflexivity|]. rewrite map_app, IHl; reflexivity. Qed.

Lemma flat_map_ext_in {A B} (f g : A -> list B) l :
  (forall a, In a l -> f a = g a) -> flat_map f l = flat_map g l.
Proof.
  induction l; simpl; intros H; [reflexivity|].
  rewrite (H a (or_introl eq_refl)), IHl; auto.
Qed.

Lemma concat_map_flat_map {A B} (f : A -> list B) l : concat (map f l) = flat_map f l.
Proof. symmetry; apply flat_map_concat_map. Qed.

Lemma NoDup_app_intro {A} (l1 l2 : list A) :
  NoDup l1 -> NoDup l2 -> (forall a, In a l1 -> In a l2 -> False) -> NoDup (l1 ++ l2).
Proof.
  induction l1; simpl; intros H1 H2 Hd; [exact H2|].
  inversion H1; subst. constructor.
  - rewrite in_app_iff; intros [H|H]; [contradiction|]. apply (Hd a); auto.
  - apply IHl1; auto. intros b Hb1 Hb2; apply (Hd b); auto.
Qed.

Lemma NoDup_flat_map {A B} (f : A -> list B) l :
  NoDup l -> (forall a, In a l -> NoDup (f a)) ->
  (forall a b x, In a l -> In b l -> In x (f a) -> In x (f b) -> a = b) ->
  NoDup (flat_map f l).
Proof.
  induction l; simpl; intros Hn Hf Hd; [constructor|].
  inversion Hn; subst.
  apply NoDup_app_intro.
  - apply Hf; auto.
  - apply IHl; auto. intros b c x Hb Hc; apply Hd; auto.
  - intros x Hx1 Hx2. apply in_flat_map in Hx2. destruct Hx2 as [b [Hb Hxb]].
    assert (a = b) by (apply (Hd a b x); auto). subst; contradiction.
Qed.

Lemma NoDup_map_inj {A B} (f : A -> B) l :
  (forall a b, In a l -> In b l -> f a = f b -> a = b) -> NoDup l -> NoDup (map f l).
Proof.
  induction l; simpl; intros Hi Hn; [constructor|].
  inversion Hn; subst. constructor.
  - rewrite in_map_iff; intros [b [Hb1 Hb2]].
    assert (b = a) by (apply Hi; auto). subst; contradiction.
  - apply IHl; auto.
Qed.

(* --------------------------------------------------------- zseq and zrange *)

Lemma zseq_length s n : length (zseq s n) = n.
Proof. revert s; induction n; simpl; intros; [reflexivity|]. rewrite IHn; reflexivity. Qed.

Lemma In_zseq z s n : In z (zseq s n) <-> s <= z < s + Z.of_nat n.
Proof.
  revert s; induction n; intros s; simpl zseq.
  - simpl; lia.
  - simpl In. rewrite IHn. lia.
Qed.

Lemma NoDup_zseq s n : NoDup (zseq s n).
Proof.
  revert s; induction n; intros s; simpl; constructor.
  - rewrite In_zseq; lia.
  - apply IHn.
Qed.

Lemma nth_error_zseq s n k : (k < n)%nat -> nth_error (zseq s n) k = Some (s + Z.of_nat k).
Proof.
  revert s k; induction n; intros s k Hk; [lia|].
  destruct k; simpl.
  - f_equal; lia.
  - rewrite IHn by lia. f_equal; lia.
Qed.

Lemma zseq_app s a b : zseq s (a + b) = zseq s a ++ zseq (s + Z.of_nat a) b.
Proof.
  revert s; induction a; intros s.
  - simpl. replace (s + 0) with s by lia. reflexivity.
  - cbn [zseq app Nat.add]. rewrite IHa.
    replace (s + Z.of_nat (S a)) with (s + 1 + Z.of_nat a) by lia. reflexivity.
Qed.

Lemma zseq_shift c s n : map (fun x => c + x) (zseq s n) = zseq (c + s) n.
Proof.
  revert s; induction n; intros s; cbn [zseq map]; [reflexivity|].
  rewrite IHn. replace (c + (s + 1)) with (c + s + 1) by lia. reflexivity.
Qed.

Lemma In_zrange z n : In z (zrange n) <-> 0 <= z < n.
Proof. unfold zrange. rewrite In_zseq. lia. Qed.

Lemma NoDup_zrange n : NoDup (zrange n).
Proof. apply NoDup_zseq. Qed.

Lemma zrange_length n : length (zrange n) = Z.to_nat n.
Proof. apply zseq_length. Qed.

Lemma nth_error_zrange n x : 0 <= x < n -> nth_error (zrange n) (Z.to_nat x) = Some x.
Proof.
  intros H. unfold zrange. rewrite nth_error_zseq by lia. f_equal; lia.
Qed.

Lemma In_grid_points n m y x : In (y, x) (grid_points n m) <-> 0 <= y < n /\ 0 <= x < m.
Proof.
  unfold grid_points. rewrite in_flat_map. split.
  - intros [y' [Hy Hx]]. apply in_map_iff in Hx. destruct Hx as [x' [E Hx]].
    inversion E; subst. apply In_zrange in Hy. apply In_zrange in Hx. lia.
  - intros [Hy Hx]. exists y. split; [apply In_zrange; lia|].
    apply in_map_iff. exists x. split; [reflexivity|apply In_zrange; lia].
Qed.

Lemma NoDup_grid_points n m : NoDup (grid_points n m).
Proof.
  unfold grid_points. apply NoDup_flat_map.
  - apply NoDup_zrange.
  - intros y _. apply NoDup_map_inj; [|apply NoDup_zrange]. intros a b _ _ E; inversion E; reflexivity.
  - intros a b [y x] _ _ Ha Hb.
    apply in_map_iff in Ha; destruct Ha as [? [Ea _]]; inversion Ea; subst.
    apply in_map_iff in Hb; destruct Hb as [? [Eb _]]; inversion Eb; subst. reflexivity.
Qed.

(* ------------------------------------------------- rows_of: element [y][x] *)

Lemma rows_of_ext {A} sh sw (g g' : Z -> Z -> A) :
  (forall y x, 0 <= y < sh -> 0 <= x < sw -> g y x = g' y x) -> rows_of sh sw g = rows_of sh sw g'.
Proof.
  intros H. unfold rows_of. apply flat_map_ext_in. intros y Hy.
  apply map_ext_in. intros x Hx. apply In_zrange in Hy. apply In_zrange in Hx. auto.
Qed.

Lemma nth_error_rows_aux {A} (g : Z -> Z -> A) sw y0 n y x k :
  0 <= sw -> y0 <= y < y0 + Z.of_nat n -> 0 <= x < sw ->
  Z.of_nat k = (y - y0) * sw + x ->
  nth_error (flat_map (fun y => map (g y) (zrange sw)) (zseq y0 n)) k = Some (g y x).
Proof.
  intros Hsw. revert y0 k; induction n; intros y0 k Hy Hx Hk; [lia|].
  simpl zseq. simpl flat_map.
  destruct (Z.eq_dec y y0) as [->|Hne].
  - rewrite nth_error_app1 by (rewrite map_length, zrange_length; lia).
    replace k with (Z.to_nat x) by lia.
    rewrite nth_error_map, nth_error_zrange by lia. reflexivity.
  - assert (Z.of_nat k >= sw) by nia.
    rewrite nth_error_app2 by (rewrite map_length, zrange_length; lia).
    rewrite map_length, zrange_length.
    apply IHn; try lia.
Qed.

Lemma nth_error_rows_of {A} (g : Z -> Z -> A) sh sw y x :
  0 <= y < sh -> 0 <= x < sw ->
  nth_error (rows_of sh sw g) (Z.to_nat (y * sw + x)) = Some (g y x).
Proof.
  intros Hy Hx. unfold rows_of, zrange at 2.
  apply nth_error_rows_aux; try lia. nia.
Qed.

Lemma rows_of_length {A} (g : Z -> Z -> A) sh sw :
  0 <= sh -> 0 <= sw -> py_len (rows_of sh sw g) = sh * sw.
Proof.
  intros Hh Hw. unfold rows_of, py_len, zrange at 2.
  assert (G : forall n y0, Z.of_nat (length (flat_map (fun y => map (g y) (zrange sw)) (zseq y0 n))) = Z.of_nat n * sw).
  { induction n; intros y0; [reflexivity|]. cbn [zseq flat_map].
    rewrite app_length, map_length, zrange_length, Nat2Z.inj_add, IHn. lia. }
  rewrite G. lia.
Qed.

(* ------------------------------------------------------ arr_get on [y][x] *)

Lemma py_index_nth {A} (l : list A) i a :
  0 <= i -> nth_error l (Z.to_nat i) = Some a -> py_index l i = Ok a.
Proof.
  intros Hi Hn. unfold py_index.
  assert (Hlt : (Z.to_nat i < length l)%nat) by (apply nth_error_Some; congruence).
  destruct (Z.ltb_spec i 0); [lia|].
  destruct (Z.ltb_spec i 0); [lia|].
  destruct (Z.leb_spec (py_len l) i); [unfold py_len in *; lia|].
  simpl. rewrite Hn. reflexivity.
Qed.

Lemma parse_range_int size p :
  0 <= p < size -> parse_range size (KInt p) = Ok (true, p, p + 1, 1).
Proof.
  intros H. unfold parse_range.
  destruct (Z.ltb_spec p 0); [lia|].
  destruct (Z.leb_spec 0 p); [|lia].
  destruct (Z.ltb_spec p size); [|lia]. reflexivity.
Qed.

Lemma range_size_unit p : exists n, range_size p (p + 1) 1 = Ok n.
Proof.
  unfold range_size. simpl.
  destruct (Z.leb_spec (p + 1) p); [lia|]. eexists; reflexivity.
Qed.

Lemma arr_get_ok {A} sh sw (g : Z -> Z -> A) a y x :
  arr_of_fun sh sw g a -> 0 <= y < sh -> 0 <= x < sw -> arr_get a y x = Ok (g y x).
Proof.
  intros [Eh [Ew Ed]] Hy Hx. unfold arr_get, getitem2, getitem_pair.
  rewrite Eh, Ew, Ed.
  rewrite (parse_range_int sh y Hy), (parse_range_int sw x Hx). cbn [bind].
  destruct (range_size_unit y) as [n1 ->]. destruct (range_size_unit x) as [n2 ->]. cbn [bind andb].
  rewrite (py_index_nth _ _ (g y x)).
  - reflexivity.
  - nia.
  - apply nth_error_rows_of; assumption.
Qed.

(* ------------------------------------------------------- membership tests *)

Lemma seg_in_H h w y x : seg_in h w (SegH y x) = true <-> 0 <= y <= h /\ 0 <= x /\ x + 1 <= w.
Proof.
  unfold seg_in, point_in; simpl. rewrite !andb_true_iff, !Z.leb_le. lia.
Qed.

Lemma seg_in_V h w y x : seg_in h w (SegV y x) = true <-> 0 <= y /\ y + 1 <= h /\ 0 <= x <= w.
Proof.
  unfold seg_in, point_in; simpl. rewrite !andb_true_iff, !Z.leb_le. lia.
Qed.

Lemma cell_in_iff h w y x : cell_in h w (y, x) = true <-> 0 <= y < h /\ 0 <= x < w.
Proof. unfold cell_in. rewrite !andb_true_iff, !Z.leb_le, !Z.ltb_lt. lia. Qed.

Lemma point_in_iff h w y x : point_in h w (y, x) = true <-> 0 <= y <= h /\ 0 <= x <= w.
Proof. unfold point_in. rewrite !andb_true_iff, !Z.leb_le. lia. Qed.

Lemma opt_cell_Some h w c c' : opt_cell h w c = Some c' <-> cell_in h w c = true /\ c = c'.
Proof.
  unfold opt_cell. destruct (cell_in h w c); split; intros H.
  - inversion H; auto.
  - destruct H as [_ ->]; reflexivity.
  - discriminate.
  - destruct H; discriminate.
Qed.

(* ------------------------------------------------------------ __getitem__ *)

Lemma frame_get_H {A} h w lab (f : frame A) y x :
  frame_of h w lab f -> seg_in h w (SegH y x) = true -> arr_get (hor f) y x = Ok (lab (SegH y x)).
Proof.
  intros [_ [_ [Hh _]]] Hs. apply seg_in_H in Hs.
  apply (arr_get_ok (h + 1) w (fun y x => lab (SegH y x))); auto; lia.
Qed.

Lemma frame_get_V {A} h w lab (f : frame A) y x :
  frame_of h w lab f -> seg_in h w (SegV y x) = true -> arr_get (ver f) y x = Ok (lab (SegV y x)).
Proof.
  intros [_ [_ [_ Hv]]] Hs. apply seg_in_V in Hs.
  apply (arr_get_ok h (w + 1) (fun y x => lab (SegV y x))); auto; lia.
Qed.

Lemma getitem_H {A} h w lab (f : frame A) y x :
  frame_of h w lab f -> seg_in h w (SegH y x) = true ->
  getitem f (y * 2) (x * 2 + 1) = Ok (lab (SegH y x)).
Proof.
  intros Hf Hs. pose proof Hs as Hs'. apply seg_in_H in Hs'.
  pose proof Hf as [Eh [Ew _]]. unfold getitem. rewrite Eh, Ew.
  assert (E1 : (y * 2) mod 2 = 0) by (Z.div_mod_to_equations; lia).
  assert (E2 : (x * 2 + 1) mod 2 = 1) by (Z.div_mod_to_equations; lia).
  assert (E3 : (y * 2) / 2 = y) by (Z.div_mod_to_equations; lia).
  assert (E4 : (x * 2 + 1) / 2 = x) by (Z.div_mod_to_equations; lia).
  assert (Eb : (0 <=? y * 2) && (y * 2 <=? h * 2) && (0 <=? x * 2 + 1) && (x * 2 + 1 <=? w * 2) = true)
    by (rewrite !andb_true_iff, !Z.leb_le; lia).
  rewrite Eb, E1, E2, E3, E4. cbn.
  apply (frame_get_H h w); assumption.
Qed.

Lemma getitem_V {A} h w lab (f : frame A) y x :
  frame_of h w lab f -> seg_in h w (SegV y x) = true ->
  getitem f (y * 2 + 1) (x * 2) = Ok (lab (SegV y x)).
Proof.
  intros Hf Hs. pose proof Hs as Hs'. apply seg_in_V in Hs'.
  pose proof Hf as [Eh [Ew _]]. unfold getitem. rewrite Eh, Ew.
  assert (E1 : (y * 2 + 1) mod 2 = 1) by (Z.div_mod_to_equations; lia).
  assert (E2 : (x * 2) mod 2 = 0) by (Z.div_mod_to_equations; lia).
  assert (E3 : (y * 2 + 1) / 2 = y) by (Z.div_mod_to_equations; lia).
  assert (E4 : (x * 2) / 2 = x) by (Z.div_mod_to_equations; lia).
  assert (Eb : (0 <=? y * 2 + 1) && (y * 2 + 1 <=? h * 2) && (0 <=? x * 2) && (x * 2 <=? w * 2) = true)
    by (rewrite !andb_true_iff, !Z.leb_le; lia).
  rewrite Eb, E1, E2, E3, E4. cbn.
  apply (frame_get_V h w); assumption.
Qed.

Lemma getitem_mid {A} h w lab (f : frame A) s :
  frame_of h w lab f -> seg_in h w s = true ->
  getitem f (fst (mid s)) (snd (mid s)) = Ok (lab s).
Proof.
  intros Hf Hs. destruct s as [y x|y x]; simpl.
  - replace (y + y) with (y * 2) by lia. replace (x + (x + 1)) with (x * 2 + 1) by lia.
    eapply getitem_H; eauto.
  - replace (y + (y + 1)) with (y * 2 + 1) by lia. replace (x + x) with (x * 2) by lia.
    eapply getitem_V; eauto.
Qed.

(* every position that is not the midpoint of a segment of the frame is rejected *)
Lemma getitem_not_mid {A} (f : frame A) Y X :
  (forall s, seg_in (fh f) (fw f) s = true -> mid s <> (Y, X)) -> getitem f Y X = Err IndexError.
Proof.
  intros Hno. unfold getitem.
  destruct ((0 <=? Y) && (Y <=? fh f * 2) && (0 <=? X) && (X <=? fw f * 2)) eqn:Eb; cbn [negb]; [|reflexivity].
  rewrite !andb_true_iff, !Z.leb_le in Eb.
  destruct (Z.eqb_spec (Y mod 2) 0) as [E1|E1]; destruct (Z.eqb_spec (X mod 2) 1) as [E2|E2]; cbn [andb].
  - exfalso. apply (Hno (SegH (Y / 2) (X / 2))).
    + apply seg_in_H. Z.div_mod_to_equations; lia.
    + unfold mid, ends. f_equal; Z.div_mod_to_equations; lia.
  - destruct (Z.eqb_spec (Y mod 2) 1); [lia|]. cbn [andb]. reflexivity.
  - destruct (Z.eqb_spec (Y mod 2) 1) as [E3|E3]; destruct (Z.eqb_spec (X mod 2) 0) as [E4|E4]; cbn [andb]; try reflexivity.
    lia.
  - destruct (Z.eqb_spec (Y mod 2) 1) as [E3|E3]; destruct (Z.eqb_spec (X mod 2) 0) as [E4|E4]; cbn [andb]; try reflexivity.
    exfalso. apply (Hno (SegV (Y / 2) (X / 2))).
    + apply seg_in_V. Z.div_mod_to_equations; lia.
    + unfold mid, ends. f_equal; Z.div_mod_to_equations; lia.
Qed.

Lemma getitem_oob {A} (f : frame A) Y X :
  ~ (0 <= Y <= 2 * fh f /\ 0 <= X <= 2 * fw f) -> getitem f Y X = Err IndexError.
Proof.
  intros H. unfold getitem.
  destruct ((0 <=? Y) && (Y <=? fh f * 2) && (0 <=? X) && (X <=? fw f * 2)) eqn:Eb; cbn [negb]; [|reflexivity].
  rewrite !andb_true_iff, !Z.leb_le in Eb. lia.
Qed.

(* ------------------------------------------------ cell / vertex neighbours *)

Definition cell_segs (y x : Z) : list segment :=
  [SegH y x; SegH (y + 1) x; SegV y x; SegV y (x + 1)].

Definition vertex_segs (h w y x : Z) : list segment :=
  (if 0 <? y then [SegV (y - 1) x] else []) ++ (if y <? h then [SegV y x] else []) ++
  (if 0 <? x then [SegH y (x - 1)] else []) ++ (if x <? w then [SegH y x] else []).

Ltac inv_pairs :=
  repeat match goal with
  | H : (_, _) = (_, _) |- _ => inversion H; clear H
  | H : SegH _ _ = SegH _ _ |- _ => inversion H; clear H
  | H : SegV _ _ = SegV _ _ |- _ => inversion H; clear H
  | H : SegH _ _ = SegV _ _ |- _ => discriminate H
  | H : SegV _ _ = SegH _ _ |- _ => discriminate H
  end.

Ltac find_in :=
  repeat first [ left; f_equal; lia | right ].

Lemma cell_neighbors_in {A} h w lab (f : frame A) a y x :
  frame_of h w lab f -> unpack_args a = Ok (y, x) -> cell_in h w (y, x) = true ->
  cell_neighbors f a = Ok (map lab (cell_segs y x)).
Proof.
  intros Hf Ha Hc. pose proof Hf as [Eh [Ew _]].
  unfold cell_neighbors. rewrite Ha. cbn [bind]. rewrite Eh, Ew.
  unfold cell_in in Hc. rewrite Hc. cbn [negb].
  apply cell_in_iff in Hc.
  rewrite (frame_get_H h w lab f y x Hf) by (apply seg_in_H; lia).
  rewrite (frame_get_H h w lab f (y + 1) x Hf) by (apply seg_in_H; lia).
  rewrite (frame_get_V h w lab f y x Hf) by (apply seg_in_V; lia).
  rewrite (frame_get_V h w lab f y (x + 1) Hf) by (apply seg_in_V; lia).
  reflexivity.
Qed.

Lemma cell_neighbors_out {A} (f : frame A) a y x :
  unpack_args a = Ok (y, x) -> cell_in (fh f) (fw f) (y, x) = false ->
  cell_neighbors f a = Err IndexError.
Proof.
  intros Ha Hc. unfold cell_neighbors. rewrite Ha. cbn [bind].
  unfold cell_in in Hc. rewrite Hc. reflexivity.
Qed.

Lemma NoDup_cell_segs y x : NoDup (cell_segs y x).
Proof.
  unfold cell_segs. repeat constructor; simpl; intuition; inv_pairs; lia.
Qed.

Lemma cell_segs_spec h w y x s :
  cell_in h w (y, x) = true ->
  (In s (cell_segs y x) <-> seg_in h w s = true /\ side_of h w s (y, x)).
Proof.
  intros Hc. apply cell_in_iff in Hc. unfold cell_segs, side_of. split.
  - simpl. intros [E|[E|[E|[E|[]]]]]; subst s; unfold sides; cbn [fst snd]; rewrite !opt_cell_Some.
    + split; [apply seg_in_H; lia|]. right. split; [apply cell_in_iff; lia|reflexivity].
    + split; [apply seg_in_H; lia|]. left. split; [apply cell_in_iff; lia|f_equal; lia].
    + split; [apply seg_in_V; lia|]. right. split; [apply cell_in_iff; lia|reflexivity].
    + split; [apply seg_in_V; lia|]. left. split; [apply cell_in_iff; lia|f_equal; lia].
  - destruct s as [y' x'|y' x']; unfold sides; cbn [fst snd]; rewrite !opt_cell_Some;
      intros [Hs [[_ E]|[_ E]]]; inv_pairs; subst; simpl; find_in.
Qed.

Lemma opt_get_seg {A} (lab : segment -> A) c r s :
  (c = true -> r = Ok (lab s)) -> opt_get c r = Ok (map lab (if c then [s] else [])).
Proof.
  intros H. unfold opt_get. destruct c; [|reflexivity]. rewrite H by reflexivity. reflexivity.
Qed.

Lemma vertex_neighbors_in {A} h w lab (f : frame A) a y x :
  frame_of h w lab f -> unpack_args a = Ok (y, x) -> point_in h w (y, x) = true ->
  vertex_neighbors f a = Ok (map lab (vertex_segs h w y x)).
Proof.
  intros Hf Ha Hp. pose proof Hf as [Eh [Ew _]].
  unfold vertex_neighbors. rewrite Ha. cbn [bind]. rewrite Eh, Ew.
  unfold point_in in Hp. rewrite Hp. cbn [negb].
  apply point_in_iff in Hp.
  rewrite (opt_get_seg lab (0 <? y) _ (SegV (y - 1) x)).
  2:{ intros Hc. apply Z.ltb_lt in Hc. apply (frame_get_V h w); [assumption|apply seg_in_V; lia]. }
  rewrite (opt_get_seg lab (y <? h) _ (SegV y x)).
  2:{ intros Hc. apply Z.ltb_lt in Hc. apply (frame_get_V h w); [assumption|apply seg_in_V; lia]. }
  rewrite (opt_get_seg lab (0 <? x) _ (SegH y (x - 1))).
  2:{ intros Hc. apply Z.ltb_lt in Hc. apply (frame_get_H h w); [assumption|apply seg_in_H; lia]. }
  rewrite (opt_get_seg lab (x <? w) _ (SegH y x)).
  2:{ intros Hc. apply Z.ltb_lt in Hc. apply (frame_get_H h w); [assumption|apply seg_in_H; lia]. }
  cbn [bind]. unfold vertex_segs. rewrite !map_app. reflexivity.
Qed.

Lemma vertex_neighbors_out {A} (f : frame A) a y x :
  unpack_args a = Ok (y, x) -> point_in (fh f) (fw f) (y, x) = false ->
  vertex_neighbors f a = Err IndexError.
Proof.
  intros Ha Hc. unfold vertex_neighbors. rewrite Ha. cbn [bind].
  unfold point_in in Hc. rewrite Hc. reflexivity.
Qed.

Lemma NoDup_vertex_segs h w y x : NoDup (vertex_segs h w y x).
Proof.
  unfold vertex_segs.
  destruct (0 <? y); destruct (y <? h); destruct (0 <? x); destruct (x <? w); simpl;
    repeat constructor; simpl; intuition; inv_pairs; lia.
Qed.

Lemma vertex_segs_spec h w y x s :
  point_in h w (y, x) = true ->
  (In s (vertex_segs h w y x) <-> seg_in h w s = true /\ incident_pt s (y, x)).
Proof.
  intros Hp. apply point_in_iff in Hp. unfold vertex_segs, incident_pt. split.
  - rewrite !in_app_iff.
    destruct (Z.ltb_spec 0 y); destruct (Z.ltb_spec y h); destruct (Z.ltb_spec 0 x); destruct (Z.ltb_spec x w);
      simpl; intuition; subst s; simpl;
      first [ apply seg_in_H; lia | apply seg_in_V; lia | left; f_equal; lia | right; f_equal; lia ].
  - destruct (Z.ltb_spec 0 y); destruct (Z.ltb_spec y h); destruct (Z.ltb_spec 0 x); destruct (Z.ltb_spec x w);
      destruct s as [y' x'|y' x']; simpl; intros [Hs [E|E]]; inv_pairs;
      first [ apply seg_in_H in Hs | apply seg_in_V in Hs ];
      try (exfalso; lia); find_in.
Qed.

(* ------------------------------------------------ all_edges / iteration *)

Definition all_segs (h w : Z) : list segment :=
  flat_map (fun y => map (SegH y) (zrange w)) (zrange (h + 1)) ++
  flat_map (fun y => map (SegV y) (zrange (w + 1))) (zrange h).

Lemma rows_of_map_lab {A} (lab : segment -> A) (c : Z -> Z -> segment) sh sw :
  rows_of sh sw (fun y x => lab (c y x)) = map lab (flat_map (fun y => map (c y) (zrange sw)) (zrange sh)).
Proof.
  unfold rows_of. rewrite map_flat_map. apply flat_map_ext_in. intros y _.
  rewrite map_map. reflexivity.
Qed.

Lemma all_edges_segs {A} h w lab (f : frame A) :
  frame_of h w lab f -> all_edges f = map lab (all_segs h w).
Proof.
  intros [_ [_ [[_ [_ Eh]] [_ [_ Ev]]]]]. unfold all_edges, all_segs.
  rewrite Eh, Ev, map_app, !rows_of_map_lab. reflexivity.
Qed.

Lemma In_all_segs h w s : 0 <= h -> 0 <= w -> (In s (all_segs h w) <-> seg_in h w s = true).
Proof.
  intros Hh Hw. unfold all_segs. rewrite in_app_iff, !in_flat_map. split.
  - intros [[y [Hy Hs]]|[y [Hy Hs]]]; apply in_map_iff in Hs; destruct Hs as [x [E Hx]]; subst s;
      apply In_zrange in Hy; apply In_zrange in Hx; [apply seg_in_H|apply seg_in_V]; lia.
  - destruct s as [y x|y x]; intros Hs; [apply seg_in_H in Hs; left|apply seg_in_V in Hs; right];
      exists y; (split; [apply In_zrange; lia|]); apply in_map_iff; exists x; (split; [reflexivity|apply In_zrange; lia]).
Qed.

Lemma NoDup_rows_segs (c : Z -> Z -> segment) sh sw :
  (forall y x y' x', c y x = c y' x' -> y = y' /\ x = x') ->
  NoDup (flat_map (fun y => map (c y) (zrange sw)) (zrange sh)).
Proof.
  intros Hinj. apply NoDup_flat_map.
  - apply NoDup_zrange.
  - intros y _. apply NoDup_map_inj; [|apply NoDup_zrange]. intros a b _ _ E. apply Hinj in E. tauto.
  - intros a b s _ _ Ha Hb.
    apply in_map_iff in Ha; destruct Ha as [x [Ea _]].
    apply in_map_iff in Hb; destruct Hb as [x' [Eb _]].
    rewrite <- Eb in Ea. apply Hinj in Ea. tauto.
Qed.

Lemma NoDup_all_segs h w : NoDup (all_segs h w).
Proof.
  unfold all_segs. apply NoDup_app_intro.
  - apply NoDup_rows_segs. intros y x y' x' E; inversion E; auto.
  - apply NoDup_rows_segs. intros y x y' x' E; inversion E; auto.
  - intros s H1 H2. apply in_flat_map in H1; destruct H1 as [y [_ H1]].
    apply in_map_iff in H1; destruct H1 as [x [E1 _]].
    apply in_flat_map in H2; destruct H2 as [y' [_ H2]].
    apply in_map_iff in H2; destruct H2 as [x' [E2 _]]. congruence.
Qed.

(* -------------------------------------------------------- _from_grid_frame *)

Definition segs_at (h w : Z) (p : Z * Z) : list segment :=
  (if negb (fst p =? h) then [SegV (fst p) (snd p)] else []) ++
  (if negb (snd p =? w) then [SegH (fst p) (snd p)] else []).

Definition fg_segs (h w : Z) : list segment := flat_map (segs_at h w) (grid_points (h + 1) (w + 1)).

Definition seg_edge (w : Z) (s : segment) : Z * Z :=
  (point_id w (fst (ends s)), point_id w (snd (ends s))).

Lemma fgf_at_ok {A} h w lab (f : frame A) y x :
  frame_of h w lab f -> 0 <= y <= h -> 0 <= x <= w ->
  fgf_at f y x = Ok (map (fun s => (lab s, seg_edge w s)) (segs_at h w (y, x))).
Proof.
  intros Hf Hy Hx. pose proof Hf as [Eh [Ew _]]. unfold fgf_at, segs_at. rewrite Eh, Ew. cbn [fst snd].
  destruct (Z.eqb_spec y h) as [Ey|Ey]; destruct (Z.eqb_spec x w) as [Ex|Ex]; cbn [negb opt_get bind app map];
    try rewrite (getitem_V h w lab f y x Hf) by (apply seg_in_V; lia);
    try rewrite (getitem_H h w lab f y x Hf) by (apply seg_in_H; lia);
    cbn [bind app]; reflexivity.
Qed.

Lemma from_grid_frame_ok {A} h w lab (f : frame A) :
  0 <= h -> 0 <= w -> frame_of h w lab f ->
  from_grid_frame f =
    Ok (map lab (fg_segs h w),
        {| nv := Z.to_nat ((h + 1) * (w + 1));
           edges := map (fun s => zedge_to_nat (seg_edge w s)) (fg_segs h w) |}).
Proof.
  intros Hh Hw Hf. pose proof Hf as [Eh [Ew _]]. unfold from_grid_frame. rewrite Eh, Ew.
  rewrite (mapM_all_ok _ (fun p => map (fun s => (lab s, seg_edge w s)) (segs_at h w p))).
  - cbn [bind]. rewrite concat_map_flat_map.
    rewrite <- (map_flat_map (fun s => (lab s, seg_edge w s)) (segs_at h w)).
    fold (fg_segs h w). rewrite !map_map. reflexivity.
  - intros [y x] Hp. apply In_grid_points in Hp. cbn [fst snd].
    apply fgf_at_ok; [assumption|lia|lia].
Qed.

Lemma In_fg_segs h w s : 0 <= h -> 0 <= w -> (In s (fg_segs h w) <-> seg_in h w s = true).
Proof.
  intros Hh Hw. unfold fg_segs. rewrite in_flat_map. split.
  - intros [[y x] [Hp Hs]]. apply In_grid_points in Hp. unfold segs_at in Hs. cbn [fst snd] in Hs.
    rewrite in_app_iff in Hs.
    destruct (Z.eqb_spec y h); destruct (Z.eqb_spec x w); simpl in Hs; intuition; subst s;
      first [apply seg_in_V; lia | apply seg_in_H; lia].
  - destruct s as [y x|y x]; intros Hs; [apply seg_in_H in Hs|apply seg_in_V in Hs];
      exists (y, x); (split; [apply In_grid_points; lia|]); unfold segs_at; cbn [fst snd]; rewrite in_app_iff;
      destruct (Z.eqb_spec y h); destruct (Z.eqb_spec x w); simpl; try lia; auto.
Qed.

Lemma NoDup_fg_segs h w : NoDup (fg_segs h w).
Proof.
  unfold fg_segs. apply NoDup_flat_map.
  - apply NoDup_grid_points.
  - intros [y x] _. unfold segs_at; cbn [fst snd].
    destruct (negb (y =? h)); destruct (negb (x =? w)); simpl; repeat constructor; simpl; intuition; discriminate.
  - intros [y x] [y' x'] s _ _. unfold segs_at; cbn [fst snd]. rewrite !in_app_iff.
    destruct (negb (y =? h)); destruct (negb (x =? w)); destruct (negb (y' =? h)); destruct (negb (x' =? w));
      simpl; intuition; subst s; inv_pairs; subst; reflexivity.
Qed.

(* row-major numbering of lattice points is a bijection onto [0, (h+1)(w+1)) *)
Lemma point_id_range h w y x :
  0 <= h -> 0 <= w -> point_in h w (y, x) = true -> 0 <= point_id w (y, x) < (h + 1) * (w + 1).
Proof. intros Hh Hw Hp. apply point_in_iff in Hp. unfold point_id; cbn [fst snd]. nia. Qed.

Lemma point_id_inj h w p q :
  0 <= w -> point_in h w p = true -> point_in h w q = true -> point_id w p = point_id w q -> p = q.
Proof.
  intros Hw. destruct p as [y x], q as [y' x']. intros Hp Hq E.
  apply point_in_iff in Hp. apply point_in_iff in Hq. unfold point_id in E; cbn [fst snd] in E.
  assert (y = y') by nia. subst. f_equal. lia.
Qed.

(* ------------------------------------------------------------------ duality *)

Lemma dual_idual {A} (f : frame A) : idual (dual f) = f.
Proof. destruct f as [h w a b]; unfold idual, dual; simpl; f_equal; lia. Qed.

Lemma idual_dual {A} (i : iframe A) : dual (idual i) = i.
Proof. destruct i as [h w a b]; unfold idual, dual; simpl; f_equal; lia. Qed.

Lemma arr_of_fun_ext {A} sh sw sh' sw' (g g' : Z -> Z -> A) a :
  sh = sh' -> sw = sw' -> (forall y x, g y x = g' y x) -> arr_of_fun sh sw g a -> arr_of_fun sh' sw' g' a.
Proof.
  intros -> -> Hg [E1 [E2 E3]]. repeat split; auto. rewrite E3. apply rows_of_ext. auto.
Qed.

Lemma dual_frame_of {A} h w lab (f : frame A) :
  frame_of h w lab f -> iframe_of (h + 1) (w + 1) (fun sd => lab (primal_seg sd)) (dual f).
Proof.
  intros [Eh [Ew [Hh Hv]]]. unfold iframe_of, dual; cbn [ih iw ihor iver]. rewrite Eh, Ew.
  split; [reflexivity|split; [reflexivity|split]].
  - eapply arr_of_fun_ext; [| | |exact Hv]; [lia|reflexivity|]. intros y x; cbn [primal_seg]. do 2 f_equal; lia.
  - eapply arr_of_fun_ext; [| | |exact Hh]; [reflexivity|lia|]. intros y x; cbn [primal_seg]. do 2 f_equal; lia.
Qed.

Lemma idual_frame_of {A} H W lab (i : iframe A) :
  iframe_of H W lab i -> frame_of (H - 1) (W - 1) (fun sp => lab (dual_seg sp)) (idual i).
Proof.
  intros [Eh [Ew [Hh Hv]]]. unfold frame_of, idual; cbn [fh fw hor ver]. rewrite Eh, Ew.
  split; [reflexivity|split; [reflexivity|split]].
  - eapply arr_of_fun_ext; [| | |exact Hv]; [lia|reflexivity|]. intros y x; reflexivity.
  - eapply arr_of_fun_ext; [| | |exact Hh]; [reflexivity|lia|]. intros y x; reflexivity.
Qed.

(* geometry of the two maps: the dual segment separating cells c1 | c2 is mapped
   to the primal segment joining c1 and c2 seen as lattice points, and back *)
Lemma primal_seg_geometry H W sd c1 c2 :
  sides H W sd = (Some c1, Some c2) ->
  ends (primal_seg sd) = (c1, c2) /\ seg_in (H - 1) (W - 1) (primal_seg sd) = true /\
  dual_seg (primal_seg sd) = sd.
Proof.
  destruct sd as [y x|y x]; unfold sides; intros E; inversion E as [[E1 E2]]; clear E;
    apply opt_cell_Some in E1; apply opt_cell_Some in E2;
    destruct E1 as [C1 <-]; destruct E2 as [C2 <-];
    apply cell_in_iff in C1; apply cell_in_iff in C2; cbn [primal_seg ends dual_seg]; repeat split.
  - do 2 f_equal; lia.
  - apply seg_in_V; lia.
  - f_equal; lia.
  - do 2 f_equal; lia.
  - apply seg_in_H; lia.
  - f_equal; lia.
Qed.

Lemma dual_seg_geometry h w sp :
  seg_in h w sp = true ->
  sides (h + 1) (w + 1) (dual_seg sp) = (Some (fst (ends sp)), Some (snd (ends sp))) /\
  primal_seg (dual_seg sp) = sp.
Proof.
  destruct sp as [y x|y x]; intros Hs; [apply seg_in_H in Hs|apply seg_in_V in Hs];
    cbn [dual_seg sides ends fst snd primal_seg]; split.
  - f_equal; apply opt_cell_Some; (split; [apply cell_in_iff; lia|f_equal; lia]).
  - f_equal; lia.
  - f_equal; apply opt_cell_Some; (split; [apply cell_in_iff; lia|f_equal; lia]).
  - f_equal; lia.
Qed.

(* the two sides of a segment are exactly the cells having both its ends as corners *)
Definition corner_of (c : lcell) (p : lpoint) : Prop :=
  (fst p = fst c \/ fst p = fst c + 1) /\ (snd p = snd c \/ snd p = snd c + 1).

Lemma sides_spec h w s c :
  side_of h w s c <-> cell_in h w c = true /\ corner_of c (fst (ends s)) /\ corner_of c (snd (ends s)).
Proof.
  destruct c as [cy cx]. unfold side_of, corner_of.
  destruct s as [y x|y x]; unfold sides; cbn [fst snd ends]; rewrite !opt_cell_Some; split.
  - intros [[Hc E]|[Hc E]]; inversion E; subst; (split; [assumption|lia]).
  - intros [Hc Hk].
    assert (Hd : cy = y - 1 \/ cy = y) by lia. assert (cx = x) by lia. subst cx.
    destruct Hd; subst cy; [left|right]; (split; [assumption|reflexivity]).
  - intros [[Hc E]|[Hc E]]; inversion E; subst; (split; [assumption|lia]).
  - intros [Hc Hk].
    assert (Hd : cx = x - 1 \/ cx = x) by lia. assert (cy = y) by lia. subst cy.
    destruct Hd; subst cx; [left|right]; (split; [assumption|reflexivity]).
Qed.

(* --------------------------------------------------- the public constructors *)

Lemma zseq_rows next sw n y0 :
  0 <= sw ->
  flat_map (fun y => map (fun x => next + (y * sw + x)) (zrange sw)) (zseq y0 n)
  = zseq (next + y0 * sw) (n * Z.to_nat sw).
Proof.
  intros Hsw. revert y0; induction n; intros y0; [reflexivity|].
  cbn [zseq flat_map]. rewrite IHn.
  replace (S n * Z.to_nat sw)%nat with (Z.to_nat sw + n * Z.to_nat sw)%nat by lia.
  rewrite zseq_app. f_equal.
  - unfold zrange.
    replace (zseq (next + y0 * sw) (Z.to_nat sw)) with (zseq (next + y0 * sw + 0) (Z.to_nat sw)) by (f_equal; lia).
    rewrite <- (zseq_shift (next + y0 * sw) 0).
    apply map_ext. intros x; lia.
  - f_equal. lia.
Qed.

Lemma bool_array_ok next sh sw :
  0 <= sh -> 0 <= sw ->
  exists a, bool_array next sh sw = Ok (a, next + sh * sw) /\
            arr_of_fun sh sw (fun y x => next + (y * sw + x)) a.
Proof.
  intros Hh Hw. unfold bool_array.
  assert (El : py_len (zseq next (Z.to_nat (sh * sw))) = sh * sw).
  { unfold py_len. rewrite zseq_length. nia. }
  rewrite El, Z.eqb_refl. eexists; split; [reflexivity|].
  split; [reflexivity|split; [reflexivity|]]. cbn [sh_h sh_w adata].
  unfold rows_of, zrange at 2. rewrite zseq_rows by lia.
  replace (next + 0 * sw) with next by lia. f_equal. nia.
Qed.

Lemma new_frame_ok next h w :
  0 <= h -> 0 <= w ->
  exists f, new_frame next h w = Ok (f, next + (h + 1) * w + h * (w + 1)) /\
            frame_of h w (new_frame_lab next h w) f.
Proof.
  intros Hh Hw. unfold new_frame.
  destruct (bool_array_ok next (h + 1) w) as [a [Ea Ha]]; try lia.
  destruct (bool_array_ok (next + (h + 1) * w) h (w + 1)) as [b [Eb Hb]]; try lia.
  rewrite Ea. cbn [bind]. rewrite Eb. cbn [bind].
  eexists; split; [reflexivity|]. unfold frame_of; cbn [fh fw hor ver].
  split; [reflexivity|split; [reflexivity|split]].
  - eapply arr_of_fun_ext; [| | |exact Ha]; try reflexivity.
  - eapply arr_of_fun_ext; [| | |exact Hb]; try reflexivity.
Qed.

Lemma new_inner_ok next H W :
  1 <= H -> 1 <= W ->
  exists i, new_inner next H W = Ok (i, next + (H - 1) * W + H * (W - 1)) /\
            iframe_of H W (new_inner_lab next H W) i.
Proof.
  intros Hh Hw. unfold new_inner.
  destruct (bool_array_ok next (H - 1) W) as [a [Ea Ha]]; try lia.
  destruct (bool_array_ok (next + (H - 1) * W) H (W - 1)) as [b [Eb Hb]]; try lia.
  rewrite Ea. cbn [bind]. rewrite Eb. cbn [bind].
  eexists; split; [reflexivity|]. unfold iframe_of; cbn [ih iw ihor iver].
  split; [reflexivity|split; [reflexivity|split]].
  - eapply arr_of_fun_ext; [| | |exact Ha]; try reflexivity. intros y x; cbn [new_inner_lab]. nia.
  - eapply arr_of_fun_ext; [| | |exact Hb]; try reflexivity. intros y x; cbn [new_inner_lab]. nia.
Qed.

(* distinct segments of the frame carry distinct variables *)
Lemma new_frame_lab_inj next h w s s' :
  0 <= h -> 0 <= w -> seg_in h w s = true -> seg_in h w s' = true ->
  new_frame_lab next h w s = new_frame_lab next h w s' -> s = s'.
Proof.
  intros Hh Hw Hs Hs'.
  destruct s as [y x|y x]; destruct s' as [y' x'|y' x'];
    [apply seg_in_H in Hs|apply seg_in_H in Hs|apply seg_in_V in Hs|apply seg_in_V in Hs];
    [apply seg_in_H in Hs'|apply seg_in_V in Hs'|apply seg_in_H in Hs'|apply seg_in_V in Hs'];
    cbn [new_frame_lab]; intros E.
  - assert (y = y') by nia. subst. f_equal. lia.
  - exfalso. nia.
  - exfalso. nia.
  - assert (y = y') by nia. subst. f_equal. lia.
Qed.

(* ------------- the graph inferred from an inner frame (is_border.dual()) *)

Lemma inner_from_grid_frame_ok {A} H W lab (i : iframe A) :
  1 <= H -> 1 <= W -> iframe_of H W lab i ->
  from_grid_frame (idual i) =
    Ok (map (fun sp => lab (dual_seg sp)) (fg_segs (H - 1) (W - 1)),
        {| nv := Z.to_nat (H * W);
           edges := map (fun sp => (Z.to_nat (cell_id W (fst (ends sp))), Z.to_nat (cell_id W (snd (ends sp)))))
                        (fg_segs (H - 1) (W - 1)) |}).
Proof.
  intros HH HW Hi. apply idual_frame_of in Hi.
  rewrite (from_grid_frame_ok (H - 1) (W - 1) _ _ ltac:(lia) ltac:(lia) Hi).
  do 2 f_equal. f_equal.
  - f_equal. lia.
  - apply map_ext. intros s. unfold zedge_to_nat, seg_edge, point_id, cell_id. cbn [fst snd].
    f_equal; f_equal; lia.
Qed.
