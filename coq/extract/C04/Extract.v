(* deps (scanned by harness/vlib.py::build_runner): Cspuz.Lib.PyErr Cspuz.Core.Expr Cspuz.Core.Program Cspuz.Core.Build Cspuz.Graph.GraphModel Cspuz.Graph.Avc *)
Require Extraction.
Require Import ExtrOcamlBasic.
From Coq Require Import ZArith List.
From Cspuz Require Import Lib.PyErr Core.Expr Core.Program Core.Build Graph.GraphModel Graph.Avc.
Extraction "model.ml" Z.add Nat.add pyerr_code active_vertices_connected post_avc cert_avc ranks_in_range_b
  spec_avc_b avc_rank avc_root gsem_avc holds grid_graph.
