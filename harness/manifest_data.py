NOTES = ("Each check: (1) scan for forbidden constructs, (2) regenerate translator output from /repo, (3) full .vo build of Props/Cxx.v "
         "and Print Assumptions, (4) correspondence of the extracted model with the implementation, (5) property-level search, "
         "(6) verdict + evidence.  See DESIGN.md and harness/README.md.")
CLAIMED = {
 "C13": {
  "text": "Theorem getitem_eq_spec: for every shape, every key (ints, slices with any start/stop/step, pairs, coordinate lists) the model of Array2D._getitem_impl equals the nested-list specification (elements, order, shape, error kind); proved in Coq for all sizes. The model is tied to array.py by running both on ~700k keys per run; the specification is validated against real Python lists on the same keys.",
  "design_ref": "DESIGN.md 4 C13",
  "note": "Trusted: Coq kernel; CPython slice.indices/range/list-index semantics as transcribed in Array/Slice.v (validated against the interpreter each run); extraction (ExtrOcamlBasic) + driver.ml; the correspondence harness. The Python source is modelled by hand, not verified directly.",
  "technique": "Coq proof over hand-written Gallina model + extracted-model/implementation correspondence",
 },
}
NOT_CLAIMED = {}
