(* C11 Tier 1 - composition with property C07: a solver that, on an empty Solver, calls
   graph.division_connected_variable_groups(solver, graph=g, group_size=<int z>) (model Graph/VarGroups.v::post_vargroups,
   G1Scalar), posts further constraints over the returned group ids, then declares one boolean answer variable per
   edge, posts is_border[k] == (group_id[u] != group_id[v]) for every edge k = (u, v) and registers the is_border
   variables as the answer keys.  All variables of the helper (group ids, rank, is_root, is_active_edge,
   downstream_size, total_size) are existential.
   Uses C07's exactness theorem for a scalar group size (Props/C07.v::vargroups_exact_scalar =
   VarGroupsSizedExact.vargroups_exact_scalar_proved).
   Contents:
     1. a partition whose blocks are connected and whose border pattern marks exactly the edges between different
        blocks satisfies C07's border specification (border_exact);
     2. the state posted by the helper from an empty Solver: its models only depend on the helper's variables;
     3. groups_compose;
     4. graphs with holes: the solver's graph on the renumbered usable vertices vs. the rule graph on all cells. *)
From Coq Require Import ZArith List Bool Arith Lia.
From Cspuz Require Import Lib.PyErr Core.Expr Core.Program Core.Build Graph.GraphModel Graph.ReachProofs
     Graph.VarGroups Graph.VarGroupsSound Graph.VarGroupsComplete Graph.VarGroupsEval Graph.VarGroupsMain
     Graph.VarGroupsExact Graph.VarGroupsLib Graph.VarGroupsSized Graph.VarGroupsForest Graph.VarGroupsWitness
     Graph.VarGroupsSizedSound Graph.VarGroupsSizedExact Graph.VarGroupsCut Graph.VarGroupsBorders Graph.VarGroupsReflect
     Puzzle.PuzzleBase Puzzle.SatAbs Puzzle.ModelBase Puzzle.ModelLemmas Puzzle.DivisionCompose.
Import ListNotations.
Local Open Scope nat_scope.

Notation b2z := PuzzleBase.b2z.
Notation vzn := VarGroups.zn.

(* ------------------------------------------------------------------------ *)
(* 1. blocks and borders                                                      *)

Section BlocksBorders.
  Variable g : graph.
  Variable blk : nat -> nat.
  Variable pat : nat -> bool.
  Hypothesis Hwf : wf_graph g = true.
  Hypothesis Hpat : forall k u v, nth_error (edges g) k = Some (u, v) -> pat k = negb (same_block blk u v).

  Lemma sb_refl v : same_block blk v v = true.
  Proof. unfold same_block. apply Nat.eqb_refl. Qed.
  Lemma sb_sym u v : same_block blk u v = same_block blk v u.
  Proof. unfold same_block. apply Nat.eqb_sym. Qed.
  Lemma sb_trans u v w : same_block blk u v = true -> same_block blk v w = true -> same_block blk u w = true.
  Proof. unfold same_block. rewrite !Nat.eqb_eq. congruence. Qed.

  Lemma same_cut_block a b : same_cut g pat a b -> same_block blk a b = true.
  Proof.
    unfold same_cut. induction 1 as [v _|u v w R IH Hn _]; [apply sb_refl|].
    apply sb_trans with v; [exact IH|].
    apply nbrs_spec in Hn. destruct Hn as [k [Hk He]]. unfold cut in Hk. apply negb_true_iff in Hk.
    destruct He as [He|He]; rewrite (Hpat k _ _ He) in Hk; apply negb_false_iff in Hk;
      [exact Hk|rewrite sb_sym; exact Hk].
  Qed.

  Lemma block_walk_cut a u v : reach g (same_block blk a) all_edges_ok u v -> same_cut g pat u v.
  Proof.
    induction 1 as [v _|u v w R IH Hn Hw]; [apply reach_refl; reflexivity|].
    eapply reach_step; [exact IH| |reflexivity].
    pose proof (reach_vok_end _ _ _ _ _ R) as Hv.
    apply nbrs_spec in Hn. destruct Hn as [k [_ He]]. apply nbrs_spec. exists k. split; [|exact He].
    unfold cut. apply negb_true_iff.
    assert (Hvw : same_block blk v w = true) by (apply sb_trans with a; [rewrite sb_sym; exact Hv|exact Hw]).
    destruct He as [He|He]; rewrite (Hpat k _ _ He); apply negb_false_iff; [exact Hvw|rewrite sb_sym; exact Hvw].
  Qed.

  Theorem realisable_border_exact sizes : realisable g blk sizes -> border_exact g pat sizes.
  Proof.
    intros [Hc Hs]. split.
    - intros v s l Hv Hsv [Hnd Hl]. rewrite <- (Hs v s Hv Hsv). unfold block_size, bcount. f_equal.
      apply same_elements_length; [exact Hnd|apply filter_seq_nodup|].
      intros w. rewrite Hl, filter_In, in_seq. split.
      + intros [Hw R]. split; [lia|apply same_cut_block; exact R].
      + intros [Hw Hb]. split; [lia|]. apply (block_walk_cut v). apply Hc; try assumption; try lia. apply sb_refl.
    - intros k u v Hk Hp R. apply same_cut_block in R. rewrite (Hpat k u v Hk), R in Hp. discriminate.
  Qed.
End BlocksBorders.

(* an injection of the integers into the naturals: turns the values of the group ids into block labels *)
Definition inj_zn (z : Z) : nat := Z.to_nat (if (z <? 0)%Z then (-2 * z - 1)%Z else (2 * z)%Z).
Lemma inj_zn_eqb a b : Nat.eqb (inj_zn a) (inj_zn b) = (a =? b)%Z.
Proof.
  unfold inj_zn. destruct (Z.eqb_spec a b) as [->|N]; [apply Nat.eqb_refl|]. apply Nat.eqb_neq.
  destruct (Z.ltb_spec a 0), (Z.ltb_spec b 0); lia.
Qed.

(* ------------------------------------------------------------------------ *)
(* 2. the helper's state from an empty Solver                                 *)

Section Scalar.
  Variable gsem : op -> list (option value) -> option bool.
  Variable g : graph.
  Variable z : Z.
  Hypothesis Hwf : wf_graph g = true.

  Definition gc_st1 : state := scalar_state empty_state g (PyInt z).
  Definition gc_gid : list expr := main_gid empty_state g.
  Definition gc_base : nat := 5 * nv g + length (edges g).

  Lemma gc_post : 1 <= nv g -> post_vargroups empty_state g (G1Scalar (PyInt z)) = Ok (gc_st1, gc_gid).
  Proof. intros Hn. apply post_vargroups_scalar; [exact Hn|reflexivity]. Qed.

  Lemma gc_next : next_id gc_st1 = gc_base.
  Proof.
    unfold gc_st1, scalar_state, gc_base. unfold next_id at 1. rewrite ensure_add_decls_vars, app_length.
    change (length (vars (main_state empty_state g))) with (next_id (main_state empty_state g)).
    rewrite next_id_main_state. unfold sized_decls. rewrite app_length, !repeat_length.
    change (next_id empty_state) with 0. lia.
  Qed.

  Lemma gc_keys : keys gc_st1 = repeat false gc_base.
  Proof.
    unfold gc_st1, scalar_state, main_state, add_decls, ensure; simpl.
    unfold main_decls, sized_decls. rewrite !app_length, !repeat_length, <- !repeat_app.
    f_equal. unfold gc_base. lia.
  Qed.

  Lemma gc_model_iff en :
    model_of gsem en gc_st1 <->
    (cert_ranges g (cert_of_env 0 (nv g) en) = true /\
     cert_size_ranges g (down_of_env 0 g en) (total_of_env 0 g en) = true /\
     cert_main g (cert_of_env 0 (nv g) en) = true /\
     cert_sizes g (cert_of_env 0 (nv g) en) (down_of_env 0 g en) (total_of_env 0 g en) (fun _ => Some z) false = true).
  Proof.
    change (model_of gsem en gc_st1) with
      (new_in_bounds empty_state gc_st1 en = true /\ forallb (holds gsem en) (new_cons empty_state gc_st1) = true).
    apply (sized_sat_iff gsem empty_state g (fun _ => Some z) en false gc_st1 (scalar_cons g 0 (PyInt z)) Hwf).
    - intros en'. unfold gc_st1. rewrite scalar_state_bounds. apply sized_state_bounds.
    - apply scalar_state_new_cons.
    - intros en' _. apply eval_scalar; [exact Hwf|reflexivity|reflexivity].
    - right. exists z. reflexivity.
    - apply agree_below_refl.
  Qed.

  (* the helper's constraints only mention the helper's variables *)
  Lemma gc_model_agree en en' : agree_below gc_base en en' -> model_of gsem en gc_st1 -> model_of gsem en' gc_st1.
  Proof.
    intros Hag. rewrite !gc_model_iff.
    assert (Eb : forall i, i < gc_base -> eb en i = eb en' i) by (intros i Hi; apply Hag; exact Hi).
    assert (Ei : forall i, i < gc_base -> ei en i = ei en' i) by (intros i Hi; apply Hag; exact Hi).
    unfold gc_base in Eb, Ei.
    rewrite (cert_ranges_ext g (cert_of_env 0 (nv g) en) (cert_of_env 0 (nv g) en')).
    2:{ intros i Hi. unfold cert_of_env; simpl. split; apply Ei; lia. }
    rewrite (cert_size_ranges_ext g (down_of_env 0 g en) (down_of_env 0 g en') (total_of_env 0 g en) (total_of_env 0 g en')).
    2:{ intros i Hi. unfold down_of_env, total_of_env. split; apply Ei; lia. }
    rewrite (cert_main_ext g (cert_of_env 0 (nv g) en) (cert_of_env 0 (nv g) en') Hwf).
    2:{ intros i Hi. unfold cert_of_env; simpl. repeat split; [apply Ei|apply Ei|apply Eb]; lia. }
    2:{ intros e He. unfold cert_of_env; simpl. apply Eb; lia. }
    rewrite (cert_sizes_ext g (cert_of_env 0 (nv g) en) (cert_of_env 0 (nv g) en')
               (down_of_env 0 g en) (down_of_env 0 g en') (total_of_env 0 g en) (total_of_env 0 g en') _ false Hwf).
    2:{ intros i Hi. unfold cert_of_env, down_of_env, total_of_env; simpl. repeat split; [apply Ei|apply Eb|apply Ei|apply Ei]; lia. }
    2:{ intros e He. unfold cert_of_env; simpl. apply Eb; lia. }
    tauto.
  Qed.

  Lemma gc_gid_val en v : v < nv g -> ids_val gsem en gc_gid v = ei en v.
  Proof. intros Hv. unfold gc_gid. rewrite main_gid_val by exact Hv. reflexivity. Qed.
End Scalar.

(* ------------------------------------------------------------------------ *)
(* 3. composition                                                            *)

Section Compose.
  Variable gsem : op -> list (option value) -> option bool.
  Variable g : graph.
  Variable z : Z.
  Hypothesis Hwf : wf_graph g = true.
  Hypothesis Hn : 1 <= nv g.
  (* the constraints posted between the call and the declaration of is_border, read in an assignment in which
     the border pattern [pat] marks exactly the edges whose end points carry different group ids (vertex v has
     group id variable number v) *)
  Variable extra : list expr.
  Variable local : (nat -> bool) -> bool.
  Hypothesis Hloc : forall en pat,
    (forall k u v, nth_error (edges g) k = Some (u, v) -> pat k = negb (ei en u =? ei en v)%Z) ->
    forallb (holds gsem en) extra = local pat.
  Hypothesis Hlocal_ext : forall p p', (forall k, k < length (edges g) -> p k = p' k) -> local p = local p'.

  Let m := length (edges g).
  Let base := gc_base g.
  Let st1 := gc_st1 g z.
  Let gid := gc_gid g.

  Definition gc_final : state :=
    {| vars := vars (gc_st1 g z) ++ repeat DBool (length (edges g));
       keys := keys (gc_st1 g z) ++ repeat true (length (edges g));
       cons := Program.cons (gc_st1 g z) ++ extra ++ c_borders g (gc_gid g) (bvars (gc_base g) (length (edges g))) |}.

  Lemma gc_key_ids : key_ids gc_final = seq base m.
  Proof. unfold gc_final. rewrite gc_keys. apply key_ids_suffix. Qed.

  Lemma gc_reads en : reads gc_final en (seq base m) = map (fun k => b2z (eb en (base + k))) (seq 0 m).
  Proof.
    unfold reads. rewrite (seq_as_map base m), map_map. apply map_ext_in.
    intros v Hv. apply in_seq in Hv. unfold read_var.
    change (vars gc_final) with (vars (gc_st1 g z) ++ repeat DBool m).
    pose proof (gc_next g z) as Hb. unfold next_id in Hb. fold base in Hb.
    rewrite nth_error_app2 by lia.
    replace (base + v - length (vars (gc_st1 g z))) with v by lia.
    rewrite (nth_error_nth' _ DBool) by (rewrite repeat_length; lia). rewrite nth_repeat. reflexivity.
  Qed.

  Lemma gc_split en :
    model_of gsem en gc_final <->
    (model_of gsem en st1 /\ forallb (holds gsem en) extra = true /\
     forallb (holds gsem en) (c_borders g gid (bvars base m)) = true).
  Proof.
    unfold model_of, in_bounds, satisfies, gc_final; simpl.
    rewrite in_bounds_from_app, in_bounds_from_repeat_bool, andb_true_r, !forallb_app, !andb_true_iff.
    fold st1 gid base m. tauto.
  Qed.

  Lemma gc_borders_eval en pat :
    (forall k, k < m -> eb en (base + k) = pat k) ->
    forallb (holds gsem en) (c_borders g gid (bvars base m)) = cert_borders g (ei en) pat.
  Proof.
    intros Hp.
    change (cert_borders g (ei en) pat) with (cert_borders g (c_gid (cert_of_env 0 (nv g) en)) pat).
    apply (eval_c_borders gsem g 0 en (bvars base m) pat Hwf).
    - unfold bvars. rewrite map_length, seq_length. reflexivity.
    - intros e He. unfold bvars in He. rewrite map_length, seq_length in He.
      change (nth e (bvars base m) PyNone) with (at_ (bvars base m) e). rewrite at_bvars by exact He.
      split; [reflexivity|]. simpl. rewrite (Hp e He). reflexivity.
  Qed.

  Lemma gc_ext0 en : model_of gsem en st1 -> extends_sat gsem empty_state st1 en en.
  Proof. intros [Hb Hs]. split; [apply agree_below_refl|]. split; [exact Hb|exact Hs]. Qed.

  Theorem groups_compose ans :
    (exists en, model_of gsem en gc_final /\ reads gc_final en (key_ids gc_final) = ans) <->
    (length ans = m /\ forallb is01 ans = true /\
     border_exact g (fun k => isb (getz ans k)) (fun _ => Some z) /\
     local (fun k => isb (getz ans k)) = true).
  Proof.
    rewrite gc_key_ids.
    pose proof (vargroups_exact_scalar_proved gsem empty_state g (PyInt z) z st1 gid) as EX.
    split.
    - intros [en [Hm Hr]]. rewrite gc_reads in Hr. subst ans.
      apply gc_split in Hm. destruct Hm as [Hm1 [Hex Hbd]].
      set (pat := fun k => eb en (base + k)).
      assert (Hpk : forall k, k < m -> isb (getz (map (fun k => b2z (eb en (base + k))) (seq 0 m)) k) = pat k).
      { intros k Hk. rewrite getz_map_seq by exact Hk. apply b2z_isb. }
      rewrite (gc_borders_eval en pat (fun k _ => eq_refl)) in Hbd.
      assert (Hedge : forall k u v, nth_error (edges g) k = Some (u, v) -> pat k = negb (ei en u =? ei en v)%Z).
      { intros k u v Hk. apply (cert_borders_edge g (ei en) pat k u v Hbd Hk). }
      split; [rewrite map_length, seq_length; reflexivity|].
      split; [rewrite forallb_map; apply forallb_forall; intros; apply is01_b2z|].
      split.
      + set (blk := fun v => inj_zn (ei en v)).
        assert (Hreal : realisable g blk (fun _ => Some z)).
        { apply (EX blk en Hwf Hn eq_refl (Nat.le_0_l _) eq_refl (gc_post g z Hn)).
          exists en. split; [apply gc_ext0; exact Hm1|].
          intros u v Hu Hv. unfold gid. rewrite !gc_gid_val by assumption.
          unfold same_block, blk. symmetry. apply inj_zn_eqb. }
        apply (border_exact_ext g pat _ (fun _ => Some z) (fun _ => Some z));
          [intros k Hk; symmetry; apply Hpk; exact Hk|reflexivity|].
        apply (realisable_border_exact g blk pat); [|exact Hreal].
        intros k u v Hk. rewrite (Hedge k u v Hk). unfold same_block, blk. rewrite inj_zn_eqb. reflexivity.
      + rewrite (Hlocal_ext _ pat Hpk). rewrite <- (Hloc en pat Hedge). exact Hex.
    - intros [Hl [H01 [Hbe Hlc]]].
      set (pat := fun k => isb (getz ans k)) in *.
      pose proof (border_exact_realisable g pat Hwf _ Hbe) as Hreal.
      set (en0 := {| eb := fun _ => false; ei := fun _ => 0%Z |}).
      apply (EX (cut_label g pat) en0 Hwf Hn eq_refl (Nat.le_0_l _) eq_refl (gc_post g z Hn)) in Hreal.
      destruct Hreal as [en1 [[_ [Hb1 Hs1]] Hids]].
      assert (Hm1 : model_of gsem en1 st1) by (split; [exact Hb1|exact Hs1]).
      set (en2 := {| eb := fun i => if Nat.ltb i base then eb en1 i else pat (i - base); ei := ei en1 |}).
      assert (Hag2 : agree_below base en1 en2).
      { intros i Hi. unfold en2; simpl. destruct (Nat.ltb_spec i base); [|lia]. split; reflexivity. }
      assert (Hm2 : model_of gsem en2 st1) by (apply (gc_model_agree gsem g z Hwf en1 en2 Hag2 Hm1)).
      assert (Hw2 : forall k, eb en2 (base + k) = pat k).
      { intros k. unfold en2; simpl. destruct (Nat.ltb_spec (base + k) base); [lia|]. f_equal. lia. }
      assert (Hcb : cert_borders g (ei en2) pat = true).
      { apply (borders_complete_ids g pat (fun _ => Some z) (ei en2) Hwf Hbe).
        intros u v Hu Hv. rewrite <- (Hids u v Hu Hv). unfold gid. rewrite !gc_gid_val by assumption. reflexivity. }
      exists en2. split.
      + apply gc_split. split; [exact Hm2|]. split.
        * rewrite (Hloc en2 pat); [exact Hlc|]. intros k u v Hk. apply (cert_borders_edge g (ei en2) pat k u v Hcb Hk).
        * rewrite (gc_borders_eval en2 pat (fun k _ => Hw2 k)). exact Hcb.
      + rewrite gc_reads. transitivity (map (getz ans) (seq 0 (length ans))); [|apply map_getz_seq].
        rewrite Hl. apply map_ext_in. intros k Hk. apply in_seq in Hk. rewrite Hw2. apply isb_is01.
        rewrite forallb_forall in H01. apply H01. unfold getz. apply nth_In. lia.
  Qed.
End Compose.

(* ------------------------------------------------------------------------ *)
(* 4. graphs with holes                                                      *)

Lemma NoDup_map_inj_on {A B} (f : A -> B) (l : list A) :
  (forall x y, In x l -> In y l -> f x = f y -> x = y) -> NoDup l -> NoDup (map f l).
Proof.
  intros Hinj Hnd. induction Hnd as [|a r Ha Hr IH]; simpl; [constructor|].
  constructor.
  - intros Hin. apply in_map_iff in Hin. destruct Hin as [b [Hb Hbr]].
    assert (b = a) by (apply Hinj; [right; exact Hbr|left; reflexivity|exact Hb]). subst b. contradiction.
  - apply IH. intros x y Hx Hy. apply Hinj; right; assumption.
Qed.

(* [rg] is the rule graph (all cells; the cells outside [S] are isolated), [sg] the solver's graph on the
   renumbered cells of [S]; edge k of [sg] is edge k of [rg] renamed by [f] *)
Section Embed.
  Variables rg sg : graph.
  Variable f : nat -> nat.
  Variable S : nat -> bool.
  Hypothesis Hwr : wf_graph rg = true.
  Hypothesis Hed : edges sg = map (fun '(u, v) => (f u, f v)) (edges rg).
  Hypothesis HeS : forall k u v, nth_error (edges rg) k = Some (u, v) -> S u = true /\ S v = true.
  Hypothesis Hinj : forall u v, u < nv rg -> v < nv rg -> S u = true -> S v = true -> f u = f v -> u = v.
  Hypothesis Hran : forall u, u < nv rg -> S u = true -> f u < nv sg.
  Hypothesis Hsur : forall i, i < nv sg -> exists u, u < nv rg /\ S u = true /\ f u = i.

  Lemma emb_edge_fwd k u v : nth_error (edges rg) k = Some (u, v) -> nth_error (edges sg) k = Some (f u, f v).
  Proof. intros H. rewrite Hed, nth_error_map, H. reflexivity. Qed.

  Lemma emb_edge_bwd k a b : nth_error (edges sg) k = Some (a, b) ->
    exists u v, nth_error (edges rg) k = Some (u, v) /\ a = f u /\ b = f v.
  Proof.
    rewrite Hed, nth_error_map. destruct (nth_error (edges rg) k) as [[u v]|]; simpl; [|discriminate].
    intros H. inversion H; subst. exists u, v. repeat split; reflexivity.
  Qed.

  Lemma emb_wf : wf_graph sg = true.
  Proof.
    unfold wf_graph. apply forallb_forall. intros [a b] Hin. apply In_nth_error in Hin. destruct Hin as [k Hk].
    destruct (emb_edge_bwd k a b Hk) as [u [v [He [-> ->]]]].
    destruct (wf_graph_edge rg k u v Hwr He) as [Hu Hv]. destruct (HeS k u v He) as [Su Sv].
    apply andb_true_iff. split; apply Nat.ltb_lt; apply Hran; assumption.
  Qed.

  Lemma emb_nbrs_fwd eok v w : In w (nbrs rg eok v) -> In (f w) (nbrs sg eok (f v)).
  Proof.
    rewrite !nbrs_spec. intros [k [Hk He]]. exists k. split; [exact Hk|].
    destruct He as [He|He]; [left|right]; apply emb_edge_fwd; exact He.
  Qed.

  Lemma emb_nbrs_bwd eok v x : v < nv rg -> S v = true -> In x (nbrs sg eok (f v)) ->
    exists w, w < nv rg /\ S w = true /\ x = f w /\ In w (nbrs rg eok v).
  Proof.
    intros Hv Sv. rewrite nbrs_spec. intros [k [Hk He]].
    destruct He as [He|He]; destruct (emb_edge_bwd k _ _ He) as [p [q [Hpq [E1 E2]]]];
      destruct (wf_graph_edge rg k p q Hwr Hpq) as [Hp Hq]; destruct (HeS k p q Hpq) as [Sp Sq].
    - assert (p = v) by (apply Hinj; try assumption; symmetry; exact E1). subst p.
      exists q. repeat split; try assumption. apply nbrs_spec. exists k. split; [exact Hk|left; exact Hpq].
    - assert (q = v) by (apply Hinj; try assumption; symmetry; exact E2). subst q.
      exists p. repeat split; try assumption. apply nbrs_spec. exists k. split; [exact Hk|right; exact Hpq].
  Qed.

  Lemma emb_reach_fwd eok a b :
    reach rg all_vertices eok a b -> reach sg all_vertices eok (f a) (f b).
  Proof.
    induction 1 as [v _|u v w R IH Hn _]; [apply reach_refl; reflexivity|].
    eapply reach_step; [exact IH|apply emb_nbrs_fwd; exact Hn|reflexivity].
  Qed.

  Lemma emb_reach_bwd eok a x : a < nv rg -> S a = true ->
    reach sg all_vertices eok (f a) x ->
    exists b, b < nv rg /\ S b = true /\ x = f b /\ reach rg all_vertices eok a b.
  Proof.
    intros Ha Sa R. remember (f a) as a' eqn:Ea. induction R as [v _|u v w R IH Hn _].
    - exists a. repeat split; try assumption. apply reach_refl. reflexivity.
    - destruct (IH Ea) as [b [Hb [Sb [-> Rb]]]].
      destruct (emb_nbrs_bwd eok b w Hb Sb Hn) as [c [Hc [Sc [-> Hnc]]]].
      exists c. repeat split; try assumption. eapply reach_step; [exact Rb|exact Hnc|reflexivity].
  Qed.

  Lemma emb_reach_iff eok a b : a < nv rg -> b < nv rg -> S a = true -> S b = true ->
    (reach sg all_vertices eok (f a) (f b) <-> reach rg all_vertices eok a b).
  Proof.
    intros Ha Hb Sa Sb. split; [|apply emb_reach_fwd].
    intros R. destruct (emb_reach_bwd eok a (f b) Ha Sa R) as [c [Hc [Sc [E Rc]]]].
    assert (b = c) by (apply Hinj; assumption). subst c. exact Rc.
  Qed.

  Lemma emb_component_length eok a : a < nv rg -> S a = true ->
    length (component sg all_vertices eok (f a)) = length (component rg all_vertices eok a).
  Proof.
    intros Ha Sa. rewrite <- (map_length f (component rg all_vertices eok a)).
    assert (HS : forall x, In x (component rg all_vertices eok a) -> x < nv rg /\ S x = true).
    { intros x Hx. apply component_sound in Hx.
      split; [apply (reach_lt rg all_vertices eok a x Hwr Ha Hx)|].
      induction Hx as [v _|u v w R IH Hn _]; [exact Sa|].
      apply nbrs_spec in Hn. destruct Hn as [k [_ [He|He]]]; destruct (HeS k _ _ He); assumption. }
    apply same_elements_length.
    - apply component_nodup.
    - apply NoDup_map_inj_on; [|apply component_nodup].
      intros x y Hx Hy. destruct (HS x Hx), (HS y Hy). apply Hinj; assumption.
    - intros x. rewrite (component_spec sg all_vertices eok (f a) x emb_wf (Hran a Ha Sa)), in_map_iff. split.
      + intros R. destruct (emb_reach_bwd eok a x Ha Sa R) as [c [Hc [Sc [-> Rc]]]].
        exists c. split; [reflexivity|]. apply component_complete; assumption.
      + intros [c [<- Hc]]. apply emb_reach_fwd. apply component_sound. exact Hc.
  Qed.

  (* C07's border specification on the solver's graph, read on the rule graph *)
  Theorem emb_border_exact pat z :
    border_exact sg pat (fun _ => Some z) <->
    ((forall v, v < nv rg -> S v = true -> vzn (length (component rg all_vertices (cut pat) v)) = z) /\
     (forall k u v, nth_error (edges rg) k = Some (u, v) -> pat k = true ->
                    ~ In v (component rg all_vertices (cut pat) u))).
  Proof.
    split.
    - intros [B1 B2]. split.
      + intros v Hv Sv. rewrite <- (emb_component_length (cut pat) v Hv Sv).
        apply (B1 (f v) z _ (Hran v Hv Sv) eq_refl). apply (cut_component_is_block sg pat emb_wf). apply Hran; assumption.
      + intros k u v Hk Hp Hin. apply (B2 k (f u) (f v) (emb_edge_fwd k u v Hk) Hp).
        apply emb_reach_fwd. apply component_sound. exact Hin.
    - intros [R1 R2]. split.
      + intros v' s l Hv' Hs [Hnd Hl]. inversion Hs; subst s. clear Hs.
        destruct (Hsur v' Hv') as [v [Hv [Sv <-]]].
        rewrite <- (R1 v Hv Sv). f_equal. rewrite <- (emb_component_length (cut pat) v Hv Sv).
        destruct (cut_component_is_block sg pat emb_wf (f v) (Hran v Hv Sv)) as [Hnd' Hl'].
        apply same_elements_length; [exact Hnd|exact Hnd'|]. intros x. rewrite Hl. symmetry. apply Hl'.
      + intros k a b Hk Hp R. destruct (emb_edge_bwd k a b Hk) as [u [v [He [-> ->]]]].
        destruct (wf_graph_edge rg k u v Hwr He) as [Hu Hv]. destruct (HeS k u v He) as [Su Sv].
        apply (R2 k u v He Hp). apply component_complete; [exact Hwr|exact Hu|].
        apply (emb_reach_iff (cut pat) u v Hu Hv Su Sv). exact R.
  Qed.
End Embed.
