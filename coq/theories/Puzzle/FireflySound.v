(* C11 Tier 1 - firefly, direction "the posted program admits only rule-obeying drawings": every model of the
   program of solve_firefly (Firefly.v) on a board with at least one firefly reads as an answer that obeys
   Rules_firefly. *)
From Coq Require Import ZArith List Bool Arith Lia.
From Cspuz Require Import Lib.PyErr Core.Expr Core.Program Graph.GraphModel
     Puzzle.PuzzleBase Puzzle.SatAbs Puzzle.ModelBase Puzzle.ModelLemmas
     Puzzle.Rules_firefly Puzzle.Firefly Puzzle.FireflyGeo Puzzle.FireflySem Puzzle.FireflyNet.
Import ListNotations.
Local Open Scope nat_scope.

Lemma ff_dims h w (rest : list (list Z)) :
  dim ([Z.of_nat h; Z.of_nat w] :: rest) 0 = h /\ dim ([Z.of_nat h; Z.of_nat w] :: rest) 1 = w.
Proof. unfold dim, zn, getz, sec; simpl. rewrite !Nat2Z.id. split; reflexivity. Qed.

Theorem firefly_sound h w dir num en :
  (exists p, gvalid h w p /\ ff_is dir (S w) (fst p) (snd p) = true) ->
  model_of no_graph en (firefly_state (S h) (S w) dir num) ->
  rules_firefly [[Z.of_nat (S h); Z.of_nat (S w)]; dir; num]
                (map (fun i => b2z (eb en i)) (seq 0 (ff_E (S h) (S w)))) = true.
Proof.
  intros [F0 [HF0 Hfly0]] [Hb Hs].
  apply ff_satisfies_iff in Hs. destruct Hs as [HA [HB [HC [HR HP]]]].
  apply ff_in_bounds_iff in Hb. destruct Hb as [HRb _].
  assert (HRb' : forall v, v < S h * S w -> (0 <= sR h w en v)%Z) by (intros v Hv; apply HRb; exact Hv).
  set (ans := map (fun i => b2z (eb en i)) (seq 0 (ff_E (S h) (S w)))).
  assert (Hans : forall k, k < ff_E (S h) (S w) -> isb (getz ans k) = eb en k).
  { intros k Hk. unfold ans. rewrite getz_map_seq by exact Hk. apply b2z_isb. }
  unfold rules_firefly.
  change (sec [[Z.of_nat (S h); Z.of_nat (S w)]; dir; num] 1) with dir.
  change (sec [[Z.of_nat (S h); Z.of_nat (S w)]; dir; num] 2) with num.
  destruct (ff_dims (S h) (S w) [dir; num]) as [-> ->].
  cbv zeta. change (fun k => isb (getz ans k)) with (onA ans).
  rewrite !andb_true_iff. repeat split.
  - apply Nat.eqb_eq. unfold ans. rewrite map_length, seq_length. reflexivity.
  - unfold ans. rewrite forallb_map. apply forallb_forall. intros i _. apply is01_b2z.
  - eapply rule_degree; eassumption.
  - eapply rule_beams; eassumption.
  - eapply rule_cover; eassumption.
  - eapply rule_connected; eassumption.
Qed.
