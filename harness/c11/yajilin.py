"""C11 plug-in: yajilin (solve_yajilin(height, width, problem)); cells '..', '??', '^n', 'vn', '<n', '>n'."""
import itertools

import c11lib as L

NAME = "yajilin"
MODULE = "cspuz.puzzle.yajilin"
FUNC = "solve_yajilin"
LOOP = True
KIND = {"^": 1, "v": 2, "<": 3, ">": 4}
TIER1 = ("Yajilin", "solve_yajilin_model")
TIER1_PRIM = ("YajilinPrim", "solve_yajilin_model_prim")


def call(mod, pb):
    return mod.solve_yajilin(pb["h"], pb["w"], pb["grid"])


def ncand(pb):
    return 2 ** (L.n_loop_edges(pb['h'], pb['w']) + pb['h'] * pb['w'])


def encode(pb):
    kind, num = [], []
    for row in pb["grid"]:
        for c in row:
            if c == "..":
                kind.append(0)
                num.append(0)
            elif c == "??":
                kind.append(5)
                num.append(0)
            else:
                kind.append(KIND[c[0]])
                num.append(int(c[1:]))
    return [[pb["h"], pb["w"]], kind, num]


def _cellvals(maxn):
    return ["..", "??"] + [d + str(n) for d in "^v<>" for n in range(0, maxn + 1)]


def families(tier, rng):
    th = tier == "thorough"
    for (h, w) in [(1, 1), (1, 2), (2, 1)]:
        for g in L.all_grids(h, w, _cellvals(2)):
            yield {"h": h, "w": w, "grid": g}
    # one clue anywhere (edge and interior, zero-valued included), rest plain
    for (h, w) in [(2, 2), (2, 3), (3, 2), (1, 4), (4, 1), (1, 5)] + ([(2, 4), (4, 2)] if th else []):
        one = []
        for y in range(h):
            for x in range(w):
                for c in _cellvals(2)[1:]:
                    g = [[".."] * w for _ in range(h)]
                    g[y][x] = c
                    one.append(g)
        for g in (one if th else L.sample(rng, one, 25)):
            yield {"h": h, "w": w, "grid": g}
        for _ in range(60 if th else 8):
            yield {"h": h, "w": w, "grid": L.random_grid(rng, h, w, _cellvals(2), 0.75)}




def tier2(tier, rng):
    for (h, w) in [(1, 1), (1, 2), (2, 1)]:
        for g in L.sample(rng, L.all_grids(h, w, _cellvals(1)), 40 if tier == "thorough" else 8):
            yield {"h": h, "w": w, "grid": g}


def big(tier, rng):
    """long single-row / single-column boards with a two-digit arrow clue: no loop fits, so every free cell is black;
    free cells and '??' cells alternate (black cells may not touch): exactly one solution"""
    th = tier == "thorough"
    for n in (L.LONG if th else L.sample(rng, L.LONG, 4) + [21]):
        for p, d in ((0, ">"), (n - 1, "<"), (rng.randrange(n), rng.choice("<>"))):
            row = [".."] * n
            for q in range(n):
                if q != p and abs(q - p) % 2 == 0:
                    row[q] = "??"
            cnt = sum(1 for q in range(n) if row[q] == ".." and q != p and ((q > p) if d == ">" else (q < p)))
            row[p] = d + str(cnt)
            black = [1 if (row[q] == "..") else 0 for q in range(n)]
            yield {"h": 1, "w": n, "grid": [row], "planted": [[0] * (n - 1) + black], "n_solutions": 1}
            col = [[{"<": "^", ">": "v"}.get(c[0], c[0]) + c[1:]] for c in row]
            yield {"h": n, "w": 1, "grid": col, "planted": [[0] * (n - 1) + black], "n_solutions": 1}


def tier1_problems(tier, rng):
    """program-capture tie: every clue grid of the boards with <= 2 cells over '..', '??' and the four arrows with the
    numbers 0..2 (also numbers no board of that size can reach), a sample of all grids on the boards with 3..6 cells
    (both orientations), random grids on larger and non-square boards (up to 7x7, 1xN, Nx1) with numbers at and beyond
    the boundaries (negative, the length of the ray, one more, two-digit), boards dense in clues, and malformed problems:
    height < 1 or width < 1 (ValueError), trailing cells / rows missing (IndexError)"""
    th = tier == "thorough"
    for (h, w) in [(1, 1), (1, 2), (2, 1)]:
        for g in L.all_grids(h, w, _cellvals(2)):
            yield {"h": h, "w": w, "grid": g}
    small = ["..", "..", "??"] + [d + str(n) for d in "^v<>" for n in (0, 1)]
    for (h, w) in [(1, 3), (3, 1), (2, 2), (1, 4), (4, 1), (1, 5), (5, 1), (2, 3), (3, 2), (1, 6), (6, 1)]:
        for g in L.sample(rng, L.all_grids(h, w, small), 150 if th else 14):
            yield {"h": h, "w": w, "grid": g}

    def far(h, w, y, x):
        d = rng.choice("^v<>")
        ray = {"^": y, "v": h - 1 - y, "<": x, ">": w - 1 - x}[d]
        return d + str(rng.choice([-2, -1, 0, 0, 1, 1, 2, (ray + 1) // 2, ray, ray + 1, 10, 37]))

    for (h, w) in [(3, 3), (2, 4), (4, 2), (2, 5), (5, 2), (3, 4), (4, 3), (4, 4), (3, 6), (6, 3), (5, 5), (4, 6),
                   (6, 5), (7, 7), (1, 7), (7, 1), (1, 9), (8, 1), (2, 7), (7, 2)]:
        for p in [0.85, 0.5, 0.1] * (3 if th else 1):
            yield {"h": h, "w": w, "grid": [[".." if rng.random() < p else rng.choice(["??", far(h, w, y, x), far(h, w, y, x)])
                                             for x in range(w)] for y in range(h)]}
    # malformed: a dimension below 1 -> ValueError
    for (h, w) in [(0, 0), (0, 1), (1, 0), (0, 3), (3, 0), (-1, 2), (2, -1), (-1, -1), (-3, -3), (-2, 5), (4, -2), (0, -1)]:
        yield {"h": h, "w": w, "grid": [[".."] * max(w, 0) for _ in range(max(h, 0))]}
    # malformed: trailing cells / rows missing -> IndexError (after everything else was posted)
    for (h, w) in [(1, 1), (1, 3), (2, 2), (3, 2), (4, 4)]:
        g = L.random_grid(rng, h, w, _cellvals(2), 0.5)
        yield {"h": h, "w": w, "grid": g[:-1] + [g[-1][:-1]]}
        yield {"h": h, "w": w, "grid": g[:-1]}
        yield {"h": h, "w": w, "grid": []}
