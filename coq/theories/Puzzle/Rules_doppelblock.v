(* C11 rule specification - Doppelblock.
   Published rules (puzz.link, "Doppelblock"):
     1. Shade two cells in every row and every column, and put a number from 1 to
        n-2 in each of the other cells so that every row and every column
        contains each of these numbers exactly once.
     2. A number outside the grid is the sum of the numbers between the two
        shaded cells of that row or column.

   problem = [[n]; rows; cols]   n clues each, negative = none
   answer  = n*n numbers row-major, 0 = shaded cell, 1..n-2 = the number *)
From Coq Require Import ZArith List Bool Arith.
From Cspuz Require Import Puzzle.PuzzleBase.
Import ListNotations.

Definition line_ok (n : nat) (l : list Z) : bool :=
  Nat.eqb (count (fun v => (v =? 0)%Z) l) 2 &&
  forallb (fun k => Nat.eqb (count (fun v => (v =? Z.of_nat k)%Z) l) 1) (seq 1 (n - 2)).
(* sum of the entries strictly between the first and the second 0 *)
Fixpoint sum_until_zero (l : list Z) : Z :=
  match l with [] => 0%Z | a :: r => if (a =? 0)%Z then 0%Z else (a + sum_until_zero r)%Z end.
Fixpoint between_zeros (l : list Z) : Z :=
  match l with [] => 0%Z | a :: r => if (a =? 0)%Z then sum_until_zero r else between_zeros r end.

Definition rules_doppelblock (pb : problem) (ans : answer) : bool :=
  let n := dim pb 0 in
  let row := fun y => map (fun x => at2 ans n y x) (seq 0 n) in
  let col := fun x => map (fun y => at2 ans n y x) (seq 0 n) in
  let ok := fun (clues : list Z) i (line : list Z) =>
              let c := getz clues i in (c <? 0)%Z || (between_zeros line =? c)%Z in
  Nat.eqb (length ans) (n * n) &&
  forallb (fun v => ((0 <=? v) && (v <=? Z.of_nat n - 2))%Z) ans &&
  forallb (fun i => line_ok n (row i) && line_ok n (col i)) (seq 0 n) &&
  forallb (fun i => ok (sec pb 1) i (row i) && ok (sec pb 2) i (col i)) (seq 0 n).

(* candidate grids: every row already has two shaded cells and each number once (rule 1) *)
Definition answers_doppelblock (pb : problem) : list answer :=
  let n := dim pb 0 in
  rows_product (filter (line_ok n) (all_answers (repeat (0%Z, (Z.of_nat n - 2)%Z) n))) n.
