(* C11 rule specification - Norinori.
   Published rules (Nikoli, "Norinori"):
     1. Paint some cells black.
     2. Every region bounded by bold lines contains exactly two black cells.
     3. Every black cell is part of a domino: it is adjacent (horizontally or
        vertically) to exactly one other black cell. A domino may lie across a
        region border.

   problem = [[h; w]; region]   region: h*w region ids 0..k-1 row-major
   answer  = h*w cells row-major, 1 = black *)
From Coq Require Import ZArith List Bool Arith.
From Cspuz Require Import Puzzle.PuzzleBase.
Import ListNotations.

Definition n_regions (region : list Z) : nat := zn (fold_right Z.max (-1)%Z region + 1).

Definition rules_norinori (pb : problem) (ans : answer) : bool :=
  let h := dim pb 0 in let w := dim pb 1 in
  let region := sec pb 1 in
  let black := fun '(y, x) => isb (at2 ans w y x) in
  let cs := cells h w in
  Nat.eqb (length ans) (h * w) && forallb is01 ans &&
  forallb (fun i => Nat.eqb (count (fun '(y, x) => (at2 region w y x =? Z.of_nat i)%Z && black (y, x)) cs) 2)
          (seq 0 (n_regions region)) &&
  forallb (fun '(y, x) => negb (black (y, x)) || Nat.eqb (count black (nbr4 h w y x)) 1) cs.

Definition answers_norinori (pb : problem) : list answer :=
  all_answers (bool_doms (dim pb 0 * dim pb 1)).
