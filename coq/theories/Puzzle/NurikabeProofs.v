(* C11 Tier 1 - nurikabe (after fix 51000d9): for every board shape and every layout of numbers and '?',
   the program posted by solve_nurikabe (model Nurikabe.v: the division grid, the connectivity helper of
   property C05 with one group per clue plus the wall group, is_white <-> division != 0, equal labels on
   adjacent white cells, no 2x2 wall, island sizes) has a model whose answer-key variables (is_white) read as
   [ans] exactly when [ans] obeys Rules_nurikabe.  The division grid and the variables of the connectivity
   encoding are existential: for a rule-obeying grid the division is constructed (wall = 0, an island = 1 + the
   position of its unique clue in the clue list). *)
From Coq Require Import ZArith List Bool Arith Lia.
From Cspuz Require Import Lib.PyErr Core.Expr Core.Program Graph.GraphModel Graph.ReachProofs Graph.AvcProofs
     Graph.Division Graph.DivisionEval Graph.DivisionProofs Graph.DivisionMain
     Puzzle.PuzzleBase Puzzle.SatAbs Puzzle.ModelBase Puzzle.ModelLemmas Puzzle.CreekProofs
     Puzzle.HeyawakeLemmas Puzzle.DivisionCompose Puzzle.Rules_nurikabe Puzzle.Nurikabe.
Import ListNotations.
Local Open Scope nat_scope.

Notation b2z := PuzzleBase.b2z.

(* ------------------------------------------------------------------------ *)
(* A. meaning of the constraints posted after the division_connected call      *)

Definition nk_local (h w : nat) (grid : list Z) (cl : list (nat * nat)) (d : nat -> Z) (b : nat -> bool) : bool :=
  forallb (fun c => Bool.eqb (b (cidx w c)) (negb (d (cidx w c) =? 0)%Z)) (cells h w) &&
  forallb (fun '(y, x) => implb (b (cidx w (y, x)) && b (cidx w (S y, x)))
                                (d (cidx w (y, x)) =? d (cidx w (S y, x)))%Z) (cells (h - 1) w) &&
  forallb (fun '(y, x) => implb (b (cidx w (y, x)) && b (cidx w (y, S x)))
                                (d (cidx w (y, x)) =? d (cidx w (y, S x)))%Z) (cells h (w - 1)) &&
  forallb (fun '(y, x) => b (cidx w (y, x)) || b (cidx w (y, S x)) || b (cidx w (S y, x)) || b (cidx w (S y, S x)))
          (cells (h - 1) (w - 1)) &&
  forallb (fun '(i, (y, x)) =>
             let c := at2 grid w y x in
             if (0 <? c)%Z then (Z.of_nat (count (fun v => (d v =? Z.of_nat (S i))%Z) (seq 0 (h * w))) =? c)%Z else true)
          (combine (seq 0 (length cl)) cl).

Lemma eval_class_size gsem en K n k :
  n <> 0 ->
  eval gsem en (nk_class_size K n k) =
  Some (VI (Z.of_nat (count (fun v => (ei en v =? Z.of_nat k)%Z) (seq 0 n)))).
Proof.
  intros Hn. unfold nk_class_size. cbn [eval]. rewrite map_map.
  rewrite (map_ext _ (fun v => Some (VI (if (ei en v =? Z.of_nat k)%Z then 1 else 0)%Z)))
    by (intros v; simpl; destruct (ei en v =? Z.of_nat k)%Z; reflexivity).
  rewrite <- (map_map (fun v => (if (ei en v =? Z.of_nat k)%Z then 1 else 0)%Z) (fun z => Some (VI z))).
  rewrite eval_iop_add_ints by (destruct n; [contradiction|discriminate]).
  f_equal. f_equal. unfold count, zsum. generalize (seq 0 n). clear.
  induction l as [|a r IH]; [reflexivity|]. cbn [map fold_right filter].
  destruct (ei en a =? Z.of_nat k)%Z; cbn [length]; rewrite IH; lia.
Qed.

Lemma nk_constraints_sem h w grid cl base en :
  forallb (holds division_gsem en) (nk_constraints h w grid cl base) =
  nk_local h w grid cl (ei en) (fun v => eb en (base + v)).
Proof.
  unfold nk_constraints, nk_local. rewrite !forallb_app, !forallb_map, forallb_flat_map, !andb_assoc.
  f_equal; [f_equal; [f_equal; [f_equal|]|]|].
  - apply forallb_ext_in. intros c _. unfold holds, nk_white, nk_div. simpl.
    destruct (eb en (base + cidx w c)), (ei en (cidx w c) =? 0)%Z; reflexivity.
  - apply forallb_ext_in. intros [y x] _. unfold holds, nk_white, nk_div. simpl.
    destruct (eb en (base + cidx w (y, x))), (eb en (base + cidx w (S y, x))),
      (ei en (cidx w (y, x)) =? ei en (cidx w (S y, x)))%Z; reflexivity.
  - apply forallb_ext_in. intros [y x] _. unfold holds, nk_white, nk_div. simpl.
    destruct (eb en (base + cidx w (y, x))), (eb en (base + cidx w (y, S x))),
      (ei en (cidx w (y, x)) =? ei en (cidx w (y, S x)))%Z; reflexivity.
  - apply forallb_ext_in. intros [y x] _. unfold holds, nk_white. simpl.
    destruct (eb en (base + cidx w (y, x))), (eb en (base + cidx w (y, S x))),
      (eb en (base + cidx w (S y, x))), (eb en (base + cidx w (S y, S x))); reflexivity.
  - apply forallb_ext_in. intros [i [y x]] _.
    destruct (0 <? at2 grid w y x)%Z eqn:Ec; [|reflexivity]. cbn [forallb]. rewrite andb_true_r.
    destruct (Nat.eq_dec (h * w) 0) as [E0|N0].
    + rewrite E0. unfold holds. simpl. apply Z.ltb_lt in Ec. destruct (at2 grid w y x); [lia|reflexivity|reflexivity].
    + unfold holds. cbn [eval map]. rewrite (eval_class_size _ _ _ _ _ N0). simpl.
      match goal with |- _ = ?X => destruct X end; reflexivity.
Qed.

Lemma nk_local_ext h w grid cl d d' b b' :
  (forall v, v < h * w -> d v = d' v) -> (forall v, v < h * w -> b v = b' v) ->
  nk_local h w grid cl d b = nk_local h w grid cl d' b'.
Proof.
  intros Ed Eb. unfold nk_local.
  assert (C : forall y x, y < h -> x < w -> cidx w (y, x) < h * w) by (intros; apply (cidx_lt h w); assumption).
  f_equal; [f_equal; [f_equal; [f_equal|]|]|].
  - apply forallb_ext_in. intros [y x] Hc. apply cells_in in Hc. rewrite Ed, Eb by (apply C; lia). reflexivity.
  - apply forallb_ext_in. intros [y x] Hc. apply cells_in in Hc. rewrite !Ed, !Eb by (apply C; lia). reflexivity.
  - apply forallb_ext_in. intros [y x] Hc. apply cells_in in Hc. rewrite !Ed, !Eb by (apply C; lia). reflexivity.
  - apply forallb_ext_in. intros [y x] Hc. apply cells_in in Hc. rewrite !Eb by (apply C; lia). reflexivity.
  - apply forallb_ext_in. intros [i [y x]] _. destruct (0 <? at2 grid w y x)%Z; [|reflexivity].
    f_equal. f_equal. apply count_ext_in. intros v Hv. apply in_seq in Hv. rewrite Ed by lia. reflexivity.
Qed.

(* ------------------------------------------------------------------------ *)
(* B. small list facts                                                        *)

Lemma existsb_false_forallb {A} (f : A -> bool) l : existsb f l = false <-> forallb (fun x => negb (f x)) l = true.
Proof.
  induction l as [|a r IH]; simpl; [tauto|].
  rewrite orb_false_iff, andb_true_iff, IH, negb_true_iff. tauto.
Qed.

Lemma in_combine_seq {A} (d : A) (l : list A) : forall a i c,
  In (i, c) (combine (seq a (length l)) l) <-> (a <= i < a + length l /\ nth (i - a) l d = c).
Proof.
  induction l as [|x r IH]; intros a i c; simpl.
  - split; [intros []|lia].
  - rewrite IH. split.
    + intros [E|[H1 H2]].
      * inversion E; subst. rewrite Nat.sub_diag. split; [lia|reflexivity].
      * split; [lia|]. replace (i - a) with (S (i - S a)) by lia. exact H2.
    + intros [H1 H2]. destruct (Nat.eq_dec i a) as [->|N].
      * left. rewrite Nat.sub_diag in H2. subst. reflexivity.
      * right. split; [lia|]. replace (i - a) with (S (i - S a)) in H2 by lia. exact H2.
Qed.

Lemma zsucc_nonzero k : (Z.of_nat (S k) =? 0)%Z = false.
Proof. apply Z.eqb_neq. lia. Qed.

(* roots given as the cells of a list: the i-th cell carries label k + i *)
Lemma roots_hold_cells h w (d : nat -> Z) : forall (cl : list (nat * nat)) k,
  (forall c, In c cl -> fst c < h /\ snd c < w) ->
  (roots_hold (h * w) d k (map (fun c => grid_root_vertex w (GCell (Z.of_nat (fst c)) (Z.of_nat (snd c)))) cl) = true
   <-> forall i, i < length cl -> d (cidx w (nth i cl (0, 0))) = Z.of_nat (k + i)).
Proof.
  induction cl as [|c cl IH]; intros k Hin.
  - simpl. split; [intros _ i Hi; lia|reflexivity].
  - cbn [map roots_hold].
    destruct (Hin c (or_introl eq_refl)) as [Hy Hx].
    pose proof (grid_root_vertex_cell h w (fst c) (snd c) Hy Hx) as Hv. simpl nv in Hv. rewrite Hv.
    rewrite andb_true_iff, Z.eqb_eq, (IH (S k)) by (intros c' Hc'; apply Hin; right; exact Hc').
    split.
    + intros [H0 Hr] i Hi. destruct i as [|i]; [rewrite Nat.add_0_r; exact H0|].
      simpl in Hi. cbn [nth]. rewrite (Hr i) by lia. f_equal. lia.
    + intros H. split; [specialize (H 0 ltac:(simpl; lia)); rewrite Nat.add_0_r in H; exact H|].
      intros i Hi. specialize (H (S i) ltac:(simpl; lia)). cbn [nth] in H. rewrite H. f_equal. lia.
Qed.

(* ------------------------------------------------------------------------ *)
(* C. the rules vs. "some division satisfies the posted constraints"           *)

Section Core.
  Variables (h w : nat) (grid : list Z) (ans : answer).

  Definition nk_n : nat := h * w.
  Definition nk_g : graph := grid_graph h w.
  Definition nk_wh (v : nat) : bool := isb (getz ans v).
  Definition nk_clue (v : nat) : bool := nurikabe_is_clue (getz grid v).
  Definition nk_cl : list (nat * nat) := nk_clue_cells h w grid.
  Definition nk_cv : list nat := map (cidx w) nk_cl.
  Definition nk_K : nat := length nk_cl.
  Definition nk_group (v : nat) : list nat := component nk_g nk_wh all_edges_ok v.
  Definition nk_roots : option (list root_arg) :=
    Some (map (grid_root_vertex w)
              (GNone :: map (fun c => GCell (Z.of_nat (fst c)) (Z.of_nat (snd c))) nk_cl)).

  Notation n := nk_n. Notation g := nk_g. Notation white := nk_wh. Notation clue := nk_clue.
  Notation cl := nk_cl. Notation cv := nk_cv. Notation K := nk_K. Notation group := nk_group.

  Lemma nk_wf : wf_graph g = true.
  Proof. apply DivisionMain.grid_wf. Qed.

  Lemma cv_eq : cv = filter clue (seq 0 n).
  Proof.
    unfold nk_cv, nk_cl, nk_clue_cells.
    rewrite (filter_ext _ (fun c => clue (cidx w c))) by (intros [y x]; reflexivity).
    rewrite map_filter_comm, cells_cidx. reflexivity.
  Qed.
  Lemma cv_in v : In v cv <-> (v < n /\ clue v = true).
  Proof. rewrite cv_eq, filter_In, in_seq. unfold nk_n. split; intros [H1 H2]; split; try assumption; lia. Qed.
  Lemma cv_nodup : NoDup cv.
  Proof. rewrite cv_eq. apply NoDup_filter. apply seq_NoDup. Qed.
  Lemma cv_len : length cv = K.
  Proof. unfold nk_cv, nk_K. apply map_length. Qed.
  Lemma cv_nth i : nth i cv 0 = cidx w (nth i cl (0, 0)).
  Proof. exact (map_nth (cidx w) cl (0, 0) i). Qed.
  Lemma cl_in c : In c cl -> fst c < h /\ snd c < w.
  Proof.
    unfold nk_cl, nk_clue_cells. rewrite filter_In. intros [H _]. destruct c as [y x]. apply cells_in in H. exact H.
  Qed.
  Lemma cv_index v : In v cv -> index_of v cv < K /\ nth (index_of v cv) cv 0 = v.
  Proof. intros H. rewrite <- cv_len. apply index_of_nth. exact H. Qed.

  (* ---- the rule specification, conjunct by conjunct *)
  Definition nk_R2 : bool := forallb (fun v => negb (clue v) || white v) (seq 0 n).
  Definition nk_R3 : bool :=
    forallb (fun v => negb (white v) ||
                      match filter clue (group v) with
                      | [u] => (getz grid u =? -1)%Z || (Z.of_nat (length (group v)) =? getz grid u)%Z
                      | _ => false
                      end) (seq 0 n).
  Definition nk_R4 : bool := connected_b g (fun v => negb (white v)).
  Definition nk_R5 : bool := negb (has_2x2 h w (fun y x => negb (white (y * w + x)))).

  Lemma rules_nurikabe_split :
    rules_nurikabe [[Z.of_nat h; Z.of_nat w]; grid] ans =
    Nat.eqb (length ans) n && forallb is01 ans && nk_R2 && nk_R3 && nk_R4 && nk_R5.
  Proof.
    unfold rules_nurikabe. destruct (dims2c h w [grid]) as [-> ->].
    change (sec [[Z.of_nat h; Z.of_nat w]; grid] 1) with grid. reflexivity.
  Qed.

  Definition nk_P2 : Prop := forall v, v < n -> clue v = true -> white v = true.
  Definition nk_P3 : Prop := forall v, v < n -> white v = true ->
    exists u, filter clue (group v) = [u] /\
              (getz grid u = (-1)%Z \/ Z.of_nat (length (group v)) = getz grid u).

  Lemma nk_R2_spec : nk_R2 = true <-> nk_P2.
  Proof.
    unfold nk_R2, nk_P2. rewrite forallb_forall. split.
    - intros H v Hv Hc. specialize (H v ltac:(apply in_seq; unfold nk_n in *; lia)). rewrite Hc in H. exact H.
    - intros H v Hv. apply in_seq in Hv. destruct (clue v) eqn:E; [|reflexivity]. simpl. apply H; [unfold nk_n in *; lia|exact E].
  Qed.
  Lemma nk_R3_spec : nk_R3 = true <-> nk_P3.
  Proof.
    unfold nk_R3, nk_P3. rewrite forallb_forall. split.
    - intros H v Hv Hw. specialize (H v ltac:(apply in_seq; unfold nk_n in *; lia)). rewrite Hw in H. simpl in H.
      destruct (filter clue (group v)) as [|u [|u' r]]; try discriminate. exists u. split; [reflexivity|].
      apply orb_true_iff in H. destruct H as [H|H]; apply Z.eqb_eq in H; [left|right]; exact H.
    - intros H v Hv. apply in_seq in Hv. destruct (white v) eqn:E; [|reflexivity]. simpl.
      destruct (H v ltac:(unfold nk_n in *; lia) E) as [u [-> Hc]]. apply orb_true_iff.
      destruct Hc as [Hc|Hc]; [left|right]; apply Z.eqb_eq; exact Hc.
  Qed.

  (* ---- the posted constraints as propositions *)
  Definition nk_W (d : nat -> Z) (b : nat -> bool) : Prop := forall v, v < n -> b v = negb (d v =? 0)%Z.
  Definition nk_A (d : nat -> Z) (b : nat -> bool) : Prop :=
    forall u v, grid_adj h w u v -> b u = true -> b v = true -> d u = d v.
  Definition nk_B (b : nat -> bool) : Prop := has_2x2 h w (fun y x => negb (b (y * w + x))) = false.
  Definition nk_C (d : nat -> Z) : Prop :=
    forall i, i < K -> (0 < getz grid (nth i cv 0%nat))%Z ->
              Z.of_nat (count (fun v => (d v =? Z.of_nat (S i))%Z) (seq 0 n)) = getz grid (nth i cv 0).

  Lemma nk_local_props d b :
    nk_local h w grid cl d b = true <-> (nk_W d b /\ nk_A d b /\ nk_B b /\ nk_C d).
  Proof.
    unfold nk_local. rewrite !andb_true_iff.
    assert (EW : forallb (fun c => Bool.eqb (b (cidx w c)) (negb (d (cidx w c) =? 0)%Z)) (cells h w) = true <-> nk_W d b).
    { rewrite (forallb_cells_seq h w (fun v => Bool.eqb (b v) (negb (d v =? 0)%Z))), forallb_forall. unfold nk_W, nk_n.
      split.
      - intros H v Hv. apply eqb_prop. apply H. apply in_seq. lia.
      - intros H v Hv. apply in_seq in Hv. rewrite (H v) by lia. apply eqb_reflx. }
    assert (EA : (forallb (fun '(y, x) => implb (b (cidx w (y, x)) && b (cidx w (S y, x)))
                                            (d (cidx w (y, x)) =? d (cidx w (S y, x)))%Z) (cells (h - 1) w) = true /\
                  forallb (fun '(y, x) => implb (b (cidx w (y, x)) && b (cidx w (y, S x)))
                                            (d (cidx w (y, x)) =? d (cidx w (y, S x)))%Z) (cells h (w - 1)) = true)
                 <-> nk_A d b).
    { rewrite !forallb_forall. unfold nk_A. split.
      - intros [HV HH] u v [y [x [Hy [Hx [Eu [[Hx' Ev]|[Hy' Ev]]]]]]] Bu Bv; subst u v.
        + specialize (HH (y, x) ltac:(apply cells_in; lia)). cbv beta iota in HH. unfold cidx in HH; cbn [fst snd] in HH.
          rewrite Bu, Bv in HH. simpl in HH. apply Z.eqb_eq. exact HH.
        + specialize (HV (y, x) ltac:(apply cells_in; lia)). cbv beta iota in HV. unfold cidx in HV; cbn [fst snd] in HV.
          rewrite Bu, Bv in HV. simpl in HV. apply Z.eqb_eq. exact HV.
      - intros H. split; intros [y x] Hc; apply cells_in in Hc; unfold cidx; cbn [fst snd].
        + destruct (b (y * w + x)) eqn:B1; [|reflexivity]. destruct (b (S y * w + x)) eqn:B2; [|reflexivity]. simpl.
          apply Z.eqb_eq. apply H; [|exact B1|exact B2]. exists y, x. split; [lia|]. split; [lia|]. split; [reflexivity|].
          right. split; [lia|reflexivity].
        + destruct (b (y * w + x)) eqn:B1; [|reflexivity]. destruct (b (y * w + S x)) eqn:B2; [|reflexivity]. simpl.
          apply Z.eqb_eq. apply H; [|exact B1|exact B2]. exists y, x. split; [lia|]. split; [lia|]. split; [reflexivity|].
          left. split; [lia|reflexivity]. }
    assert (EB : forallb (fun '(y, x) => b (cidx w (y, x)) || b (cidx w (y, S x)) || b (cidx w (S y, x)) || b (cidx w (S y, S x)))
                         (cells (h - 1) (w - 1)) = true <-> nk_B b).
    { unfold nk_B, has_2x2. rewrite existsb_false_forallb. apply eq_iff_eq_true. apply forallb_ext_in.
      intros [y x] _. unfold cidx; cbn [fst snd].
      destruct (b (y * w + x)), (b (y * w + S x)), (b (S y * w + x)), (b (S y * w + S x)); reflexivity. }
    assert (EC : forallb (fun '(i, (y, x)) =>
                    let c := at2 grid w y x in
                    if (0 <? c)%Z then (Z.of_nat (count (fun v => (d v =? Z.of_nat (S i))%Z) (seq 0 (h * w))) =? c)%Z else true)
                   (combine (seq 0 (length cl)) cl) = true <-> nk_C d).
    { rewrite forallb_forall. unfold nk_C. split.
      - intros H i Hi Hpos. rewrite cv_nth in *. destruct (nth i cl (0, 0)) as [y x] eqn:E.
        specialize (H (i, (y, x))). cbv beta iota zeta in H.
        change (getz grid (cidx w (y, x))) with (at2 grid w y x) in *.
        apply Z.ltb_lt in Hpos. rewrite Hpos in H. apply Z.eqb_eq. apply H.
        apply (in_combine_seq (0, 0)). split; [unfold nk_K in Hi; lia|]. rewrite Nat.sub_0_r. exact E.
      - intros H [i [y x]] Hin. apply (in_combine_seq (0, 0)) in Hin. destruct Hin as [Hi E]. rewrite Nat.sub_0_r in E.
        cbv beta iota zeta. destruct (0 <? at2 grid w y x)%Z eqn:Hpos; [|reflexivity].
        apply Z.eqb_eq. specialize (H i ltac:(unfold nk_K; lia)). rewrite cv_nth, E in H.
        apply H. apply Z.ltb_lt. exact Hpos. }
    rewrite <- EW, <- EA, <- EB, <- EC. tauto.
  Qed.

  Lemma nk_adj_nbrs d : nk_A d white ->
    forall x y, x < nv g -> In y (nbrs g all_edges_ok x) -> white x = true -> white y = true -> d x = d y.
  Proof.
    intros HA x y _ Hn Hx Hy. unfold nk_g in Hn. apply grid_nbrs in Hn. destruct Hn as [Hn|Hn].
    - apply HA; assumption.
    - symmetry. apply HA; assumption.
  Qed.

  (* ---- a division satisfying the posted constraints makes the grid obey the rules *)
  Lemma nk_sound d :
    (forall v, v < n -> (0 <= d v <= Z.of_nat K)%Z) ->
    spec_division g (S K) d nk_roots true ->
    nk_W d white -> nk_A d white -> nk_B white -> nk_C d ->
    nk_P2 /\ nk_P3 /\ connected g (fun v => negb (white v)) /\ nk_R5 = true.
  Proof.
    intros Hb [Hconn [_ Hroots]] HW HA HB HC.
    assert (Hroot : forall i, i < K -> d (nth i cv 0) = Z.of_nat (S i)).
    { unfold nk_roots in Hroots. cbn [opt_roots_b map] in Hroots.
      change (roots_hold (h * w) d 1 (map (grid_root_vertex w)
                (map (fun c => GCell (Z.of_nat (fst c)) (Z.of_nat (snd c))) cl)) = true) in Hroots.
      rewrite map_map in Hroots.
      pose proof (proj1 (roots_hold_cells h w d cl 1 cl_in) Hroots) as Hr.
      intros i Hi. rewrite cv_nth. apply Hr. exact Hi. }
    split; [|split; [|split]].
    - intros v Hv Hc. assert (Hin : In v cv) by (apply cv_in; split; assumption).
      destruct (cv_index v Hin) as [Hi Hn]. pose proof (Hroot _ Hi) as Hr. rewrite Hn in Hr.
      rewrite (HW v Hv), Hr, zsucc_nonzero. reflexivity.
    - intros v Hv Hw.
      pose proof (HW v Hv) as Hdv. rewrite Hw in Hdv.
      assert (Hnz : d v <> 0%Z) by (intros E; rewrite E in Hdv; discriminate).
      destruct (Hb v Hv) as [Hlo Hhi].
      set (k := Z.to_nat (d v)). assert (Hk : 1 <= k <= K) by lia. assert (Hdk : d v = Z.of_nat k) by lia.
      set (u := nth (k - 1) cv 0).
      assert (Hdu : d u = Z.of_nat k) by (unfold u; rewrite Hroot by lia; f_equal; lia).
      assert (Hucv : In u cv) by (apply nth_In; rewrite cv_len; lia).
      destruct (proj1 (cv_in u) Hucv) as [Hun Huc].
      assert (Hsub : forall x, x < nv g -> class_of d k x = true -> white x = true).
      { intros x Hx Hc. unfold class_of in Hc. apply Z.eqb_eq in Hc. rewrite (HW x Hx), Hc.
        destruct k; [lia|]. rewrite zsucc_nonzero. reflexivity. }
      pose proof (component_is_class g nk_wf d white (nk_adj_nbrs d HA) k v Hv Hw Hdk (Hconn k ltac:(lia)) Hsub) as Hcomp.
      exists u. split.
      + apply filter_singleton; [apply component_nodup|apply Hcomp; split; assumption|exact Huc|].
        intros x Hx Hxc. apply Hcomp in Hx. destruct Hx as [Hxn Hdx].
        assert (Hxcv : In x cv) by (apply cv_in; split; assumption).
        destruct (cv_index x Hxcv) as [Hi Hn']. pose proof (Hroot _ Hi) as Hr. rewrite Hn' in Hr.
        assert (Hik : index_of x cv = k - 1) by lia. unfold u. rewrite <- Hik. symmetry. exact Hn'.
      + unfold nk_clue, nurikabe_is_clue in Huc. apply orb_true_iff in Huc. destruct Huc as [Hc|Hc].
        * right. apply Z.leb_le in Hc. unfold nk_group.
          rewrite <- (class_size_component g d white k v Hcomp).
          pose proof (HC (k - 1) ltac:(lia)) as HC'. fold u in HC'. replace (S (k - 1)) with k in HC' by lia.
          apply HC'. lia.
        * left. apply Z.eqb_eq. exact Hc.
    - apply (connected_ext_below g (class_of d 0)); [apply nk_wf| |apply Hconn; lia].
      intros x Hx. unfold class_of. rewrite (HW x Hx), negb_involutive. reflexivity.
    - unfold nk_R5. unfold nk_B in HB. rewrite HB. reflexivity.
  Qed.

  (* ---- a grid obeying the rules has such a division: wall cells 0, an island = 1 + the position of its clue *)
  Definition nk_clue_of (v : nat) : nat := hd 0 (filter clue (group v)).
  Definition nk_lab (v : nat) : Z :=
    if white v then Z.of_nat (S (index_of (nk_clue_of v) cv)) else 0%Z.

  Section Complete.
    Hypothesis H2 : nk_P2.
    Hypothesis H3 : nk_P3.
    Hypothesis H4 : connected g (fun v => negb (white v)).
    Hypothesis H5 : nk_R5 = true.

    Lemma nk_F1 v : v < n -> white v = true ->
      filter clue (group v) = [nk_clue_of v] /\ In (nk_clue_of v) (group v) /\ clue (nk_clue_of v) = true /\
      nk_clue_of v < n /\ In (nk_clue_of v) cv /\
      (getz grid (nk_clue_of v) = (-1)%Z \/ Z.of_nat (length (group v)) = getz grid (nk_clue_of v)).
    Proof.
      intros Hv Hw. destruct (H3 v Hv Hw) as [u [Ef Hval]]. unfold nk_clue_of. rewrite Ef. cbn [hd].
      assert (Hin : In u (filter clue (group v))) by (rewrite Ef; left; reflexivity).
      apply filter_In in Hin. destruct Hin as [Hin Hc].
      assert (Hu : u < n) by (apply (component_lt g white all_edges_ok v u nk_wf Hv Hin)).
      split; [reflexivity|]. split; [exact Hin|]. split; [exact Hc|]. split; [exact Hu|].
      split; [apply cv_in; split; assumption|exact Hval].
    Qed.

    Lemma nk_F2 v x : v < n -> white v = true -> reach g white all_edges_ok v x -> nk_clue_of x = nk_clue_of v.
    Proof.
      intros Hv Hw Hr.
      assert (Hx : x < n) by (apply (reach_lt g white all_edges_ok v x nk_wf Hv Hr)).
      assert (Hwx : white x = true) by (eapply reach_vok_end; exact Hr).
      destruct (nk_F1 v Hv Hw) as [_ [Hin [Hc _]]]. destruct (nk_F1 x Hx Hwx) as [Efx _].
      assert (Hin2 : In (nk_clue_of v) (group x)).
      { apply component_complete; [apply nk_wf|exact Hx|].
        apply reach_trans with v; [apply reach_sym; exact Hr|apply component_sound; exact Hin]. }
      assert (Hf : In (nk_clue_of v) (filter clue (group x))) by (apply filter_In; split; assumption).
      rewrite Efx in Hf. destruct Hf as [Hf|[]]. exact Hf.
    Qed.

    Lemma nk_F3 r : In r cv -> r < n /\ white r = true /\ nk_clue_of r = r /\ nk_lab r = Z.of_nat (S (index_of r cv)).
    Proof.
      intros Hin. destruct (proj1 (cv_in r) Hin) as [Hr Hc]. pose proof (H2 r Hr Hc) as Hw.
      destruct (nk_F1 r Hr Hw) as [Ef _].
      assert (Hrr : nk_clue_of r = r).
      { destruct (component_head g white all_edges_ok r Hw) as [t Ht].
        assert (Hf : In r (filter clue (group r))).
        { apply filter_In. split; [unfold nk_group; rewrite Ht; left; reflexivity|exact Hc]. }
        rewrite Ef in Hf. destruct Hf as [Hf|[]]. exact Hf. }
      split; [exact Hr|]. split; [exact Hw|]. split; [exact Hrr|]. unfold nk_lab. rewrite Hw, Hrr. reflexivity.
    Qed.

    Lemma nk_lab_bounds v : v < n -> (0 <= nk_lab v <= Z.of_nat K)%Z.
    Proof.
      intros Hv. unfold nk_lab. destruct (white v) eqn:Hw; [|lia].
      destruct (nk_F1 v Hv Hw) as [_ [_ [_ [_ [Hcv _]]]]]. destruct (cv_index _ Hcv) as [Hi _]. lia.
    Qed.

    Lemma nk_lab_white x k : nk_lab x = Z.of_nat (S k) -> white x = true /\ index_of (nk_clue_of x) cv = k.
    Proof. unfold nk_lab. destruct (white x); intros H; [split; [reflexivity|lia]|lia]. Qed.

    Lemma nk_class_group i : i < K ->
      forall x, In x (component g white all_edges_ok (nth i cv 0)) <-> (x < nv g /\ nk_lab x = Z.of_nat (S i)).
    Proof.
      intros Hi x. set (u := nth i cv 0).
      assert (Hucv : In u cv) by (apply nth_In; rewrite cv_len; exact Hi).
      destruct (nk_F3 u Hucv) as [Hu [Hwu [Huu _]]]. split.
      - intros Hx. pose proof (component_sound _ _ _ _ _ Hx) as Hr.
        assert (Hxn : x < n) by (apply (component_lt g white all_edges_ok u x nk_wf Hu Hx)).
        split; [exact Hxn|]. pose proof (nk_F2 u x Hu Hwu Hr) as E. rewrite Huu in E.
        unfold nk_lab. rewrite (reach_vok_end _ _ _ _ _ Hr), E. unfold u.
        rewrite (index_of_nodup cv cv_nodup i) by (rewrite cv_len; exact Hi). reflexivity.
      - intros [Hxn Hl]. destruct (nk_lab_white x i Hl) as [Hwx Hix].
        destruct (nk_F1 x Hxn Hwx) as [_ [Hin [_ [_ [Hcv _]]]]]. destruct (cv_index _ Hcv) as [_ Hnth].
        rewrite Hix in Hnth. fold u in Hnth.
        apply component_complete; [apply nk_wf|exact Hu|]. apply reach_sym. rewrite Hnth.
        apply component_sound. exact Hin.
    Qed.

    Lemma nk_complete :
      (forall v, v < n -> (0 <= nk_lab v <= Z.of_nat K)%Z) /\
      spec_division g (S K) nk_lab nk_roots true /\
      nk_W nk_lab white /\ nk_A nk_lab white /\ nk_B white /\ nk_C nk_lab.
    Proof.
      split; [exact nk_lab_bounds|]. split; [|split; [|split; [|split]]].
      - split; [|split].
        + intros k Hk. destruct k as [|k].
          * apply (connected_ext_below g (fun v => negb (white v))); [apply nk_wf| |exact H4].
            intros x Hx. unfold class_of, nk_lab. destruct (white x); [rewrite zsucc_nonzero|]; reflexivity.
          * intros u v Hu Hv Cu Cv. unfold class_of in Cu, Cv. apply Z.eqb_eq in Cu. apply Z.eqb_eq in Cv.
            destruct (nk_lab_white u k Cu) as [Wu Iu]. destruct (nk_lab_white v k Cv) as [Wv Iv].
            destruct (nk_F1 u Hu Wu) as [_ [Hinu [_ [_ [Hcvu _]]]]].
            destruct (nk_F1 v Hv Wv) as [_ [Hinv [_ [_ [Hcvv _]]]]].
            destruct (cv_index _ Hcvu) as [_ Nu]. destruct (cv_index _ Hcvv) as [_ Nv].
            rewrite Iu in Nu. rewrite Iv in Nv.
            assert (Huv : reach g white all_edges_ok u v).
            { apply reach_trans with (nk_clue_of u); [apply component_sound; exact Hinu|].
              apply reach_sym. rewrite <- Nu, Nv. apply component_sound. exact Hinv. }
            apply (reach_within g white (class_of nk_lab (S k)) u v Huv). intros x Hx.
            pose proof (nk_F2 u x Hu Wu Hx) as E. unfold class_of, nk_lab.
            rewrite (reach_vok_end _ _ _ _ _ Hx), E, Iu. apply Z.eqb_refl.
        + intros Ha. discriminate Ha.
        + unfold nk_roots. cbn [opt_roots_b map].
          change (roots_hold (h * w) nk_lab 1 (map (grid_root_vertex w)
                    (map (fun c => GCell (Z.of_nat (fst c)) (Z.of_nat (snd c))) cl)) = true).
          rewrite map_map. apply (roots_hold_cells h w nk_lab cl 1 cl_in). intros i Hi. rewrite <- cv_nth.
          assert (Hucv : In (nth i cv 0) cv) by (apply nth_In; rewrite cv_len; exact Hi).
          destruct (nk_F3 _ Hucv) as [_ [_ [_ Hl]]]. rewrite Hl.
          rewrite (index_of_nodup cv cv_nodup i) by (rewrite cv_len; exact Hi). reflexivity.
      - intros v Hv. unfold nk_lab. destruct (white v); [rewrite zsucc_nonzero|]; reflexivity.
      - intros u v Hadj Hu Hv.
        assert (Hun : u < n).
        { destruct Hadj as [y [x [Hy [Hx [Eu _]]]]]. subst u. apply DivisionMain.grid_cell_lt; assumption. }
        assert (Hr : reach g white all_edges_ok u v).
        { eapply reach_step; [apply reach_refl; exact Hu| |exact Hv]. unfold nk_g. apply grid_nbrs. left. exact Hadj. }
        pose proof (nk_F2 u v Hun Hu Hr) as E. unfold nk_lab. rewrite Hu, Hv, E. reflexivity.
      - unfold nk_B. unfold nk_R5 in H5. apply negb_true_iff in H5. exact H5.
      - intros i Hi Hpos. set (u := nth i cv 0) in *.
        assert (Hucv : In u cv) by (apply nth_In; rewrite cv_len; exact Hi).
        destruct (nk_F3 u Hucv) as [Hu [Hwu [Huu _]]].
        destruct (nk_F1 u Hu Hwu) as [_ [_ [_ [_ [_ Hval]]]]]. rewrite Huu in Hval.
        destruct Hval as [Hval|Hval]; [lia|]. rewrite <- Hval. f_equal.
        apply (class_size_component g nk_lab white (S i) u (nk_class_group i Hi)).
    Qed.
  End Complete.

  (* ---- both directions together *)
  Theorem nk_rules_iff_division :
    (nk_R2 && nk_R3 && nk_R4 && nk_R5 = true) <->
    (exists d, (forall v, v < n -> (0 <= d v <= Z.of_nat K)%Z) /\
               spec_division g (S K) d nk_roots true /\
               nk_local h w grid cl d white = true).
  Proof.
    rewrite !andb_true_iff, nk_R2_spec, nk_R3_spec. unfold nk_R4. rewrite (connected_b_spec g _ nk_wf). split.
    - intros [[[P2 P3] P4] P5]. exists nk_lab.
      destruct (nk_complete P2 P3 P4 P5) as [Hb [Hs HL]]. split; [exact Hb|]. split; [exact Hs|].
      apply nk_local_props. exact HL.
    - intros [d [Hb [Hs HL]]]. apply nk_local_props in HL. destruct HL as [HW [HA [HB HC]]].
      destruct (nk_sound d Hb Hs HW HA HB HC) as [P2 [P3 [P4 P5]]]. tauto.
  Qed.
End Core.

(* ------------------------------------------------------------------------ *)
(* D. the theorem                                                            *)

Lemma nk_roots_args (cl : list (nat * nat)) :
  RNone :: map nk_root cl =
  map grid_root_arg (GNone :: map (fun c => GCell (Z.of_nat (fst c)) (Z.of_nat (snd c))) cl).
Proof. simpl. f_equal. rewrite map_map. apply map_ext. intros c. reflexivity. Qed.

Theorem nurikabe_exact h w grid st ans :
  solve_nurikabe_model [[Z.of_nat h; Z.of_nat w]; grid] = Ok st ->
  ((exists en, model_of division_gsem en st /\ reads st en (key_ids st) = ans)
   <-> rules_nurikabe [[Z.of_nat h; Z.of_nat w]; grid] ans = true).
Proof.
  unfold solve_nurikabe_model. destruct (dims2c h w [grid]) as [-> ->].
  change (sec [[Z.of_nat h; Z.of_nat w]; grid] 1) with grid.
  destruct (Nat.ltb (length grid) (h * w)); [discriminate|].
  set (cl := nk_clue_cells h w grid).
  destruct (int_array empty_state (h * w) 0 (Z.of_nat (length cl))) as [[st0 division]|e] eqn:Hdecl; [|discriminate].
  destruct (division_connected st0 (D2 h w division) (S (length cl)) None (Some (RNone :: map nk_root cl)) true false)
    as [st1|e] eqn:Hcall; [|discriminate].
  intros H. inversion H; subst st; clear H.
  rewrite nk_roots_args in Hcall.
  pose proof (division_grid_compose h w (Z.of_nat (length cl)) (S (length cl)) _ true st0 division st1 Hdecl Hcall
                (nk_constraints h w grid cl (next_id st1)) (nk_local h w grid cl)
                (nk_constraints_sem h w grid cl (next_id st1)) (nk_local_ext h w grid cl) ans) as HC.
  unfold division_final_state in HC. rewrite HC. clear HC.
  rewrite rules_nurikabe_split.
  pose proof (nk_rules_iff_division h w grid ans) as HR.
  unfold nk_n, nk_g, nk_K, nk_roots, nk_cl, nk_wh in *. fold cl in HR.
  rewrite <- HR. rewrite !andb_true_iff, Nat.eqb_eq. tauto.
Qed.

(* the answer keys are the is_white variables, declared last *)
Lemma nurikabe_key_ids h w grid st :
  solve_nurikabe_model [[Z.of_nat h; Z.of_nat w]; grid] = Ok st ->
  key_ids st = seq (3 * (h * w) + length (grid_edges h w)) (h * w).
Proof.
  unfold solve_nurikabe_model. destruct (dims2c h w [grid]) as [-> ->].
  change (sec [[Z.of_nat h; Z.of_nat w]; grid] 1) with grid.
  destruct (Nat.ltb (length grid) (h * w)); [discriminate|].
  set (cl := nk_clue_cells h w grid).
  destruct (int_array empty_state (h * w) 0 (Z.of_nat (length cl))) as [[st0 division]|e] eqn:Hdecl; [|discriminate].
  destruct (division_connected st0 (D2 h w division) (S (length cl)) None (Some (RNone :: map nk_root cl)) true false)
    as [st1|e] eqn:Hcall; [|discriminate].
  intros H. inversion H; subst st; clear H.
  rewrite nk_roots_args in Hcall.
  pose proof (compose_keys h w _ _ _ true st0 division st1 Hdecl Hcall (nk_constraints h w grid cl (next_id st1))) as HK.
  unfold division_final_state in HK. rewrite HK.
  rewrite (compose_base h w _ _ _ true st0 division st1 Hdecl Hcall). f_equal. lia.
Qed.

(* the model is defined (returns a state) on every board with at least one cell and a full clue list *)
Example nurikabe_model_ok :
  exists st, solve_nurikabe_model [[2; 3]; [2; 0; 0; 0; 0; -1]]%Z = Ok st.
Proof. vm_compute. eexists. reflexivity. Qed.

(* the hypothesis of nurikabe_exact holds exactly for the boards with at least one cell and a full clue list
   (otherwise the Python raises: ValueError in division_connected for a board without cells, IndexError for a
   missing / short row) *)
Theorem nurikabe_model_defined h w grid :
  (exists st, solve_nurikabe_model [[Z.of_nat h; Z.of_nat w]; grid] = Ok st) <-> (0 < h * w <= length grid).
Proof.
  unfold solve_nurikabe_model. destruct (dims2c h w [grid]) as [-> ->].
  change (sec [[Z.of_nat h; Z.of_nat w]; grid] 1) with grid.
  destruct (Nat.ltb_spec (length grid) (h * w)) as [Hl|Hl]; [split; [intros [st Hst]; discriminate|lia]|].
  set (cl := nk_clue_cells h w grid).
  unfold int_array. destruct (Z.ltb_spec (Z.of_nat (length cl)) 0); [lia|].
  rewrite int_vars_spec. rewrite nk_roots_args, division_grid_roots.
  set (st0 := add_decls empty_state (repeat (DInt 0 (Z.of_nat (length cl))) (h * w))).
  set (data := map (fun i => IVar (next_id empty_state + i) 0 (Z.of_nat (length cl))) (seq 0 (h * w))).
  destruct (Nat.eq_dec (h * w) 0) as [E0|N0].
  - rewrite (division_zero_vertices st0 (SArr data)) by (simpl; exact E0). split; [intros [st Hst]; discriminate|lia].
  - split; [lia|]. intros _.
    destruct (post_division_defined st0 (SArr data) (S (length cl)) (grid_graph h w)
                (map (grid_root_vertex w) (GNone :: map (fun c => GCell (Z.of_nat (fst c)) (Z.of_nat (snd c))) cl)) true)
      as [st1 Hst1].
    + apply DivisionMain.grid_wf.
    + simpl. lia.
    + simpl. unfold data. rewrite map_length, seq_length. reflexivity.
    + simpl seq_data. unfold data. apply labels_ok_vars. intros i Hi. apply in_seq in Hi.
      unfold st0, next_id, add_decls; simpl. rewrite repeat_length. lia.
    + cbn [map]. constructor; [exact I|]. rewrite map_map. rewrite Forall_map. apply Forall_forall.
      intros c Hc. destruct (cl_in h w grid c Hc) as [Hy Hx]. simpl.
      pose proof (DivisionMain.grid_cell_lt h w (fst c) (snd c) Hy Hx). lia.
    + rewrite Hst1. eexists; reflexivity.
Qed.
