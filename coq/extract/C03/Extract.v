Require Extraction.
Require Import ExtrOcamlBasic.
(* Coq's [string] would be extracted as a type named string and shadow OCaml's own in the
   shared zutil.ml / exprio.ml; the standard ExtrOcamlString maps ascii -> char, string -> char list *)
Require Import ExtrOcamlString.
From Coq Require Import ZArith List String.
Require Import Cspuz.Lib.PyErr Cspuz.Core.Expr Cspuz.Core.Program Cspuz.Backend.SugarText Cspuz.Backend.Sugar Cspuz.Backend.SugarReply Cspuz.Backend.SugarGraphSem Cspuz.Backend.SugarHistory .
Extraction "model.ml" Z.add Nat.add pyerr_code eval vars
  print_expr print_var description description_k parse_answer parse_deduction key_names
  native_deduction uses_subprocess entry_point
  sx_parse sx_parse_all sugar_sem decl_of_sexp sugar_decls sugar_constraints java_load java_reply
  format_answer format_deduction graph_sem
  history_description
  py_int strip split_on contains pz.
