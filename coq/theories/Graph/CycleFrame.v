(* C06 -- _from_grid_frame: the edge list and graph built from a BoolGridFrame are
   the lattice segments of the frame, and the wrappers reshape the result to
   (height + 1, width + 1). *)
From Coq Require Import ZArith List Bool Arith Lia.
From Cspuz Require Import Lib.PyErr Core.Expr Core.Program Core.Build
  Graph.GraphModel Graph.ReachProofs Graph.Cycle Graph.CycleLemmas Graph.CycleCert
  Graph.CycleProofs Graph.CycleMain.
Import ListNotations.
Open Scope nat_scope.

Lemma even_2k1 y : Nat.even (y * 2 + 1) = false.
Proof. rewrite Nat.even_add, Nat.even_mul. simpl. rewrite orb_true_r. reflexivity. Qed.
Lemma even_2k x : Nat.even (x * 2) = true.
Proof. rewrite Nat.even_mul. simpl. apply orb_true_r. Qed.
Lemma div_2k1 y : (y * 2 + 1) / 2 = y.
Proof. rewrite Nat.div_add_l by lia. simpl. lia. Qed.
Lemma div_2k x : (x * 2) / 2 = x.
Proof. apply Nat.div_mul. lia. Qed.

Section Frame.
  Variables (h w : nat) (hor ver : list expr).
  Hypothesis Hhor : length hor = S h * w.
  Hypothesis Hver : length ver = h * S w.

  (* the frame's two arrays by (row, column) *)
  Definition hseg (y x : nat) : expr := nth (y * w + x) hor PyNone.      (* horizontal[y, x] *)
  Definition vseg (y x : nat) : expr := nth (y * S w + x) ver PyNone.    (* vertical[y, x] *)

  Lemma frame_get_v y x :
    y < h -> x <= w -> frame_get h w hor ver (y * 2 + 1) (x * 2) = Ok (vseg y x).
  Proof.
    intros Hy Hx. unfold frame_get.
    replace ((y * 2 + 1 <=? h * 2) && (x * 2 <=? w * 2)) with true.
    2:{ symmetry. apply andb_true_iff. split; apply Nat.leb_le; lia. }
    simpl negb. cbv iota. unfold Nat.odd. rewrite even_2k1, even_2k. cbn [andb negb].
    rewrite div_2k1, div_2k. unfold arr2_get.
    replace ((y <? h) && (x <? S w)) with true.
    2:{ symmetry. apply andb_true_iff. split; apply Nat.ltb_lt; lia. }
    apply py_nth_ok. rewrite Hver. nia.
  Qed.

  Lemma frame_get_h y x :
    y <= h -> x < w -> frame_get h w hor ver (y * 2) (x * 2 + 1) = Ok (hseg y x).
  Proof.
    intros Hy Hx. unfold frame_get.
    replace ((y * 2 <=? h * 2) && (x * 2 + 1 <=? w * 2)) with true.
    2:{ symmetry. apply andb_true_iff. split; apply Nat.leb_le; lia. }
    simpl negb. cbv iota. unfold Nat.odd. rewrite even_2k1, even_2k. cbn [andb negb].
    rewrite div_2k1, div_2k. unfold arr2_get.
    replace ((y <? S h) && (x <? w)) with true.
    2:{ symmetry. apply andb_true_iff. split; apply Nat.ltb_lt; lia. }
    apply py_nth_ok. rewrite Hhor. nia.
  Qed.

  (* the pure reading of one iteration of the double loop *)
  Definition cell (yx : nat * nat) : list (expr * (nat * nat)) :=
    let '(y, x) := yx in
    (if negb (y =? h) then [(vseg y x, (y * S w + x, S y * S w + x))] else []) ++
    (if negb (x =? w) then [(hseg y x, (y * S w + x, y * S w + S x))] else []).

  Lemma frame_cell_ok yx :
    In yx (list_prod (seq 0 (S h)) (seq 0 (S w))) -> frame_cell h w hor ver yx = Ok (cell yx).
  Proof.
    destruct yx as [y x]. rewrite in_prod_iff, !in_seq. intros [Hy Hx]. unfold frame_cell, cell.
    destruct (Nat.eqb_spec y h) as [Ey|Ey]; destruct (Nat.eqb_spec x w) as [Ex|Ex]; simpl negb; cbv iota.
    - reflexivity.
    - rewrite frame_get_h by lia. reflexivity.
    - rewrite frame_get_v by lia. reflexivity.
    - rewrite frame_get_v by lia. simpl. rewrite frame_get_h by lia. reflexivity.
  Qed.

  Definition frame_all : list (expr * (nat * nat)) :=
    concat (map cell (list_prod (seq 0 (S h)) (seq 0 (S w)))).
  Definition frame_edges : list expr := map fst frame_all.
  Definition frame_graph : graph := {| nv := S h * S w; edges := map snd frame_all |}.

  Lemma from_grid_frame_ok : from_grid_frame h w hor ver = Ok (frame_edges, frame_graph).
  Proof.
    unfold from_grid_frame. rewrite (mapM_all_ok _ cell) by (intros yx Hyx; apply frame_cell_ok; exact Hyx).
    reflexivity.
  Qed.

  (* segment e joins lattice points a and b (point (y, x) is y * (w+1) + x) *)
  Definition segment (e : expr) (a b : nat) : Prop :=
    (exists y x, y < h /\ x <= w /\ e = vseg y x /\ a = y * S w + x /\ b = S y * S w + x) \/
    (exists y x, y <= h /\ x < w /\ e = hseg y x /\ a = y * S w + x /\ b = y * S w + S x).

  Lemma frame_all_spec e a b : In (e, (a, b)) frame_all <-> segment e a b.
  Proof.
    unfold frame_all. rewrite in_concat. split.
    - intros [l [Hl Hin]]. apply in_map_iff in Hl. destruct Hl as [[y x] [<- Hyx]].
      apply in_prod_iff in Hyx. rewrite !in_seq in Hyx. destruct Hyx as [Hy Hx].
      unfold cell in Hin. apply in_app_iff in Hin.
      destruct Hin as [Hin|Hin].
      + destruct (Nat.eqb_spec y h); simpl in Hin; [destruct Hin|].
        destruct Hin as [Hin|[]]. inversion Hin; subst. left. exists y, x. repeat split; lia.
      + destruct (Nat.eqb_spec x w); simpl in Hin; [destruct Hin|].
        destruct Hin as [Hin|[]]. inversion Hin; subst. right. exists y, x. repeat split; lia.
    - intros [[y [x [Hy [Hx [-> [-> ->]]]]]]|[y [x [Hy [Hx [-> [-> ->]]]]]]].
      + exists (cell (y, x)). split.
        * apply in_map. apply in_prod_iff. rewrite !in_seq. lia.
        * unfold cell. apply in_or_app. left.
          destruct (Nat.eqb_spec y h); [lia|]. left. reflexivity.
      + exists (cell (y, x)). split.
        * apply in_map. apply in_prod_iff. rewrite !in_seq. lia.
        * unfold cell. apply in_or_app. right.
          destruct (Nat.eqb_spec x w); [lia|]. left. reflexivity.
  Qed.

  Lemma combine_fst_snd {A B} (l : list (A * B)) : combine (map fst l) (map snd l) = l.
  Proof. induction l as [|[a b] l IH]; simpl; [reflexivity|]. rewrite IH. reflexivity. Qed.

  Lemma frame_graph_wf : wf_graph frame_graph = true.
  Proof.
    unfold wf_graph. apply forallb_forall. intros [a b] Hin. simpl in Hin.
    apply in_map_iff in Hin. destruct Hin as [[e [a' b']] [Heq Hin]]. simpl in Heq. inversion Heq; subst.
    apply frame_all_spec in Hin. simpl.
    apply andb_true_iff; split; apply Nat.ltb_lt;
      destruct Hin as [[y [x [Hy [Hx [_ [-> ->]]]]]]|[y [x [Hy [Hx [_ [-> ->]]]]]]]; nia.
  Qed.

  Lemma frame_edges_in e : In e frame_edges -> In e hor \/ In e ver.
  Proof.
    unfold frame_edges. rewrite in_map_iff. intros [[e' [a b]] [Heq Hin]]. simpl in Heq. subst e'.
    apply frame_all_spec in Hin.
    destruct Hin as [[y [x [Hy [Hx [-> _]]]]]|[y [x [Hy [Hx [-> _]]]]]].
    - right. apply nth_In. rewrite Hver. nia.
    - left. apply nth_In. rewrite Hhor. nia.
  Qed.

  (* the frame form of both helpers is the graph form on (frame_edges, frame_graph),
     with the result reshaped to (h + 1, w + 1) *)
  Theorem frame_wrapper post st prim :
    wrap post st (AFrame h w hor ver) None prim =
    match post st frame_edges frame_graph prim with
    | Ok (st', p) => Ok (st', P2 (S h) (S w) p)
    | Err e => Err e
    end.
  Proof.
    unfold wrap. rewrite from_grid_frame_ok. simpl.
    destruct (post st frame_edges frame_graph prim) as [[st' p]|e]; reflexivity.
  Qed.

  Theorem cycle_frame :
    from_grid_frame h w hor ver = Ok (frame_edges, frame_graph) /\
    nv frame_graph = S h * S w /\ wf_graph frame_graph = true /\
    length frame_edges = length (edges frame_graph) /\
    (forall e a b, In (e, (a, b)) (combine frame_edges (edges frame_graph)) <-> segment e a b) /\
    (forall st prim,
       active_edges_single_cycle st (AFrame h w hor ver) None prim =
       match post_cycle st frame_edges frame_graph prim with
       | Ok (st', p) => Ok (st', P2 (S h) (S w) p) | Err e => Err e end) /\
    (forall st prim,
       active_edges_single_path st (AFrame h w hor ver) None prim =
       match post_path st frame_edges frame_graph prim with
       | Ok (st', p) => Ok (st', P2 (S h) (S w) p) | Err e => Err e end).
  Proof.
    split; [apply from_grid_frame_ok|]. split; [reflexivity|]. split; [apply frame_graph_wf|].
    split; [unfold frame_edges, frame_graph; simpl; rewrite !map_length; reflexivity|].
    split.
    - intros e a b. unfold frame_edges, frame_graph. simpl. rewrite combine_fst_snd.
      apply frame_all_spec.
    - split; intros st prim; apply frame_wrapper.
  Qed.

  (* the non-primitive cycle on a frame: exactness and the shape of the result *)
  Theorem cycle_frame_exact gsem st en st' res :
    flags_ok gsem st en (hor ++ ver) -> in_bounds en st = true ->
    active_edges_single_cycle st (AFrame h w hor ver) None false = Ok (st', res) ->
    exists p, res = P2 (S h) (S w) p /\ length p = S h * S w /\
      ((exists en', extends_sat gsem st st' en en') <->
       single_cycle frame_graph (pattern gsem en frame_edges)) /\
      (forall en', extends_sat gsem st st' en en' ->
         forall y x, y <= h -> x <= w ->
           exists q, nth_error p (y * S w + x) = Some q /\
                     holds gsem en' q = visited frame_graph (pattern gsem en frame_edges) (y * S w + x)).
  Proof.
    intros Hf Hib Hpost. unfold active_edges_single_cycle in Hpost. rewrite frame_wrapper in Hpost.
    destruct (post_cycle st frame_edges frame_graph false) as [[st'' p]|e] eqn:Hp; [|discriminate].
    inversion Hpost; subst st'' res. clear Hpost.
    assert (Hf' : flags_ok gsem st en frame_edges).
    { intros e He. apply Hf. apply in_or_app. apply frame_edges_in. exact He. }
    assert (Hn : 1 <= nv frame_graph) by (simpl; lia).
    assert (Hl : length (edges frame_graph) <= length frame_edges)
      by (unfold frame_edges, frame_graph; simpl; rewrite !map_length; lia).
    exists p.
    split; [reflexivity|].
    assert (Hlen : length p = S h * S w).
    { destruct (cycle_total st frame_edges frame_graph frame_graph_wf Hn Hl (flags_cl gsem st en _ Hf'))
        as [s2 [p2 [Hp2 Hl2]]]. rewrite Hp in Hp2. inversion Hp2; subst. exact Hl2. }
    split; [exact Hlen|]. split.
    - apply (cycle_exact gsem st frame_edges frame_graph en st' p frame_graph_wf Hn Hl Hf' Hib Hp).
    - intros en' Hext y x Hy Hx.
      destruct (cycle_passed gsem st frame_edges frame_graph en st' p en' frame_graph_wf Hn Hl Hf' Hp Hext)
        as [_ H]. apply H. simpl. nia.
  Qed.
End Frame.
