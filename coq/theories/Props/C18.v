From Coq Require Import ZArith List.
From Cspuz Require Import Lib.PyErr Generator.Segmentation.
Theorem apply_update_def : forall bs u, apply_update bs u = keep_idx (fst u) bs ++ snd u.
Proof. reflexivity. Qed.
Print Assumptions apply_update_def.
