"""C11 plug-in: nanro (solve_nanro(height, width, blocks, num)).

problem: {"h", "w", "blocks": list of rooms, each a list of [y, x] in row-major order, rooms ordered by their least
cell, "num": h x w grid of given numbers (0 = none)}; answer: the nested list of IntVars solve_nanro returns.

cspuz/puzzle/nanro.py needs numpy only in problem_to_pzv_url; since fix 'nanro imports numpy optionally' the module
imports without it (before, solve_nanro could not be imported where numpy is missing: exhibited by this plug-in)."""
import c11lib as L

NAME = "nanro"
MODULE = "cspuz.puzzle.nanro"
FUNC = "solve_nanro"
TIER1 = ("Nanro", "solve_nanro_model")
TIER1_PRIM = ("NanroPrim", "solve_nanro_model_prim")


def call(mod, pb):
    return mod.solve_nanro(pb["h"], pb["w"], [[tuple(c) for c in b] for b in pb["blocks"]], pb["num"])


def ncand(pb):
    n = 1
    for b in pb["blocks"]:
        n *= (len(b) + 1) ** len(b)
    return n


def encode(pb):
    return [[pb["h"], pb["w"]], L.flat(L.region_ids(pb["h"], pb["w"], pb["blocks"])), L.flat(pb["num"])]


def _zero(h, w):
    return [[0] * w for _ in range(h)]


def _clue_grids(rng, h, w, blocks, k):
    """no given number; k random layouts (values from 1 to one above the room size, also on the board edge); every
    cell given (the size of its room / the value 1)"""
    yield _zero(h, w)
    size = L.region_ids(h, w, blocks)
    for b in blocks:
        for (y, x) in b:
            size[y][x] = len(b)
    for _ in range(k):
        p = rng.choice([0.3, 0.6, 0.85])
        yield [[0 if rng.random() < p else rng.randint(1, size[y][x] + 1) for x in range(w)] for y in range(h)]
    if k:
        yield [[size[y][x] for x in range(w)] for y in range(h)]
        yield [[1] * w for _ in range(h)]


def _pb(h, w, blocks, num):
    return {"h": h, "w": w, "blocks": blocks, "num": num}


def families(tier, rng):
    th = tier == "thorough"
    cap = 300000 if th else 70000
    # the tiniest boards: every room layout, every layout of given numbers 0..3
    for (h, w) in [(1, 1), (1, 2), (2, 1), (1, 3), (3, 1)]:
        for blocks in L.region_partitions(h, w):
            grids = list(L.all_grids(h, w, [0, 1, 2, 3]))
            for num in (grids if th else L.sample(rng, grids, 10)):
                yield _pb(h, w, blocks, num)
    for (h, w) in [(2, 2), (1, 4), (4, 1), (2, 3), (3, 2), (1, 5), (5, 1)]:
        parts = list(L.region_partitions(h, w))
        for blocks in (parts if th else L.sample(rng, parts, 10)):
            for num in _clue_grids(rng, h, w, blocks, 3 if th else 1):
                pb = _pb(h, w, blocks, num)
                if ncand(pb) <= cap:
                    yield pb
    # rooms that are not orthogonally connected (the rules do not need connected rooms)
    for (h, w) in [(1, 3), (2, 2), (1, 4)]:
        parts = [p for p in L.region_partitions(h, w, connected=False) if not all(L._connected(b) for b in p)]
        for blocks in L.sample(rng, parts, 6 if th else 2):
            for num in _clue_grids(rng, h, w, blocks, 1):
                yield _pb(h, w, blocks, num)
    for (h, w) in [(2, 4), (4, 2), (3, 3), (2, 5), (3, 4), (4, 3)]:
        parts = L.sample(rng, L.region_partitions(h, w, max_size=4), 4000)
        parts = [p for p in parts if ncand(_pb(h, w, p, None)) <= cap]
        for blocks in L.sample(rng, parts, 40 if th else 6):
            for num in _clue_grids(rng, h, w, blocks, 2 if th else 1):
                yield _pb(h, w, blocks, num)


def tier2(tier, rng):
    th = tier == "thorough"
    for (h, w) in [(1, 1), (1, 2), (2, 1), (1, 3), (2, 2)]:
        parts = list(L.region_partitions(h, w))
        for blocks in (parts if th else L.sample(rng, parts, 3)):
            for num in _clue_grids(rng, h, w, blocks, 1 if th else 0):
                yield _pb(h, w, blocks, num)
            num = _zero(h, w)
            num[h - 1][w - 1] = rng.choice([1, 2])
            yield _pb(h, w, blocks, num)


def _strip(n, sizes):
    """rooms of a 1 x n board, left to right, of the given sizes"""
    out, x = [], 0
    for s in sizes:
        out.append([[0, c] for c in range(x, x + s)])
        x += s
    assert x == n
    return out


def big(tier, rng):
    """1 x N / N x 1 boards cut into consecutive rooms of alternating sizes (every inner room must be filled, so the
    solutions are counted directly: the first and the last room choose how many cells next to their neighbour carry a
    number); 2 x N boards with one room and a two-digit given number (top row filled); 5x5 / 4x6 / 6x4 boards with 3-4
    rooms (only the grids the solver admits are checked)"""
    th = tier == "thorough"
    for n in (L.LONG if th else L.sample(rng, L.LONG, 3) + [21]):
        a, b = rng.choice([(2, 3), (3, 2), (1, 2), (2, 4), (3, 4)])
        sizes = []
        while sum(sizes) + a + b + 1 <= n:
            sizes += [a, b]
        first = n - sum(sizes)
        sizes = [first] + sizes           # first room of size `first` >= 1, then a, b, a, b, ...
        blocks = _strip(n, sizes)
        last = sizes[-1]
        # inner rooms are full: values a, b alternate (different); the first room carries k1 numbers next to room 2
        # (k1 != a), the last room kL numbers next to its left neighbour (kL != that neighbour's size)
        left = sizes[-2]
        n1 = sum(1 for k in range(1, first + 1) if k != a)
        nl = sum(1 for k in range(1, last + 1) if k != left)
        planted = []
        k1 = next((k for k in range(first, 0, -1) if k != a), None)
        kl = next((k for k in range(last, 0, -1) if k != left), None)
        if k1 is not None and kl is not None:
            g = [0] * (first - k1) + [k1] * k1
            for s in sizes[1:-1]:
                g += [s] * s
            g += [kl] * kl + [0] * (last - kl)
            planted = [g]
        num = _zero(1, n)
        yield {"h": 1, "w": n, "blocks": blocks, "num": num, "planted": planted, "n_solutions": n1 * nl}
        tb = [[[c[1], 0] for c in blk] for blk in blocks]
        yield {"h": n, "w": 1, "blocks": tb, "num": [[0] for _ in range(n)], "planted": planted, "n_solutions": n1 * nl}
        # one room, two-digit number
        room = [[[y, x] for y in range(2) for x in range(n)]]
        num2 = _zero(2, n)
        num2[0][rng.randrange(n)] = n
        yield {"h": 2, "w": n, "blocks": room, "num": num2, "planted": [[n] * n + [0] * n]}
    # a room holding a 3x3 square (minus at most one corner) whose numbers form the ring around the empty centre: the
    # largest count such a room can carry (8, or 7 without the corner); the ring is planted, the rest of the board is
    # one more room filled next to the ring
    for (h, w, cut) in [(3, 4, False), (4, 3, False), (3, 4, True), (4, 4, False), (3, 5, True)]:
        sq = [[y, x] for y in range(3) for x in range(3)]
        if cut:
            sq.remove([2, 2] if (h, w) != (4, 3) else [0, 0])
        other = [[y, x] for y in range(h) for x in range(w) if [y, x] not in sq]
        if cut:
            other = sorted(other)
        blocks = sorted([sq, other], key=lambda b: b[0])
        ring = [c for c in sq if c != [1, 1]]
        k = len(ring)
        # the other room: fill the cells of it that touch the ring's room side, as many as needed to be connected and
        # to avoid a 2x2: take a single cell adjacent to a ring cell, with number 1
        adj = [c for c in other if any(abs(c[0] - r[0]) + abs(c[1] - r[1]) == 1 for r in ring)]
        if not adj:
            continue
        one = adj[0]
        grid = [0] * (h * w)
        for (y, x) in ring:
            grid[y * w + x] = k
        grid[one[0] * w + one[1]] = 1
        num = _zero(h, w)
        num[ring[0][0]][ring[0][1]] = k
        yield {"h": h, "w": w, "blocks": blocks, "num": num, "planted": [grid]}
    for (h, w) in [(5, 5), (4, 6), (6, 4)]:
        for _ in range(12 if th else 3):
            blocks = L.random_rooms(rng, h, w, rng.choice([3, 4, 6]))
            num = _zero(h, w)
            for _ in range(rng.choice([0, 1, 2])):
                b = rng.choice(blocks)
                y, x = rng.choice(b)
                num[y][x] = rng.randint(1, len(b))
            yield {"h": h, "w": w, "blocks": blocks, "num": num}


def tier1_problems(tier, rng):
    """program-capture tie: every room layout of the tiniest boards (both orientations) with given numbers at and beyond
    the room size, rooms that are not connected, random layouts with small and large rooms on small, non-square, long thin
    and larger boards, one room, one room per cell, negative / large given numbers, a block list with an empty block in
    between, boards without cells (ValueError), a grid of given numbers that lacks its last row (IndexError)"""
    th = tier == "thorough"
    for (h, w) in [(1, 1), (1, 2), (2, 1), (1, 3), (3, 1), (2, 2), (1, 4), (4, 1), (2, 3), (3, 2)]:
        parts = list(L.region_partitions(h, w))
        for blocks in (parts if th else L.sample(rng, parts, 12)):
            for num in _clue_grids(rng, h, w, blocks, 1):
                yield _pb(h, w, blocks, num)
    for (h, w) in [(2, 2), (2, 3), (3, 3)]:
        parts = [p for p in L.region_partitions(h, w, connected=False) if not all(L._connected(b) for b in p)]
        for blocks in L.sample(rng, parts, 8 if th else 3):
            yield _pb(h, w, blocks, next(iter(_clue_grids(rng, h, w, blocks, 0))))
    for (h, w) in [(1, 5), (5, 1), (3, 3), (2, 5), (5, 2), (3, 4), (4, 4), (3, 6), (6, 5), (5, 7), (7, 7), (1, 9), (9, 1),
                   (8, 8), (2, 21)]:
        for _ in range(8 if th else 3):
            k = rng.randint(1, max(1, h * w // rng.choice([2, 4, 6])))
            blocks = L.random_rooms(rng, h, w, k)
            for num in L.sample(rng, list(_clue_grids(rng, h, w, blocks, 2)), 2):
                yield _pb(h, w, blocks, num)
        cells = [[y, x] for y in range(h) for x in range(w)]
        yield _pb(h, w, [cells], _zero(h, w))
        yield _pb(h, w, [[c] for c in cells], [[rng.choice([-3, 0, 1, 2, 12, 100]) for _ in range(w)] for _ in range(h)])
    for (h, w) in [(3, 3), (4, 5)]:
        blocks = L.random_rooms(rng, h, w, 3)
        yield _pb(h, w, [blocks[0], [], blocks[1], [], blocks[2]], _zero(h, w))
    for (h, w) in [(0, 0), (0, 2), (2, 0)]:
        yield _pb(h, w, [], _zero(h, w))
    for (h, w) in [(2, 2), (3, 4)]:
        blocks = L.random_rooms(rng, h, w, 2)
        yield _pb(h, w, blocks, _zero(h - 1, w))
