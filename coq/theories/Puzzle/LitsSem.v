(* C11 Tier 1 - lits: the constraints posted by solve_lits (model Lits.v) evaluate, under any assignment, to an
   executable predicate [lits_sem] over the black cells, the values of num_straight and the values of has_t. *)
From Coq Require Import ZArith List Bool Arith Lia.
From Cspuz Require Import Lib.PyErr Core.Expr Core.Program Graph.GraphModel Graph.Avc
     Puzzle.PuzzleBase Puzzle.SatAbs Puzzle.ModelBase Puzzle.ModelLemmas Puzzle.AkariLemmas Puzzle.Akari
     Puzzle.Rules_norinori Puzzle.Norinori Puzzle.Nurimisaki Puzzle.NurimisakiProofs
     Puzzle.Rules_lits Puzzle.Lits Puzzle.LitsShapes.
Import ListNotations.
Local Open Scope nat_scope.

(* ------------------------------------------------------------------ list facts *)
Lemma count_app {A} (f : A -> bool) l1 l2 : count f (l1 ++ l2) = count f l1 + count f l2.
Proof. unfold count. rewrite filter_app, app_length. reflexivity. Qed.
Lemma count_flat_map {A B} (f : B -> bool) (g : A -> list B) l :
  count f (flat_map g l) = sumn (map (fun x => count f (g x)) l).
Proof. induction l as [|a r IH]; simpl; [reflexivity|]. rewrite count_app, IH. reflexivity. Qed.
Lemma existsb_flat_map {A B} (f : B -> bool) (g : A -> list B) l :
  existsb f (flat_map g l) = existsb (fun x => existsb f (g x)) l.
Proof. induction l as [|a r IH]; simpl; [reflexivity|]. rewrite existsb_app, IH. reflexivity. Qed.
Lemma count_le_length {A} (f : A -> bool) l : count f l <= length l.
Proof. unfold count. induction l as [|a r IH]; simpl; [lia|]. destruct (f a); simpl; lia. Qed.
Lemma sumn_ext_in {A} (f g : A -> nat) l : (forall x, In x l -> f x = g x) -> sumn (map f l) = sumn (map g l).
Proof.
  induction l as [|a r IH]; simpl; intros H; [reflexivity|].
  rewrite (H a (or_introl eq_refl)), IH; [reflexivity|]. intros x Hx. apply H. right. exact Hx.
Qed.

(* ------------------------------------------------------------------ the predicate *)
Section Pred.
  Variables (h w : nat) (region : list Z) (k : nat).
  Variables (lit : nat * nat -> bool) (nsv : nat -> Z) (htv : nat -> bool).

  Definition no2_sem (c : nat * nat) : bool :=
    let '(y, x) := c in negb (lit (S y, S x) && lit (S y, x) && lit (y, S x) && lit (y, x)).

  Definition straight_sem (i : nat) (c : nat * nat) : bool :=
    let '(y, x) := c in
    (Nat.ltb 0 y && Nat.ltb (S y) h && in_block region w i (y - 1, x) && in_block region w i (S y, x) &&
     (lit (y - 1, x) && lit (y, x) && lit (S y, x))) ||
    (Nat.ltb 0 x && Nat.ltb (S x) w && in_block region w i (y, x - 1) && in_block region w i (y, S x) &&
     (lit (y, x - 1) && lit (y, x) && lit (y, S x))).

  Definition blk_sem (i : nat) : bool :=
    let R := region_cells h w region i in
    Nat.eqb (count lit R) 4 &&
    forallb (fun c => negb (lit c) || existsb lit (lits_nsb h w region i c)) R &&
    Nat.eqb (sumn (map (fun c => count (fun c' => lit c && lit c') (filter (in_block region w i) (lits_dr h w c))) R)) 3 &&
    (nsv i =? Z.of_nat (sumn (map (fun c => b2n (straight_sem i c)) R)))%Z &&
    Bool.eqb (htv i) (existsb (fun c => Nat.leb 3 (count lit (lits_nsb h w region i c))) R).

  Definition differ_sem (i j : nat) : bool := negb (nsv i =? nsv j)%Z || xorb (htv i) (htv j).

  Definition border_sem (c : nat * nat) : bool :=
    let '(y, x) := c in
    let r := at2 region w y x in
    (negb (Nat.ltb (S y) h && negb (r =? at2 region w (S y) x)%Z) ||
     implb (lit (y, x) && lit (S y, x)) (differ_sem (zn r) (zn (at2 region w (S y) x)))) &&
    (negb (Nat.ltb (S x) w && negb (r =? at2 region w y (S x))%Z) ||
     implb (lit (y, x) && lit (y, S x)) (differ_sem (zn r) (zn (at2 region w y (S x))))).

  Definition lits_sem : bool :=
    forallb no2_sem (cells (h - 1) (w - 1)) && forallb blk_sem (seq 0 k) && forallb border_sem (cells h w).
End Pred.

(* ------------------------------------------------------------------ evaluation *)
Section Sem.
  Variable gsem : op -> list (option value) -> option bool.
  Variable en : env.
  Variables (h w : nat) (region : list Z) (k base : nat).
  Let hold := holds gsem en.
  Let isb_ := isbool gsem en.
  Let lit (c : nat * nat) : bool := eb en (cidx w c).
  Let nsv (i : nat) : Z := ei en (base + i).
  Let htv (i : nat) : bool := eb en (base + k + i).

  Lemma isbool_lv c : isb_ (lv w c).
  Proof. apply isbool_var. Qed.
  Lemma hold_lv c : hold (lv w c) = lit c.
  Proof. apply hold_var. Qed.

  Lemma isbool_fold_or l : (forall e, In e l -> isb_ e) -> isb_ (fold_or_nodes l).
  Proof.
    intros H. destruct l as [|a r]; [eexists; reflexivity|]. unfold fold_or_nodes. eexists. apply eval_or. exact H.
  Qed.

  Lemma hold_imp a b : isb_ a -> isb_ b -> hold (BNode IMP [a; b]) = implb (hold a) (hold b).
  Proof.
    intros Ha Hb. unfold hold, holds. cbn [eval map]. rewrite (isbool_holds gsem en a Ha), (isbool_holds gsem en b Hb).
    cbn. destruct (holds gsem en a), (holds gsem en b); reflexivity.
  Qed.
  Lemma hold_iff_var i b : isb_ b -> hold (BNode IFF [BVar i; b]) = Bool.eqb (eb en i) (hold b).
  Proof.
    intros Hb. unfold hold, holds. cbn [eval map]. rewrite (isbool_holds gsem en b Hb).
    cbn. destruct (eb en i), (holds gsem en b); reflexivity.
  Qed.
  Lemma isbool_and_vars cs : isb_ (BNode AND (map (lv w) cs)).
  Proof. eexists. apply eval_and. intros e He. apply in_map_iff in He. destruct He as [c [<- _]]. apply isbool_lv. Qed.
  Lemma hold_and_vars cs : hold (BNode AND (map (lv w) cs)) = forallb lit cs.
  Proof.
    apply holds_of_eval. rewrite eval_and.
    - rewrite forallb_map. f_equal. f_equal. apply forallb_ext_in. intros c _. apply hold_lv.
    - intros e He. apply in_map_iff in He. destruct He as [c [<- _]]. apply isbool_lv.
  Qed.
  Lemma hold_or_vars cs : hold (fold_or_nodes (map (lv w) cs)) = existsb lit cs.
  Proof.
    rewrite (hold_fold_or gsem en).
    - rewrite existsb_map. apply existsb_ext. intros c. apply hold_lv.
    - intros e He. apply in_map_iff in He. destruct He as [c [<- _]]. apply isbool_lv.
  Qed.
  Lemma isbool_or_vars cs : isb_ (fold_or_nodes (map (lv w) cs)).
  Proof. apply isbool_fold_or. intros e He. apply in_map_iff in He. destruct He as [c [<- _]]. apply isbool_lv. Qed.

  Lemma eval_ct_exprs es : (forall e, In e es -> isb_ e) ->
    eval gsem en (ct_exprs es) = Some (VI (Z.of_nat (count hold es))).
  Proof.
    intros H. destruct es as [|e0 r]; [reflexivity|].
    unfold ct_exprs. set (l := e0 :: r) in *.
    assert (Hne : l <> []) by discriminate. clearbody l.
    cbn [eval]. rewrite map_map.
    rewrite (map_ext_in _ (fun e => Some (VI (if hold e then 1 else 0)%Z))).
    2:{ intros e He. cbn [eval map]. rewrite (isbool_holds gsem en e (H e He)). cbn. reflexivity. }
    rewrite <- (map_map (fun e => (if hold e then 1 else 0)%Z) (fun z => Some (VI z))).
    rewrite eval_iop_add_ints by (destruct l; [contradiction|discriminate]).
    f_equal. f_equal. clear. unfold count, zsum.
    induction l as [|b r IH]; [reflexivity|]. cbn [map fold_right filter].
    destruct (hold b); cbn [length]; rewrite IH; lia.
  Qed.

  Lemma hold_ct_vars_eq ids c : hold (BNode EQ [ct_vars ids; PyInt (Z.of_nat c)]) = Nat.eqb (count (eb en) ids) c.
  Proof.
    unfold hold, holds. cbn [eval map]. rewrite (eval_ct_vars_g gsem en). cbn. rewrite znat_eqb.
    destruct (Nat.eqb (count (eb en) ids) c); reflexivity.
  Qed.
  Lemma hold_ct_exprs_eq es c : (forall e, In e es -> isb_ e) ->
    hold (BNode EQ [ct_exprs es; PyInt (Z.of_nat c)]) = Nat.eqb (count hold es) c.
  Proof.
    intros H. pose proof (eval_ct_exprs es H) as E. revert E. generalize (count hold es). intros n E.
    unfold hold, holds. cbn [eval map]. rewrite E. cbn. rewrite znat_eqb.
    destruct (Nat.eqb n c); reflexivity.
  Qed.
  Lemma hold_ns_eq i es : (forall e, In e es -> isb_ e) ->
    hold (BNode EQ [lits_ns base i; ct_exprs es]) = (nsv i =? Z.of_nat (count hold es))%Z.
  Proof.
    intros H. pose proof (eval_ct_exprs es H) as E. revert E. generalize (count hold es). intros n E.
    unfold hold, holds, lits_ns. cbn [eval map]. rewrite E. cbn.
    unfold nsv. destruct (ei en (base + i) =? Z.of_nat n)%Z; reflexivity.
  Qed.
  Lemma isbool_ge3 ids : isb_ (BNode GE [ct_vars ids; PyInt 3]).
  Proof. eexists. cbn [eval map]. rewrite (eval_ct_vars_g gsem en). cbn. reflexivity. Qed.
  Lemma hold_ge3 ids : hold (BNode GE [ct_vars ids; PyInt 3]) = Nat.leb 3 (count (eb en) ids).
  Proof.
    unfold hold, holds. cbn [eval map]. rewrite (eval_ct_vars_g gsem en). cbn.
    generalize (count (eb en) ids). intros n.
    destruct (Z.leb_spec 3 (Z.of_nat n)); destruct n as [|[|[|n]]]; try reflexivity; lia.
  Qed.

  Lemma count_cidx cs : count (eb en) (map (cidx w) cs) = count lit cs.
  Proof. rewrite count_map. reflexivity. Qed.

  Lemma hold_block2 y x : hold (lits_block2 w y x) = no2_sem lit (y, x).
  Proof.
    unfold hold, holds, lits_block2, lv, no2_sem, lit. simpl.
    destruct (eb en (cidx w (S y, S x))), (eb en (cidx w (S y, x))), (eb en (cidx w (y, S x))), (eb en (cidx w (y, x))); reflexivity.
  Qed.

  Lemma hold_border c : forallb hold (lits_border h w region k base c) = border_sem h w region lit nsv htv c.
  Proof.
    destruct c as [y x]. unfold lits_border, border_sem. rewrite forallb_app.
    assert (D : forall c1 c2 i j,
      hold (BNode IMP [BNode AND [lv w c1; lv w c2]; lits_differ base k i j]) =
      implb (lit c1 && lit c2) (differ_sem nsv htv i j)).
    { intros c1 c2 i j. unfold hold, holds, lits_differ, lits_ns, lits_ht, lv, differ_sem, nsv, htv, lit. simpl.
      destruct (eb en (cidx w c1)), (eb en (cidx w c2)), (ei en (base + i) =? ei en (base + j))%Z,
        (eb en (base + k + i)), (eb en (base + k + j)); reflexivity. }
    f_equal.
    - destruct (Nat.ltb (S y) h && negb (at2 region w y x =? at2 region w (S y) x)%Z); [|reflexivity].
      cbn [forallb negb orb]. rewrite D. apply andb_true_r.
    - destruct (Nat.ltb (S x) w && negb (at2 region w y x =? at2 region w y (S x))%Z); [|reflexivity].
      cbn [forallb negb orb]. rewrite D. apply andb_true_r.
  Qed.

  Lemma isbool_pairs i c e : In e (lits_pairs h w region i c) -> isb_ e.
  Proof.
    unfold lits_pairs. intros He. apply in_map_iff in He. destruct He as [c' [<- _]].
    apply (isbool_and_vars [c; c']).
  Qed.
  Lemma count_pairs i c :
    count hold (lits_pairs h w region i c) =
    count (fun c' => lit c && lit c') (filter (in_block region w i) (lits_dr h w c)).
  Proof.
    unfold lits_pairs. rewrite count_map. apply count_ext_in. intros c' _.
    pose proof (hold_and_vars [c; c']) as E. cbn [map forallb] in E. rewrite E, andb_true_r. reflexivity.
  Qed.

  Lemma isbool_straight i c e : In e (lits_straight h w region i c) -> isb_ e.
  Proof.
    destruct c as [y x]. unfold lits_straight.
    assert (B1 : isb_ (BNode AND [lv w (y - 1, x); lv w (y, x); lv w (S y, x)]))
      by apply (isbool_and_vars [(y - 1, x); (y, x); (S y, x)]).
    assert (B2 : isb_ (BNode AND [lv w (y, x - 1); lv w (y, x); lv w (y, S x)]))
      by apply (isbool_and_vars [(y, x - 1); (y, x); (y, S x)]).
    destruct (Nat.ltb 0 y && Nat.ltb (S y) h && in_block region w i (y - 1, x) && in_block region w i (S y, x));
      destruct (Nat.ltb 0 x && Nat.ltb (S x) w && in_block region w i (y, x - 1) && in_block region w i (y, S x));
      cbn [app]; try contradiction; intros [<-|[]]; eexists; apply eval_or.
    - intros e [<-|[<-|[]]]; assumption.
    - intros e [<-|[]]; assumption.
    - intros e [<-|[]]; assumption.
  Qed.
  Lemma count_straight i c :
    count hold (lits_straight h w region i c) = b2n (straight_sem h w region lit i c).
  Proof.
    destruct c as [y x]. unfold lits_straight, straight_sem.
    set (c1 := Nat.ltb 0 y && Nat.ltb (S y) h && in_block region w i (y - 1, x) && in_block region w i (S y, x)).
    set (c2 := Nat.ltb 0 x && Nat.ltb (S x) w && in_block region w i (y, x - 1) && in_block region w i (y, S x)).
    pose proof (hold_and_vars [(y - 1, x); (y, x); (S y, x)]) as H1.
    pose proof (hold_and_vars [(y, x - 1); (y, x); (y, S x)]) as H2.
    cbn [map forallb] in H1, H2. rewrite andb_true_r, andb_assoc in H1, H2.
    assert (B1 : isb_ (BNode AND [lv w (y - 1, x); lv w (y, x); lv w (S y, x)]))
      by apply (isbool_and_vars [(y - 1, x); (y, x); (S y, x)]).
    assert (B2 : isb_ (BNode AND [lv w (y, x - 1); lv w (y, x); lv w (y, S x)]))
      by apply (isbool_and_vars [(y, x - 1); (y, x); (y, S x)]).
    set (A1 := BNode AND [lv w (y - 1, x); lv w (y, x); lv w (S y, x)]) in *.
    set (A2 := BNode AND [lv w (y, x - 1); lv w (y, x); lv w (y, S x)]) in *.
    assert (O12 : hold (BNode OR [A1; A2]) = hold A1 || hold A2).
    { apply holds_of_eval. rewrite (eval_or gsem en [A1; A2]).
      - cbn [existsb]. rewrite orb_false_r. reflexivity.
      - intros e [<-|[<-|[]]]; assumption. }
    assert (O1 : hold (BNode OR [A1]) = hold A1).
    { apply holds_of_eval. rewrite (eval_or gsem en [A1]).
      - cbn [existsb]. rewrite orb_false_r. reflexivity.
      - intros e [<-|[]]; assumption. }
    assert (O2 : hold (BNode OR [A2]) = hold A2).
    { apply holds_of_eval. rewrite (eval_or gsem en [A2]).
      - cbn [existsb]. rewrite orb_false_r. reflexivity.
      - intros e [<-|[]]; assumption. }
    destruct c1, c2; cbn [app andb orb]; unfold count; cbn [filter].
    - rewrite O12, H1, H2. match goal with |- context [if ?b then _ else _] => destruct b end; reflexivity.
    - rewrite O1, H1, orb_false_r. match goal with |- context [if ?b then _ else _] => destruct b end; reflexivity.
    - rewrite O2, H2. match goal with |- context [if ?b then _ else _] => destruct b end; reflexivity.
    - reflexivity.
  Qed.

  Lemma isbool_t i c e : In e (lits_t h w region i c) -> isb_ e.
  Proof.
    unfold lits_t. destruct (Nat.leb 3 _); [|contradiction]. intros [<-|[]]. apply isbool_ge3.
  Qed.
  Lemma exists_t i c :
    existsb hold (lits_t h w region i c) = Nat.leb 3 (count lit (lits_nsb h w region i c)).
  Proof.
    unfold lits_t. destruct (Nat.leb_spec 3 (length (lits_nsb h w region i c))) as [L|L].
    - cbn [existsb]. rewrite hold_ge3, count_cidx, orb_false_r. reflexivity.
    - cbn [existsb]. symmetry. apply Nat.leb_gt.
      pose proof (count_le_length lit (lits_nsb h w region i c)). lia.
  Qed.

  Lemma hold_block i : forallb hold (lits_block h w region k base i) = blk_sem h w region lit nsv htv i.
  Proof.
    unfold lits_block, blk_sem. set (R := region_cells h w region i).
    cbn [forallb]. rewrite forallb_app. cbn [forallb]. rewrite andb_true_r.
    change 4%Z with (Z.of_nat 4). change 3%Z with (Z.of_nat 3).
    rewrite hold_ct_vars_eq, count_cidx.
    rewrite forallb_map.
    rewrite (forallb_ext_in _ (fun c => negb (lit c) || existsb lit (lits_nsb h w region i c)) R).
    2:{ intros c _. rewrite hold_imp by (apply isbool_lv || apply isbool_or_vars).
        rewrite hold_lv, hold_or_vars. destruct (lit c); reflexivity. }
    rewrite hold_ct_exprs_eq by (intros e He; apply in_flat_map in He; destruct He as [c [_ He]]; eapply isbool_pairs; exact He).
    rewrite count_flat_map. rewrite (sumn_ext_in _ _ R (fun c _ => count_pairs i c)).
    rewrite hold_ns_eq by (intros e He; apply in_flat_map in He; destruct He as [c [_ He]]; eapply isbool_straight; exact He).
    rewrite count_flat_map. rewrite (sumn_ext_in _ _ R (fun c _ => count_straight i c)).
    unfold lits_ht. rewrite hold_iff_var.
    2:{ apply isbool_fold_or. intros e He. apply in_flat_map in He. destruct He as [c [_ He]]. eapply isbool_t; exact He. }
    rewrite (hold_fold_or gsem en)
      by (intros e He; apply in_flat_map in He; destruct He as [c [_ He]]; eapply isbool_t; exact He).
    fold hold. rewrite existsb_flat_map.
    rewrite (existsb_ext _ (fun c => Nat.leb 3 (count lit (lits_nsb h w region i c))) R (exists_t i)).
    fold (htv i). rewrite !andb_assoc. reflexivity.
  Qed.

  Theorem lits_constraints_sem :
    forallb hold (lits_constraints h w region k base) = lits_sem h w region k lit nsv htv.
  Proof.
    unfold lits_constraints, lits_sem. rewrite !forallb_app, forallb_map, !forallb_flat_map.
    rewrite andb_assoc. f_equal; [f_equal|].
    - apply forallb_ext_in. intros [y x] _. apply hold_block2.
    - apply forallb_ext_in. intros i _. apply hold_block.
    - apply forallb_ext_in. intros c _. apply hold_border.
  Qed.
End Sem.
