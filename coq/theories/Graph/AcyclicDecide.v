(* C09: the executable specification forest_b (flood fill) decides [forest]. *)
From Coq Require Import ZArith List Bool Arith Lia.
From Cspuz Require Import Graph.GraphModel Graph.ReachProofs Graph.Acyclic Graph.AcyclicGraphFacts.
Import ListNotations.
Local Open Scope nat_scope.

Lemma in_combine_seq {A} (l : list A) : forall s e x,
  In (e, x) (combine (seq s (length l)) l) <-> s <= e /\ nth_error l (e - s) = Some x.
Proof.
  induction l as [|y l IH]; intros s e x; simpl.
  - split; [tauto|]. intros [_ H]. destruct (e - s); discriminate.
  - rewrite IH. split.
    + intros [H|[Hle H]].
      * inversion H; subst. split; [lia|]. rewrite Nat.sub_diag. reflexivity.
      * split; [lia|]. replace (e - s) with (S (e - S s)) by lia. exact H.
    + intros [Hle H]. destruct (Nat.eq_dec e s) as [->|Hne].
      * rewrite Nat.sub_diag in H. simpl in H. inversion H. left; reflexivity.
      * right. split; [lia|]. replace (e - s) with (S (e - S s)) in H by lia. exact H.
Qed.

Theorem forest_b_spec g A : wf_graph g = true -> (forest_b g A = true <-> forest g A).
Proof.
  intros Hwf. unfold forest_b, forest. rewrite forallb_forall. split.
  - intros H e a b Hn Ha Hj.
    specialize (H (e, (a, b))). simpl in H.
    assert (Hin : In (e, (a, b)) (combine (seq 0 (length (edges g))) (edges g))).
    { apply in_combine_seq. split; [lia|]. rewrite Nat.sub_0_r. exact Hn. }
    specialize (H Hin). rewrite Ha in H. simpl in H. apply negb_true_iff in H.
    destruct (wf_graph_nth _ _ _ _ Hwf Hn) as [Hlt _].
    apply mem_not_In in H. apply H.
    apply (component_spec g all_vertices_ok (without A e) a b Hwf Hlt). exact Hj.
  - intros H [e [a b]] Hin. apply in_combine_seq in Hin. destruct Hin as [_ Hn].
    rewrite Nat.sub_0_r in Hn. destruct (A e) eqn:Ha; [simpl|reflexivity].
    apply negb_true_iff. apply mem_not_In. intros Hc.
    destruct (wf_graph_nth _ _ _ _ Hwf Hn) as [Hlt _].
    apply (component_spec g all_vertices_ok (without A e) a b Hwf Hlt) in Hc.
    exact (H e a b Hn Ha Hc).
Qed.
