(* C20 — the backend and the encoding actually used are the ones configured.
   Every statement is about [ConfigTables.tables], the tables the translator regenerates from
   /repo's source on every run (name chain, detection order, default-on tuples, boolean spellings,
   environment variable names, entry points of the backend classes, decision sites / forwarding
   calls / native-operator emission points of graph.py), and quantifies over ALL environments
   (functions string -> option string), ALL availability predicates, ALL configurations,
   ALL per-call arguments.  In [emits T fn cfg arg acyclic explicit dd]: [arg] is the explicit
   use_graph_primitive argument (None = omitted), [explicit] = a graph is passed (else inferred from
   a 2-D array / grid frame), [dd] = the data-dependent conditions guarding some calls hold. *)
From Coq Require Import String List Bool.
From Cspuz Require Import Lib.PyErr Backend.Config Backend.ConfigProofs Backend.ConfigGenProofs Gen.ConfigTables.
Import ListNotations.
Local Open Scope string_scope.
Local Open Scope res_scope.

(* T tie, configuration / dispatch part: the generated name chain, detection order, default-on
   tuples, spellings, variable names and entry points are exactly the prescribed ones ([with_graph]
   is the prescribed record with the four graph.py fields left open; the graph part is not compared
   with a fixed table: the decision-table theorems below are proved about whatever was generated) *)
Theorem generated_config_tables_as_prescribed :
  tables = with_graph (t_sites tables) (t_calls tables) (t_emits tables) (t_raises tables).
Proof. exact tables_cfg_eq. Qed.
Print Assumptions generated_config_tables_as_prescribed.

(* 'auto': the first importable of cspuz_core, enigma_csp, csugar (module pycsugar), z3, else sugar *)
Theorem detect_order : forall avail : string -> bool,
  detect_backend tables avail =
    if avail "cspuz_core" then "cspuz_core"
    else if avail "enigma_csp" then "enigma_csp"
    else if avail "pycsugar" then "csugar"
    else if avail "z3" then "z3"
    else "sugar".
Proof. exact detect_order_G. Qed.
Print Assumptions detect_order.

(* strict parsing: exactly "1" + the 16 case variants of "true" give True, exactly "0" + the 32
   case variants of "false" give False, every other string (also "", "yes", " true") is a ValueError *)
Theorem strtobool_strict : forall s : string,
  strtobool tables s =
    if mem s ("1" :: case_variants "true") then Ok true
    else if mem s ("0" :: case_variants "false") then Ok false
    else Err ValueError.
Proof. exact strtobool_strict_G. Qed.
Print Assumptions strtobool_strict.

(* Config(infer_from_env=True), completely: for every environment and availability pattern *)
Theorem config_of_env_table : forall (env : string -> option string) (avail : string -> bool),
  config_of_env tables true env avail =
    (let db := match env "CSPUZ_DEFAULT_BACKEND" with
               | None => auto_order avail
               | Some s => if s =? "auto" then auto_order avail else s
               end in
     let* p := match env "CSPUZ_USE_GRAPH_PRIMITIVE" with
               | Some s => strict_bool s
               | None => Ok (mem db ["csugar"; "enigma_csp"; "cspuz_core"])
               end in
     let* d := match env "CSPUZ_USE_GRAPH_DIVISION_PRIMITIVE" with
               | Some s => strict_bool s
               | None => Ok (mem db ["enigma_csp"; "cspuz_core"])
               end in
     Ok (mk_config db (env "CSPUZ_BACKEND_PATH") p d)).
Proof. exact config_of_env_G. Qed.
Print Assumptions config_of_env_table.

(* Config(infer_from_env=False) ignores the environment *)
Theorem config_without_env : forall (env : string -> option string) (avail : string -> bool),
  config_of_env tables false env avail =
    Ok (mk_config (auto_order avail) None
                  (mem (auto_order avail) ["csugar"; "enigma_csp"; "cspuz_core"])
                  (mem (auto_order avail) ["enigma_csp"; "cspuz_core"])).
Proof. exact config_no_env_G. Qed.
Print Assumptions config_without_env.

Theorem default_backend_env : forall env avail cfg,
  config_of_env tables true env avail = Ok cfg ->
  default_backend cfg =
    match env "CSPUZ_DEFAULT_BACKEND" with
    | None => auto_order avail
    | Some s => if s =? "auto" then auto_order avail else s
    end.
Proof. exact default_backend_env_G. Qed.
Print Assumptions default_backend_env.

(* the flags default to on exactly for the backends that support the primitive *)
Theorem primitive_default : forall env avail cfg,
  config_of_env tables true env avail = Ok cfg ->
  (env "CSPUZ_USE_GRAPH_PRIMITIVE" = None ->
     use_graph_primitive cfg = mem (default_backend cfg) ["csugar"; "enigma_csp"; "cspuz_core"]) /\
  (env "CSPUZ_USE_GRAPH_DIVISION_PRIMITIVE" = None ->
     use_graph_division_primitive cfg = mem (default_backend cfg) ["enigma_csp"; "cspuz_core"]).
Proof. exact primitive_default_G. Qed.
Print Assumptions primitive_default.

(* an environment setting overrides the default whatever the backend, is parsed strictly, and a
   rejected spelling is the only way the construction fails (with ValueError) *)
Theorem env_override_strict : forall env avail,
  (forall s, env "CSPUZ_USE_GRAPH_PRIMITIVE" = Some s ->
     match config_of_env tables true env avail with
     | Ok cfg => strict_bool s = Ok (use_graph_primitive cfg)
     | Err e => e = ValueError /\
                (strict_bool s = Err ValueError \/
                 exists s', env "CSPUZ_USE_GRAPH_DIVISION_PRIMITIVE" = Some s' /\ strict_bool s' = Err ValueError)
     end) /\
  (forall s, env "CSPUZ_USE_GRAPH_DIVISION_PRIMITIVE" = Some s ->
     match config_of_env tables true env avail with
     | Ok cfg => strict_bool s = Ok (use_graph_division_primitive cfg)
     | Err e => e = ValueError /\
                (strict_bool s = Err ValueError \/
                 exists s', env "CSPUZ_USE_GRAPH_PRIMITIVE" = Some s' /\ strict_bool s' = Err ValueError)
     end) /\
  (env "CSPUZ_USE_GRAPH_PRIMITIVE" = None -> env "CSPUZ_USE_GRAPH_DIVISION_PRIMITIVE" = None ->
     exists cfg, config_of_env tables true env avail = Ok cfg).
Proof. exact env_override_strict_G. Qed.
Print Assumptions env_override_strict.

(* name dispatch: exactly the six names, each to its class; every other string is a ValueError *)
Theorem unknown_backend_rejected : forall name : string,
  (forall cls, backend_by_name tables name = Ok cls <->
     In (name, cls)
        [("sugar", "sugar_like.SugarBackend"); ("sugar_extended", "sugar_like.SugarExtendedBackend");
         ("z3", "z3.Z3Backend"); ("csugar", "sugar_like.CSugarBackend");
         ("enigma_csp", "sugar_like.EnigmaCSPBackend"); ("cspuz_core", "sugar_like.CspuzCoreBackend")]) /\
  (~ In name ["sugar"; "sugar_extended"; "z3"; "csugar"; "enigma_csp"; "cspuz_core"] ->
     backend_by_name tables name = Err ValueError).
Proof. exact unknown_backend_rejected_G. Qed.
Print Assumptions unknown_backend_rejected.

(* the per-call argument wins; config.default_backend is consulted only when it is None *)
Theorem call_argument_wins : forall cfg : config,
  (forall name, get_backend tables (BName name) cfg = rmap ClsNamed (backend_by_name tables name)) /\
  (forall id, get_backend tables (BClass id) cfg = Ok (ClsUser id)) /\
  get_backend tables BNone cfg = rmap ClsNamed (backend_by_name tables (default_backend cfg)).
Proof. exact call_argument_wins_G. Qed.
Print Assumptions call_argument_wins.

(* which class is instantiated and which external entry point the solve reaches *)
Theorem solve_receiver_table : forall cfg : config,
  solve_receiver tables (BName "sugar") cfg = Ok (ClsNamed "sugar_like.SugarBackend", CallSubprocess (sugar_argv0 cfg)) /\
  solve_receiver tables (BName "sugar_extended") cfg = Ok (ClsNamed "sugar_like.SugarExtendedBackend", CallSubprocess (sugar_argv0 cfg)) /\
  solve_receiver tables (BName "z3") cfg = Ok (ClsNamed "z3.Z3Backend", CallModule "z3") /\
  solve_receiver tables (BName "csugar") cfg = Ok (ClsNamed "sugar_like.CSugarBackend", CallModule "pycsugar") /\
  solve_receiver tables (BName "enigma_csp") cfg = Ok (ClsNamed "sugar_like.EnigmaCSPBackend", CallModule "enigma_csp") /\
  solve_receiver tables (BName "cspuz_core") cfg = Ok (ClsNamed "sugar_like.CspuzCoreBackend", CallModule "cspuz_core") /\
  (forall id, solve_receiver tables (BClass id) cfg = Ok (ClsUser id, CallUser id)) /\
  (forall name, ~ In name ["sugar"; "sugar_extended"; "z3"; "csugar"; "enigma_csp"; "cspuz_core"] ->
     solve_receiver tables (BName name) cfg = Err ValueError) /\
  solve_receiver tables BNone cfg = solve_receiver tables (BName (default_backend cfg)) cfg.
Proof. exact solve_receiver_G. Qed.
Print Assumptions solve_receiver_table.

(* auto-detection end to end: the default solve reaches a module that is importable, or Sugar when none is *)
Theorem auto_detected_backend_is_importable : forall env avail cfg,
  config_of_env tables true env avail = Ok cfg ->
  (env "CSPUZ_DEFAULT_BACKEND" = None \/ env "CSPUZ_DEFAULT_BACKEND" = Some "auto") ->
  (exists cls m, solve_receiver tables BNone cfg = Ok (cls, CallModule m) /\ avail m = true) \/
  (avail "cspuz_core" = false /\ avail "enigma_csp" = false /\ avail "pycsugar" = false /\ avail "z3" = false /\
   solve_receiver tables BNone cfg = Ok (ClsNamed "sugar_like.SugarBackend", CallSubprocess (sugar_argv0 cfg))).
Proof. exact auto_detected_importable_G. Qed.
Print Assumptions auto_detected_backend_is_importable.

(* graph helpers: the native operator is posted exactly when the explicit argument, or else the
   configuration flag, says so ([want arg flag] = match arg with Some b => b | None => flag end) *)
Theorem primitive_decision_table : forall (cfg : config) (arg : option bool) (acyclic explicit dd : bool),
  let p := use_graph_primitive cfg in
  let d := use_graph_division_primitive cfg in
  emits tables "active_vertices_connected" cfg arg acyclic explicit dd
    = Ok (if want arg p && negb acyclic then [OpAVC] else []) /\
  emits tables "active_edges_single_cycle" cfg arg acyclic explicit dd
    = Ok (if want arg p then [OpAVC] else []) /\
  emits tables "active_edges_single_path" cfg arg acyclic explicit dd
    = (if want arg p then Ok [OpAVC] else Err OtherError) /\
  emits tables "active_edges_connected_crossable" cfg arg acyclic explicit dd
    = Ok (if want arg p then [OpAVC] else []) /\
  emits tables "active_edges_single_cycle_crossable" cfg arg acyclic explicit dd
    = Ok (if want arg p then [OpAVC] else []) /\
  emits tables "division_connected_variable_groups_with_borders" cfg arg acyclic explicit dd
    = Ok (if want arg d then [OpDIV] else []) /\
  emits tables "division_connected" cfg None acyclic explicit dd
    = Ok (if p then [OpAVC] else []) /\
  emits tables "active_vertices_not_adjacent_and_not_segmenting" cfg None acyclic true dd
    = Ok (if p then [OpAVC] else []) /\
  (* ... on a 2-D array: single-row / single-column boards go through active_vertices_connected
     ([dd] = true), larger boards use the diagonal-chain encoding, which has no decision *)
  emits tables "active_vertices_not_adjacent_and_not_segmenting" cfg None acyclic false true
    = Ok (if p then [OpAVC] else []) /\
  emits tables "active_vertices_not_adjacent_and_not_segmenting" cfg None acyclic false false = Ok [] /\
  emits tables "division_connected_variable_groups" cfg arg acyclic explicit dd = Ok [] /\
  emits tables "active_edges_acyclic" cfg arg acyclic explicit dd = Ok [] /\
  emits tables "active_vertices_not_adjacent" cfg arg acyclic explicit dd = Ok [].
Proof. exact primitive_decision_G. Qed.
Print Assumptions primitive_decision_table.

(* never for acyclic connectivity, whatever the argument and the configuration say *)
Theorem acyclic_never_primitive : forall (cfg : config) (arg : option bool) (explicit dd : bool),
  emits tables "active_vertices_connected" cfg arg true explicit dd = Ok [] /\
  emits tables "_active_vertices_connected" cfg arg true explicit dd = Ok [] /\
  resolve_primitive tables "_active_vertices_connected" cfg arg true = Some false /\
  (forall c, In c (t_calls tables) -> c_acy c = AcyPass \/ c_acy c = AcyConst false).
Proof. exact acyclic_never_primitive_G. Qed.
Print Assumptions acyclic_never_primitive.

(* each decision site: which flag it falls back to, and that these are all the sites / all the
   places a native operator is emitted *)
Theorem site_decisions : forall (cfg : config) (arg : option bool) (acyclic : bool),
  resolve_primitive tables "_active_vertices_connected" cfg arg acyclic
    = Some (want arg (use_graph_primitive cfg) && negb acyclic) /\
  resolve_primitive tables "_division_connected" cfg arg acyclic = Some (want arg (use_graph_primitive cfg)) /\
  resolve_primitive tables "_active_edges_single_cycle" cfg arg acyclic = Some (want arg (use_graph_primitive cfg)) /\
  resolve_primitive tables "_active_edges_single_path" cfg arg acyclic = Some (want arg (use_graph_primitive cfg)) /\
  resolve_primitive tables "_division_connected_variable_groups_with_borders" cfg arg acyclic
    = Some (want arg (use_graph_division_primitive cfg)) /\
  map s_fn (t_sites tables) = ["_active_vertices_connected"; "_division_connected";
                               "_division_connected_variable_groups_with_borders";
                               "_active_edges_single_cycle"; "_active_edges_single_path"] /\
  map (fun e => (e_fn e, e_op e)) (t_emits tables)
    = [("_active_vertices_connected", OpAVC); ("_division_connected_variable_groups_with_borders", OpDIV)].
Proof. exact site_decisions_G. Qed.
Print Assumptions site_decisions.
