(* Mirror of cspuz/solver.py::Solver as an immutable state: declared variables,
   answer-key flags, posted constraints.  No proofs here. *)
From Coq Require Import ZArith List Bool.
From Cspuz Require Import Lib.PyErr Core.Expr.
Import ListNotations.
Open Scope Z_scope.

Inductive vdecl := DBool | DInt (lo hi : Z).

Record state := {
  vars : list vdecl;          (* Solver.variables, index = variable id *)
  keys : list bool;           (* Solver.is_answer_key *)
  cons : list expr            (* Solver.constraints, in posting order *)
}.

Definition empty_state : state := {| vars := []; keys := []; cons := [] |}.
Definition next_id (st : state) : nat := length (vars st).

Definition bool_var (st : state) : state * expr :=
  ({| vars := vars st ++ [DBool]; keys := keys st ++ [false]; cons := cons st |},
   BVar (next_id st)).

Definition int_var (st : state) (lo hi : Z) : state * expr :=
  ({| vars := vars st ++ [DInt lo hi]; keys := keys st ++ [false]; cons := cons st |},
   IVar (next_id st) lo hi).

Fixpoint bool_vars (st : state) (n : nat) : state * list expr :=
  match n with
  | O => (st, [])
  | S k => let '(st1, v) := bool_var st in
           let '(st2, vs) := bool_vars st1 k in (st2, v :: vs)
  end.

Fixpoint int_vars (st : state) (n : nat) (lo hi : Z) : state * list expr :=
  match n with
  | O => (st, [])
  | S k => let '(st1, v) := int_var st lo hi in
           let '(st2, vs) := int_vars st1 k lo hi in (st2, v :: vs)
  end.

(* Solver.bool_array / int_array: row-major, sequential ids; int_array raises
   ValueError when lo > hi (before declaring anything) *)
Definition bool_array (st : state) (size : nat) : state * list expr := bool_vars st size.
Definition int_array (st : state) (size : nat) (lo hi : Z) : res (state * list expr) :=
  if hi <? lo then Err ValueError else Ok (int_vars st size lo hi).

(* Solver.ensure on an already flattened list: BoolExpr or Python bool only;
   items before the offending one stay posted (Python appends as it iterates) *)
Definition is_constraint_like (e : expr) : bool :=
  match e with PyBool _ | BVar _ | BNode _ _ => true | _ => false end.

Fixpoint ensure_list (st : state) (l : list expr) : state * option pyerr :=
  match l with
  | [] => (st, None)
  | x :: r =>
      if is_constraint_like x then
        ensure_list {| vars := vars st; keys := keys st; cons := cons st ++ [x] |} r
      else (st, Some TypeError)
  end.

Definition ensure (st : state) (l : list expr) : state :=
  {| vars := vars st; keys := keys st; cons := cons st ++ l |}.

Fixpoint set_nth {A} (l : list A) (n : nat) (a : A) : list A :=
  match l, n with
  | [], _ => []
  | _ :: r, O => a :: r
  | x :: r, S k => x :: set_nth r k a
  end.

Definition add_answer_key (st : state) (e : expr) : res state :=
  match e with
  | BVar i | IVar i _ _ =>
      match nth_error (keys st) i with
      | Some true => Err ValueError
      | Some false => Ok {| vars := vars st; keys := set_nth (keys st) i true; cons := cons st |}
      | None => Err IndexError
      end
  | _ => Err TypeError
  end.

(* an assignment respects the declared domains *)
Fixpoint in_bounds_from (en : env) (i : nat) (vs : list vdecl) : bool :=
  match vs with
  | [] => true
  | DBool :: r => in_bounds_from en (S i) r
  | DInt lo hi :: r => (lo <=? ei en i) && (ei en i <=? hi) && in_bounds_from en (S i) r
  end.
Definition in_bounds (en : env) (st : state) : bool := in_bounds_from en O (vars st).

Section Sat.
  Variable gsem : op -> list (option value) -> option bool.
  Definition satisfies (en : env) (st : state) : bool := forallb (holds gsem en) (cons st).
  Definition model_of (en : env) (st : state) : Prop :=
    in_bounds en st = true /\ satisfies en st = true.
  Definition satisfiable (st : state) : Prop := exists en, model_of en st.
End Sat.

(* two assignments agree on all ids < k *)
Definition agree_below (k : nat) (e1 e2 : env) : Prop :=
  forall i, (i < k)%nat -> eb e1 i = eb e2 i /\ ei e1 i = ei e2 i.

(* variable references in constraints match the declarations *)
Fixpoint refs_ok (vs : list vdecl) (e : expr) : bool :=
  match e with
  | BVar i => match nth_error vs i with Some DBool => true | _ => false end
  | IVar i lo hi => match nth_error vs i with Some (DInt l h) => (l =? lo) && (h =? hi) | _ => false end
  | BNode _ args | INode _ args => forallb (refs_ok vs) args
  | _ => true
  end.
