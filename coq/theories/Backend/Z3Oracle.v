(* An executable stand-in for the SMT solver: brute force over the constants
   occurring in the asserted terms, integer constants ranging over the bounds
   asserted syntactically for them ([x >= lo], [x <= hi] as Z3Backend.solve posts
   them).  Also the specification-level enumeration of a program's assignments
   (directly over Core.Expr.eval, no z3 involved).  Definitions only. *)
From Coq Require Import ZArith List Bool.
From Cspuz Require Import Lib.PyErr Core.Expr Core.Program Backend.Z3.
Import ListNotations.
Open Scope Z_scope.

(* ---- constants occurring in terms ---------------------------------------- *)
Fixpoint zmax_id (t : zterm) : nat :=
  match t with
  | ZBoolVal _ | ZIntVal _ => O
  | ZBoolConst i | ZIntConst i => S i
  | ZNeg a | ZNot a => zmax_id a
  | ZAdd a b | ZSub a b | ZEq a b | ZLe a b | ZLt a b | ZGe a b | ZGt a b | ZXor a b =>
      Nat.max (zmax_id a) (zmax_id b)
  | ZIte c t f => Nat.max (zmax_id c) (Nat.max (zmax_id t) (zmax_id f))
  | ZAnd l | ZOr l | ZDistinct l => fold_right (fun a m => Nat.max (zmax_id a) m) O l
  end.

Fixpoint int_occurs (i : nat) (t : zterm) : bool :=
  match t with
  | ZBoolVal _ | ZIntVal _ | ZBoolConst _ => false
  | ZIntConst j => Nat.eqb i j
  | ZNeg a | ZNot a => int_occurs i a
  | ZAdd a b | ZSub a b | ZEq a b | ZLe a b | ZLt a b | ZGe a b | ZGt a b | ZXor a b =>
      int_occurs i a || int_occurs i b
  | ZIte c t f => int_occurs i c || int_occurs i t || int_occurs i f
  | ZAnd l | ZOr l | ZDistinct l => existsb (int_occurs i) l
  end.

Fixpoint bool_occurs (i : nat) (t : zterm) : bool :=
  match t with
  | ZBoolVal _ | ZIntVal _ | ZIntConst _ => false
  | ZBoolConst j => Nat.eqb i j
  | ZNeg a | ZNot a => bool_occurs i a
  | ZAdd a b | ZSub a b | ZEq a b | ZLe a b | ZLt a b | ZGe a b | ZGt a b | ZXor a b =>
      bool_occurs i a || bool_occurs i b
  | ZIte c t f => bool_occurs i c || bool_occurs i t || bool_occurs i f
  | ZAnd l | ZOr l | ZDistinct l => existsb (bool_occurs i) l
  end.

Definition zmax_ids (ts : list zterm) : nat := fold_right (fun a m => Nat.max (zmax_id a) m) O ts.

(* ---- syntactic bounds ---------------------------------------------------- *)
Fixpoint find_lo (i : nat) (ts : list zterm) : option Z :=
  match ts with
  | [] => None
  | ZGe (ZIntConst j) (ZIntVal lo) :: r => if Nat.eqb i j then Some lo else find_lo i r
  | _ :: r => find_lo i r
  end.
Fixpoint find_hi (i : nat) (ts : list zterm) : option Z :=
  match ts with
  | [] => None
  | ZLe (ZIntConst j) (ZIntVal hi) :: r => if Nat.eqb i j then Some hi else find_hi i r
  | _ :: r => find_hi i r
  end.

Definition zrange (lo hi : Z) : list Z :=
  map (fun k => lo + Z.of_nat k) (seq 0 (Z.to_nat (hi - lo + 1))).

Definition dom_b (ts : list zterm) (i : nat) : list bool :=
  if existsb (bool_occurs i) ts then [false; true] else [false].
Definition dom_i (ts : list zterm) (i : nat) : list Z :=
  if existsb (int_occurs i) ts then
    match find_lo i ts, find_hi i ts with
    | Some lo, Some hi => zrange lo hi
    | _, _ => []                        (* unbounded constant: outside this oracle's scope *)
    end
  else [0].

(* every integer constant that occurs has both bounds asserted *)
Definition boundedb (ts : list zterm) : bool :=
  forallb (fun i => negb (existsb (int_occurs i) ts) ||
                    match find_lo i ts, find_hi i ts with Some _, Some _ => true | _, _ => false end)
          (seq 0 (zmax_ids ts)).

(* ---- enumeration --------------------------------------------------------- *)
(* assignments to constants i, i+1, ..., i+k-1 as lists of (bool value, int value) *)
Fixpoint enum_from (ts : list zterm) (i : nat) (k : nat) : list (list (bool * Z)) :=
  match k with
  | O => [[]]
  | S k' =>
      let rest := enum_from ts (S i) k' in
      flat_map (fun b => flat_map (fun z => map (fun r => (b, z) :: r) rest) (dom_i ts i)) (dom_b ts i)
  end.

Definition asg_env (a : list (bool * Z)) : env :=
  {| eb := fun i => match nth_error a i with Some (b, _) => b | None => false end;
     ei := fun i => match nth_error a i with Some (_, z) => z | None => 0 end |}.

Definition asg_model (a : list (bool * Z)) : zmodel :=
  {| zb := fun i => option_map fst (nth_error a i);
     zi := fun i => option_map snd (nth_error a i) |}.

Definition bf_oracle (ts : list zterm) : option zmodel :=
  option_map asg_model
    (find (fun a => forallb (ztrue (asg_env a)) ts) (enum_from ts O (zmax_ids ts))).

(* ---- specification-level enumeration of a program's assignments ---------- *)
Definition dom_of (d : vdecl) : list value :=
  match d with
  | DBool => [VB false; VB true]
  | DInt lo hi => map VI (zrange lo hi)
  end.

Fixpoint enum_sols (vs : list vdecl) : list (list value) :=
  match vs with
  | [] => [[]]
  | d :: r => let rest := enum_sols r in flat_map (fun v => map (fun s => v :: s) rest) (dom_of d)
  end.

(* all models of the program within the declared domains, by the ordinary
   meaning [eval] *)
Definition spec_models (st : state) : list (list value) :=
  filter (fun s => satisfies no_graph (env_of_sol s) st) (enum_sols (vars st)).

Definition value_eqb (a b : value) : bool :=
  match a, b with
  | VB x, VB y => Bool.eqb x y
  | VI x, VI y => x =? y
  | _, _ => false
  end.

(* what solve() must report for variable i given the set of all models *)
Definition common_fact (ms : list (list value)) (i : nat) : option value :=
  match ms with
  | [] => None
  | m0 :: _ =>
      match nth_error m0 i with
      | Some v => if forallb (fun m => match nth_error m i with Some w => value_eqb v w | None => false end) ms
                  then Some v else None
      | None => None
      end
  end.

Definition common_facts (st : state) : option (list (option value)) :=
  match spec_models st with
  | [] => None
  | ms => Some (map (fun '(i, k) => if (k : bool) then common_fact ms i else None)
                    (combine (seq 0 (length (vars st))) (keys st)))
  end.

(* membership test used by the harness: is this list of sol values a model? *)
Definition sol_is_model (st : state) (s : list value) : bool :=
  Nat.eqb (length s) (length (vars st)) &&
  in_bounds (env_of_sol s) st && satisfies no_graph (env_of_sol s) st &&
  forallb (fun '(d, v) => match d, v with DBool, VB _ => true | DInt _ _, VI _ => true | _, _ => false end)
          (combine (vars st) s).
