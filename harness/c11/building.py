"""C11 plug-in: building (solve_building(n, up, dw, lf, rg)); clue >= 1, 0 = none."""
import math

import c11lib as L

NAME = "building"
MODULE = "cspuz.puzzle.building"
FUNC = "solve_building"
TIER1 = ("Building", "solve_building_model")
MAX_ANSWERS = 400000


def call(mod, pb):
    return mod.solve_building(pb["n"], pb["up"], pb["dw"], pb["lf"], pb["rg"])


def ncand(pb):
    return math.factorial(pb["n"]) ** pb["n"]


def encode(pb):
    return [[pb["n"]], pb["up"], pb["dw"], pb["lf"], pb["rg"]]


def _rand(rng, n, p):
    f = lambda: [0 if rng.random() < p else rng.randint(1, n) for _ in range(n)]  # noqa
    return {"n": n, "up": f(), "dw": f(), "lf": f(), "rg": f()}


def families(tier, rng):
    th = tier == "thorough"
    import itertools
    for n in (1, 2):
        for t in itertools.product(range(0, n + 1), repeat=4 * n):
            if n == 1 or th or rng.random() < 0.25:
                yield {"n": n, "up": list(t[0:n]), "dw": list(t[n:2 * n]), "lf": list(t[2 * n:3 * n]), "rg": list(t[3 * n:])}
    for _ in range(400 if th else 60):
        yield _rand(rng, 3, rng.choice([0.5, 0.7, 0.85]))
    for _ in range(40 if th else 3):
        yield _rand(rng, 4, rng.choice([0.6, 0.8]))


def tier2(tier, rng):
    th = tier == "thorough"
    yield {"n": 1, "up": [1], "dw": [0], "lf": [0], "rg": [1]}
    for _ in range(10 if th else 3):
        yield _rand(rng, 2, 0.5)
    for _ in range(20 if th else 3):
        yield _rand(rng, 3, 0.6)


def tier1_problems(tier, rng):
    """program-capture tie: every clue vector for n = 1, samples for n = 2..7 (clues 0 = none, 1..n, also n + 1),
    n = 0 (ValueError), clue lists that are too short (IndexError)"""
    import itertools
    th = tier == "thorough"
    for t in itertools.product(range(0, 3), repeat=4):
        yield {"n": 1, "up": [t[0]], "dw": [t[1]], "lf": [t[2]], "rg": [t[3]]}
    for n in (2, 3, 4, 5, 6, 7):
        for p in [0.0, 0.3, 0.6, 0.85] * (3 if th else 1):
            yield _rand(rng, n, p)
        f = lambda: [rng.choice([-1, 0, 1, n, n + 1]) for _ in range(n)]  # noqa
        yield {"n": n, "up": f(), "dw": f(), "lf": f(), "rg": f()}
    yield {"n": 0, "up": [], "dw": [], "lf": [], "rg": []}
    yield {"n": 2, "up": [1, 2], "dw": [0], "lf": [0, 0], "rg": [0, 0]}
    yield {"n": 2, "up": [0, 0], "dw": [0, 0], "lf": [0, 0], "rg": [2]}


def _visible(line):
    top, k = 0, 0
    for v in line:
        if v > top:
            top, k = v, k + 1
    return k


def big(tier, rng):
    """n = 10..12 with two-digit clues: the cyclic Latin square (row i = i+1, i+2, ..., wrapping); its first row and
    first column are ascending, so they are seen completely (clue n)"""
    th = tier == "thorough"
    for n in ((10, 11, 12) if th else (10, rng.choice([11, 12]))):
        g = [[(i + j) % n + 1 for j in range(n)] for i in range(n)]
        cols = [[g[y][x] for y in range(n)] for x in range(n)]
        up = [_visible(c) for c in cols]
        dw = [_visible(c[::-1]) for c in cols]
        lf = [_visible(r) for r in g]
        rg = [_visible(r[::-1]) for r in g]
        keep = lambda v: [x if (x >= 10 or rng.random() < 0.5) else 0 for x in v]  # noqa
        yield {"n": n, "up": keep(up), "dw": keep(dw), "lf": keep(lf), "rg": keep(rg), "planted": [L.flat(g)]}
