(* Round trip of compositions: OneOf, Tupl, Seq, Grid by induction on the term. *)
From Coq Require Import ZArith List Ascii Bool NArith Lia.
From Cspuz Require Import Lib.PyErr Codec.Comb Codec.CombWf Codec.CombBasics Codec.CombLeaf.
Import ListNotations.
Local Open Scope Z_scope.

(* ------------------------------------------------------------------ induction principle for comb *)
Section CombInd.
  Variable P : comb -> Prop.
  Hypothesis Hfix : forall s, P (FixStr s).
  Hypothesis Hdict : forall b a, P (Dict b a).
  Hypothesis Hspaces : forall sp sm, P (Spaces sp sm).
  Hypothesis Hdec : P DecInt.
  Hypothesis Hhex : P HexInt.
  Hypothesis Hisp : forall sp mi ms, P (IntSpaces sp mi ms).
  Hypothesis Hmd : forall b d, P (MultiDigit b d).
  Hypothesis Honeof : forall l, Forall P l -> P (OneOf l).
  Hypothesis Htupl : forall l, Forall P l -> P (Tupl l).
  Hypothesis Hseq : forall c n, P c -> P (Seq c n).
  Hypothesis Hgrid : forall c hw, P c -> P (Grid c hw).
  Hypothesis Hrooms : forall s a, P (Rooms s a).
  Hypothesis Hvrooms : forall c s a, P c -> P (ValuedRooms c s a).
  Hypothesis Hcustom : forall k, P (Custom k).
  Fixpoint comb_ind' (c : comb) : P c :=
    match c with
    | FixStr s => Hfix s
    | Dict b a => Hdict b a
    | Spaces sp sm => Hspaces sp sm
    | DecInt => Hdec
    | HexInt => Hhex
    | IntSpaces sp mi ms => Hisp sp mi ms
    | MultiDigit b d => Hmd b d
    | OneOf l => Honeof l ((fix go (l : list comb) : Forall P l :=
                              match l with [] => Forall_nil P | x :: t => Forall_cons x (comb_ind' x) (go t) end) l)
    | Tupl l => Htupl l ((fix go (l : list comb) : Forall P l :=
                            match l with [] => Forall_nil P | x :: t => Forall_cons x (comb_ind' x) (go t) end) l)
    | Seq c1 n => Hseq c1 n (comb_ind' c1)
    | Grid c1 hw => Hgrid c1 hw (comb_ind' c1)
    | Rooms s a => Hrooms s a
    | ValuedRooms c1 s a => Hvrooms c1 s a (comb_ind' c1)
    | Custom k => Hcustom k
    end.
End CombInd.

(* ------------------------------------------------------------------ the inner loops, named *)
Definition oneof_ser (e : env) (data : pv) (idx : nat) :=
  fix oneof (l : list comb) : sres :=
    match l with
    | [] => Ok None
    | c1 :: l' => match ser e c1 data idx with
                  | Err e' => Err e'
                  | Ok (Some r) => Ok (Some r)
                  | Ok None => oneof l'
                  end
    end.

Definition oneof_de (e : env) (s : str) :=
  fix oneof (l : list comb) : dres :=
    match l with
    | [] => Ok None
    | c1 :: l' => match de e c1 s with
                  | Err e' => Err e'
                  | Ok (Some r) => Ok (Some r)
                  | Ok None => oneof l'
                  end
    end.

Definition oneof_accepts (e : env) (data : list pv) (idx : nat) :=
  fix go (l : list comb) : Prop :=
    match l with
    | [] => True
    | c1 :: l' => match ser e c1 (VList data) idx with
                  | Ok None => go l'
                  | _ => accepts e c1 data idx
                  end
    end.

Definition oneof_exact (e : env) (data : list pv) (idx : nat) :=
  fix go (l : list comb) : Prop :=
    match l with
    | [] => True
    | c1 :: l' => match ser e c1 (VList data) idx with
                  | Ok None => go l'
                  | _ => exact e c1 data idx
                  end
    end.

Definition tupl_ser (e : env) :=
  fix tupl (l : list comb) (d : list pv) (parts : str) : sres :=
    match l, d with
    | [], _ => Ok (Some (1%nat, parts))
    | c1 :: l', di :: d' =>
        match ser e c1 di 0 with
        | Err e' => Err e'
        | Ok None => Ok None
        | Ok (Some (_, s)) => tupl l' d' (parts ++ s)
        end
    | _ :: _, [] => Err IndexError
    end.

Definition tupl_de (e : env) :=
  fix tupl (l : list comb) (s' : str) (ofs : nat) (parts : list pv) : dres :=
    match l with
    | [] => Ok (Some (ofs, [VTup parts]))
    | c1 :: l' =>
        match de e c1 s' with
        | Err e' => Err e'
        | Ok None => Ok None
        | Ok (Some (n_read, val)) => tupl l' (skipn n_read s') (ofs + n_read)%nat (parts ++ [VList val])
        end
    end.

Definition tupl_accepts (e : env) :=
  fix go (l : list comb) (ds : list pv) : Prop :=
    match l, ds with
    | [], [] => True
    | c1 :: l', d1 :: ds' =>
        (exists items, d1 = VList items /\ accepts e c1 items 0 /\ exact e c1 items 0
                       /\ consumed_all e c1 items) /\ go l' ds'
    | _, _ => False
    end.

Lemma ser_oneof e l data idx : ser e (OneOf l) data idx = oneof_ser e data idx l.
Proof. reflexivity. Qed.
Lemma de_oneof e l s : de e (OneOf l) s = oneof_de e s l.
Proof. reflexivity. Qed.
Lemma accepts_oneof e l data idx : accepts e (OneOf l) data idx = oneof_accepts e data idx l.
Proof. reflexivity. Qed.
Lemma exact_oneof e l data idx : exact e (OneOf l) data idx = oneof_exact e data idx l.
Proof. reflexivity. Qed.
Lemma de_tupl e l s : de e (Tupl l) s = tupl_de e l s 0%nat [].
Proof. reflexivity. Qed.
Lemma accepts_tupl e l data idx :
  accepts e (Tupl l) data idx = exists ds, nth_error data idx = Some (VTup ds) /\ tupl_accepts e l ds.
Proof. reflexivity. Qed.
Lemma ser_tupl e l data idx :
  ser e (Tupl l) data idx =
  with_item data idx (fun _ v =>
    match v with
    | VTup d => if negb (Nat.eqb (length d) (length l)) then Ok None else tupl_ser e l d []
    | _ => Ok None
    end).
Proof. reflexivity. Qed.

(* everything we know about a sub-term *)
Definition ALL (e : env) (c : comb) : Prop :=
  wf c = true -> RT e c /\ FS e c /\ FD e c /\ EX e c.

Definition head_in (f : ascii -> bool) (s : str) : Prop :=
  match s with [] => True | ch :: _ => f ch = true end.

Lemma follow_ok_app c (f : ascii -> bool) (t rest : str) :
  head_in f t -> (forall ch, f ch = true -> cont c ch = false) -> follow_ok c rest -> follow_ok c (t ++ rest).
Proof.
  intros Hh Hd Hr. destruct t as [|ch t]; simpl; auto.
Qed.

(* ------------------------------------------------------------------ OneOf *)
Section OneOf.
  Variable e : env.

  Lemma oneof_fs_aux data idx : forall l,
    Forall (ALL e) l -> forallb wf l = true -> forallb (fun c1 => negb (nullable c1)) l = true ->
    forall k s, oneof_ser e data idx l = Ok (Some (k, s)) ->
    exists ch t, s = ch :: t /\ existsb (fun c1 => first c1 ch) l = true.
  Proof.
    induction l as [|c1 l IH]; intros Hall Hwf Hnn k s H; simpl in H; [discriminate|].
    inversion Hall as [|? ? H1 Hall']; subst. simpl in Hwf, Hnn.
    apply andb_true_iff in Hwf as [Hwf1 Hwf']. apply andb_true_iff in Hnn as [Hn1 Hnn'].
    destruct (ser e c1 data idx) as [[[k1 s1]|]|] eqn:E; try discriminate.
    - inversion H; subst. destruct (H1 Hwf1) as (_ & Hfs & _). specialize (Hfs _ _ _ _ E).
      destruct s as [|ch t].
      + apply negb_true_iff in Hn1. congruence.
      + exists ch, t. split; auto. simpl. rewrite Hfs. reflexivity.
    - destruct (IH Hall' Hwf' Hnn' k s H) as (ch & t & Es & Hex). exists ch, t. split; auto.
      simpl. rewrite Hex. apply orb_true_r.
  Qed.

  Lemma oneof_rt_aux data idx : forall l,
    Forall (ALL e) l -> forallb wf l = true -> forallb strict l = true ->
    forallb (fun c1 => negb (nullable c1)) l = true ->
    pairwise (fun a b => disjoint (first a) (first b)) l = true ->
    forall k s rest, oneof_ser e (VList data) idx l = Ok (Some (k, s)) ->
    oneof_accepts e data idx l -> (forall c1, In c1 l -> follow_ok c1 rest) ->
    exists items, oneof_de e (s ++ rest) l = Ok (Some (length s, items))
      /\ firstn k items = firstn k (skipn idx data) /\ (k <= length items)%nat
      /\ (oneof_exact e data idx l -> length items = k).
  Proof.
    induction l as [|c1 l IH]; intros Hall Hwf Hst Hnn Hpw k s rest H Hacc Hfol; simpl in H; [discriminate|].
    inversion Hall as [|? ? H1 Hall']; subst. simpl in Hwf, Hnn, Hst, Hpw.
    apply andb_true_iff in Hwf as [Hwf1 Hwf']. apply andb_true_iff in Hnn as [Hn1 Hnn'].
    apply andb_true_iff in Hst as [Hst1 Hst']. apply andb_true_iff in Hpw as [Hpw1 Hpw'].
    destruct (H1 Hwf1) as (Hrt & Hfs & Hfd & _).
    simpl in Hacc. simpl oneof_exact.
    destruct (ser e c1 (VList data) idx) as [[[k1 s1]|]|] eqn:E; try discriminate.
    - inversion H; subst k1 s1.
      destruct (Hrt data idx k s rest E Hacc (Hfol c1 (or_introl eq_refl))) as (items & Hde & Hf & Hk & Hex).
      exists items. simpl. rewrite Hde. auto.
    - destruct (oneof_fs_aux (VList data) idx l Hall' Hwf' Hnn' k s H) as (ch & t & Es & Hex).
      destruct (IH Hall' Hwf' Hst' Hnn' Hpw' k s rest H Hacc (fun c Hc => Hfol c (or_intror Hc)))
        as (items & Hde & Hrest).
      exists items. simpl.
      assert (Hnone : de e c1 (s ++ rest) = Ok None).
      { apply Hfd; auto. subst s. simpl.
        apply existsb_exists in Hex as (cj & Hin & Hfj).
        rewrite forallb_forall in Hpw1. specialize (Hpw1 cj Hin).
        destruct (first c1 ch) eqn:Ef; auto.
        rewrite (disjoint_spec _ _ ch Hpw1 Ef) in Hfj. discriminate. }
      rewrite Hnone. rewrite Hde. auto.
  Qed.

  Lemma oneof_ex_aux data idx : forall l,
    Forall (ALL e) l -> forallb wf l = true ->
    forall k s, oneof_ser e (VList data) idx l = Ok (Some (k, s)) ->
    (idx + k < length data)%nat -> oneof_exact e data idx l.
  Proof.
    induction l as [|c1 l IH]; intros Hall Hwf k s H Hlt; simpl in H; [discriminate|].
    inversion Hall as [|? ? H1 Hall']; subst. simpl in Hwf.
    apply andb_true_iff in Hwf as [Hwf1 Hwf']. destruct (H1 Hwf1) as (_ & _ & _ & Hex).
    simpl. destruct (ser e c1 (VList data) idx) as [[[k1 s1]|]|] eqn:E; try discriminate.
    - inversion H; subst. eapply Hex; eauto.
    - eapply IH; eauto.
  Qed.

  Lemma oneof_fd_aux s : forall l, Forall (ALL e) l -> forallb wf l = true -> forallb strict l = true ->
    match s with [] => True | ch :: _ => existsb (fun c1 => first c1 ch) l = false end ->
    oneof_de e s l = Ok None.
  Proof.
    induction l as [|c1 l IH]; intros Hall Hwf Hst Hs; simpl; auto.
    inversion Hall as [|? ? H1 Hall']; subst. simpl in Hwf, Hst.
    apply andb_true_iff in Hwf as [Hwf1 Hwf']. apply andb_true_iff in Hst as [Hst1 Hst'].
    destruct (H1 Hwf1) as (_ & _ & Hfd & _).
    assert (Hnone : de e c1 s = Ok None).
    { apply Hfd; auto. destruct s; auto. simpl in Hs. apply orb_false_iff in Hs as [Hs _]. exact Hs. }
    rewrite Hnone. apply IH; auto. destruct s; auto. simpl in Hs. apply orb_false_iff in Hs as [_ Hs]. exact Hs.
  Qed.

  Lemma wf_oneof l : wf (OneOf l) = true ->
    forallb wf l = true /\ forallb strict l = true /\ forallb (fun c1 => negb (nullable c1)) l = true
    /\ pairwise (fun a b => disjoint (first a) (first b)) l = true.
  Proof. simpl. intros H. repeat (apply andb_true_iff in H as [H ?]). auto. Qed.

  Lemma oneof_all l : Forall (ALL e) l -> ALL e (OneOf l).
  Proof.
    intros Hall Hwf. destruct (wf_oneof l Hwf) as (Hw & Hst & Hnn & Hpw). repeat split.
    - intros data idx k s rest Hser Hacc Hfol. rewrite ser_oneof in Hser. rewrite accepts_oneof in Hacc.
      rewrite de_oneof, exact_oneof. eapply oneof_rt_aux; eauto.
      intros c1 Hin. unfold follow_ok in *. destruct rest; auto. simpl in Hfol.
      destruct (cont c1 a) eqn:Ec; auto.
      assert (existsb (fun c2 => cont c2 a) l = true) by (apply existsb_exists; eauto). congruence.
    - intros data idx k s Hser. rewrite ser_oneof in Hser.
      destruct (oneof_fs_aux data idx l Hall Hw Hnn k s Hser) as (ch & t & Es & Hex). subst s. exact Hex.
    - intros Hstrict s Hs. rewrite de_oneof. apply oneof_fd_aux; auto.
    - intros data idx k s Hser Hlt. rewrite ser_oneof in Hser. rewrite exact_oneof. eapply oneof_ex_aux; eauto.
  Qed.
End OneOf.

(* ------------------------------------------------------------------ Tupl *)
Definition tupl_first (ch : ascii) :=
  fix go (l : list comb) : bool :=
    match l with
    | [] => false
    | c1 :: l' => first c1 ch || (nullable c1 && go l')
    end.

Lemma first_tupl l ch : first (Tupl l) ch = tupl_first ch l.
Proof. reflexivity. Qed.

Lemma tupl_first_in ch : forall l, tupl_first ch l = true -> exists cj, In cj l /\ first cj ch = true.
Proof.
  induction l as [|c1 l IH]; simpl; intros H; [discriminate|].
  apply orb_true_iff in H as [H|H].
  - exists c1. auto.
  - apply andb_true_iff in H as [_ H]. destruct (IH H) as (cj & Hin & Hf). exists cj. auto.
Qed.

Section Tupl.
  Variable e : env.

  Lemma tupl_fs_aux : forall l, Forall (ALL e) l -> forallb wf l = true ->
    forall ds parts k s, tupl_ser e l ds parts = Ok (Some (k, s)) ->
    k = 1%nat /\ exists tail, s = parts ++ tail /\
      match tail with [] => forallb nullable l = true | ch :: _ => tupl_first ch l = true end.
  Proof.
    induction l as [|c1 l IH]; intros Hall Hwf ds parts k s H; simpl in H.
    - inversion H; subst. split; auto. exists []. rewrite app_nil_r. auto.
    - destruct ds as [|di ds]; [discriminate|].
      inversion Hall as [|? ? H1 Hall']; subst. simpl in Hwf. apply andb_true_iff in Hwf as [Hwf1 Hwf'].
      destruct (H1 Hwf1) as (_ & Hfs & _).
      destruct (ser e c1 di 0) as [[[k1 s1]|]|] eqn:E; try discriminate.
      destruct (IH Hall' Hwf' ds (parts ++ s1) k s H) as (Hk & tail' & Es & Hh). split; auto.
      exists (s1 ++ tail'). split; [rewrite Es, app_assoc; reflexivity|].
      specialize (Hfs _ _ _ _ E). destruct s1 as [|ch s1]; simpl.
      + destruct tail' as [|ch' t']; simpl.
        * rewrite Hfs, Hh. reflexivity.
        * rewrite Hfs, Hh. simpl. apply orb_true_r.
      + rewrite Hfs. reflexivity.
  Qed.

  Lemma tupl_rt_aux : forall l, Forall (ALL e) l -> forallb wf l = true ->
    pairwise (fun a b => disjoint (cont a) (first b)) l = true ->
    forall ds parts k s, tupl_ser e l ds parts = Ok (Some (k, s)) -> tupl_accepts e l ds ->
    forall rest, (forall c1, In c1 l -> follow_ok c1 rest) ->
    exists tail, s = parts ++ tail /\
      forall ofs pparts, tupl_de e l (tail ++ rest) ofs pparts
                         = Ok (Some ((ofs + length tail)%nat, [VTup (pparts ++ ds)])).
  Proof.
    induction l as [|c1 l IH]; intros Hall Hwf Hpw ds parts k s H Hacc rest Hfol.
    - simpl in H. inversion H; subst. destruct ds; [|contradiction]. exists []. split; [rewrite app_nil_r; auto|].
      intros ofs pparts. simpl. rewrite Nat.add_0_r, app_nil_r. reflexivity.
    - destruct ds as [|di ds]; [contradiction|]. simpl in H.
      inversion Hall as [|? ? H1 Hall']; subst. simpl in Hwf, Hpw.
      apply andb_true_iff in Hwf as [Hwf1 Hwf']. apply andb_true_iff in Hpw as [Hpw1 Hpw'].
      destruct (H1 Hwf1) as (Hrt & _ & _ & _).
      destruct Hacc as ((items1 & Edi & Hacc1 & Hex1 & Hcons) & Hacc'). subst di.
      destruct (ser e c1 (VList items1) 0) as [[[k1 s1]|]|] eqn:E; try discriminate.
      pose proof (Hcons _ _ E) as Hk1. subst k1.
      destruct (IH Hall' Hwf' Hpw' ds (parts ++ s1) k s H Hacc' rest (fun c Hc => Hfol c (or_intror Hc)))
        as (tail' & Es & Hde').
      destruct (tupl_fs_aux l Hall' Hwf' ds (parts ++ s1) k s H) as (_ & tail'' & Es'' & Hh).
      assert (tail'' = tail') by (rewrite Es in Es''; apply app_inv_head in Es''; auto). subst tail''.
      exists (s1 ++ tail'). split; [rewrite Es, app_assoc; reflexivity|].
      intros ofs pparts.
      assert (Hf1 : follow_ok c1 (tail' ++ rest)).
      { destruct tail' as [|ch t']; simpl.
        - apply Hfol. left; reflexivity.
        - destruct (tupl_first_in ch l Hh) as (cj & Hin & Hfj).
          rewrite forallb_forall in Hpw1. specialize (Hpw1 cj Hin).
          destruct (cont c1 ch) eqn:Ec; auto.
          rewrite (disjoint_spec _ _ ch Hpw1 Ec) in Hfj. discriminate. }
      destruct (Hrt items1 0%nat (length items1) s1 (tail' ++ rest) E Hacc1 Hf1) as (items & Hde & Hfirst & Hle & Hexact).
      specialize (Hexact Hex1).
      assert (items = items1).
      { simpl in Hfirst. rewrite firstn_all in Hfirst. rewrite <- Hexact in Hfirst. rewrite firstn_all in Hfirst. auto. }
      subst items. simpl. rewrite <- app_assoc. rewrite Hde. rewrite skipn_app_exact.
      rewrite Hde'. rewrite <- app_assoc. simpl. rewrite app_length. do 3 f_equal. lia.
  Qed.

  Lemma wf_tupl l : wf (Tupl l) = true ->
    forallb wf l = true /\ pairwise (fun a b => disjoint (cont a) (first b)) l = true.
  Proof. simpl. intros H. apply andb_true_iff in H as [H ?]. auto. Qed.

  Lemma tupl_all l : Forall (ALL e) l -> ALL e (Tupl l).
  Proof.
    intros Hall Hwf. destruct (wf_tupl l Hwf) as (Hw & Hpw). repeat split.
    - intros data idx k s rest Hser Hacc Hfol. rewrite ser_tupl in Hser. rewrite accepts_tupl in Hacc.
      apply with_item_inv in Hser as (v & Hn & Hser). destruct Hacc as (ds & Hn' & Hacc).
      rewrite Hn in Hn'. inversion Hn'; subst v. clear Hn'.
      destruct (negb (Nat.eqb (length ds) (length l))); [discriminate|].
      destruct (tupl_rt_aux l Hall Hw Hpw ds [] k s Hser Hacc rest) as (tail & Es & Hde).
      { intros c1 Hin. unfold follow_ok in *. destruct rest; auto. simpl in Hfol.
        destruct (cont c1 a) eqn:Ec; auto.
        assert (existsb (fun c2 => cont c2 a) l = true) by (apply existsb_exists; eauto). congruence. }
      destruct (tupl_fs_aux l Hall Hw ds [] k s Hser) as (Hk & _). subst k. simpl in Es. subst tail.
      exists [VTup ds]. rewrite de_tupl, Hde. simpl. repeat split; auto.
      symmetry. apply firstn1_skipn; auto.
    - intros data idx k s Hser. rewrite ser_tupl in Hser.
      apply with_item_inv_pv in Hser as (l0 & v & _ & _ & Hser). destruct v; try discriminate.
      destruct (negb (Nat.eqb (length l1) (length l))); [discriminate|].
      destruct (tupl_fs_aux l Hall Hw l1 [] k s Hser) as (_ & tail & Es & Hh). simpl in Es. subst tail.
      destruct s; auto.
    - intros Hstrict s Hs. rewrite de_tupl. destruct l as [|c1 l]; [discriminate|]. simpl in Hstrict.
      inversion Hall as [|? ? H1 _]; subst. simpl in Hw. apply andb_true_iff in Hw as [Hw1 _].
      destruct (H1 Hw1) as (_ & _ & Hfd & _). simpl.
      rewrite Hfd; auto. destruct s; auto. simpl in Hs. apply orb_false_iff in Hs as [Hs _]. exact Hs.
  Qed.
End Tupl.

(* ------------------------------------------------------------------ the Seq loops, for any item coder *)
Lemma seq_de_loop_done dec n fuel s nr ret : n <= Z.of_nat (length ret) ->
  seq_de_loop dec n fuel s nr ret = Ok (Some (nr, ret)).
Proof. intros H. destruct fuel; simpl; destruct (Z.ltb_spec (Z.of_nat (length ret)) n); auto; lia. Qed.

Lemma seq_de_loop_step dec n f s nr ret : Z.of_nat (length ret) < n ->
  seq_de_loop dec n (S f) s nr ret =
  match dec s with
  | Err e => Err e
  | Ok None => Ok None
  | Ok (Some (ofs, d)) =>
      match ofs, d with
      | O, [] => Err OtherError
      | _, _ => seq_de_loop dec n f (skipn ofs s) (nr + ofs)%nat (ret ++ d)
      end
  end.
Proof. intros H. simpl. destruct (Z.ltb_spec (Z.of_nat (length ret)) n); auto; lia. Qed.

Lemma seq_ser_loop_done serc n d fuel nr ret s : n <= Z.of_nat nr ->
  seq_ser_loop serc n d fuel nr ret = Ok (Some s) -> s = ret /\ Z.of_nat nr = n.
Proof.
  intros H E. destruct fuel; simpl in E; destruct (Z.ltb_spec (Z.of_nat nr) n); try lia;
    destruct (Z.eqb_spec (Z.of_nat nr) n); try discriminate; inversion E; auto.
Qed.

Lemma seq_ser_loop_step serc n d fuel nr ret s : Z.of_nat nr < n ->
  seq_ser_loop serc n d fuel nr ret = Ok (Some s) ->
  exists f ofs d2, fuel = S f /\ serc d nr = Ok (Some (S ofs, d2)) /\
                   seq_ser_loop serc n d f (nr + S ofs)%nat (ret ++ d2) = Ok (Some s).
Proof.
  intros H E. destruct fuel; simpl in E; destruct (Z.ltb_spec (Z.of_nat nr) n); try lia; try discriminate.
  destruct (serc d nr) as [[[ofs d2]|]|]; try discriminate. destruct ofs; try discriminate.
  exists fuel, ofs, d2. auto.
Qed.

Lemma skipn_skipn' {A} (a b : nat) (l : list A) : skipn a (skipn b l) = skipn (b + a) l.
Proof.
  revert l; induction b as [|b IH]; intros l; simpl; auto.
  destruct l; simpl; auto. destruct a; reflexivity.
Qed.

Lemma pair_match_nonempty {A B} (ofs : nat) (items : list A) (x y : B) :
  items <> [] -> match ofs, items with O, [] => x | _, _ => y end = y.
Proof. destruct ofs, items; congruence. Qed.

Section SeqLoop.
  Variables (serc : pv -> nat -> sres) (dec : str -> dres) (fst_ cnt : ascii -> bool) (nul : bool).
  Definition folw (rest : str) : Prop := match rest with [] => True | ch :: _ => cnt ch = false end.

  Lemma seq_loop_fs n d :
    (forall p k s, serc d p = Ok (Some (k, s)) -> match s with [] => nul = true | ch :: _ => fst_ ch = true end) ->
    forall fuel n_read acc s, seq_ser_loop serc n d fuel n_read acc = Ok (Some s) ->
    exists tail, s = acc ++ tail /\
      match tail with [] => n <= Z.of_nat n_read \/ nul = true | ch :: _ => fst_ ch = true end.
  Proof.
    intros Hfs. induction fuel as [|f IH]; intros n_read acc s H.
    - destruct (Z.ltb_spec (Z.of_nat n_read) n) as [Hlt|Hge].
      + apply seq_ser_loop_step in H as (f & ? & ? & ? & _); auto. discriminate.
      + apply seq_ser_loop_done in H as [H _]; auto. subst. exists []. rewrite app_nil_r. auto.
    - destruct (Z.ltb_spec (Z.of_nat n_read) n) as [Hlt|Hge].
      + apply seq_ser_loop_step in H as (f' & ofs & d2 & Ef & E & H); auto. inversion Ef; subst f'.
        destruct (IH _ _ _ H) as (tail' & Es & Hh). exists (d2 ++ tail'). split; [rewrite Es, app_assoc; auto|].
        specialize (Hfs _ _ _ E). destruct d2 as [|ch d2]; simpl; auto.
        destruct tail'; auto.
      + apply seq_ser_loop_done in H as [H _]; auto. subst. exists []. rewrite app_nil_r. auto.
  Qed.

  Variable d : list pv.
  Variable n : Z.
  Hypothesis Hn : n = Z.of_nat (length d).
  Hypothesis Hfs : forall p k s, serc (VList d) p = Ok (Some (k, s)) ->
    match s with [] => nul = true | ch :: _ => fst_ ch = true end.
  Hypothesis Hdisj : forall ch, fst_ ch = true -> cnt ch = false.
  Hypothesis Hrt : forall p k s rest, serc (VList d) p = Ok (Some (k, s)) -> folw rest ->
    exists items, dec (s ++ rest) = Ok (Some (length s, items))
      /\ firstn k items = firstn k (skipn p d) /\ (k <= length items)%nat
      /\ ((p + k < length d)%nat -> length items = k).

  Lemma seq_consumed_bound p k s : (p <= length d)%nat ->
    serc (VList d) p = Ok (Some (k, s)) -> (p + k <= length d)%nat.
  Proof.
    intros Hp E. destruct (Hrt p k s [] E I) as (items & _ & Hf & Hle & _).
    apply (f_equal (@length _)) in Hf. rewrite !firstn_length, skipn_length in Hf. lia.
  Qed.

  Lemma seq_loop_rt : forall fuel n_read acc s,
    seq_ser_loop serc n (VList d) fuel n_read acc = Ok (Some s) -> (n_read <= length d)%nat ->
    exists tail, s = acc ++ tail /\ head_in fst_ tail /\
      forall rest fuel' nr ret, folw rest -> length ret = n_read -> (length d - n_read < fuel')%nat ->
        exists items, seq_de_loop dec n fuel' (tail ++ rest) nr ret
                      = Ok (Some ((nr + length tail)%nat, ret ++ items))
          /\ firstn (length d - n_read) items = skipn n_read d /\ (length d - n_read <= length items)%nat.
  Proof.
    induction fuel as [|f IH]; intros n_read acc s H Hle.
    - destruct (Z.ltb_spec (Z.of_nat n_read) n) as [Hlt|Hge].
      + apply seq_ser_loop_step in H as (f & ? & ? & ? & _); auto. discriminate.
      + apply seq_ser_loop_done in H as [H Hnr]; auto. subst s. exists []. rewrite app_nil_r.
        split; auto. split; [exact I|]. intros rest fuel' nr ret _ Hret _.
        exists []. rewrite seq_de_loop_done by lia. rewrite app_nil_r, Nat.add_0_r.
        replace (length d - n_read)%nat with 0%nat by lia. simpl. repeat split; auto.
        rewrite skipn_all2 by lia. reflexivity.
    - destruct (Z.ltb_spec (Z.of_nat n_read) n) as [Hlt|Hge].
      2:{ apply seq_ser_loop_done in H as [H Hnr]; auto. subst s. exists []. rewrite app_nil_r.
          split; auto. split; [exact I|]. intros rest fuel' nr ret _ Hret _.
          exists []. rewrite seq_de_loop_done by lia. rewrite app_nil_r, Nat.add_0_r.
          replace (length d - n_read)%nat with 0%nat by lia. simpl. repeat split; auto.
          rewrite skipn_all2 by lia. reflexivity. }
      apply seq_ser_loop_step in H as (f' & ofs & d2 & Ef & E & H); auto. inversion Ef; subst f'. clear Ef.
      pose proof (seq_consumed_bound _ _ _ Hle E) as Hbound.
      pose proof (Hfs _ _ _ E) as Hfs2.
      destruct (Nat.lt_ge_cases (n_read + S ofs) (length d)) as [Hmid|Hlast].
      + (* not the last group *)
        destruct (IH _ _ _ H ltac:(lia)) as (tail' & Es & Hh' & Hde').
        exists (d2 ++ tail'). split; [rewrite Es, app_assoc; auto|]. split.
        { destruct d2; simpl; auto. }
        intros rest fuel' nr ret Hrest Hret Hfuel.
        destruct fuel' as [|f']; [lia|].
        assert (Hfol : folw (tail' ++ rest)).
        { destruct tail' as [|ch t']; simpl; auto. }
        destruct (Hrt _ _ _ _ E Hfol) as (items1 & Hdec & Hf1 & Hle1 & Hex1). specialize (Hex1 Hmid).
        rewrite seq_de_loop_step by lia. rewrite <- app_assoc, Hdec.
        rewrite pair_match_nonempty by (destruct items1; simpl in *; [lia|discriminate]).
        rewrite skipn_app_exact.
        destruct (Hde' rest f' (nr + length d2)%nat (ret ++ items1) Hrest) as (items' & Hdl & Hf' & Hle').
        { rewrite app_length. lia. } { lia. }
        exists (items1 ++ items'). rewrite Hdl. rewrite app_length, app_assoc. split; [do 3 f_equal; lia|].
        assert (Hi1 : items1 = firstn (S ofs) (skipn n_read d)).
        { rewrite <- Hf1. rewrite <- Hex1. symmetry. apply firstn_all. }
        assert (Hsplit : skipn n_read d = firstn (S ofs) (skipn n_read d) ++ skipn (n_read + S ofs) d).
        { rewrite <- (firstn_skipn (S ofs) (skipn n_read d)) at 1. rewrite skipn_skipn'. reflexivity. }
        split.
        * replace (length d - n_read)%nat with (length items1 + (length d - (n_read + S ofs)))%nat by lia.
          rewrite firstn_app_2, Hf'. rewrite Hsplit. f_equal. exact Hi1.
        * rewrite app_length. lia.
      + (* the last group: it may come back padded *)
        apply seq_ser_loop_done in H as [H _]; [|lia]. subst s.
        exists d2. split; auto. split. { destruct d2; simpl; auto. }
        intros rest fuel' nr ret Hrest Hret Hfuel.
        destruct fuel' as [|f']; [lia|].
        destruct (Hrt _ _ _ _ E Hrest) as (items1 & Hdec & Hf1 & Hle1 & _).
        rewrite seq_de_loop_step by lia. rewrite Hdec.
        rewrite pair_match_nonempty by (destruct items1; simpl in *; [lia|discriminate]).
        rewrite seq_de_loop_done by (rewrite app_length; lia).
        exists items1. split; auto.
        assert (Hk : (length d - n_read = S ofs)%nat) by lia. rewrite Hk. split; [|lia].
        rewrite Hf1. apply firstn_all2. rewrite skipn_length. lia.
  Qed.

  Lemma seq_core s rest :
    seq_ser_loop serc n (VList d) (Z.to_nat n) 0 [] = Ok (Some s) -> folw rest ->
    seq_de dec n (s ++ rest) = Ok (Some (length s, [VList d])).
  Proof.
    intros H Hrest. destruct (seq_loop_rt _ _ _ _ H ltac:(lia)) as (tail & Es & _ & Hde).
    simpl in Es. subst tail. unfold seq_de.
    destruct (Hde rest (length (s ++ rest) + Z.to_nat n + 1)%nat 0%nat [] Hrest eq_refl ltac:(lia))
      as (items & Hdl & Hf & Hle).
    rewrite Hdl. simpl. unfold py_take. destruct (Z.leb_spec 0 n); [|lia].
    rewrite Hn, Nat2Z.id. rewrite Nat.sub_0_r in Hf. rewrite Hf. reflexivity.
  Qed.
End SeqLoop.

(* ------------------------------------------------------------------ Seq *)
Lemma seq_ser_inv serc n data idx k s : seq_ser serc n data idx = Ok (Some (k, s)) ->
  exists l d, py_items data = Ok l /\ nth_error l idx = Some (VList d) /\ k = 1%nat /\
              seq_ser_loop serc n (VList d) (Z.to_nat n) 0 [] = Ok (Some s).
Proof.
  unfold seq_ser. destruct (py_items data) as [l|] eqn:El; try discriminate.
  destruct (Nat.eqb idx (length l)); try discriminate.
  unfold nth_res. destruct (nth_error l idx) as [v|] eqn:E; try discriminate.
  destruct v; try discriminate.
  destruct (seq_ser_loop serc n (VList l0) (Z.to_nat n) 0 []) as [[s'|]|] eqn:EL; try discriminate.
  intros H. inversion H; subst. exists l, l0. auto.
Qed.

Section SeqGrid.
  Variable e : env.
  Hypothesis Henv : env_ok e.

  Lemma sub_hyps c1 d : ALL e c1 -> wf c1 = true -> disjoint (cont c1) (first c1) = true ->
    (forall p, accepts e c1 d p) ->
    (forall p k s, ser e c1 (VList d) p = Ok (Some (k, s)) ->
       match s with [] => nullable c1 = true | ch :: _ => first c1 ch = true end) /\
    (forall ch, first c1 ch = true -> cont c1 ch = false) /\
    (forall p k s rest, ser e c1 (VList d) p = Ok (Some (k, s)) -> folw (cont c1) rest ->
       exists items, de e c1 (s ++ rest) = Ok (Some (length s, items))
         /\ firstn k items = firstn k (skipn p d) /\ (k <= length items)%nat
         /\ ((p + k < length d)%nat -> length items = k)).
  Proof.
    intros Hall Hwf Hdj Hacc. destruct (Hall Hwf) as (Hrt & Hfs & _ & Hex). repeat split.
    - intros p k s E. apply (Hfs _ _ _ _ E).
    - intros ch Hf. destruct (cont c1 ch) eqn:Ec; auto. rewrite (disjoint_spec _ _ ch Hdj Ec) in Hf. discriminate.
    - intros p k s rest E Hrest.
      destruct (Hrt d p k s rest E (Hacc p) Hrest) as (items & H1 & H2 & H3 & H4).
      exists items. repeat split; auto. intros Hlt. apply H4. eapply Hex; eauto.
  Qed.

  Lemma wf_seq c1 n : wf (Seq c1 n) = true -> wf c1 = true /\ disjoint (cont c1) (first c1) = true.
  Proof. simpl. intros H. apply andb_true_iff in H. exact H. Qed.

  Lemma seq_all c1 n : ALL e c1 -> ALL e (Seq c1 n).
  Proof.
    intros Hall Hwf. destruct (wf_seq c1 n Hwf) as (Hw1 & Hdj). repeat split.
    - intros data idx k s rest Hser Hacc Hfol. simpl in Hser.
      apply seq_ser_inv in Hser as (l & d' & Hl & Hn & Hk & Hloop). simpl in Hl. inversion Hl; subst l k. clear Hl.
      destruct Hacc as (d & Hn' & Hlen & Hacc). rewrite Hn in Hn'. inversion Hn'; subst d'. clear Hn'.
      destruct (sub_hyps c1 d Hall Hw1 Hdj Hacc) as (H1 & H2 & H3).
      exists [VList d]. simpl de.
      rewrite (seq_core (ser e c1) (de e c1) (first c1) (cont c1) (nullable c1) d n (eq_sym Hlen) H1 H2 H3 s rest Hloop Hfol).
      repeat split; auto. symmetry. apply firstn1_skipn; auto.
    - intros data idx k s Hser. simpl in Hser.
      apply seq_ser_inv in Hser as (l & d & _ & _ & _ & Hloop).
      destruct (Hall Hw1) as (_ & Hfs & _).
      destruct (seq_loop_fs (ser e c1) (first c1) (nullable c1) n (VList d)
                  (fun p k s E => Hfs _ _ _ _ E) _ _ _ _ Hloop) as (tail & Es & Hh).
      simpl in Es. subst tail. simpl. destruct s; auto.
      destruct Hh as [Hh|Hh]; [|rewrite Hh; apply orb_true_r].
      assert (E : (n <=? 0) = true) by (apply Z.leb_le; lia). rewrite E. reflexivity.
    - intros Hstrict s Hs. simpl in Hstrict. apply andb_true_iff in Hstrict as [Hn Hst1]. apply Z.ltb_lt in Hn.
      destruct (Hall Hw1) as (_ & _ & Hfd & _). simpl. unfold seq_de.
      replace (length s + Z.to_nat n + 1)%nat with (S (length s + Z.to_nat n)) by lia.
      rewrite seq_de_loop_step by (simpl; lia). rewrite (Hfd Hst1 s Hs). reflexivity.
  Qed.

  (* ---------------------------------------------------------------- Grid *)
  Lemma grid_flatten_rows : forall rows pre,
    grid_flatten (pre ++ map VList rows) (length rows) (length pre) = Ok (concat rows).
  Proof.
    induction rows as [|r rows IH]; intros pre; simpl; auto.
    unfold nth_res. rewrite nth_error_app2 by lia. rewrite Nat.sub_diag. simpl.
    specialize (IH (pre ++ [VList r])). rewrite <- app_assoc in IH. simpl in IH.
    rewrite app_length in IH. simpl in IH. rewrite Nat.add_1_r in IH. rewrite IH. reflexivity.
  Qed.

  Lemma concat_rows_length (w : Z) rows : Forall (fun r : list pv => Z.of_nat (length r) = w) rows ->
    Z.of_nat (length (concat rows)) = Z.of_nat (length rows) * w.
  Proof.
    induction 1 as [|r rows Hr _ IH]; [simpl; lia|]. cbn [concat length]. rewrite app_length. nia.
  Qed.

  Lemma grid_rows_concat (w : nat) rows : Forall (fun r : list pv => length r = w) rows ->
    grid_rows (concat rows) (length rows) w = map VList rows.
  Proof.
    induction 1 as [|r rows Hr _ IH]; simpl; auto.
    replace (firstn w (r ++ concat rows)) with r by (rewrite <- Hr; symmetry; apply firstn_app_exact).
    replace (skipn w (r ++ concat rows)) with (concat rows) by (rewrite <- Hr; symmetry; apply skipn_app_exact).
    rewrite IH. reflexivity.
  Qed.

  Lemma grid_ser_inv serc hw data idx k s : grid_ser serc e hw data idx = Ok (Some (k, s)) ->
    exists l dd flat, py_items data = Ok l /\ nth_error l idx = Some (VList dd) /\
      grid_flatten dd (Z.to_nat (fst (grid_dims e hw))) 0 = Ok flat /\
      seq_ser serc (fst (grid_dims e hw) * snd (grid_dims e hw)) (VList [VList flat]) 0 = Ok (Some (k, s)).
  Proof.
    unfold grid_ser. destruct (py_items data) as [l|] eqn:El; try discriminate.
    destruct (Nat.eqb idx (length l)); try discriminate.
    unfold nth_res. destruct (nth_error l idx) as [v|] eqn:E; try discriminate.
    destruct v; try discriminate. destruct (grid_dims e hw) as [h w]. simpl.
    destruct (grid_flatten l0 (Z.to_nat h) 0) as [flat|] eqn:Ef; try discriminate.
    intros H. exists l, l0, flat. auto.
  Qed.

  Lemma dims_pos hw : match hw with Some (h, w) => True | None => 1 <= fst (grid_dims e hw) * snd (grid_dims e hw) end.
  Proof. destruct hw as [[h w]|]; auto. simpl. destruct Henv. nia. Qed.

  Lemma grid_all c1 hw : ALL e c1 -> ALL e (Grid c1 hw).
  Proof.
    intros Hall Hwf. destruct (wf_seq c1 0 Hwf) as (Hw1 & Hdj). repeat split.
    - intros data idx k s rest Hser Hacc Hfol. simpl in Hser.
      apply grid_ser_inv in Hser as (l & dd & flat & Hl & Hn & Hflat & Hser).
      simpl in Hl. inversion Hl; subst l. clear Hl.
      destruct Hacc as (rows & Hn' & Hh & Hrows & Hacc). rewrite Hn in Hn'. inversion Hn'; subst dd. clear Hn'.
      set (h := fst (grid_dims e hw)) in *. set (w := snd (grid_dims e hw)) in *.
      assert (Hh' : Z.to_nat h = length rows) by lia. rewrite Hh' in Hflat.
      pose proof (grid_flatten_rows rows []) as Hfr. simpl in Hfr. rewrite Hfr in Hflat. inversion Hflat; subst flat.
      apply seq_ser_inv in Hser as (l & d' & Hl & Hn0 & Hk & Hloop). simpl in Hl. inversion Hl; subst l k. clear Hl.
      simpl in Hn0. inversion Hn0; subst d'. clear Hn0.
      pose proof (concat_rows_length w rows Hrows) as Hlen. rewrite Hh in Hlen.
      destruct (sub_hyps c1 (concat rows) Hall Hw1 Hdj Hacc) as (H1 & H2 & H3).
      exists [VList (map VList rows)]. simpl de. unfold grid_de.
      rewrite (surjective_pairing (grid_dims e hw)). fold h. fold w.
      rewrite (seq_core (ser e c1) (de e c1) (first c1) (cont c1) (nullable c1) (concat rows) (h * w)
                 (eq_sym Hlen) H1 H2 H3 s rest Hloop Hfol).
      rewrite Hlen, Z.eqb_refl. rewrite Hh'.
      rewrite (grid_rows_concat (Z.to_nat w) rows).
      + repeat split; auto. symmetry. apply firstn1_skipn; auto.
      + eapply Forall_impl; [|exact Hrows]. simpl. intros r Hr. lia.
    - intros data idx k s Hser. simpl in Hser.
      apply grid_ser_inv in Hser as (l & dd & flat & _ & _ & _ & Hser).
      apply seq_ser_inv in Hser as (l' & d & _ & _ & _ & Hloop).
      destruct (Hall Hw1) as (_ & Hfs & _).
      destruct (seq_loop_fs (ser e c1) (first c1) (nullable c1) _ (VList d)
                  (fun p k s E => Hfs _ _ _ _ E) _ _ _ _ Hloop) as (tail & Es & Hh).
      simpl in Es. subst tail. destruct s; [|exact Hh].
      destruct Hh as [Hh|Hh].
      + pose proof (dims_pos hw) as Hp. destruct hw as [[h w]|]; simpl in *.
        * assert (E : (h * w <=? 0) = true) by (apply Z.leb_le; lia). rewrite E. reflexivity.
        * lia.
      + destruct hw as [[h w]|]; simpl; auto. rewrite Hh. apply orb_true_r.
    - intros Hstrict s Hs.
      assert (Hpos : 0 < fst (grid_dims e hw) * snd (grid_dims e hw) /\ strict c1 = true).
      { pose proof (dims_pos hw) as Hp. destruct hw as [[h w]|]; simpl in *.
        - apply andb_true_iff in Hstrict as [Hn Hst1]. apply Z.ltb_lt in Hn. auto.
        - split; auto. lia. }
      destruct Hpos as [Hpos Hst1].
      destruct (Hall Hw1) as (_ & _ & Hfd & _). simpl de. unfold grid_de.
      rewrite (surjective_pairing (grid_dims e hw)). unfold seq_de.
      set (n := fst (grid_dims e hw) * snd (grid_dims e hw)) in *.
      replace (length s + Z.to_nat n + 1)%nat with (S (length s + Z.to_nat n)) by lia.
      rewrite seq_de_loop_step by (simpl; lia).
      assert (Hs' : match s with [] => True | ch :: _ => first c1 ch = false end) by (destruct s; auto).
      rewrite (Hfd Hst1 s Hs'). reflexivity.
  Qed.
End SeqGrid.

(* ------------------------------------------------------------------ all terms *)
Fixpoint rooms_free (c : comb) : bool :=
  match c with
  | Rooms _ _ | ValuedRooms _ _ _ | Custom _ => false
  | OneOf l | Tupl l => forallb rooms_free l
  | Seq c1 _ | Grid c1 _ => rooms_free c1
  | _ => true
  end.

(* what remains to be shown about the two room combinators *)
Definition rooms_hyp (e : env) : Prop :=
  (forall s a, ALL e (Rooms s a)) /\ (forall c s a, ALL e c -> ALL e (ValuedRooms c s a)).

Lemma forall_all e l :
  Forall (fun c => rooms_hyp e \/ rooms_free c = true -> ALL e c) l ->
  rooms_hyp e \/ forallb rooms_free l = true -> Forall (ALL e) l.
Proof.
  induction 1 as [|c l Hc _ IH]; intros H; constructor.
  - apply Hc. destruct H as [H|H]; auto. simpl in H. apply andb_true_iff in H as [H _]. auto.
  - apply IH. destruct H as [H|H]; auto. simpl in H. apply andb_true_iff in H as [_ H]. auto.
Qed.

Theorem all_terms e : env_ok e -> forall c, rooms_hyp e \/ rooms_free c = true -> ALL e c.
Proof.
  intros Henv. induction c using comb_ind'; intros Hh.
  - intros _. repeat split. apply fixstr_rt. apply fixstr_fs. apply fixstr_fd.
  - intros Hwf. repeat split. apply dict_rt; auto. apply dict_fs; auto. apply dict_fd; auto.
  - intros Hwf. repeat split. apply spaces_rt; auto. apply spaces_fs; auto. apply spaces_fd.
  - intros _. repeat split. apply decint_rt. apply decint_fs. apply decint_fd.
  - intros _. repeat split. apply hexint_rt. apply hexint_fs. apply hexint_fd.
  - intros Hwf. repeat split. apply intspaces_rt; auto. apply intspaces_fs; auto. apply intspaces_fd.
  - intros Hwf. split; [apply md_rt; auto|]. split; [apply md_fs; auto|]. split; [apply md_fd|apply md_ex; auto].
  - apply oneof_all. apply forall_all; auto.
  - apply tupl_all. apply forall_all; auto.
  - apply seq_all. apply IHc. destruct Hh; auto.
  - apply (grid_all e Henv). apply IHc. destruct Hh; auto.
  - destruct Hh as [[H _]|H]; [apply H|discriminate].
  - destruct Hh as [[H1 H2]|H]; [|discriminate]. apply H2. apply IHc. left. split; auto.
  - intros Hwf. discriminate.
Qed.

(* ------------------------------------------------------------------ final forms *)
Theorem roundtrip_rooms_free e c : env_ok e -> wf c = true -> rooms_free c = true -> RT e c.
Proof. intros He Hwf Hrf. destruct (all_terms e He c (or_intror Hrf) Hwf) as (H & _). exact H. Qed.

Theorem roundtrip_given_rooms e c : env_ok e -> rooms_hyp e -> wf c = true -> RT e c.
Proof. intros He Hr Hwf. destruct (all_terms e He c (or_introl Hr) Hwf) as (H & _). exact H. Qed.

Theorem first_of_ser e c : env_ok e -> wf c = true -> rooms_free c = true -> FS e c.
Proof. intros He Hwf Hrf. destruct (all_terms e He c (or_intror Hrf) Hwf) as (_ & H & _). exact H. Qed.

Theorem de_none_outside_first e c : env_ok e -> wf c = true -> rooms_free c = true -> FD e c.
Proof. intros He Hwf Hrf. destruct (all_terms e He c (or_intror Hrf) Hwf) as (_ & _ & H & _). exact H. Qed.

Theorem problem_roundtrip c v h w s : 1 <= h -> 1 <= w -> wf c = true -> rooms_free c = true ->
  accepts (mk_env h w) c [v] 0 -> exact (mk_env h w) c [v] 0 -> consumed_all (mk_env h w) c [v] ->
  serialize_problem c v h w = Ok s -> deserialize_problem c s h w = Ok (Some v).
Proof.
  intros Hh Hw Hwf Hrf Hacc Hex Hcons Hser. unfold serialize_problem in Hser.
  destruct (ser (mk_env h w) c (VList [v]) 0) as [[[k s']|]|] eqn:E; try discriminate.
  inversion Hser; subst s'. pose proof (Hcons _ _ E) as Hk. simpl in Hk. subst k.
  assert (He : env_ok (mk_env h w)) by (split; simpl; lia).
  destruct (roundtrip_rooms_free _ c He Hwf Hrf [v] 0%nat 1%nat s [] E Hacc I) as (items & Hde & Hf & Hle & Hx).
  specialize (Hx Hex). rewrite app_nil_r in Hde. unfold deserialize_problem. rewrite Hde.
  destruct items as [|i0 [|i1 items]]; simpl in Hx; try discriminate. simpl in Hf. inversion Hf; subst. reflexivity.
Qed.

(* the statements about room partitions in arbitrary order (see RoomsProofs.v for what is proved) *)
From Coq Require Import Sorting.Permutation.

(* same partition: the rooms of rs' are the rooms of rs, as sets of cells, in some order *)
Definition rooms_equiv (rs rs' : list (list cell)) : Prop :=
  exists p, Permutation p rs /\ Forall2 (@Permutation cell) p rs'.

Definition rooms_roundtrip_statement : Prop :=
  forall h w skip allow rs, 1 <= h -> 1 <= w -> valid_rooms h w rs ->
  exists s rs', serialize_problem (Rooms skip allow) (rooms_to_pv rs) h w = Ok s /\
    canonical_rooms h w rs' /\ rooms_equiv rs rs' /\
    deserialize_problem (Rooms skip allow) s h w = Ok (Some (rooms_to_pv rs')).

(* the values stay attached to the same rooms *)
Definition valued_rooms_roundtrip_statement : Prop :=
  forall h w vc skip allow rs vs, 1 <= h -> 1 <= w -> wf (ValuedRooms vc skip allow) = true ->
  rooms_free vc = true -> valid_rooms h w rs -> length vs = length rs ->
  forall s, serialize_problem (ValuedRooms vc skip allow) (VTup [rooms_to_pv rs; VList vs]) h w = Ok s ->
  (forall vs', Permutation vs' vs -> forall p, accepts (mk_env h w) vc vs' p) ->
  exists ps rs', Permutation ps (combine rs vs) /\ Forall2 (fun p r' => Permutation (fst p) r') ps rs' /\
    canonical_rooms h w rs' /\
    deserialize_problem (ValuedRooms vc skip allow) s h w
    = Ok (Some (VTup [rooms_to_pv rs'; VList (map snd ps)])).

(* ------------------------------------------------------------------ the hypotheses are satisfiable: boundary examples *)
Definition s_ (l : list nat) : str := map ascii_of_nat l.
Definition NURIKABE : comb := Grid (OneOf [Dict [VInt (-1)] [s_ [46]%nat]; Spaces (VInt 0) "g"%char; HexInt]) None.

Example nurikabe_wf : wf NURIKABE = true /\ rooms_free NURIKABE = true.
Proof. split; vm_compute; reflexivity. Qed.

Example hex_boundaries :
  map (fun z => serialize_problem (Seq HexInt 1) (VList [VInt z]) 1 1) [15; 16; 255; 256; 4095]
  = map (fun l => Ok (s_ l)) [[102]; [45; 49; 48]; [45; 102; 102]; [43; 49; 48; 48]; [43; 102; 102; 102]]%nat
  /\ map (fun l => deserialize_problem (Seq HexInt 1) (s_ l) 1 1)
         [[102]; [45; 49; 48]; [45; 102; 102]; [43; 49; 48; 48]; [43; 102; 102; 102]]%nat
     = map (fun z => Ok (Some (VList [VInt z]))) [15; 16; 255; 256; 4095].
Proof. split; vm_compute; reflexivity. Qed.

(* a run of 21 zeros crosses the one-character limit of Spaces(0, "g") (20 per character) *)
Example spaces_run_limit :
  serialize_problem (Seq (Spaces (VInt 0) "g"%char) 21) (VList (repeat (VInt 0) 21)) 1 1 = Ok (s_ [122; 103]%nat)
  /\ deserialize_problem (Seq (Spaces (VInt 0) "g"%char) 21) (s_ [122; 103]%nat) 1 1 = Ok (Some (VList (repeat (VInt 0) 21))).
Proof. split; vm_compute; reflexivity. Qed.

(* a 1 x 4 row of base-3 digits in groups of 3: the last group is partial *)
Example multidigit_partial :
  serialize_problem (Grid (MultiDigit 3 3) None) (VList [VList [VInt 1; VInt 2; VInt 0; VInt 2]]) 1 4 = Ok (s_ [102; 105]%nat)
  /\ deserialize_problem (Grid (MultiDigit 3 3) None) (s_ [102; 105]%nat) 1 4
     = Ok (Some (VList [VList [VInt 1; VInt 2; VInt 0; VInt 2]])).
Proof. split; vm_compute; reflexivity. Qed.

Example nurikabe_accepts :
  let v := VList [VList [VInt 0; VInt (-1); VInt 300]] in
  accepts (mk_env 1 3) NURIKABE [v] 0 /\ exact (mk_env 1 3) NURIKABE [v] 0 /\ consumed_all (mk_env 1 3) NURIKABE [v]
  /\ serialize_problem NURIKABE v 1 3 = Ok (s_ [103; 46; 43; 49; 50; 99]%nat).
Proof.
  cbv zeta. split; [|split; [exact I|split]].
  - exists [[VInt 0; VInt (-1); VInt 300]]. repeat split.
    + repeat constructor.
    + intros p. rewrite accepts_oneof. simpl oneof_accepts.
      repeat match goal with |- context [match ?x with _ => _ end] => destruct x end; exact I.
  - intros k s H. vm_compute in H. inversion H; reflexivity.
  - vm_compute. reflexivity.
Qed.
