"""C11 framework: everything the per-puzzle plug-ins (harness/c11/<puzzle>.py) share.

  * plug-in discovery + generation of the extraction runner (coq/extract/C11)
  * RecSolver: a recording Solver substituted for `Solver` in the puzzle module
    (the posted program is captured; `solve()` is answered by an independent
    z3 translation of the captured trees, so defects of cspuz.backend.z3 - a
    different property - cannot leak into this one)
  * solution sets of the really posted program projected on the returned arrays
  * emission of a captured program as a Coq term + the Tier-2 goal files
  * small generators used by several plug-ins (clue grids, region partitions)

Adding a puzzle <p> (no shared file is touched; everything is discovered from harness/c11/*.py):
  1. coq/theories/Puzzle/Rules_<p>.v: header quoting the published rules and documenting the encoding
     (problem = list of Z lists, section 0 = dimensions; answer = the returned arrays flattened in the
     order solve_<p> returns them, bool = 1/0), `Definition rules_<p> : problem -> answer -> bool` using
     only PuzzleBase.v / GraphModel.v vocabulary, and `Definition answers_<p> : problem -> list answer`
     (normally `all_answers` of the per-cell domains; a narrower list must contain every rule-obeying grid).
  2. harness/c11/<p>.py with the attributes below.  `./check C11` regenerates coq/extract/C11/{Extract.v,
     driver.ml} from the plug-in list, runs search + Tier 2 for the new puzzle; `C11_ONLY=<p> ./check C11`
     runs just that puzzle.
  3. optional Tier 1: coq/theories/Puzzle/<Model>.v with `solve_<p>_model : problem -> res state`
     (+ <Model>Proofs.v, theorem <p>_exact; add the final statement to Props/C11.v), plug-in attribute
     TIER1 = ("<Model>", "solve_<p>_model") and `tier1_problems(tier, rng)`; the capture tie is automatic.

Plug-in interface (module attributes):
    NAME      puzzle name; Rules_<NAME>.v must define rules_<NAME>, answers_<NAME>
    MODULE    python module (e.g. "cspuz.puzzle.sudoku");  FUNC  solve function name (informational)
    def families(tier, rng)      -> iterable of problems (JSON-able python values), the search family
    def tier2(tier, rng)         -> iterable of problems for the kernel-checked instance goals ([] = none);
                                    keep each instance below ~10 s of vm_compute (boards of <= 5 cells when the
                                    solver posts a connectivity encoding)
    def call(mod, pb)            -> the tuple solve_<p> returns
    def encode(pb)               -> list of int lists = the `problem` of Rules_<NAME>.v
    def ncand(pb)                -> number of candidate answers (= length of answers_<NAME> pb), computed arithmetically
    def answer_arrays(ret)       -> optional; the returned arrays to read (default: ret[1:])
    def classify(pb, what)       -> optional; stable key for a violation on pb (default: NAME:<problem>);
                                    instances whose key is a `known:` line are left out of Tier 2
    MAX_ANSWERS                  -> optional cap on the candidate-answer count for which a problem is enumerated
                                    (default 70000 quick / 300000 thorough)
    T2_PER_FILE                  -> optional number of Tier-2 instances per generated file (default 6)
    TIER1, tier1_problems        -> optional, see 3.
    def big(tier, rng)           -> optional; problems too large for the candidate enumeration (long thin boards 1xN / 2xN / Nx1
                                    with N in 19..25, multi-digit clue values, 5x5 / 4x6 boards with a few rooms).  They are
                                    checked by big_case: every grid the really posted program admits (z3, capped) must obey
                                    rules_<p>; every grid listed under the problem's key "planted" (answers in answer-array
                                    order, constructed by the generator) must obey rules_<p> (else harness error) and be admitted
                                    by the posted program; "n_solutions" (optional, a direct combinatorial count) must be the
                                    number of admitted grids when the enumeration is complete.
"""
import importlib
import itertools
import json
import os
import sys

import exprio
import vlib
from cspuz import Solver
from cspuz.array import Array1D, Array2D
from cspuz.expr import BoolExpr, BoolVar, Expr, IntExpr, IntVar, Op
from cspuz.grid_frame import BoolGridFrame, BoolInnerGridFrame

HERE = os.path.dirname(os.path.abspath(__file__))
PLUGDIR = os.path.join(HERE, "c11")
EXTRACT_DIR = os.path.join(vlib.EXTRACT, "C11")


# ---------------------------------------------------------------- plug-ins

def plugins():
    out = []
    sys.path.insert(0, HERE)
    for f in sorted(os.listdir(PLUGDIR)):
        if f.endswith(".py") and not f.startswith("_"):
            m = importlib.import_module("c11." + f[:-3])
            if getattr(m, "NAME", None):
                out.append(m)
    return out


def write_runner_sources(plugs):
    """coq/extract/C11/{Extract.v,driver.ml} expose rules_<p>/answers_<p> of every plug-in."""
    names = [p.NAME for p in plugs if os.path.exists(os.path.join(vlib.THEORIES, "Puzzle", "Rules_%s.v" % p.NAME))]
    t1 = [(p.NAME,) + tuple(p.TIER1) for p in plugs if getattr(p, "TIER1", None)]
    # models of the native-operator route (config.use_graph_primitive / use_graph_division_primitive on)
    t1p = [(p.NAME,) + tuple(p.TIER1_PRIM) for p in plugs if getattr(p, "TIER1_PRIM", None)]
    ev = ["Require Extraction.", "Require Import ExtrOcamlBasic.", "From Coq Require Import ZArith List.",
          "Require Import Cspuz.Lib.PyErr.", "Require Import Cspuz.Core.Expr.", "Require Import Cspuz.Core.Program.",
          "Require Import Cspuz.Puzzle.PuzzleBase."]
    for n in names:
        ev.append("Require Import Cspuz.Puzzle.Rules_%s." % n)
    for (_, modname, _) in t1 + t1p:
        ev.append("Require Import Cspuz.Puzzle.%s." % modname)
    ev.append('Extraction "model.ml" Z.add Nat.add pyerr_code empty_state %s %s.' % (
        " ".join("rules_%s answers_%s" % (n, n) for n in names), " ".join(f for (_, _, f) in t1 + t1p)))
    dm = ["(* generated by harness/c11lib.py from the plug-in list - do not edit *)", "open Model", "open Zutil", "",
          "let table = ["]
    for n in names:
        dm.append('  ("%s", (rules_%s, answers_%s));' % (n, n, n))
    dm.append("]")
    dm.append("(* Tier-1 models: problem -> res state *)")
    dm.append("let models = [")
    for (n, _, f) in t1:
        dm.append('  ("%s", %s);' % (n, f))
    dm.append("]")
    dm.append("let models_prim = [")
    for (n, _, f) in t1p:
        dm.append('  ("%s", %s);' % (n, f))
    dm.append("]")
    dm.append(r'''
(* request:  <op> <puzzle> [ z z .. ] [ z .. ] ... | z z ..      (sections, then the answer)
   ops: R -> rules on one answer (0/1); S -> every candidate answer obeying the rules
        ("n ; a a a ; a a a ..."); N -> number of candidate answers *)
let rec split_at tok acc = function
  | [] -> (List.rev acc, [])
  | t :: r -> if t = tok then (List.rev acc, r) else split_at tok (t :: acc) r

let rec sections toks = match toks with
  | "[" :: r -> let (s, rest) = split_at "]" [] r in
                List.map (fun t -> z_of_int (int_of_string t)) s :: sections rest
  | [] -> []
  | _ -> failwith "sections"

let handle toks = match toks with
  | "M" :: name :: rest ->
      (match (List.assoc name models) (sections rest) with
       | Ok st -> "OK " ^ Exprio.show_state st
       | Err e -> "E " ^ string_of_int (int_of_nat (pyerr_code e)))
  | "MP" :: name :: rest ->
      (match (List.assoc name models_prim) (sections rest) with
       | Ok st -> "OK " ^ Exprio.show_state st
       | Err e -> "E " ^ string_of_int (int_of_nat (pyerr_code e)))
  | op :: name :: rest ->
      let (rules, answers) = List.assoc name table in
      let (pbt, anst) = split_at "|" [] rest in
      let pb = sections pbt in
      (match op with
       | "R" -> let ans = List.map (fun t -> z_of_int (int_of_string t)) anst in
                if rules pb ans then "1" else "0"
       | "S" -> let sols = List.filter (rules pb) (answers pb) in
                String.concat " ; " (string_of_int (List.length sols) :: List.map zs sols)
       | "N" -> string_of_int (List.length (answers pb))
       | _ -> "EXN bad op")
  | _ -> "EXN bad request"

let () = main_loop handle
''')
    vlib.write_if_changed(os.path.join(EXTRACT_DIR, "Extract.v"), "\n".join(ev) + "\n")
    vlib.write_if_changed(os.path.join(EXTRACT_DIR, "driver.ml"), "\n".join(dm) + "\n")
    return names


def pb_tokens(sections):
    return " ".join("[ %s ]" % " ".join(str(int(v)) for v in s) for s in sections)


# ---------------------------------------------------------------- recording solver

def flat_vars(obj):
    """the variables of a returned answer array, in the order the array lists them"""
    if isinstance(obj, (BoolGridFrame, BoolInnerGridFrame)):
        return flat_vars(obj.horizontal) + flat_vars(obj.vertical)
    if isinstance(obj, (Array1D, Array2D)):
        return list(obj.data)
    if isinstance(obj, (list, tuple)):
        out = []
        for o in obj:
            out += flat_vars(o)
        return out
    if isinstance(obj, (BoolVar, IntVar)):
        return [obj]
    raise TypeError("unexpected answer object %r" % type(obj))


class _Verdict:
    """what RecSolver.solve() returns in capture mode: falsy (a solver that branches on it takes the 'no solution'
    branch, as before), and recognisable by identity in what solve_<p> hands back"""
    def __bool__(self):
        return False

    def __repr__(self):
        return "<verdict of solve()>"


CAPTURE_VERDICT = _Verdict()


class RecSolver(Solver):
    """public-API subclass: records itself; solve()/find_answer() are answered from
    the captured program by z3 through our own translation (mode 'solve') or not
    at all (mode 'capture')."""
    instances = []
    mode = "solve"
    cap = 200000
    timeout_ms = None        # per z3 check, used by the big-board mode

    def __init__(self):
        super().__init__()
        self.solve_called = False
        self.key_sols = None
        self.solve_log = []      # (api, #variables, #constraints, answer-key flags) at every solve()/find_answer() call
        RecSolver.instances.append(self)

    def _log(self, api):
        self.solve_called = True
        self.solve_log.append((api, len(self.variables), len(self.constraints), tuple(self.is_answer_key)))

    def find_answer(self, backend=None):
        self._log("find_answer")
        if RecSolver.mode == "capture":
            return CAPTURE_VERDICT
        return z3_check(self)

    def solve(self, backend=None):
        self._log("solve")
        if RecSolver.mode == "capture":
            return CAPTURE_VERDICT
        kids = [i for i, k in enumerate(self.is_answer_key) if k]
        self.status = []
        sols = all_key_solutions(self, kids, RecSolver.cap, RecSolver.timeout_ms, self.status)
        self.key_ids, self.key_sols = kids, sols
        if not sols:
            return False
        for pos, i in enumerate(kids):
            vals = {s[pos] for s in sols}
            self.variables[i].sol = vals.pop() if len(vals) == 1 else None
        return True


def run_recorded(plug, pb, mode):
    """call the real solve_<p> with RecSolver substituted for Solver in its module"""
    mod = importlib.import_module(plug.MODULE)
    saved = mod.Solver
    RecSolver.instances = []
    RecSolver.mode = mode
    mod.Solver = RecSolver
    try:
        r = vlib.guarded(plug.call, mod, pb)
    finally:
        mod.Solver = saved
    return r, list(RecSolver.instances)


# ---------------------------------------------------------------- independent z3 translation

_z3 = None


def z3mod():
    global _z3
    if _z3 is None:
        import z3
        _z3 = z3
    return _z3


def to_z3(e, zv):
    z3 = z3mod()
    if e is True or e is False:
        return z3.BoolVal(e)
    if isinstance(e, int):
        return z3.IntVal(e)
    if isinstance(e, (BoolVar, IntVar)):
        return zv[e.id]
    if not isinstance(e, Expr):
        raise TypeError("not an expression: %r" % (e,))
    o = e.op
    if o == Op.BOOL_CONSTANT:
        return z3.BoolVal(bool(e.operands[0]))
    if o == Op.INT_CONSTANT:
        return z3.IntVal(int(e.operands[0]))
    a = [to_z3(x, zv) for x in e.operands]
    if o == Op.NEG:
        return -a[0]
    if o == Op.ADD:
        return z3.Sum(a) if len(a) > 1 else a[0]
    if o == Op.SUB:
        r = a[0]
        for x in a[1:]:
            r = r - x
        return r
    if o == Op.EQ:
        return a[0] == a[1]
    if o == Op.NE:
        return a[0] != a[1]
    if o == Op.LE:
        return a[0] <= a[1]
    if o == Op.LT:
        return a[0] < a[1]
    if o == Op.GE:
        return a[0] >= a[1]
    if o == Op.GT:
        return a[0] > a[1]
    if o == Op.NOT:
        return z3.Not(a[0])
    if o == Op.AND:
        return z3.And(a) if a else z3.BoolVal(True)
    if o == Op.OR:
        return z3.Or(a) if a else z3.BoolVal(False)
    if o == Op.IFF:
        return a[0] == a[1]
    if o == Op.XOR:
        return z3.Xor(a[0], a[1])
    if o == Op.IMP:
        return z3.Implies(a[0], a[1])
    if o == Op.IF:
        return z3.If(a[0], a[1], a[2])
    if o == Op.ALLDIFF:
        return z3.Distinct(a) if len(a) > 1 else z3.BoolVal(True)
    raise NotImplementedError("operator %s" % o)


def z3_problem(solver):
    z3 = z3mod()
    zv = {}
    zs = z3.Solver()
    for v in solver.variables:
        if isinstance(v, BoolVar):
            zv[v.id] = z3.Bool("b%d" % v.id)
        else:
            zv[v.id] = z3.Int("i%d" % v.id)
            zs.add(v.lo <= zv[v.id], zv[v.id] <= v.hi)
    for c in solver.constraints:
        zs.add(to_z3(c, zv))
    return zs, zv


def z3_check(solver):
    zs, _ = z3_problem(solver)
    return zs.check() == z3mod().sat


def all_key_solutions(solver, kids, cap, timeout_ms=None, status=None):
    """every assignment of the variables `kids` that extends to a model of the posted program;
    status (a list) receives "complete" when the enumeration ended with unsat, else "capped" / "unknown"."""
    z3 = z3mod()
    zs, zv = z3_problem(solver)
    if timeout_ms:
        zs.set("timeout", timeout_ms)
    sols = []
    while True:
        r = zs.check()
        if r != z3.sat:
            if status is not None:
                status.append("complete" if r == z3.unsat else "unknown")
            break
        m = zs.model()
        vals, block = [], []
        for i in kids:
            x = m.eval(zv[i], model_completion=True)
            if isinstance(solver.variables[i], BoolVar):
                b = z3.is_true(x)
                vals.append(b)
                block.append(zv[i] != z3.BoolVal(b))
            else:
                n = x.as_long()
                vals.append(n)
                block.append(zv[i] != n)
        sols.append(tuple(vals))
        if not block:
            if status is not None:
                status.append("complete")
            break
        if len(sols) > cap:
            if status is not None:
                status.append("capped")
            break
        zs.add(z3.Or(block))
    return sols


# ---------------------------------------------------------------- one search case

def answer_arrays(plug, ret):
    if hasattr(plug, "answer_arrays"):
        return plug.answer_arrays(ret)
    return list(ret[1:])


def expected_view(sols, ncell):
    """what the property says solve_<p> must report, from the rule-obeying grids"""
    if not sols:
        return (False, None)
    dec = []
    for c in range(ncell):
        vals = {s[c] for s in sols}
        dec.append(vals.pop() if len(vals) == 1 else None)
    return (True, tuple(dec))


def search_case(plug, pb, model, max_answers=70000):
    """returns dict(status=ok|violation|harness|skipped, ...)"""
    secs = plug.encode(pb)
    tok = pb_tokens(secs)
    ncand = plug.ncand(pb)     # computed without materialising the candidate list
    if ncand > getattr(plug, "MAX_ANSWERS", max_answers):
        return {"status": "skipped", "why": "too many candidate answers (%d)" % ncand}
    rep = model.call("S %s %s" % (plug.NAME, tok))
    if rep.startswith("EXN"):
        return {"status": "harness", "why": "runner: " + rep}
    parts = rep.split(" ; ")
    S = set(tuple(int(t) for t in p.split()) for p in parts[1:])
    if len(parts) == 2 and parts[1].strip() == "":
        S = {()}
    r, insts = run_recorded(plug, pb, "solve")
    if r[0] == "err":
        return {"status": "violation", "what": "solve_%s raises %s on a well-formed problem" % (plug.NAME, r[1]),
                "expected": {"has_solution": bool(S), "n_solutions": len(S)}, "observed": {"error": r[1]}}
    ret = r[1]
    is_sat = ret[0]
    avars = flat_vars(answer_arrays(plug, ret))
    aids = [v.id for v in avars]
    if len(insts) != 1:
        return {"status": "harness", "why": "%d Solver objects created" % len(insts)}
    sv = insts[0]
    kids = [i for i, k in enumerate(sv.is_answer_key) if k]
    if sorted(aids) != kids:
        return {"status": "harness", "why": "returned arrays are not exactly the answer keys"}
    if not sv.solve_called:
        Z = set()
        if is_sat:
            return {"status": "harness", "why": "is_sat true without solve()"}
    else:
        pos = {i: k for k, i in enumerate(sv.key_ids)}
        if len(sv.key_sols) > RecSolver.cap:
            return {"status": "skipped", "why": "more than %d solutions" % RecSolver.cap}
        Z = set(tuple(int(s[pos[i]]) for i in aids) for s in sv.key_sols)
    # what solve_<p> reported, read the way a user reads it
    if is_sat:
        obs = (True, tuple(None if v.sol is None else int(v.sol) for v in avars))
    else:
        obs = (False, None)
    exp = expected_view(S, len(aids))
    res = {"status": "ok", "n_rules": len(S), "n_solver": len(Z), "nvars": len(sv.variables), "ncons": len(sv.constraints),
           "view": exp}
    if Z != S:
        extra = sorted(Z - S)[:3]
        missing = sorted(S - Z)[:3]
        # a grid the solver admits but which is not among the enumerated rule-obeying candidates:
        # ask the rules directly (the candidate list may be narrower than the rules)
        bad_extra = []
        for z in extra:
            if model.call("R %s %s | %s" % (plug.NAME, tok, " ".join(map(str, z)))) == "0":
                bad_extra.append(z)
        if extra and not bad_extra and not missing:
            return {"status": "harness", "why": "answers_%s misses rule-obeying grids, e.g. %r" % (plug.NAME, extra[0])}
        what = []
        if obs[0] != exp[0]:
            what.append("solver reports %s but a rule-obeying grid %s" % (
                "a solution" if obs[0] else "no solution", "exists" if exp[0] else "does not exist"))
        elif obs != exp:
            what.append("decided cells differ from the cells common to all rule-obeying grids")
        if bad_extra:
            what.append("the solver admits a grid that breaks the rules")
        if missing:
            what.append("the solver rejects a grid that obeys the rules")
        res = {"status": "violation", "what": "; ".join(what),
               "expected": {"has_solution": exp[0], "decided": exp[1], "n_solutions": len(S)},
               "observed": {"has_solution": obs[0], "decided": obs[1], "n_solutions": len(Z)},
               "admitted_but_breaking_rules": bad_extra, "obeying_rules_but_rejected": missing}
    elif obs != exp:
        res = {"status": "harness", "why": "solution sets agree but reported view differs: %r vs %r" % (obs, exp)}
    return res


def big_case(plug, pb, model, cap=24, timeout_ms=20000):
    """a problem too large for the candidate enumeration (see `big` in the module docstring)"""
    secs = plug.encode(pb)
    tok = pb_tokens(secs)
    saved = (RecSolver.cap, RecSolver.timeout_ms)
    RecSolver.cap, RecSolver.timeout_ms = cap, timeout_ms
    try:
        r, insts = run_recorded(plug, pb, "solve")
    finally:
        RecSolver.cap, RecSolver.timeout_ms = saved
    planted = [tuple(int(v) for v in a) for a in pb.get("planted", [])]
    for a in planted:
        if model.call("R %s %s | %s" % (plug.NAME, tok, " ".join(map(str, a)))) != "1":
            return {"status": "harness", "why": "planted grid does not obey rules_%s: %r" % (plug.NAME, a)}
    if r[0] == "err":
        return {"status": "violation", "what": "solve_%s raises %s on a well-formed problem" % (plug.NAME, r[1]),
                "expected": {"has_solution": bool(planted) or None}, "observed": {"error": r[1]}}
    ret = r[1]
    is_sat = ret[0]
    avars = flat_vars(answer_arrays(plug, ret))
    aids = [v.id for v in avars]
    if len(insts) != 1:
        return {"status": "harness", "why": "%d Solver objects created" % len(insts)}
    sv = insts[0]
    kids = [i for i, k in enumerate(sv.is_answer_key) if k]
    if sorted(aids) != kids:
        return {"status": "harness", "why": "returned arrays are not exactly the answer keys"}
    if not sv.solve_called:
        Z, complete = [], True
    else:
        pos = {i: k for k, i in enumerate(sv.key_ids)}
        Z = [tuple(int(s[pos[i]]) for i in aids) for s in sv.key_sols]
        complete = sv.status == ["complete"]
        if sv.status == ["unknown"] and not Z and not planted:
            return {"status": "skipped", "why": "z3 gave no answer within %d ms" % timeout_ms}
    bad_extra = [z for z in Z if model.call("R %s %s | %s" % (plug.NAME, tok, " ".join(map(str, z)))) == "0"][:3]
    missing = []
    for a in planted:
        if a in Z:
            continue
        if complete:
            missing.append(a)
            continue
        z3 = z3mod()
        zs, zv = z3_problem(sv)
        zs.set("timeout", timeout_ms)
        for i, v in zip(aids, a):
            zs.add(zv[i] == (z3.BoolVal(bool(v)) if isinstance(sv.variables[i], BoolVar) else v))
        if zs.check() == z3.unsat:
            missing.append(a)
    what = []
    if bad_extra:
        what.append("the solver admits a grid that breaks the rules")
    if missing:
        what.append("the solver rejects a grid that obeys the rules")
    if planted and not is_sat and (not sv.solve_called or sv.status != ["unknown"]):
        what.append("solver reports no solution but a rule-obeying grid exists")
    want = pb.get("n_solutions")
    if want is not None and complete and len(set(Z)) != want and not what:
        what.append("the solver admits %d grids, the rules admit %d" % (len(set(Z)), want))
    if what:
        return {"status": "violation", "what": "; ".join(what),
                "expected": {"has_solution": bool(planted) or None, "n_solutions": want},
                "observed": {"has_solution": bool(is_sat), "n_solutions_seen": len(Z), "enumeration": sv.status if sv.solve_called else None},
                "admitted_but_breaking_rules": bad_extra, "obeying_rules_but_rejected": missing[:3]}
    return {"status": "ok", "n_solver": len(Z), "complete": complete, "view": None}


def real_case(plug, pb):
    """the unmodified pipeline (real Solver, configured backend): (is_sat, decided)"""
    import warnings
    mod = importlib.import_module(plug.MODULE)
    with warnings.catch_warnings():
        warnings.simplefilter("ignore")
        r = vlib.guarded(plug.call, mod, pb)
    if r[0] == "err":
        return ("err", r[1])
    ret = r[1]
    if not ret[0]:
        return (False, None)
    avars = flat_vars(answer_arrays(plug, ret))
    return (True, tuple(None if v.sol is None else int(v.sol) for v in avars))


# ---------------------------------------------------------------- Coq emission (Tier 2)

OPNAME = {Op.GRAPH_ACTIVE_VERTICES_CONNECTED: "G_AVC", Op.GRAPH_DIVISION: "G_DIV"}


def coq_z(n):
    return str(n) if n >= 0 else "(%d)" % n


def coq_expr(e):
    if e is True:
        return "PyBool true"
    if e is False:
        return "PyBool false"
    if e is None:
        return "PyNone"
    if isinstance(e, int):
        return "PyInt %s" % coq_z(e)
    if isinstance(e, BoolVar):
        return "BVar %d%%nat" % e.id
    if isinstance(e, IntVar):
        return "IVar %d%%nat %s %s" % (e.id, coq_z(e.lo), coq_z(e.hi))
    k = "BNode" if isinstance(e, BoolExpr) else "INode"
    return "%s %s [%s]" % (k, OPNAME.get(e.op, e.op.name), "; ".join(coq_expr(x) for x in e.operands))


def expr_ids(e, acc):
    if isinstance(e, (BoolVar, IntVar)):
        acc.add(e.id)
    elif isinstance(e, Expr):
        for x in e.operands:
            expr_ids(x, acc)
    return acc


def search_order(solver, kids):
    """heuristic (untrusted: sat_abs is correct for any order): repeatedly take the
    constraint with the fewest still-unassigned variables and assign those."""
    cons = [expr_ids(c, set()) for c in solver.constraints]
    assigned = set(kids)
    order = []
    n = len(solver.variables)
    pending = [c for c in cons if c - assigned]
    while pending:
        best = min(pending, key=lambda c: (len(c - assigned), min(c - assigned)))
        for v in sorted(best - assigned):
            order.append(v)
            assigned.add(v)
        pending = [c for c in pending if c - assigned]
    for v in range(n):
        if v not in assigned:
            order.append(v)
    return order


def coq_state(solver, extra_false=False):
    vs = []
    for v in solver.variables:
        vs.append("DBool" if isinstance(v, BoolVar) else "DInt %s %s" % (coq_z(v.lo), coq_z(v.hi)))
    cons = [coq_expr(c) for c in solver.constraints]
    if extra_false:
        cons.append("PyBool false")
    return "{| vars := [%s];\n     keys := [%s];\n     cons := [%s] |}" % (
        "; ".join(vs), "; ".join("true" if k else "false" for k in solver.is_answer_key), ";\n       ".join(cons))


def coq_problem(secs):
    return "[%s]" % "; ".join("[%s]" % "; ".join(coq_z(int(v)) for v in s) for s in secs)


def tier2_instance(plug, pb, idx):
    """Coq text of one kernel-checked instance (or ('skip', why))"""
    r, insts = run_recorded(plug, pb, "capture")
    if r[0] == "err":
        return ("skip", "raises " + r[1])
    if len(insts) != 1:
        return ("skip", "%d solvers" % len(insts))
    sv = insts[0]
    ret = r[1]
    aids = [v.id for v in flat_vars(answer_arrays(plug, ret))]
    order = search_order(sv, aids)
    nm = "%s_%d" % (plug.NAME, idx)
    txt = []
    txt.append("(* %s *)" % json.dumps(pb, default=repr).replace("*)", "* )"))
    txt.append("Definition prog_%s : state :=\n  %s." % (nm, coq_state(sv, extra_false=not sv.solve_called)))
    txt.append("Definition kids_%s : list nat := [%s]%%nat." % (nm, "; ".join(map(str, aids))))
    txt.append("Definition order_%s : list nat := [%s]%%nat." % (nm, "; ".join(map(str, order))))
    txt.append("Definition pb_%s : problem := %s." % (nm, coq_problem(plug.encode(pb))))
    txt.append("Goal tier2_ok prog_%s kids_%s order_%s (rules_%s pb_%s) (answers_%s pb_%s) = true.\n"
               "Proof. vm_compute. reflexivity. Qed." % (nm, nm, nm, plug.NAME, nm, plug.NAME, nm))
    return ("ok", "\n".join(txt))


def tier2_header(name):
    return ("(* generated by harness/c11lib.py: programs captured from the real solve_%s, one goal per instance *)\n"
            "From Coq Require Import ZArith List Bool.\n"
            "From Cspuz Require Import Core.Expr Core.Program Puzzle.PuzzleBase Puzzle.SatAbs Puzzle.Rules_%s.\n"
            "Import ListNotations.\nLocal Open Scope Z_scope.\n\n" % (name, name))


# ---------------------------------------------------------------- small generators shared by plug-ins

def n_loop_edges(P, Q):
    return P * (Q - 1) + (P - 1) * Q


def shapes(max_cells, min_h=1, min_w=1):
    for h in range(min_h, max_cells + 1):
        for w in range(min_w, max_cells + 1):
            if h * w <= max_cells:
                yield h, w


def all_grids(h, w, values):
    for t in itertools.product(values, repeat=h * w):
        yield [list(t[y * w:(y + 1) * w]) for y in range(h)]


def random_grid(rng, h, w, values, p_default=0.5, default=None):
    default = values[0] if default is None else default
    return [[default if rng.random() < p_default else rng.choice(values) for _ in range(w)] for _ in range(h)]


def sample(rng, items, k):
    items = list(items)
    if len(items) <= k:
        return items
    return rng.sample(items, k)


def _connected(cellset):
    cellset = set(cellset)
    start = next(iter(cellset))
    seen = {start}
    todo = [start]
    while todo:
        y, x = todo.pop()
        for d in ((1, 0), (-1, 0), (0, 1), (0, -1)):
            c = (y + d[0], x + d[1])
            if c in cellset and c not in seen:
                seen.add(c)
                todo.append(c)
    return len(seen) == len(cellset)


_PARTITIONS = {}


def region_partitions(h, w, connected=True, min_size=1, max_size=None):
    """every partition of the h x w cells into (connected) regions; each region a list of
    (y, x) in row-major order, regions ordered by their least cell (the enumeration is cached per argument tuple;
    callers get fresh lists)"""
    key = (h, w, connected, min_size, max_size)
    if key not in _PARTITIONS:
        # also kept on disk (work/, git-ignored): the larger enumerations take tens of seconds and are needed by the
        # Tier-2, tie and search phases of every run; the file is a pure function of the key
        import pickle
        d = os.path.join(vlib.ROOT, "work", "partitions")
        f = os.path.join(d, "p_%s.pickle" % "_".join(str(k) for k in key))
        val = None
        if os.path.exists(f):
            try:
                with open(f, "rb") as fh:
                    val = pickle.load(fh)
            except Exception:  # noqa
                val = None
        if val is None:
            val = [tuple(tuple(b) for b in part) for part in _region_partitions(h, w, connected, min_size, max_size)]
            if len(val) > 2000:
                try:
                    os.makedirs(d, exist_ok=True)
                    tmp = f + ".%d.tmp" % os.getpid()
                    with open(tmp, "wb") as fh:
                        pickle.dump(val, fh)
                    os.replace(tmp, f)
                except Exception:  # noqa
                    pass
        _PARTITIONS[key] = val
    for part in _PARTITIONS[key]:
        yield [list(b) for b in part]


def _region_partitions(h, w, connected=True, min_size=1, max_size=None):
    cs = [(y, x) for y in range(h) for x in range(w)]

    def go(i, blocks):
        if i == len(cs):
            if all(len(b) >= min_size for b in blocks) and (not connected or all(_connected(b) for b in blocks)):
                yield [list(b) for b in blocks]
            return
        for b in blocks:
            if max_size is None or len(b) < max_size:
                b.append(cs[i])
                yield from go(i + 1, blocks)
                b.pop()
        blocks.append([cs[i]])
        yield from go(i + 1, blocks)
        blocks.pop()
    yield from go(0, [])


def region_ids(h, w, blocks):
    g = [[-1] * w for _ in range(h)]
    for i, b in enumerate(blocks):
        for (y, x) in b:
            g[y][x] = i
    return g


def flat(grid):
    return [v for row in grid for v in row]


# ---------------------------------------------------------------- generators for the big-board mode

LONG = [19, 20, 21, 22, 23, 24, 25]


def random_rooms(rng, h, w, k):
    """a random partition of the board into k orthogonally connected rooms (grown from k seeds), each a list of
    [y, x] in row-major order, rooms ordered by their least cell"""
    cells = [(y, x) for y in range(h) for x in range(w)]
    seeds = rng.sample(cells, k)
    owner = {c: i for i, c in enumerate(seeds)}
    while len(owner) < len(cells):
        cand = [c for c in cells if c not in owner and any((c[0] + d[0], c[1] + d[1]) in owner for d in ((1, 0), (-1, 0), (0, 1), (0, -1)))]
        c = rng.choice(cand)
        nb = [owner[(c[0] + d[0], c[1] + d[1])] for d in ((1, 0), (-1, 0), (0, 1), (0, -1)) if (c[0] + d[0], c[1] + d[1]) in owner]
        owner[c] = rng.choice(nb)
    blocks = [[] for _ in range(k)]
    for c in cells:
        blocks[owner[c]].append(list(c))
    blocks.sort(key=lambda b: b[0])
    return blocks


def lattice_answer(h, w, segs):
    """flattened BoolGridFrame answer of the lattice h x w with the segments `segs` = set of ((y, x), (y2, x2)) drawn"""
    segs = {tuple(sorted(e)) for e in segs}
    out = []
    for y in range(h):
        for x in range(w - 1):
            out.append(1 if ((y, x), (y, x + 1)) in segs else 0)
    for y in range(h - 1):
        for x in range(w):
            out.append(1 if ((y, x), (y + 1, x)) in segs else 0)
    return out


def transpose_grid(g):
    return [list(r) for r in zip(*g)] if g else g
