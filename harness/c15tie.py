"""tie of Codec/Comb.v with cspuz.problem_serializer (placeholder until the model is wired)"""
def run(ctx, m):
    pass
def parse_term(toks, i=0):
    raise NotImplementedError
